"""C09 - TCR Levenshtein metrics are the stated weighted sum over chains and CDR loops.

Every case is a JSON-able description (class, constructor arguments, two tables or a non-table object) so that a
replay file re-runs exactly that input.  For each case the implementation's return value is compared with
  * the executable SPECIFICATION extracted from Coq (api_c09_spec_*: the stated double sum; uses no generated fact;
    proved equal to the Prop-level spec in C09_spec_oracle)          -> a difference is a `property` violation,
  * the extracted MODEL (api_c09_cdist / api_c09_pdist: follows the code, uses the facts regenerated from today's
    source text)                                                     -> a difference alone is a `correspondence` break,
and the caller's frames are compared before / after.  CDR1/CDR2 loops on the oracle side are looked up by the harness
with tidytcells (the lookup is the contract); what is checked is that the code uses THAT ROW's allele, the right
loop and the right weights.

A case may carry `alive`: other metric objects constructed before / after the metric under test and kept alive, and a
list of calls (of those objects, and of the metric under test itself on other argument combinations) made BEFORE the
judged call.  The statement is about every metric object for every pair of tables, so the value may depend neither on
which other metric objects exist nor on what was evaluated earlier.  Tables may carry extra columns whose names are
those of the loop columns the implementation adds to its private copy (CDR1A .. CDR2B, CDR1X, CDR2X) with arbitrary
content: CDR1 / CDR2 are those of the row's V allele whatever such columns hold.

A table may be LARGE (round 3): `data` then holds a few distinct rows and `take` the order in which they are repeated
(13 .. 1300 rows in the quick tier, .. 2600 in the thorough tier).  The oracle is asked for the distance table D of the
distinct rows only (specification and model, cdist); the expected matrix is D[take_A[i]][take_B[j]] and the expected
condensed vector holds D[take[i]][take[j]] at position cidx n i j (row-major, i < j) - theorems C09_row_local (the
entry depends on the two rows' contents only) and C09_pdist_condensed (position cidx of the vector holds entry (i, j)).

Coverage audit (NOTES.md of the audit, design_notes/C09.md last section): a case may also carry `callkw` (the public methods called with
anchors= / comparisons= / instances=), `alias` ('same': ONE table object as anchors and as comparisons; 'copy': two equal objects), constructor
arguments handed over positionally beyond the third, and a table description may carry `index_as` (MultiIndex, float / datetime / tuple labels,
a named index, a RangeIndex with a step), `frame_as` (DataFrame subclass, a part of a larger frame, a named column axis) and further dtypes
(str, categorical CDR3, categorical with unused categories).  Further earlier calls: 'clobber', 'variantV', 'variantC', 'temp'.  Further
families in run(): table sizes 0 / 1 / 2 as a product, chain / loop weights up to the end of the exact-storage domain of each scorer path
(uint32 below 2^32, float32 below 2^24), CDR3 loops of 64 / 128 / 256 residues, large tables of pairwise distinct rows, CDR3 strings that
differ in case / white space / look-alike letters only, tables holding just the columns a class reads, further non-table objects."""
import copy, itertools, os
import numpy as np
import pandas as pd
import gens
from core import call_impl

TCR_COLS = ['TRAV', 'CDR3A', 'TRAJ', 'TRBV', 'CDR3B', 'TRBJ']
# intended meaning of the six public classes: (chain scope code, cdr scope code, constructor weight keywords)
#   chain scope: 0 paired, 1 alpha, 2 beta;  cdr scope: 0 all CDRs, 1 CDR3 only
CDRW = ('cdr1_weight', 'cdr2_weight', 'cdr3_weight')
CLASSES = {
    'AlphaCdr3Levenshtein': (1, 1, ()),
    'BetaCdr3Levenshtein': (2, 1, ()),
    'Cdr3Levenshtein': (0, 1, ('alpha_weight', 'beta_weight')),
    'AlphaCdrLevenshtein': (1, 0, CDRW),
    'BetaCdrLevenshtein': (2, 0, CDRW),
    'CdrLevenshtein': (0, 0, ('alpha_weight', 'beta_weight') + CDRW),
}
W5 = ('alpha_weight', 'beta_weight') + CDRW
EDIT_MODES = ['weighted', 'uniform', 'mixed']          # constructors with explicit insertion / deletion / substitution weights
ALL_MODES = ['weighted', 'weighted', 'uniform', 'mixed', 'unit', 'default']
SMALL_PRIMES = [2, 3, 5, 7]                 # insertion / deletion / substitution (the model's DP runs on unary nat)
PRIMES = [11, 13, 17, 19, 23, 29, 31]       # chain and loop weights
INDEX_KINDS = ['default', 'shifted', 'permuted', 'duplicated', 'string']
# names the implementation uses for the loop columns of its private expanded copy (and of the lookup's temporary frame)
LOOP_COLS = ['CDR1A', 'CDR2A', 'CDR1B', 'CDR2B']
INTERNAL_COLS = LOOP_COLS + ['CDR1X', 'CDR2X']
STEP_HOWS = ['same', 'swap', 'selfA', 'selfB', 'pdistA', 'pdistB']
# audit: further kinds of earlier calls - 'clobber' = the array an earlier identical call returned is overwritten by the caller;
# 'variantV' / 'variantC' = ANOTHER table object with the same labels and the same V columns (CDR3 columns) but the other columns rotated
# among the rows was evaluated earlier; 'temp' = a temporary table was evaluated and freed, the judged table object is made afterwards
STEP_HOWS_MORE = ['clobber', 'variantV', 'variantC', 'temp']
# audit: kinds of index objects built on top of the label list, kinds of frame objects, dtypes
INDEX_AS = ['multi', 'float', 'datetime', 'tuple', 'named:TRAV', 'named:CDR1A', 'named:id', 'rangestep']
FRAME_AS = ['subclass', 'slice', 'mask', 'colname']
# positional order of the constructor parameters (the documented signatures; CdrLevenshtein inherits the base signature, whose order
# differs from the order of its docstring: positional arguments beyond the third are not generated for it)
EDITW = ('insertion_weight', 'deletion_weight', 'substitution_weight')
_GENES = {}


# ------------------------------------------------------------------ gene reference (tidytcells = the contract)
def loops_of(allele):
    if allele not in _GENES:
        import tidytcells as tt
        d = tt.tr.get_aa_sequence(allele)
        _GENES[allele] = (d.get('CDR1-IMGT', ''), d.get('CDR2-IMGT', ''))
    return _GENES[allele]


def allele_pools():
    import tidytcells as tt
    av, bv = [], []
    for g in sorted(tt.tr.query(precision='allele')):
        if g.startswith('TRAV') or g.startswith('TRBV'):
            try:
                loops_of(g)
            except Exception:
                continue            # no sequence data: not "known to the gene reference"
            (av if g.startswith('TRAV') else bv).append(g)
    return av, bv


# ------------------------------------------------------------------ case <-> objects
def make_frame(fj):
    """fj: dict(columns, index, data{col: list}, dtypes{col: name}) -> DataFrame"""
    idx = fj['index']
    df = pd.DataFrame({c: pd.Series(list(fj['data'][c]), dtype=object) for c in fj['columns']}, columns=list(fj['columns']))
    if 'take' in fj:
        df = df.iloc[list(fj['take'])].reset_index(drop=True)
    if idx != 'default':
        df.index = pd.Index(list(idx))
    for c, dt in fj.get('dtypes', {}).items():
        cells = list(df[c])
        if dt in ('category+', 'category!'):
            # categorical with unused categories, categories not in order of appearance.  The unused categories of a V column are alleles of the
            # gene reference ('category!', PENDING - see NOTES.md: an unused category that is no allele)
            vals = list(df[c])
            unused = ['not a gene'] if dt == 'category!' else ['TRAV9-2*01', 'TRBV28*01'] if c in ('TRAV', 'TRBV') else ['ZZ', 'unused']
            df[c] = pd.Categorical(vals, categories=sorted(set(vals), reverse=True) + [u for u in unused if u not in vals])
        else:
            df[c] = df[c].astype(dt)
        if list(df[c].astype(object)) != cells:
            df[c] = pd.Series(cells, index=df.index, dtype=object)      # the conversion did not keep the cells (pandas): the column stays as described
    if fj.get('index_as'):
        df.index = index_as(fj['index_as'], list(df.index))
    if fj.get('frame_as'):
        df = frame_as(fj['frame_as'], df)
    return df


def index_as(kind, labels):
    """another kind of index object carrying the label list (equal labels stay equal, distinct ones distinct)"""
    n = len(labels)
    ints = all(isinstance(x, (int, np.integer)) for x in labels)
    if kind == 'multi':
        return pd.MultiIndex.from_arrays([labels, [str(x)[-1:] for x in labels]], names=['sample', None])
    if kind == 'float' and ints:
        return pd.Index([float(x) + 0.5 for x in labels], dtype='float64')
    if kind == 'datetime' and ints:
        return pd.DatetimeIndex([pd.Timestamp('2020-03-01') + pd.Timedelta(days=int(x)) for x in labels])
    if kind == 'tuple':
        return pd.Index([(x, 'k') for x in labels], tupleize_cols=False)
    if kind == 'rangestep' and ints and labels == list(range(n)):
        return pd.RangeIndex(10 + 3 * n, 10, -3)
    name = kind.split(':', 1)[1] if kind.startswith('named:') else 'idx'
    return pd.Index(labels, name=name)


class TableSub(pd.DataFrame):
    """a DataFrame subclass (is a DataFrame, hence a TCR table when it has a TCR column)"""

    @property
    def _constructor(self):
        return TableSub


def frame_as(kind, df):
    if kind == 'subclass':
        return TableSub(df)
    if kind in ('slice', 'mask') and len(df) >= 1:
        # the table is a part of a larger frame (pandas hands out a frame that shares the parent's data)
        big = pd.concat([df.iloc[[-1]], df, df.iloc[[0]]])
        if kind == 'slice':
            return big.iloc[1:-1]
        return big[[False] + [True] * len(df) + [False]]
    if kind == 'colname':
        df.columns = df.columns.rename('field')
    return df


class Duck:
    """not a DataFrame, but it has .columns and column access"""

    def __init__(self, rows):
        self.data = {'TRAV': [r[0] for r in rows], 'CDR3A': [r[1] for r in rows], 'TRBV': [r[2] for r in rows], 'CDR3B': [r[3] for r in rows]}
        self.columns = list(self.data)
        self.TRAV, self.TRBV = self.data['TRAV'], self.data['TRBV']

    def __getitem__(self, k):
        return self.data[k]

    def __len__(self):
        return len(self.data['TRAV'])

    def copy(self):
        return copy.deepcopy(self)

    def __eq__(self, other):
        return isinstance(other, Duck) and self.data == other.data and self.columns == other.columns


def make_obj(oj):
    if 'nontable' not in oj:
        return make_frame(oj)
    k = oj['nontable']
    rows = oj.get('rows', [['TRAV1-1*01', 'CAVR', 'TRBV2*01', 'CASSF']])
    if k == 'none':
        return None
    if k == 'list':
        return [list(r) for r in rows]
    if k == 'ndarray':
        return np.array(rows, dtype=object)
    if k == 'str':
        return 'TRAV'
    if k == 'series':
        return pd.Series([r[1] for r in rows], name='CDR3A')
    if k == 'dict':
        return {'TRAV': [r[0] for r in rows], 'CDR3A': [r[1] for r in rows], 'TRBV': [r[2] for r in rows], 'CDR3B': [r[3] for r in rows]}
    if k == 'records':
        return [dict(TRAV=r[0], CDR3A=r[1], TRBV=r[2], CDR3B=r[3]) for r in rows]
    if k == 'duck':
        return Duck(rows)
    if k == 'tuple_of_frames':
        return (pd.DataFrame(rows, columns=['TRAV', 'CDR3A', 'TRBV', 'CDR3B']),)
    # audit: further objects that are not DataFrames
    cols4 = ['TRAV', 'CDR3A', 'TRBV', 'CDR3B']
    if k == 'list_of_frames':
        return [pd.DataFrame(rows, columns=cols4)]
    if k == 'set':
        return set(cols4)
    if k == 'generator':
        return (tuple(r) for r in rows)
    if k == 'int':
        return 3
    if k == 'recarray':
        return pd.DataFrame(rows, columns=cols4).to_records(index=False)
    if k == 'frameclass':
        return pd.DataFrame
    if k == 'transposed':       # the TCR column names are the ROW labels
        return pd.DataFrame(rows, columns=cols4).T
    if k == 'dict_of_series':
        return {c: pd.Series([r[i] for r in rows]) for i, c in enumerate(cols4)}
    if k == 'series_of_dicts':
        return pd.Series([dict(zip(cols4, r)) for r in rows])
    if k == 'columns_index':
        return pd.Index(cols4)
    if k == 'ndarray_str':
        return np.array(rows, dtype=str)
    if k == 'multicolumns':     # no column is NAMED like a TCR column: the names are pairs
        return pd.DataFrame(rows, columns=pd.MultiIndex.from_tuples([('x', 'a'), ('x', 'b'), ('y', 'a'), ('y', 'b')]))
    raise ValueError(k)


def nrows(fj):
    if 'take' in fj:
        return len(fj['take'])
    return len(fj['index']) if fj['index'] != 'default' else (len(next(iter(fj['data'].values()))) if fj['data'] else 0)


def wire_rows(fj):
    n = nrows(fj)
    idx = list(range(n)) if fj['index'] == 'default' else fj['index']
    take = fj.get('take', range(n))
    get = lambda c, i: fj['data'][c][take[i]] if c in fj['data'] else ''
    return [(str(idx[i]), get('TRAV', i), get('CDR3A', i), get('TRBV', i), get('CDR3B', i)) for i in range(n)]


def is_big(case):
    return any('take' in case[k] for k in ('A', 'B') if k in case)


def distinct_of(fj):
    """the table of the distinct rows of a large table (what the oracle is asked about)"""
    if 'take' not in fj:
        return fj
    return dict(columns=fj['columns'], index='default', data=fj['data'], dtypes={})


def materialize(fj):
    """a large-table description written out row by row"""
    if 'take' not in fj:
        return fj
    return dict(columns=fj['columns'], index=fj['index'], data={c: [v[t] for t in fj['take']] for c, v in fj['data'].items()}, dtypes=fj.get('dtypes', {}))


def variant_of(fj, how):
    """description of another table with the same columns, labels and dtypes: 'variantV' keeps the V columns and rotates the other columns
    by one row, 'variantC' keeps the CDR3 columns, 'temp' rotates whole rows"""
    keep = {'variantV': ('TRAV', 'TRBV'), 'variantC': ('CDR3A', 'CDR3B')}.get(how, ())
    rot = (lambda v: list(v[1:]) + list(v[:1])) if how != 'temp' else (lambda v: list(v[::-1]))
    return dict(fj, data={c: (list(v) if c in keep else rot(v)) for c, v in fj['data'].items()})


def take_of(fj):
    return np.asarray(fj['take'] if 'take' in fj else range(nrows(fj)), dtype=np.int64)


def expand(case, D):
    """expected result of a case with large tables from the distance table D of the distinct rows (anchors' x comparisons' distinct rows)"""
    D = np.asarray(D, dtype=np.int64)
    ta = take_of(case['A'])
    if case['kind'] == 'cdist':
        tb = take_of(case['B'])
        return D[np.ix_(ta, tb)]          # a large table has >= 1 distinct row, so D is k_A x k_B with k >= 1
    i, j = np.triu_indices(len(ta), 1)
    return D[ta[i], ta[j]]


def wire_obj(oj):
    """(is_frame, columns, rows) for the model"""
    if 'nontable' in oj:
        return False, [], []
    return True, list(oj['columns']), wire_rows(oj)


def genes_for(*ojs):
    al = set()
    for oj in ojs:
        if 'nontable' not in oj:
            for c in ('TRAV', 'TRBV'):
                al.update(oj['data'].get(c, ['']))      # absent V column: the wire row carries ''
    return [(a, loops_of(a) if a else ('', '')) for a in sorted(al)]


def snapshot(x):
    try:
        return copy.deepcopy(x)
    except Exception:
        return x                    # e.g. a generator: not a table, nothing of the caller's to compare


def same_object(a, b):
    """caller's object after the call equals the snapshot taken before"""
    if a is b:
        return True
    if isinstance(a, pd.DataFrame):
        return (isinstance(b, pd.DataFrame) and type(a) is type(b) and list(a.columns) == list(b.columns) and a.index.equals(b.index)
                and type(a.index) is type(b.index) and list(a.dtypes.astype(str)) == list(b.dtypes.astype(str)) and a.equals(b)
                and dict(a.attrs) == dict(b.attrs)
                # audit: names of the two axes, categories of categorical columns, flags
                and list(a.index.names) == list(b.index.names) and list(a.columns.names) == list(b.columns.names)
                and type(a.columns) is type(b.columns) and all(x == y for x, y in zip(a.dtypes, b.dtypes))
                and a.flags.allows_duplicate_labels == b.flags.allows_duplicate_labels)
    if isinstance(a, pd.Series):
        return isinstance(b, pd.Series) and a.equals(b)
    if isinstance(a, pd.Index):
        return isinstance(b, pd.Index) and a.equals(b)
    if isinstance(a, dict) and isinstance(b, dict):
        return list(a) == list(b) and all(same_object(a[k], b[k]) for k in a)
    if isinstance(a, list) and isinstance(b, list) and a and isinstance(a[0], pd.DataFrame):
        return len(a) == len(b) and all(same_object(x, y) for x, y in zip(a, b))
    if isinstance(a, np.ndarray):
        return isinstance(b, np.ndarray) and a.shape == b.shape and a.tolist() == b.tolist()
    if isinstance(a, tuple) and a and isinstance(a[0], pd.DataFrame):
        return isinstance(b, tuple) and len(a) == len(b) and all(same_object(x, y) for x, y in zip(a, b))
    return a == b


def construct(case):
    import pyrepseq.metric.tcr_metric as tm
    cls = getattr(tm, case['cls'])
    return cls(*case.get('pos', []), **case.get('kwargs', {}))


def cfg_of(case):
    """intended configuration: (cs, ls, (wi, wd, ws), (alpha, beta, cdr1, cdr2, cdr3)); defaults are 1"""
    cs, ls, _ = CLASSES[case['cls']]
    kw = dict(case.get('kwargs', {}))
    pos = list(case.get('pos', []))
    names = list(EDITW)
    for n, v in zip(names + list(CLASSES[case['cls']][2]), pos):      # positional arguments bind in the order of the documented signature
        kw[n] = v
    w3 = tuple(kw.get(n, 1) for n in names)
    w5 = tuple(kw.get(n, 1) for n in W5)
    return cs, ls, w3, w5


def mat_equal(val, exp, shape):
    try:
        arr = np.asarray(val)
    except Exception:
        return False
    if arr.shape != tuple(shape) or arr.dtype == object:
        return False
    if isinstance(exp, np.ndarray):         # large table: expected values expanded from the distinct rows' distance table
        return exp.shape == arr.shape and bool(np.array_equal(arr, exp))
    got = arr.tolist()
    if len(shape) == 1:
        return len(got) == len(exp) and all(x == e for x, e in zip(got, exp))
    return len(got) == len(exp) and all(len(r) == len(er) and all(x == e for x, e in zip(r, er)) for r, er in zip(got, exp))


def first_diff(val, exp):
    try:
        if isinstance(exp, np.ndarray):
            arr = np.asarray(val)
            if arr.shape != exp.shape:
                return None
            bad = np.argwhere(arr != exp)
            if not len(bad):
                return None
            pos = tuple(int(x) for x in bad[0])
            return (pos[0], pos[1] if len(pos) > 1 else None, arr[pos].item(), int(exp[pos]))
        got = np.asarray(val).tolist()
        for i, (r, er) in enumerate(zip(got, exp)):
            if isinstance(er, list):
                for j, (x, e) in enumerate(zip(r, er)):
                    if x != e:
                        return (i, j, x, e)
            elif r != er:
                return (i, None, r, er)
    except Exception:
        pass
    return None


# ------------------------------------------------------------------ one case
def requests_for(case):
    cs, ls, w3, w5 = cfg_of(case)
    if is_big(case):
        # large tables: the distance table of the distinct rows (anchors' x comparisons'; instances' x instances'), expanded by judge
        A = distinct_of(case['A'])
        B = distinct_of(case['B']) if case['kind'] == 'cdist' else A
        g = genes_for(A, B)
        fa, fb = wire_obj(A), wire_obj(B)
        return [('api_c09_cdist', [cs, ls, w3, w5, g, fa[0], fa[1], fa[2], fb[0], fb[1], fb[2]]),
                ('api_c09_spec_cdist', [cs, ls, w3, w5, g, fa[2], fb[2]])]
    if case['kind'] == 'cdist':
        A, B = case['A'], case['B']
        g = genes_for(A, B)
        fa, fb = wire_obj(A), wire_obj(B)
        reqs = [('api_c09_cdist', [cs, ls, w3, w5, g, fa[0], fa[1], fa[2], fb[0], fb[1], fb[2]])]
        if fa[0] and fb[0]:
            reqs.append(('api_c09_spec_cdist', [cs, ls, w3, w5, g, fa[2], fb[2]]))
        return reqs
    X = case['A']
    g = genes_for(X)
    fx = wire_obj(X)
    reqs = [('api_c09_pdist', [cs, ls, w3, w5, g, fx[0], fx[1], fx[2]])]
    if fx[0]:
        reqs.append(('api_c09_spec_pdist', [cs, ls, w3, w5, g, fx[2]]))
    return reqs


def is_table_req(oj):
    f = wire_obj(oj)
    return ('api_c09_is_table', [f[0], f[1]])


def judge(ctx, case, outs, tbl):
    """outs: oracle answers for requests_for(case); tbl: (model, spec) is-table verdicts of the objects.
    Returns the list of (kind, what) problems found on this case."""
    problems = []
    alive = case.get('alive') or {}
    keep = []                       # every metric object of this case stays alive until the case has been judged
    metric = None
    for c in list(alive.get('before', [])) + [case] + list(alive.get('after', [])):
        m = call_impl(construct, c)
        if m[0] != 'ok':
            return [('property', 'constructing %s(%s) raised %s' % (c['cls'], fmt_args(c), m[1]))]
        if c is case:
            metric = m[1]
        else:
            keep.append(m[1])
    objs = [make_obj(case['A'])] + ([make_obj(case['B'])] if case['kind'] == 'cdist' else [])
    if aliased(case):
        objs[1] = objs[0]           # audit: ONE table object handed over as anchors and as comparisons (its description is stored twice)
    before = [snapshot(o) for o in objs]
    # audit: the public methods called with keyword arguments (the documented parameter names)
    if case.get('callkw') == 'swapped':      # keywords in the other order
        cd = lambda m, x, y: call_impl(m.calc_cdist_matrix, comparisons=y, anchors=x)
        pd_ = lambda m, x: call_impl(m.calc_pdist_vector, instances=x)
    elif case.get('callkw'):
        cd = lambda m, x, y: call_impl(m.calc_cdist_matrix, anchors=x, comparisons=y)
        pd_ = lambda m, x: call_impl(m.calc_pdist_vector, instances=x)
    else:
        cd = lambda m, x, y: call_impl(m.calc_cdist_matrix, x, y)
        pd_ = lambda m, x: call_impl(m.calc_pdist_vector, x)
    same_call = lambda m: cd(m, objs[0], objs[-1]) if case['kind'] == 'cdist' else pd_(m, objs[0])
    # calls made before the judged one: [who, how]; who = -1 the metric under test, else a companion (before + after order)
    for who, how in alive.get('steps', []):
        m = metric if who < 0 else (keep[who] if who < len(keep) else None)
        if m is None:
            continue
        a, b = objs[0], objs[-1]
        if how == 'same':
            same_call(m)
        elif how == 'swap':
            cd(m, b, a)
        elif how == 'selfA':
            cd(m, a, a)
        elif how == 'selfB':
            cd(m, b, b)
        elif how == 'pdistA':
            pd_(m, a)
        elif how == 'pdistB':
            pd_(m, b)
        elif how == 'clobber':
            # the caller overwrites the array an earlier identical call returned: a later call returns the stated values all the same
            r = same_call(m)
            if r[0] == 'ok' and isinstance(r[1], np.ndarray):
                ctx.count('step_result_overwritten')
                try:
                    r[1][...] = 7
                except Exception:
                    pass
        elif how in ('variantV', 'variantC', 'temp') and 'nontable' not in case['A']:
            # ANOTHER table object (same columns, same labels; V columns / CDR3 columns / nothing shared with the judged one) evaluated earlier
            ctx.count('step_other_table_' + how)
            t = make_obj(variant_of(case['A'], how))
            cd(m, t, b) if case['kind'] == 'cdist' and b is not a else pd_(m, t)
            if how == 'temp':
                # ... and freed; the judged table object is made only now (it may take the freed object's place in memory)
                del t
                a_old = a
                objs[0] = a = make_obj(case['A'])
                if case['kind'] != 'cdist' or b is a_old:
                    objs[-1] = objs[0]
                before[0] = snapshot(objs[0])
                if len(before) > 1 and objs[-1] is objs[0]:
                    before[1] = snapshot(objs[0])
        elif how == 'edited':
            # the SAME table object held other content when it was evaluated earlier (rows in reverse order), and was edited in place
            # since: the judged call sees the content the object holds now
            if isinstance(a, pd.DataFrame) and len(a) >= 2 and a.columns.is_unique:
                saved = {c: a[c].copy() for c in a.columns}
                ctx.count('step_edited_in_place')
                for c in a.columns:
                    a[c] = pd.Series(saved[c].to_numpy(dtype=object)[::-1].copy(), index=a.index, dtype=saved[c].dtype)
                same_call(m)
                for c in a.columns:
                    a[c] = pd.Series(saved[c].to_numpy(dtype=object).copy(), index=a.index, dtype=saved[c].dtype)
                if not same_object(before[0], a):      # the restore did not give back the very same table: take a fresh one, step void
                    ctx.count('step_edited_void')
                    objs[0] = make_obj(case['A'])
                    if case['kind'] != 'cdist' or objs[-1] is a:
                        objs[-1] = objs[0]
                    before[0] = snapshot(objs[0])
    res = same_call(metric)
    call = '%s(%s).%s' % (case['cls'], fmt_args(case), 'calc_cdist_matrix' if case['kind'] == 'cdist' else 'calc_pdist_vector')
    if case.get('callkw'):
        call += ('(comparisons=.., anchors=..)' if case['callkw'] == 'swapped' else '(anchors=.., comparisons=..)') if case['kind'] == 'cdist' else '(instances=..)'
    if len(objs) > 1 and objs[1] is objs[0]:
        call += ' [one table object passed as anchors and as comparisons]'
    call += describe_alive(case)
    for k, (o, b) in enumerate(zip(objs, before)):
        if not same_object(b, o):
            problems.append(('property', '%s modified the caller\'s %s: columns %s -> %s' %
                             (call, ['anchors / instances', 'comparisons'][k],
                              list(getattr(b, 'columns', [])), list(getattr(o, 'columns', [])))))
    spec_table = all(t[1] for t in tbl)
    model_table = all(t[0] for t in tbl)
    tag, mval = outs[0]
    if not spec_table:
        # not a TCR table -> ValueError
        if res != ('exc', 'ValueError'):
            problems.append(('property', '%s on an input that is not a TCR table (%s) gave %s, expected ValueError' %
                             (call, describe_objs(case), short(res))))
        if model_table or tag != 1:
            problems.append(('correspondence', 'model (today\'s tcr_columns) accepts an input that is not a TCR table'))
        return problems
    if len(outs) < 2:
        return problems
    spec = outs[1]
    if tag == 3:
        problems.append(('correspondence', 'harness error: allele missing from the table passed to the model'))
        return problems
    complete = all(set(['TRAV', 'CDR3A', 'TRBV', 'CDR3B']) <= set(oj['columns']) for oj in [case['A']] + ([case['B']] if case['kind'] == 'cdist' else []))
    if tag == 2 and not complete:
        return problems        # a table lacking a column the metric reads: outside the statement, not judged
    n = nrows(case['A'])
    shape = (n, nrows(case['B'])) if case['kind'] == 'cdist' else (n * (n - 1) // 2,)
    if is_big(case):
        spec = expand(case, spec)
        if tag == 0:
            mval = expand(case, mval)
    if res[0] != 'ok':
        kind = 'property' if complete else 'correspondence'
        problems.append((kind, '%s raised %s on TCR tables (%s)' % (call, res[1], describe_objs(case))))
        return problems
    if not mat_equal(res[1], spec, shape):
        d = first_diff(res[1], spec)
        where = ''
        if d and d[1] is not None:
            where = ' at [%s, %s]: %s vs %s' % d
        elif d:
            where = ' at [%s]%s: %s vs %s' % (d[0], pair_of(n, d[0]) if case['kind'] == 'pdist' else '', d[2], d[3])
        problems.append(('property', '%s differs from the stated weighted sum%s; shape %s expected %s; got %s expected %s (%s)' %
                         (call, where, getattr(np.asarray(res[1]), 'shape', None), shape, short_arr(res[1], d), short_arr(spec, d), describe_objs(case))))
    if tag != 0 or not mat_equal(res[1], mval, shape):
        problems.append(('correspondence', '%s: the model built from today\'s source facts gives %s, the implementation %s' %
                         (call, short((tag, short_arr(mval))), short_arr(res[1]))))
    return problems


def fmt_args(case):
    return ', '.join([str(v) for v in case.get('pos', [])] + ['%s=%s' % kv for kv in case.get('kwargs', {}).items()])


def describe_alive(case):
    alive = case.get('alive') or {}
    out = []
    comp = list(alive.get('before', [])) + list(alive.get('after', []))
    if alive.get('before'):
        out.append('constructed earlier and still alive: ' + ', '.join('%s(%s)' % (c['cls'], fmt_args(c)) for c in alive['before']))
    if alive.get('after'):
        out.append('constructed after it, before the call: ' + ', '.join('%s(%s)' % (c['cls'], fmt_args(c)) for c in alive['after']))
    if alive.get('steps'):
        names = lambda w: 'this metric' if w < 0 else ('%s(%s)' % (comp[w]['cls'], fmt_args(comp[w])) if w < len(comp) else '?')
        out.append('evaluated before this call: ' + ', '.join('%s:%s' % (names(w), h) for w, h in alive['steps']))
    return (' [' + '; '.join(out) + ']') if out else ''


def short(x, n=300):
    s = str(x)
    return s if len(s) <= n else s[:n] + '...'


def short_arr(x, d=None):
    """a result / expected array for a message; a big one is shown around the first differing position"""
    try:
        arr = np.asarray(x)
        if arr.size <= 400 or arr.dtype == object:
            return short(arr.tolist())
        if arr.ndim == 1:
            k = max(0, (d[0] if d else 0) - 3)
            return '[.. %d entries; from position %d: %s ..]' % (arr.size, k, arr[k:k + 12].tolist())
        i, j = (d[0], max(0, (d[1] or 0) - 3)) if d else (0, 0)
        return '[.. %s entries; row %d from column %d: %s ..]' % (list(arr.shape), i, j, arr[i, j:j + 12].tolist())
    except Exception:
        return short(x)


def pair_of(n, k):
    """condensed position k of an n-row table = the pair (i, j), i < j, row-major"""
    i = 0
    while i < n - 1 and k >= n - 1 - i:
        k -= n - 1 - i
        i += 1
    return ' = pair (row %d, row %d) of %d rows' % (i, i + 1 + k, n)


def describe_objs(case):
    out = []
    for k in ('A', 'B'):
        if k in case:
            oj = case[k]
            if 'nontable' in oj:
                out.append('%s=<%s>' % (k, oj['nontable']))
            else:
                own = {c: oj['data'][c] for c in oj['columns'] if c in INTERNAL_COLS}
                if 'take' in oj:
                    out.append('%s=frame(columns=%s, index=%s, %d rows = the %d distinct rows %s repeated in the order %s%s)' %
                               (k, oj['columns'], short(oj['index'], 60), nrows(oj), len(set(oj['take'])), short([r[1:] for r in wire_rows(distinct_of(oj))], 500),
                                short(list(oj['take']), 80), (', caller\'s own loop-named columns %s' % short(own, 300)) if own else '') + describe_options(oj))
                    continue
                out.append('%s=frame(columns=%s, index=%s, rows=%s%s)%s' % (k, oj['columns'], short(oj['index'], 60), short([r[1:] for r in wire_rows(oj)], 400),
                                                                          (', caller\'s own loop-named columns %s' % short(own, 300)) if own else '', describe_options(oj)))
    return '; '.join(out)


def describe_options(oj):
    opt = ['%s=%s' % (k, oj[k]) for k in ('index_as', 'frame_as') if oj.get(k)] + (['dtypes=%s' % oj['dtypes']] if oj.get('dtypes') else [])
    return (' {' + ', '.join(opt) + '}') if opt else ''


def sub_frame(fj, rows):
    n = nrows(fj)
    idx = list(range(n)) if fj['index'] == 'default' else fj['index']
    if 'take' in fj:
        sub = dict(fj, index=[idx[i] for i in rows], take=[fj['take'][i] for i in rows])
        return sub if len(rows) > 12 else dict(materialize(sub), **frame_options(fj))
    return dict(columns=fj['columns'], index=[idx[i] for i in rows], data={c: [v[i] for i in rows] for c, v in fj['data'].items()},
                dtypes=fj.get('dtypes', {}), **frame_options(fj))


def frame_options(fj):
    """kind of index object / frame object of a table description (kept when rows are taken out of it)"""
    return {k: fj[k] for k in ('index_as', 'frame_as') if fj.get(k) and not (k == 'index_as' and fj[k] == 'rangestep')}


def run_cases(ctx, cases, report=True):
    """Evaluate a batch; returns list of (case, problems)."""
    reqs, spans, treqs, tspans = [], [], [], []
    for c in cases:
        r = requests_for(c)
        spans.append((len(reqs), len(reqs) + len(r)))
        reqs += r
        objs = [c['A']] + ([c['B']] if c['kind'] == 'cdist' else [])
        tspans.append((len(treqs), len(treqs) + len(objs)))
        treqs += [is_table_req(o) for o in objs]
    outs = ctx.oracle.run_parallel(reqs, nproc=12)
    touts = ctx.oracle.run_parallel(treqs, nproc=4)
    results = []
    for c, (a, b), (ta, tb) in zip(cases, spans, tspans):
        o = outs[a:b]
        if any(isinstance(x, Exception) for x in o):
            results.append((c, [('correspondence', 'oracle error: %s' % [str(x) for x in o if isinstance(x, Exception)][:1])], o))
            continue
        results.append((c, judge(ctx, c, o, touts[ta:tb]), o))
    return results


def shrink(ctx, case, kind):
    """cheap: try every single (anchor row, comparison row) pair / row pair, keep the first that still fails the same way"""
    if any('nontable' in case[k] for k in ('A', 'B') if k in case):
        return case
    if case.get('alive'):
        # does it fail without any other metric object / earlier call?  else: with one companion and no earlier call? with the companions only?
        al = case['alive']
        variants = [{k: v for k, v in case.items() if k != 'alive'}]
        variants += [dict(case, alive=dict(before=[c], after=[], steps=[])) for c in al.get('before', [])]
        variants += [dict(case, alive=dict(before=[], after=[c], steps=[])) for c in al.get('after', [])]
        variants += [dict(case, alive=dict(before=[], after=[], steps=[[-1, h]])) for w, h in al.get('steps', []) if w < 0]
        variants += [dict(case, alive=dict(before=al.get('before', []), after=al.get('after', []), steps=[]))]
        for c, probs, _ in run_cases(ctx, variants):
            if any(k == kind for k, _ in probs):
                case = c
                break
    if is_big(case):
        case = shrink_size(ctx, case, kind)
        if is_big(case):
            return case             # needs a table of that size: no row pair fails on its own
    na = nrows(case['A'])
    cands = []
    if aliased(case):
        # one table object in both positions: keep it so (one row, or two rows, of it)
        for i in range(na):
            for j in range(i, na):
                sub = sub_frame(case['A'], [i] if i == j else [i, j])
                cands.append(dict(case, A=sub, B=sub))
    if case['kind'] == 'cdist':
        nb = nrows(case['B'])
        for i in range(na):
            for j in range(nb):
                cands.append(dict(case, A=sub_frame(case['A'], [i]), B=sub_frame(case['B'], [j])))
    else:
        for i in range(na):
            for j in range(i + 1, na):
                cands.append(dict(case, A=sub_frame(case['A'], [i, j])))
    cands = cands[:150]
    if not cands:
        return case
    for c, probs, _ in run_cases(ctx, cands):
        if any(k == kind for k, _ in probs):
            return c
    return case


def shrink_size(ctx, case, kind):
    """large tables: per table the shortest leading part that still fails the same way (bisection; <= 12 evaluations per table)"""
    fails = lambda c: any(k == kind for k, _ in run_cases(ctx, [c])[0][1])
    both = aliased(case)                        # one table object in both positions: both descriptions are cut alike
    cut = lambda key, n: dict(case, **{k: sub_frame(case[key], range(n)) for k in (('A', 'B') if both else (key,))})
    for key in [k for k in (('A',) if both else ('A', 'B')) if k in case and 'take' in case[k]]:
        lo, hi = 0, nrows(case[key])            # the leading hi rows fail; the leading lo rows are not known to
        for c in (2, 12):
            if c < hi and fails(cut(key, c)):
                hi = c
                break
            lo = c
        while hi - lo > 1 and hi > 12:
            mid = (lo + hi) // 2
            if fails(cut(key, mid)):
                hi = mid
            else:
                lo = mid
        if hi < nrows(case[key]):
            case = cut(key, hi)
    return case


def aliased(case):
    return case.get('alias') == 'same' and case['kind'] == 'cdist' and case['A'] == case['B']


def report(ctx, case, problems):
    kinds = [k for k, _ in problems]
    kind = 'property' if 'property' in kinds else kinds[0]
    small = shrink(ctx, case, kind)
    if small is not case:
        again = run_cases(ctx, [small])[0][1]
        if any(k == kind for k, _ in again):
            case, problems = small, again
    what = '; '.join(w for k, w in problems if k == kind)
    site = 'tcr_levenshtein.%s' % ('calc_cdist_matrix' if case['kind'] == 'cdist' else 'calc_pdist_vector')
    ctx.violation(kind, what, dict(case=case), site=site)


# ------------------------------------------------------------------ generators
def gen_cdr3(rng, pool):
    r = rng.random()
    if r < 0.08:
        return ''
    if r < 0.16:
        return ''.join(rng.choice(['a', 'B', '1', '2', '3', 'A', ' ', 'é', '中', '\U0001F600', 'x', '*', '_']) for _ in range(rng.randint(1, 8)))
    if r < 0.75 and pool:
        return gens.mutate(rng, rng.choice(pool), gens.AA, rng.randint(0, 4))
    return 'C' + ''.join(rng.choice(gens.AA) for _ in range(rng.randint(5, 20))) + rng.choice('FW')


def gen_index(rng, kind, n):
    if kind == 'default':
        return 'default'
    if kind == 'shifted':
        s = rng.choice([1, 5, 100, -3])
        return list(range(s, s + n))
    if kind == 'permuted':
        p = list(range(n))
        rng.shuffle(p)
        return p
    if kind == 'duplicated':
        return [rng.choice([0, 1, 7]) for _ in range(n)] if rng.random() < 0.7 else [3] * n
    labels = ['r%d' % i for i in range(n)]
    rng.shuffle(labels)
    if rng.random() < 0.3 and n >= 2:
        labels[1] = labels[0]
    return labels


def gen_frame(rng, av, bv, special, n, kind, pool, plain=False):
    data = {
        'TRAV': [rng.choice(special[0]) if rng.random() < 0.15 else rng.choice(av) for _ in range(n)],
        'CDR3A': [gen_cdr3(rng, pool[0]) for _ in range(n)],
        'TRAJ': [rng.choice(['TRAJ12*01', 'TRAJ33*01', None]) for _ in range(n)],
        'TRBV': [rng.choice(special[1]) if rng.random() < 0.1 else rng.choice(bv) for _ in range(n)],
        'CDR3B': [gen_cdr3(rng, pool[1]) for _ in range(n)],
        'TRBJ': [rng.choice(['TRBJ2-7*01', 'TRBJ1-1*01', None]) for _ in range(n)],
    }
    cols = list(TCR_COLS)
    dtypes = {}
    if not plain:
        if rng.random() < 0.25:
            data['clone_count'] = [rng.randint(1, 50) for _ in range(n)]
            data['Epitope'] = [rng.choice(['GILGFVFTL', 'NLVPMVATV']) for _ in range(n)]
            cols += ['clone_count', 'Epitope']
        if rng.random() < 0.3:
            # the caller's own columns named like the implementation's loop columns: the loops are those of the row's V allele
            add_loop_named_columns(rng, data, cols, n, av, bv)
        if rng.random() < 0.3:
            rng.shuffle(cols)
        if rng.random() < 0.12 and n > 0:
            dtypes = {'TRAV': 'category', 'TRBV': 'category'}
        elif rng.random() < 0.1 and n > 0:
            dtypes = {'CDR3A': 'string', 'CDR3B': 'string'}
        elif rng.random() < 0.35 and n > 0:
            dtypes = gen_dtypes(rng)                # audit: further column dtypes
    fj = dict(columns=cols, index=gen_index(rng, kind, n), data={c: data[c] for c in cols}, dtypes=dtypes)
    if not plain:
        if rng.random() < 0.15:
            fj['index_as'] = rng.choice(INDEX_AS)   # audit: further kinds of index objects
        if rng.random() < 0.12:
            fj['frame_as'] = rng.choice(FRAME_AS)   # audit: DataFrame subclass, part of a larger frame, named column axis
    return fj


S4 = ('TRAV', 'CDR3A', 'TRBV', 'CDR3B')
DTYPE_SETS = [('str everywhere (the default of pandas 3)', {c: 'str' for c in S4}),
              ('CDR3 categorical', {'CDR3A': 'category', 'CDR3B': 'category'}),
              ('string V and CDR3', {c: 'string' for c in S4}),
              ('categorical with unused categories', {c: 'category+' for c in S4}),
              ('mixed', {'TRAV': 'str', 'CDR3A': 'category', 'TRBV': 'category+', 'CDR3B': 'string'})]


def gen_dtypes(rng):
    return dict(rng.choice(DTYPE_SETS)[1])


def dtype_kind(dtypes):
    for name, d in DTYPE_SETS:
        if d == dtypes:
            return name
    return 'V categorical' if dtypes == {'TRAV': 'category', 'TRBV': 'category'} else 'CDR3 string' if dtypes else 'object'


def gen_big_frame(rng, av, bv, special, n, kind, pool, plain=False):
    """a table of n rows made of 4-8 distinct rows in random order (each at least once)"""
    k = min(n, rng.randint(4, 8))
    fj = gen_frame(rng, av, bv, special, k, 'default', pool, plain=plain)
    take = list(range(k)) + [rng.randrange(k) for _ in range(n - k)]
    rng.shuffle(take)
    return dict(fj, index=gen_index(rng, kind, n), take=take)


SIZE_BANDS = [(13, 100), (101, 400), (401, 1000), (1001, 1300), (1301, 2600)]
ROUND_SIZES = [16, 32, 50, 64, 100, 128, 200, 250, 256, 500, 512, 1000, 1024, 2000, 2048]


def gen_size(rng, band):
    """a row count of the band; half of the time next to a round number of the band (block / chunk sizes of an implementation are round numbers)"""
    lo, hi = SIZE_BANDS[band]
    near = [r + d for r in ROUND_SIZES for d in (-1, 0, 1, 2, 3) if lo <= r + d <= hi]
    return rng.choice(near) if near and rng.random() < 0.5 else rng.randint(lo, hi)


def ncolumns(cls):
    cs, ls, _ = CLASSES[cls]
    return (2 if cs == 0 else 1) * (3 if ls == 0 else 1)


def gen_sized_case(rng, av, bv, special, kind, na, nb, budget):
    """one case on large table(s).  `budget` bounds the number of per-pair Python-level scorer calls (entries x loop columns) a case with
    explicit edit weights may need (cost control only): such a case takes a class that fits, else the case keeps the unit / default scorer."""
    pool = (['C' + ''.join(rng.choice(gens.AA) for _ in range(rng.randint(6, 16))) + 'F' for _ in range(3)],
            ['CASS' + ''.join(rng.choice(gens.AA) for _ in range(rng.randint(4, 14))) + 'F' for _ in range(3)])
    entries = na * nb if kind == 'cdist' else na * na       # pdist evaluates the square
    mode = rng.choice(ALL_MODES)
    classes = list(CLASSES)
    if mode in EDIT_MODES:
        classes = [c for c in CLASSES if entries * ncolumns(c) <= budget]
        if not classes:
            mode, classes = rng.choice(['unit', 'default']), list(CLASSES)
    cls = rng.choice(classes)
    mk = lambda n: (gen_big_frame if n > 12 else gen_frame)(rng, av, bv, special, n, rng.choice(INDEX_KINDS), pool, plain=rng.random() < 0.6)
    case = dict(kind=kind, cls=cls, A=mk(na), **gen_weights(rng, cls, mode))
    if kind == 'cdist':
        case['B'] = mk(nb)
    return case


def junk_column(rng, name, data, n, av, bv):
    """content of a caller's column that merely has the NAME of an internal loop column"""
    r = rng.random()
    if r < 0.15:
        return [rng.choice(['ZZZZ', 'QQ', ''])] * n
    if r < 0.35:
        return [''.join(rng.choice(gens.AA + '.') for _ in range(rng.randint(0, 12))) for _ in range(n)]
    if r < 0.6:
        # loops of some other allele (an annotation made before the V call was corrected), possibly IMGT-gapped
        out = []
        for _ in range(n):
            l = loops_of(rng.choice(av if rng.random() < 0.5 else bv))[rng.randint(0, 1)]
            out.append(l[:len(l) // 2] + '....' + l[len(l) // 2:] if rng.random() < 0.4 else l)
        return out
    if r < 0.8:
        # the row's own loops under the wrong name: other chain and / or other loop
        V = data['TRBV'] if (name.endswith('A') or rng.random() < 0.3) else data['TRAV']
        k = 1 if '1' in name else 0
        return [loops_of(v)[k] for v in V]
    if r < 0.9:
        return [None] * n
    return [rng.randint(0, 9) for _ in range(n)]


def add_loop_named_columns(rng, data, cols, n, av, bv, names=None):
    if names is None:
        names = list(LOOP_COLS) if rng.random() < 0.5 else rng.sample(INTERNAL_COLS, rng.randint(1, len(INTERNAL_COLS)))
        rng.shuffle(names)
    for c in names:
        data[c] = junk_column(rng, c, data, n, av, bv)
    if rng.random() < 0.3:
        cols[:0] = names            # in front of the TCR columns
    else:
        cols += names


def gen_ctor(rng, case):
    """another metric object to keep alive next to the one under test: same class with other weights, or another class"""
    cls = case['cls'] if rng.random() < 0.5 else rng.choice(list(CLASSES))
    return dict(cls=cls, **gen_weights(rng, cls, rng.choice(ALL_MODES)))


def add_alive(rng, case, p=0.7):
    """several metric objects constructed up front, evaluated in an interleaved order, the one under test judged last"""
    if rng.random() >= p:
        return case
    before = [gen_ctor(rng, case) for _ in range(rng.choice([0, 0, 1, 2]))]
    after = [gen_ctor(rng, case) for _ in range(rng.choice([0, 1, 1, 2]))]
    steps = []
    for _ in range(rng.choice([0, 0, 1, 2, 3])):
        who = rng.randint(-1, len(before) + len(after) - 1)
        hows = STEP_HOWS if case['kind'] == 'cdist' else ['same', 'selfA', 'pdistA']
        steps.append([who, rng.choice(hows)])
    if rng.random() < 0.35 and 'nontable' not in case['A']:
        # audit: the caller overwrote an earlier result / other table objects were evaluated earlier (mostly by the metric under test)
        who = -1 if rng.random() < 0.7 else rng.randint(-1, len(before) + len(after) - 1)
        steps.insert(rng.randint(0, len(steps)), [who, rng.choice(STEP_HOWS_MORE)])
    if rng.random() < 0.3:
        steps.append([-1, 'edited'])          # last step before the judged call, on the metric under test
    case['alive'] = dict(before=before, after=after, steps=steps)
    return case


def gen_weights(rng, cls, mode):
    """constructor arguments; mode 'unit' keeps insertion=deletion=substitution=1 (the C scorer path), 'weighted' = three distinct primes,
    'uniform' = one common edit weight > 1 (w, w, w), 'mixed' = each of the three drawn independently from {1, 2, 3, 5, 7}, not all 1
    (so one or two of them may be 1, and two or all three may coincide)"""
    ws = rng.sample(SMALL_PRIMES, 3) + rng.sample(PRIMES, 5)
    if mode == 'uniform':
        ws[:3] = [rng.choice(SMALL_PRIMES)] * 3
    elif mode == 'mixed':
        while True:
            ws[:3] = [rng.choice([1] + SMALL_PRIMES) for _ in range(3)]
            if ws[:3] != [1, 1, 1]:
                break
    kwargs, pos = {}, []
    if mode == 'default':
        return dict(pos=[], kwargs={})
    if mode != 'unit':
        if rng.random() < 0.4:
            pos = ws[:3]
        else:
            kwargs.update(insertion_weight=ws[0], deletion_weight=ws[1], substitution_weight=ws[2])
    elif rng.random() < 0.25:
        pos = [1, 1, 1][:rng.randint(1, 3)]         # audit: the native scorer path with the 1s written out (positionally)
    names = list(CLASSES[cls][2])
    npos = 0
    if len(pos) == 3 and names and cls != 'CdrLevenshtein' and rng.random() < 0.5:
        # audit: chain / loop weights handed over positionally too (a leading part of them, or all)
        npos = rng.randint(1, len(names))
        pos = pos + ws[3:3 + npos]
    for name, w in list(zip(names, ws[3:]))[npos:]:
        if rng.random() < 0.9:
            kwargs[name] = w
    if kwargs and rng.random() < 0.3:               # keyword order is free
        items = list(kwargs.items())
        rng.shuffle(items)
        kwargs = dict(items)
    return dict(pos=pos, kwargs=kwargs)


MORE_NONTABLES = ('list_of_frames', 'set', 'generator', 'int', 'recarray', 'frameclass', 'transposed', 'dict_of_series', 'series_of_dicts',
                  'columns_index', 'ndarray_str', 'multicolumns')


def nontable_objects(rng):
    objs = [dict(nontable=k) for k in ('none', 'list', 'ndarray', 'str', 'series', 'dict', 'records', 'duck', 'tuple_of_frames')]
    objs += [dict(nontable=k) for k in MORE_NONTABLES]
    # frames without any TCR column (near misses included)
    for cols in ([], ['x'], ['trav', 'cdr3a'], ['CDR3', 'V', 'J'], ['TRAV ', 'CDR3A_'], ['v_call', 'junction_aa'], ['CDR1A', 'CDR2A', 'TRAC'], [0, 1]):
        n = rng.randint(0, 3)
        objs.append(dict(columns=[str(c) for c in cols], index='default', data={str(c): ['CASSF'] * n for c in cols}, dtypes={}))
    return objs


# ------------------------------------------------------------------ audit: further case families
def in_scope(cls):
    """(chains, loops) in the scope of a class: chains 'A' / 'B', loops 1 / 2 / 3"""
    cs, ls, _ = CLASSES[cls]
    return [ch for ch in 'AB' if cs == 0 or (cs == 1) == (ch == 'A')], ([1, 2, 3] if ls == 0 else [3])


def needed_columns(cls):
    """the columns a metric of this class reads: the CDR3 columns of its chains, and both V columns when CDR1 / CDR2 are in scope"""
    chains, loops = in_scope(cls)
    return (['TRAV', 'TRBV'] if 1 in loops else []) + ['CDR3' + ch for ch in chains]


def value_bound(case):
    """upper bound of every entry of a case (C09_bounded): sum over chains and loops in scope of chain_weight * loop_weight *
    (deletion_weight * longest anchor loop + insertion_weight * longest comparison loop); with the unit edit weights: * longest loop"""
    cs, ls, w3, w5 = cfg_of(case)
    chains, loops = in_scope(case['cls'])
    tabs = [case['A'], case.get('B', case['A'])]
    total = 0
    for ch in chains:
        for l in loops:
            lens = []
            for t in tabs:
                if l == 3:
                    lens.append(max([len(x) for x in t['data'].get('CDR3' + ch, [''])] or [0]))
                else:
                    lens.append(max([len(loops_of(v)[l - 1]) for v in t['data'].get('TR%sV' % ch, []) if v] or [0]))
            d = max(lens) if w3 == (1, 1, 1) else w3[1] * lens[0] + w3[0] * lens[1]
            total += w5[0 if ch == 'A' else 1] * w5[1 + l] * d
    return total


BOUNDARY_WEIGHTS = [255, 256, 257, 1000, 4096, 65535, 65536, 65537, 2 ** 24 - 1, 2 ** 24 + 1, 10 ** 6 + 3, 2 ** 31 - 1]


def gen_wide_case(rng, av, bv, special, path, lo, hi, kind='cdist'):
    """chain / loop weights far above the small primes.  path 'native': insertion = deletion = substitution = 1, the result is stored in uint32,
    exact below 2^32;  path 'python': explicit edit weights, stored in float32, exact below 2^24.  The weights are drawn (log-uniform, or a
    number next to a power of two) until the bound of the entries (C09_bounded) lies in [lo, hi)."""
    cls = rng.choice([c for c in CLASSES if CLASSES[c][2]])
    n = lambda: rng.randint(2, 5)
    A = gen_frame(rng, av, bv, special, n(), rng.choice(INDEX_KINDS), (None, None), plain=True)
    B = gen_frame(rng, av, bv, special, n(), rng.choice(INDEX_KINDS), (None, None), plain=True)
    case = dict(kind=kind, cls=cls, A=A)
    if kind == 'cdist':
        case['B'] = B
    names = CLASSES[cls][2]
    for attempt in range(4000):
        w3 = [1, 1, 1] if path == 'native' else rng.sample(SMALL_PRIMES, 3) if rng.random() < 0.6 else [rng.choice(SMALL_PRIMES)] * 3
        ws = {}
        for nm in names:
            r = rng.random()
            ws[nm] = 1 if r < 0.15 else rng.choice(BOUNDARY_WEIGHTS) if r < 0.4 else (int(10 ** rng.uniform(0, 9.6)) | 1)
        case['pos'], case['kwargs'] = (w3 if path != 'native' else []), ws
        if lo <= value_bound(case) < hi:
            return case
    return None


def gen_long_case(rng, av, bv, special, L, mode, rows=(2, 2), cls=None):
    """CDR3 loops of about L residues (64 / 128 / 256: word sizes of bit-parallel implementations) in the chain(s) the class reads"""
    cls = cls or rng.choice(['AlphaCdr3Levenshtein', 'BetaCdr3Levenshtein', 'Cdr3Levenshtein', 'AlphaCdrLevenshtein'])
    chains, _ = in_scope(cls)
    ch = rng.choice(chains)
    root = ''.join(rng.choice(gens.AA) for _ in range(L + 2))
    def one():
        r = rng.random()
        k = L + rng.choice([-1, 0, 0, 1, 2])
        if r < 0.35:
            return gens.mutate(rng, root[:k], gens.AA, rng.randint(1, 9))
        if r < 0.5:
            return root[3:k] + root[:3]                 # a rotation: far in Hamming terms, near in edit terms
        if r < 0.6:
            return root[:k]
        return ''.join(rng.choice(gens.AA) for _ in range(k))
    pool = (['CAVRDSNYQLIW'], ['CASSIRSSYEQYF'])
    A = gen_frame(rng, av, bv, special, rows[0], rng.choice(INDEX_KINDS), pool, plain=True)
    B = gen_frame(rng, av, bv, special, rows[1], rng.choice(INDEX_KINDS), pool, plain=True)
    for t in (A, B):
        t['data']['CDR3' + ch] = [one() for _ in t['data']['CDR3' + ch]]
    return dict(kind='cdist', cls=cls, A=A, B=B, **gen_weights(rng, cls, mode))


def gen_distinct_frame(rng, av, bv, special, n, kind):
    """n rows whose CDR3A are pairwise distinct and whose CDR3B are pairwise distinct (short loops: cost of the oracle)"""
    def strs(head):
        seen = set()
        while len(seen) < n:
            seen.add(head + ''.join(rng.choice(gens.AA) for _ in range(rng.randint(3, 9))) + rng.choice('FW'))
        out = sorted(seen)
        rng.shuffle(out)
        return out
    data = {'TRAV': [rng.choice(av) for _ in range(n)], 'CDR3A': strs('CA'), 'TRAJ': [None] * n,
            'TRBV': [rng.choice(bv) for _ in range(n)], 'CDR3B': strs('CAS'), 'TRBJ': ['TRBJ2-7*01'] * n}
    return dict(columns=list(TCR_COLS), index=gen_index(rng, kind, n), data=data, dtypes={})


NEAR_STRINGS = ['CASSF', 'cassf', 'CaSSF', ' CASSF', 'CASSF ', 'CASSF\n', '\tCASSF', 'CASS F', 'CAS-SF', 'CAS.SF', 'CASSF*', '_CASSF',
                'C\u00c1SSF', 'CA\u0301SSF', '\uff23\uff21\uff33\uff33\uff26', 'CASSF\u200b', '\u0421\u0410SSF', 'CASSF.', 'casSF']


def gen_near_case(rng, av, bv, special, kind):
    """CDR3 strings that differ in letter case, surrounding / inner white space, gap characters, combining marks or look-alike letters only:
    the loops are compared as the strings they are"""
    cls = rng.choice(list(CLASSES))
    A = gen_frame(rng, av, bv, special, rng.randint(3, 6), rng.choice(INDEX_KINDS), (NEAR_STRINGS, NEAR_STRINGS))
    B = gen_frame(rng, av, bv, special, rng.randint(3, 6), rng.choice(INDEX_KINDS), (NEAR_STRINGS, NEAR_STRINGS))
    for t in (A, B):
        for c in ('CDR3A', 'CDR3B'):
            t['data'][c] = [rng.choice(NEAR_STRINGS) for _ in t['data'][c]]
    case = dict(kind=kind, cls=cls, A=A, **gen_weights(rng, cls, rng.choice(ALL_MODES)))
    if kind == 'cdist':
        case['B'] = B
    return case


def restrict_columns(rng, fj, cls):
    """the table with the columns the class reads (+ a random part of its other columns), in random order"""
    need = needed_columns(cls)
    other = [c for c in fj['columns'] if c not in need and rng.random() < 0.3]
    cols = need + other
    rng.shuffle(cols)
    return dict(fj, columns=cols, data={c: fj['data'][c] for c in cols}, dtypes={c: d for c, d in fj.get('dtypes', {}).items() if c in cols})


# ------------------------------------------------------------------ run
def run(ctx):
    rng = ctx.rng
    ctx.rule = ('six classes x tables of 0..12 rows (V alleles drawn from the %s human TRAV/TRBV alleles tidytcells has sequence data '
                'for, the alleles without a CDR2 over-represented; CDR3 = mutated clones, random strings, empty, non-amino-acid / '
                'non-BMP text) x constructor weights that are pairwise distinct primes (or the unit scorer path, or all defaults; or one common edit '
                'weight w > 1 for insertion = deletion = substitution; or each edit weight drawn independently from {1, 2, 3, 5, 7}, not all 1) x '
                'index kinds {default, shifted, permuted, duplicated, string} chosen independently for anchors and comparisons x '
                'extra / stale / shuffled columns, category / string dtypes; plus the full product class x anchor index x comparison '
                'index x scorer path on one fixed table pair; plus non-table objects in every argument position. Tables may carry the '
                'caller\'s own columns named CDR1A / CDR2A / CDR1B / CDR2B / CDR1X / CDR2X (any subset, any content); 50-70 %% of the cases '
                'construct 1-4 further metric objects (same class with other weights, or another class) before / after the one under test, '
                'keep them alive, and evaluate them or the metric under test on other argument combinations before the judged call; plus large tables '
                '(13-100, 101-400, 401-1000, 1001-1300 rows; thorough also 1301-2600; half of the sizes next to a round number) for calc_pdist_vector '
                'and for calc_cdist_matrix (large x small, small x large, large x large), built from 4-8 distinct rows repeated in random order, '
                'expected values expanded from the distinct rows\' distance table by C09_row_local + C09_pdist_condensed; plus (audit) the public methods '
                'called with keyword arguments, constructor weights handed over positionally (all but CdrLevenshtein beyond the third), one table object '
                'as anchors and comparisons, table sizes {0,1,2} x {0,1,2,4} per class, index objects {MultiIndex, float, datetime, tuple labels, named, '
                'RangeIndex with a step}, frame objects {subclass, slice / mask of a larger frame, named column axis}, dtypes {str, string, categorical '
                'incl. unused categories}, chain / loop weights up to 4*10^9 with entries up to the end of exact storage (2^32 native scorer, 2^24 '
                'otherwise), CDR3 of 64 / 128 / 256 residues, 257-1100 pairwise distinct rows, near-equal CDR3 strings, tables with just the columns '
                'a class reads, earlier calls on other table objects sharing labels / V columns / CDR3 columns, an earlier result overwritten by the caller. non-trivial := '
                'both tables have >= 2 rows, some entry is non-zero, and the weights in scope are pairwise distinct primes')
    av, bv = allele_pools()
    ctx.rule = ctx.rule % (len(av) + len(bv))
    try:
        import json, os, core
        st = json.load(open(os.path.join(core.BUILD, 'regen_status.json')))
        for k, v in st.items():
            if k.startswith('c09.') and v.get('error'):
                ctx.note('%s: %s' % (k, v['error']))
                ctx.extra.setdefault('regen', {})[k] = v['error']
    except Exception:
        pass
    no_c2 = [a for a in av if loops_of(a)[1] == ''] or av[:1]
    no_c2b = [b for b in bv if loops_of(b)[1] == '' or loops_of(b)[0] == ''] or bv[:1]
    special = (no_c2, no_c2b)
    ctx.count('alleles without CDR1 or CDR2 in the reference', len([a for a in av + bv if '' in loops_of(a)]))
    ctx.assumptions += ['tidytcells.tr.get_aa_sequence is the gene reference (CDR1-IMGT / CDR2-IMGT of an allele, absent key = empty loop): '
                        'its content is an input of the model, not verified',
                        'rapidfuzz process.cdist values and result dtypes (uint32 for the C scorer: exact below 2^32; float32 for the Python-lambda scorer: exact '
                        'below 2^24; the generated weights keep every entry inside the domain of its path, up to its end); pandas column assignment inside the copied frame; '
                        'scipy squareform(checks=False) = strict upper triangle, row-major']
    cases = []
    # (a) full configuration product on one fixed pair of tables
    pool = (['CAVRDSNYQLIW', 'CAVSDRGSTLGRLYF'], ['CASSIRSSYEQYF', 'CASSLAPGATNEKLFF'])
    fixedA = gen_frame(rng, av, bv, special, 3, 'default', pool, plain=True)
    fixedB = gen_frame(rng, av, bv, special, 4, 'default', pool, plain=True)
    fixedA['data']['TRAV'][0] = no_c2[0]
    kinds_a = INDEX_KINDS
    kinds_b = INDEX_KINDS if not ctx.quick else ['default', 'permuted', 'duplicated']
    nprod = 0
    for cls in CLASSES:
        for ka in kinds_a:
            for kb in kinds_b:
                nprod += 1
                for mode in ('unit', 'weighted', 'uniform', 'mixed') if not ctx.quick else ('unit', 'weighted', ('uniform', 'mixed')[nprod % 2]):
                    A = dict(fixedA, index=gen_index(rng, ka, 3))
                    B = dict(fixedB, index=gen_index(rng, kb, 4))
                    w = gen_weights(rng, cls, mode)
                    cases.append(add_alive(rng, dict(kind='cdist', cls=cls, A=A, B=B, tag=('product', ka, kb, mode), **w), p=0.5))
                A = dict(fixedA, index=gen_index(rng, ka, 3))
                mode = rng.choice(EDIT_MODES)
                cases.append(add_alive(rng, dict(kind='pdist', cls=cls, A=A, tag=('product', ka, '-', mode), **gen_weights(rng, cls, mode)), p=0.5))
    # (a2) class x {cdist anchors, cdist comparisons, cdist both, pdist} x which loop-named columns the caller's table carries
    for cls in CLASSES:
        for names in (LOOP_COLS, ['CDR1A', 'CDR2A'], ['CDR1B', 'CDR2B'], ['CDR1A', 'CDR1B'], ['CDR2A', 'CDR2B'], INTERNAL_COLS):
            fr = []
            for f in (fixedA, fixedB):
                data, cols = {c: list(v) for c, v in f['data'].items()}, list(f['columns'])
                add_loop_named_columns(rng, data, cols, len(data['TRAV']), av, bv, names=list(names))
                fr.append(dict(f, columns=cols, data=data))
            where = rng.choice(['anchors', 'comparisons', 'both']) if ctx.quick and names is not LOOP_COLS else None
            for wh, A, B in (('anchors', fr[0], fixedB), ('comparisons', fixedA, fr[1]), ('both', fr[0], fr[1])):
                if where in (None, wh):
                    cases.append(dict(kind='cdist', cls=cls, A=A, B=B, tag=('product', 'default', 'default', 'weighted'), **gen_weights(rng, cls, 'weighted')))
            cases.append(dict(kind='pdist', cls=cls, A=fr[0], tag=('product', 'default', '-', 'weighted'), **gen_weights(rng, cls, 'weighted')))
    ctx.exhaustive = True
    # (b) random tables
    nrand = 400 if ctx.quick else 4000
    for t in range(nrand):
        cls = rng.choice(list(CLASSES))
        pool = (['C' + ''.join(rng.choice(gens.AA) for _ in range(rng.randint(6, 16))) + 'F' for _ in range(3)],
                ['CASS' + ''.join(rng.choice(gens.AA) for _ in range(rng.randint(4, 14))) + 'F' for _ in range(3)])
        na = rng.choice([0, 1, 2]) if rng.random() < 0.08 else rng.randint(3, 12)
        nb = rng.choice([0, 1, 2]) if rng.random() < 0.08 else rng.randint(3, 12)
        ka, kb = rng.choice(INDEX_KINDS), rng.choice(INDEX_KINDS)
        mode = rng.choice(ALL_MODES)
        A = gen_frame(rng, av, bv, special, na, ka, pool)
        B = gen_frame(rng, av, bv, special, nb, kb, pool)
        w = gen_weights(rng, cls, mode)
        kwcall = lambda: rng.choice([None, None, True, 'swapped'])       # audit: anchors= / comparisons= / instances= by keyword
        cases.append(add_alive(rng, dict(kind='cdist', cls=cls, A=A, B=B, tag=('random', ka, kb, mode), callkw=kwcall(), **w)))
        if t % 2 == 0:
            cases.append(add_alive(rng, dict(kind='pdist', cls=cls, A=A, tag=('random', ka, '-', mode), callkw=kwcall(), **w)))
        if t % 8 == 3 and na > 0:
            # audit: ONE table object as anchors and as comparisons (the full square, both triangles), and two equal table objects
            al = rng.choice(['same', 'same', 'copy'])
            cases.append(add_alive(rng, dict(kind='cdist', cls=cls, A=A, B=A, alias=al, tag=('self cdist: ' + al, ka, ka, mode), callkw=kwcall(), **w)))
        if t % 10 == 5:
            # audit: both tables hold just the columns the class reads (+ some others)
            c2 = rng.choice(list(CLASSES))
            A2, B2 = restrict_columns(rng, A, c2), restrict_columns(rng, B, c2)
            w2 = gen_weights(rng, c2, mode)
            cases.append(add_alive(rng, dict(kind='cdist', cls=c2, A=A2, B=B2, tag=('needed columns only', ka, kb, mode), **w2)))
            cases.append(add_alive(rng, dict(kind='pdist', cls=c2, A=B2, tag=('needed columns only', kb, '-', mode), **w2)))
        if t % 10 == 0 and na > 0:
            # a table holding only the columns of one chain, for the metrics of that chain's CDR3
            c1 = rng.choice(['AlphaCdr3Levenshtein', 'BetaCdr3Levenshtein'])
            keep = ['CDR3A', 'TRAV'] if c1.startswith('Alpha') else ['TRBV', 'CDR3B']
            A1 = dict(A, columns=keep, data={c: A['data'][c] for c in keep}, dtypes={})
            cases.append(add_alive(rng, dict(kind='cdist', cls=c1, A=A1, B=B, tag=('one-chain table', ka, kb, mode), **gen_weights(rng, c1, mode))))
    # (f) large tables (13 .. 1300 rows; thorough .. 2600): a few distinct rows repeated in random order; expected values expanded from the
    #     distinct rows' distance table (C09_row_local + C09_pdist_condensed).  The value of a pair may not depend on how many rows the table has.
    budget = 400000 if ctx.quick else 4000000
    top = 3 if ctx.quick else 4
    sized = []
    for rnd in range(1 if ctx.quick else 6):
        for cls_i in range(len(CLASSES)):
            n = gen_size(rng, 3 if (ctx.quick or cls_i % 2) else 4)       # more than 1000 rows, every class, cheap scorer
            c = gen_sized_case(rng, av, bv, special, 'pdist', n, 0, 0)
            c['cls'] = list(CLASSES)[cls_i]
            c.update(gen_weights(rng, c['cls'], rng.choice(['unit', 'default'])))
            sized.append(c)
        for band in range(top + 1):
            for _ in range(2):
                sized.append(gen_sized_case(rng, av, bv, special, 'pdist', gen_size(rng, band), 0, budget))
        for _ in range(1 if ctx.quick else 2):                            # explicit edit weights on more than 1000 rows
            c = gen_sized_case(rng, av, bv, special, 'pdist', rng.randint(1001, 1040 if ctx.quick else 1100), 0, 0)
            c['cls'] = rng.choice(['AlphaCdr3Levenshtein', 'BetaCdr3Levenshtein'] if ctx.quick else list(CLASSES)[:3])
            c.update(gen_weights(rng, c['cls'], rng.choice(EDIT_MODES)))
            sized.append(c)
        for band in range(top + 1):
            small = rng.randint(1, 12)
            big, big2 = gen_size(rng, band), gen_size(rng, rng.randint(0, band))
            sized.append(gen_sized_case(rng, av, bv, special, 'cdist', big, small, budget))
            sized.append(gen_sized_case(rng, av, bv, special, 'cdist', small, big, budget))
            sized.append(gen_sized_case(rng, av, bv, special, 'cdist', big, big2, budget))
            sized.append(gen_sized_case(rng, av, bv, special, 'cdist', big2, big, budget))
    # audit: 2^15 / 2^16 (thorough: 2^17) rows on one side and 1-3 rows on the other, CDR3-only classes (no gene lookups), any scorer
    for n in ((2 ** 15, 2 ** 16) if ctx.quick else (2 ** 15, 2 ** 16, 2 ** 16, 2 ** 17)):
        n, small = n + rng.randint(0, 3), rng.randint(1, 3)
        c = gen_sized_case(rng, av, bv, special, 'cdist', *((n, small) if rng.random() < 0.5 else (small, n)), 0)
        c['cls'] = rng.choice(list(CLASSES)[:3])
        c.update(gen_weights(rng, c['cls'], rng.choice(ALL_MODES)))
        sized.append(c)
    for c in sized:
        c['tag'] = ('sized', 'any', 'any', 'unit' if cfg_of(c)[2] == (1, 1, 1) else 'explicit edit weights')
    cases += sized
    # ---------------- audit families (g) .. (m)
    # (g) table sizes 0, 1, 2 on either side, every class, cdist and pdist
    for cls in CLASSES:
        cut = lambda f, n: dict(f, data={c: v[:n] for c, v in f['data'].items()})
        for na, nb in itertools.product([0, 1, 2], [0, 1, 2, 4]):
            mode = rng.choice(['weighted', 'unit', 'mixed', 'default'])
            cases.append(dict(kind='cdist', cls=cls, A=cut(fixedA, na), B=cut(fixedB, nb), tag=('small sizes %d x %d' % (na, min(nb, 3)), 'default', 'default', mode),
                              callkw=rng.choice([None, True]), **gen_weights(rng, cls, mode)))
        for n in (0, 1, 2, 3):
            mode = rng.choice(['weighted', 'unit', 'mixed'])
            cases.append(dict(kind='pdist', cls=cls, A=cut(fixedB, n), tag=('small sizes pdist %d' % n, 'default', '-', mode), callkw=rng.choice([None, True]),
                              **gen_weights(rng, cls, mode)))
    # (h) class x {kind of index object, kind of frame object, column dtypes} on the fixed pair: option on the anchors / comparisons / both
    options = [('index_as', x) for x in INDEX_AS] + [('frame_as', x) for x in FRAME_AS] + [('dtypes', d) for _, d in DTYPE_SETS]
    nopt = 0
    for cls in CLASSES:
        for key, val in options:
            nopt += 1
            oa, ob = dict(fixedA, **{key: val}), dict(fixedB, **{key: val})
            A, B = [(oa, fixedB), (fixedA, ob), (oa, ob)][nopt % 3]
            if key == 'index_as' and val != 'rangestep' and nopt % 2:
                A, B = dict(A, index=gen_index(rng, 'duplicated', 3)), dict(B, index=gen_index(rng, 'permuted', 4))
            mode = rng.choice(EDIT_MODES + ['unit'])
            cases.append(add_alive(rng, dict(kind='cdist', cls=cls, A=A, B=B, tag=('table options', 'default', 'default', mode), callkw=rng.choice([None, True, 'swapped']),
                                             **gen_weights(rng, cls, mode)), p=0.3))
            if not ctx.quick or nopt % 2 == 0:
                cases.append(add_alive(rng, dict(kind='pdist', cls=cls, A=ob, tag=('table options', 'default', '-', mode), **gen_weights(rng, cls, mode)), p=0.3))
        # one table object in both positions, asymmetric edit weights
        cases.append(dict(kind='cdist', cls=cls, A=fixedB, B=fixedB, alias='same', tag=('self cdist: same', 'default', 'default', 'weighted'), **gen_weights(rng, cls, 'weighted')))
    # (i) chain / loop weights far above the small primes, inside the exact-storage domain of each scorer path
    wide = []
    for t in range(16 if ctx.quick else 120):
        kind = 'pdist' if t % 4 == 3 else 'cdist'
        if t % 4 == 0:
            c = gen_wide_case(rng, av, bv, special, 'native', 2 ** 31, 2 ** 32, kind)        # next to the end of uint32
        elif t % 4 == 1:
            c = gen_wide_case(rng, av, bv, special, 'python', 2 ** 22, 2 ** 24, kind)        # next to the end of exact float32
        else:
            c = gen_wide_case(rng, av, bv, special, 'native', 2 ** 26, 2 ** 32, kind)
        if c is not None:
            c['tag'] = ('wide weights', 'any', 'any', 'unit' if cfg_of(c)[2] == (1, 1, 1) else 'explicit edit weights')
            wide.append(add_alive(rng, c, p=0.3))
    cases += wide
    if os.environ.get('PV_PENDING_C09'):
        # PENDING (NOTES.md, POSSIBLE DEFECT): weights whose entries leave the exact-storage domain (float32 above 2^24, uint32 above 2^32)
        for t in range(12):
            c = gen_wide_case(rng, av, bv, special, *(('python', 2 ** 25, 2 ** 31) if t % 2 else ('native', 2 ** 33, 2 ** 40)))
            if c is not None:
                c['tag'] = ('PENDING: beyond exact storage', 'any', 'any', 'unit' if cfg_of(c)[2] == (1, 1, 1) else 'explicit edit weights')
                c['pending'] = True
                cases.append(c)
        # PENDING (NOTES.md, POSSIBLE DEFECT): a categorical V column with an unused category that is not an allele (rows of an unknown V filtered out)
        for cls in ('AlphaCdrLevenshtein', 'BetaCdrLevenshtein', 'CdrLevenshtein', 'Cdr3Levenshtein'):
            cases.append(dict(kind='cdist', cls=cls, A=dict(fixedA, dtypes={'TRAV': 'category!', 'TRBV': 'category!'}), B=fixedB, pending=True, pos=[], kwargs={},
                              tag=('PENDING: unused category of a V column', 'default', 'default', 'default')))
    # (j) long CDR3 loops (about 64 / 128 / 256 residues)
    longs = []
    for rnd in range(1 if ctx.quick else 4):
        for L in (64, 128):
            for mode in ('unit', 'weighted', 'uniform'):
                if ctx.quick and L == 128 and mode == 'uniform':
                    continue
                longs.append(gen_long_case(rng, av, bv, special, L, mode, rows=(2, 2) if L == 64 else (1, 2)))
        longs.append(gen_long_case(rng, av, bv, special, 256, 'unit', rows=(1, 1), cls=rng.choice(['AlphaCdr3Levenshtein', 'BetaCdr3Levenshtein'])))
        if not ctx.quick:
            longs.append(gen_long_case(rng, av, bv, special, 256, 'weighted', rows=(1, 1), cls=rng.choice(['AlphaCdr3Levenshtein', 'BetaCdr3Levenshtein'])))
    for c in longs:
        c['tag'] = ('long CDR3', 'any', 'any', 'unit' if cfg_of(c)[2] == (1, 1, 1) else 'explicit edit weights')
    cases += longs
    # (k) large tables whose rows are pairwise DISTINCT (the large tables of (f) repeat 4-8 rows): more than 256 / 1000 distinct loops in a column
    many = []
    for rnd in range(1 if ctx.quick else 3):
        for n, small in ((rng.randint(257, 300), rng.randint(1, 4)), (rng.randint(1001, 1100), rng.randint(2, 6))):
            for flip in (False, True):
                cls = rng.choice(list(CLASSES))
                big = gen_distinct_frame(rng, av, bv, special, n, rng.choice(INDEX_KINDS))
                sm = gen_distinct_frame(rng, av, bv, special, small, rng.choice(INDEX_KINDS))
                sm['data']['CDR3A'][0], sm['data']['CDR3B'][0] = big['data']['CDR3A'][n // 2], big['data']['CDR3B'][n // 3]
                mode = rng.choice(ALL_MODES)
                many.append(dict(kind='cdist', cls=cls, A=sm if flip else big, B=big if flip else sm, **gen_weights(rng, cls, mode)))
        for cls, mode in (('AlphaCdr3Levenshtein', 'unit'), ('BetaCdr3Levenshtein', rng.choice(EDIT_MODES))) if ctx.quick else \
                ((rng.choice(list(CLASSES)), 'unit'), (rng.choice(list(CLASSES)[:3]), rng.choice(EDIT_MODES))):
            many.append(dict(kind='pdist', cls=cls, A=gen_distinct_frame(rng, av, bv, special, rng.randint(257, 290), rng.choice(INDEX_KINDS)), **gen_weights(rng, cls, mode)))
    for c in many:
        c['tag'] = ('many distinct rows', 'any', 'any', 'unit' if cfg_of(c)[2] == (1, 1, 1) else 'explicit edit weights')
    cases += many
    # (l) CDR3 strings differing in case / white space / gap characters / combining marks / look-alike letters only
    for t in range(8 if ctx.quick else 60):
        c = gen_near_case(rng, av, bv, special, 'pdist' if t % 4 == 3 else 'cdist')
        c['tag'] = ('near-equal CDR3 strings', 'any', 'any', 'unit' if cfg_of(c)[2] == (1, 1, 1) else 'explicit edit weights')
        cases.append(c)
    # (c) inputs that are not TCR tables, in every argument position
    good = gen_frame(rng, av, bv, special, 3, 'permuted', pool, plain=True)
    # audit: a TCR table that holds none of the columns the metrics read (J columns only), next to an object that is not a table
    jonly = dict(columns=['TRBJ', 'TRAJ'], index='default', data={'TRBJ': ['TRBJ2-7*01'] * 2, 'TRAJ': ['TRAJ12*01'] * 2}, dtypes={})
    for bad in rng.sample(nontable_objects(rng), 6 if ctx.quick else 20):
        cls = rng.choice(list(CLASSES))
        w = gen_weights(rng, cls, rng.choice(['weighted', 'default']))
        cases.append(dict(kind='cdist', cls=cls, A=bad, B=jonly, tag=('non-table', 'anchors, next to a J-only table'), **w))
        cases.append(dict(kind='cdist', cls=cls, A=jonly, B=bad, tag=('non-table', 'comparisons, next to a J-only table'), callkw=rng.choice([None, True]), **w))
    for bad in nontable_objects(rng):
        for cls in (list(CLASSES) if not ctx.quick else rng.sample(list(CLASSES), 3)):
            w = gen_weights(rng, cls, rng.choice(['weighted', 'uniform', 'default']))
            cases.append(dict(kind='cdist', cls=cls, A=bad, B=good, tag=('non-table', 'anchors'), **w))
            cases.append(dict(kind='cdist', cls=cls, A=good, B=bad, tag=('non-table', 'comparisons'), **w))
            cases.append(dict(kind='cdist', cls=cls, A=bad, B=bad, tag=('non-table', 'both'), callkw=rng.choice([None, True, 'swapped']), **w))
            cases.append(dict(kind='pdist', cls=cls, A=bad, tag=('non-table', 'instances'), callkw=rng.choice([None, True]), **w))

    results = run_cases(ctx, cases)
    nviol = 0
    biggest = {True: 0, False: 0}           # native scorer path (uint32 storage) / Python-lambda scorer path (float32 storage)
    for c, _, o in results:
        if len(o) > 1 and not isinstance(o[1], Exception) and not c.get('pending'):
            native = cfg_of(c)[2] == (1, 1, 1)
            top = max([v for r in o[1] for v in (r if isinstance(r, list) else [r])] or [0])
            biggest[native] = max(biggest[native], top)
            if top >= 2 ** 24:
                ctx.count('case with an entry >= 2^24 (native scorer path, uint32 storage)')
            if top >= 2 ** 31:
                ctx.count('case with an entry >= 2^31 (native scorer path, uint32 storage)')
    ctx.note('largest specification value generated: %d with explicit edit weights (float32 storage is exact below 2^24 = 16777216), %d with '
             'insertion = deletion = substitution = 1 (uint32 storage is exact below 2^32 = 4294967296); C09_bounded' % (biggest[False], biggest[True]))
    assert biggest[False] < 2 ** 24 and biggest[True] < 2 ** 32, 'generator left the exact-storage domain'
    for n, (case, problems, outs) in enumerate(results):
        tag = case.get('tag', ('?',))
        cs, ls, w3, w5 = cfg_of(case)
        ctx.count('class=' + case['cls'])
        ctx.count('kind=' + tag[0])
        if case.get('alive'):
            al = case['alive']
            ctx.count('other metric objects alive=%d' % (len(al['before']) + len(al['after'])))
            ctx.count('earlier calls=%d' % len(al['steps']))
        for k in ('A', 'B'):
            if k in case and 'nontable' not in case[k] and any(c in INTERNAL_COLS for c in case[k]['columns']):
                ctx.count('table with caller\'s loop-named columns: ' + ('all four' if set(LOOP_COLS) <= set(case[k]['columns']) else 'some'))
        # audit counters: how the call was made, what the tables were
        ctx.count('constructor: positional arguments=%d' % len(case.get('pos', [])))
        ctx.count('call: ' + {None: 'positional', True: 'keywords', 'swapped': 'keywords, comparisons first'}[case.get('callkw')])
        if case.get('alias'):
            ctx.count('cdist of a table with itself: ' + ('one object' if aliased(case) else 'two equal objects'))
        for how in [h for _, h in (case.get('alive') or {}).get('steps', []) if h in STEP_HOWS_MORE]:
            ctx.count('earlier call of kind ' + how)
        for k in ('A', 'B'):
            if k in case and 'nontable' not in case[k]:
                fj = case[k]
                if fj.get('index_as'):
                    ctx.count('index object=' + fj['index_as'])
                if fj.get('frame_as'):
                    ctx.count('frame object=' + fj['frame_as'])
                ctx.count('dtypes=' + dtype_kind(fj.get('dtypes', {})))
                if not set(TCR_COLS) <= set(fj['columns']):
                    ctx.count('table lacking some of the six TCR columns')
                if tag[0] != 'sized':
                    L = max([len(x) for c3 in ('CDR3A', 'CDR3B') for x in fj['data'].get(c3, [])] or [0])
                    ctx.count('longest CDR3 of a table=' + ('<= 63' if L <= 63 else '64-127' if L <= 127 else '128-255' if L <= 255 else '>= 256'))
                    nk = nrows(fj)
                    if nk > 12:
                        ctx.count('table of pairwise distinct rows: ' + ('13-256' if nk <= 256 else '257-1000' if nk <= 1000 else '> 1000'))
            elif k in case and tag[0] == 'non-table':
                ctx.count('non-table=' + case[k]['nontable'])
        if len(tag) == 4 and tag[1] != 'any':
            ctx.count('anchor index=' + tag[1])
            ctx.count('scorer=' + tag[3])
            na = nrows(case['A'])
            ctx.count('rows=' + ('0-2' if na <= 2 else '3-12'))
            if len(set(w3)) < 3 and w3 != (1, 1, 1):
                ctx.count('edit weights not pairwise distinct: ' + ('all three equal (> 1)' if len(set(w3)) == 1 else 'two equal'))
        if tag[0] == 'sized':
            ctx.count('scorer=' + tag[3])
            for k in ('A', 'B'):
                if k in case:
                    nk = nrows(case[k])
                    ctx.count('large-table case: rows of a table=' + ('<= 12' if nk <= 12 else '13-100' if nk <= 100 else '101-400' if nk <= 400 else
                                                                      '401-1000' if nk <= 1000 else '1001-1300' if nk <= 1300 else '1301-2600' if nk <= 2600 else
                                                                      '32768-32771' if nk < 2 ** 16 else '65536-65539' if nk < 2 ** 17 else '131072-131075'))
        nt = None
        if tag[0] != 'non-table' and len(outs) > 1 and not isinstance(outs[1], Exception):
            spec = outs[1]
            flat = [v for r in spec for v in (r if isinstance(r, list) else [r])]
            inscope = [w5[0]] * (cs in (0, 1) and 'alpha_weight' in CLASSES[case['cls']][2]) + [w5[1]] * (cs in (0, 2) and 'beta_weight' in CLASSES[case['cls']][2]) \
                + ([w5[2], w5[3], w5[4]] if ls == 0 else [])
            if any(v > 0 for v in flat) and len(flat) >= 2 and len(set(inscope)) == len(inscope) and all(w > 1 for w in inscope) and len(set(w3)) == 3:
                nt = ('c09', case['cls'], tuple(flat[:40]), w3, w5)
        sample = None
        if nt is not None and n % 97 == 0:
            sample = dict(call='%s(%s).%s' % (case['cls'], fmt_args(case), 'calc_cdist_matrix' if case['kind'] == 'cdist' else 'calc_pdist_vector'),
                          anchors=[r[1:] for r in wire_rows(case['A'])][:3], anchor_index=short(case['A']['index'], 40), spec=short(outs[1], 120))
        ctx.case(sample=sample, nontrivial_key=nt)
        if problems:
            report(ctx, case, problems)
            nviol += 1
            if nviol >= 4:
                break
        elif tag[0] == 'product' and case['kind'] == 'cdist' and tag[1] == 'default' and tag[2] == 'default' and len(ctx.vm_cases) < 12:
            reqs = requests_for(case)
            ctx.add_vm(reqs[1][0], reqs[1][1], outs[1])
            ctx.add_vm(reqs[0][0], reqs[0][1], outs[0])

    # (d) additivity on the implementation's own outputs, exact integers
    if nviol == 0:
        additivity(ctx, rng, av, bv, special)
    # (e) class scopes as regenerated vs intended (auxiliary: localises a proof break)
    scopes = ctx.oracle.run([('api_c09_class_scope', [name]) for name in CLASSES])
    for name, sc in zip(CLASSES, scopes):
        if sc != CLASSES[name][:2]:
            ctx.note('generated class table: %s has scope %s, intended %s' % (name, sc, CLASSES[name][:2]))


def additivity(ctx, rng, av, bv, special):
    import pyrepseq.metric.tcr_metric as tm
    for t in range(12 if ctx.quick else 120):
        pool = (['CAVRDSNYQLIW'], ['CASSIRSSYEQYF'])
        A = gen_frame(rng, av, bv, special, rng.randint(2, 6), rng.choice(INDEX_KINDS), pool)
        B = gen_frame(rng, av, bv, special, rng.randint(2, 6), rng.choice(INDEX_KINDS), pool)
        ws = rng.sample(SMALL_PRIMES, 3) + rng.sample(PRIMES, 5)
        if t % 4 == 1:
            ws[:3] = [ws[0]] * 3            # one common edit weight > 1
        w3 = dict(insertion_weight=ws[0], deletion_weight=ws[1], substitution_weight=ws[2]) if t % 3 else {}
        cd = dict(cdr1_weight=ws[5], cdr2_weight=ws[6], cdr3_weight=ws[7])
        for paired, alpha, beta, extra in ((tm.Cdr3Levenshtein, tm.AlphaCdr3Levenshtein, tm.BetaCdr3Levenshtein, {}),
                                           (tm.CdrLevenshtein, tm.AlphaCdrLevenshtein, tm.BetaCdrLevenshtein, cd)):
            fa, fb = make_frame(A), make_frame(B)
            # the three metric objects exist side by side (constructed in a random order) and are evaluated in a random order
            made, got = {}, {}
            ctors = dict(p=lambda: paired(alpha_weight=ws[3], beta_weight=ws[4], **w3, **extra), a=lambda: alpha(**w3, **extra), b=lambda: beta(**w3, **extra))
            for k in rng.sample('pab', 3):
                made[k] = call_impl(ctors[k])
            for k in rng.sample('pab', 3):
                got[k] = call_impl(made[k][1].calc_cdist_matrix, fa, fb) if made[k][0] == 'ok' else made[k]
            p, a, b = got['p'], got['a'], got['b']
            ctx.case(nontrivial_key=('additive', paired.__name__, t))
            ok = p[0] == a[0] == b[0] == 'ok'
            if ok:
                pl, al, bl = np.asarray(p[1]).tolist(), np.asarray(a[1]).tolist(), np.asarray(b[1]).tolist()
                ok = all(x == ws[3] * int(y) + ws[4] * int(z) and float(y).is_integer() and float(z).is_integer()
                         for r, s, u in zip(pl, al, bl) for x, y, z in zip(r, s, u)) and len(pl) == len(al) == len(bl)
            if not ok:
                case = dict(kind='cdist', cls=paired.__name__, A=A, B=B, pos=[], kwargs=dict(alpha_weight=ws[3], beta_weight=ws[4], **w3, **extra))
                ctx.violation('property', '%s(alpha_weight=%d, beta_weight=%d, ...) != %d * %s + %d * %s entrywise: %s vs %s, %s (%s)' %
                              (paired.__name__, ws[3], ws[4], ws[3], alpha.__name__, ws[4], beta.__name__, short(p, 150), short(a, 150), short(b, 150),
                               describe_objs(case)), dict(case=case, additivity=True), site='tcr_levenshtein.calc_cdist_matrix')
                return


def replay(ctx, obj):
    rep = obj.get('replay') or {}
    case = rep.get('case')
    if not case:
        return run(ctx)
    ctx.rule = 'replay of one stored case'
    allele_pools()
    for c, problems, outs in run_cases(ctx, [case]):
        ctx.case(sample=dict(case=short(case, 400)), nontrivial_key=('replay',))
        if problems:
            kinds = [k for k, _ in problems]
            kind = 'property' if 'property' in kinds else kinds[0]
            ctx.violation(kind, '; '.join(w for k, w in problems if k == kind), dict(case=case),
                          site='tcr_levenshtein.%s' % ('calc_cdist_matrix' if case['kind'] == 'cdist' else 'calc_pdist_vector'))
    if rep.get('additivity'):
        run(ctx)
