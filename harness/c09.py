"""C09 - TCR Levenshtein metrics are the stated weighted sum over chains and CDR loops.

Every case is a JSON-able description (class, constructor arguments, two tables or a non-table object) so that a
replay file re-runs exactly that input.  For each case the implementation's return value is compared with
  * the executable SPECIFICATION extracted from Coq (api_c09_spec_*: the stated double sum; uses no generated fact;
    proved equal to the Prop-level spec in C09_spec_oracle)          -> a difference is a `property` violation,
  * the extracted MODEL (api_c09_cdist / api_c09_pdist: follows the code, uses the facts regenerated from today's
    source text)                                                     -> a difference alone is a `correspondence` break,
and the caller's frames are compared before / after.  CDR1/CDR2 loops on the oracle side are looked up by the harness
with tidytcells (the lookup is the contract); what is checked is that the code uses THAT ROW's allele, the right
loop and the right weights.

A case may carry `alive`: other metric objects constructed before / after the metric under test and kept alive, and a
list of calls (of those objects, and of the metric under test itself on other argument combinations) made BEFORE the
judged call.  The statement is about every metric object for every pair of tables, so the value may depend neither on
which other metric objects exist nor on what was evaluated earlier.  Tables may carry extra columns whose names are
those of the loop columns the implementation adds to its private copy (CDR1A .. CDR2B, CDR1X, CDR2X) with arbitrary
content: CDR1 / CDR2 are those of the row's V allele whatever such columns hold.

A table may be LARGE (round 3): `data` then holds a few distinct rows and `take` the order in which they are repeated
(13 .. 1300 rows in the quick tier, .. 2600 in the thorough tier).  The oracle is asked for the distance table D of the
distinct rows only (specification and model, cdist); the expected matrix is D[take_A[i]][take_B[j]] and the expected
condensed vector holds D[take[i]][take[j]] at position cidx n i j (row-major, i < j) - theorems C09_row_local (the
entry depends on the two rows' contents only) and C09_pdist_condensed (position cidx of the vector holds entry (i, j))."""
import copy, itertools
import numpy as np
import pandas as pd
import gens
from core import call_impl

TCR_COLS = ['TRAV', 'CDR3A', 'TRAJ', 'TRBV', 'CDR3B', 'TRBJ']
# intended meaning of the six public classes: (chain scope code, cdr scope code, constructor weight keywords)
#   chain scope: 0 paired, 1 alpha, 2 beta;  cdr scope: 0 all CDRs, 1 CDR3 only
CDRW = ('cdr1_weight', 'cdr2_weight', 'cdr3_weight')
CLASSES = {
    'AlphaCdr3Levenshtein': (1, 1, ()),
    'BetaCdr3Levenshtein': (2, 1, ()),
    'Cdr3Levenshtein': (0, 1, ('alpha_weight', 'beta_weight')),
    'AlphaCdrLevenshtein': (1, 0, CDRW),
    'BetaCdrLevenshtein': (2, 0, CDRW),
    'CdrLevenshtein': (0, 0, ('alpha_weight', 'beta_weight') + CDRW),
}
W5 = ('alpha_weight', 'beta_weight') + CDRW
EDIT_MODES = ['weighted', 'uniform', 'mixed']          # constructors with explicit insertion / deletion / substitution weights
ALL_MODES = ['weighted', 'weighted', 'uniform', 'mixed', 'unit', 'default']
SMALL_PRIMES = [2, 3, 5, 7]                 # insertion / deletion / substitution (the model's DP runs on unary nat)
PRIMES = [11, 13, 17, 19, 23, 29, 31]       # chain and loop weights
INDEX_KINDS = ['default', 'shifted', 'permuted', 'duplicated', 'string']
# names the implementation uses for the loop columns of its private expanded copy (and of the lookup's temporary frame)
LOOP_COLS = ['CDR1A', 'CDR2A', 'CDR1B', 'CDR2B']
INTERNAL_COLS = LOOP_COLS + ['CDR1X', 'CDR2X']
STEP_HOWS = ['same', 'swap', 'selfA', 'selfB', 'pdistA', 'pdistB']
_GENES = {}


# ------------------------------------------------------------------ gene reference (tidytcells = the contract)
def loops_of(allele):
    if allele not in _GENES:
        import tidytcells as tt
        d = tt.tr.get_aa_sequence(allele)
        _GENES[allele] = (d.get('CDR1-IMGT', ''), d.get('CDR2-IMGT', ''))
    return _GENES[allele]


def allele_pools():
    import tidytcells as tt
    av, bv = [], []
    for g in sorted(tt.tr.query(precision='allele')):
        if g.startswith('TRAV') or g.startswith('TRBV'):
            try:
                loops_of(g)
            except Exception:
                continue            # no sequence data: not "known to the gene reference"
            (av if g.startswith('TRAV') else bv).append(g)
    return av, bv


# ------------------------------------------------------------------ case <-> objects
def make_frame(fj):
    """fj: dict(columns, index, data{col: list}, dtypes{col: name}) -> DataFrame"""
    idx = fj['index']
    df = pd.DataFrame({c: pd.Series(list(fj['data'][c]), dtype=object) for c in fj['columns']}, columns=list(fj['columns']))
    if 'take' in fj:
        df = df.iloc[list(fj['take'])].reset_index(drop=True)
    if idx != 'default':
        df.index = pd.Index(list(idx))
    for c, dt in fj.get('dtypes', {}).items():
        df[c] = df[c].astype(dt)
    return df


class Duck:
    """not a DataFrame, but it has .columns and column access"""

    def __init__(self, rows):
        self.data = {'TRAV': [r[0] for r in rows], 'CDR3A': [r[1] for r in rows], 'TRBV': [r[2] for r in rows], 'CDR3B': [r[3] for r in rows]}
        self.columns = list(self.data)
        self.TRAV, self.TRBV = self.data['TRAV'], self.data['TRBV']

    def __getitem__(self, k):
        return self.data[k]

    def __len__(self):
        return len(self.data['TRAV'])

    def copy(self):
        return copy.deepcopy(self)

    def __eq__(self, other):
        return isinstance(other, Duck) and self.data == other.data and self.columns == other.columns


def make_obj(oj):
    if 'nontable' not in oj:
        return make_frame(oj)
    k = oj['nontable']
    rows = oj.get('rows', [['TRAV1-1*01', 'CAVR', 'TRBV2*01', 'CASSF']])
    if k == 'none':
        return None
    if k == 'list':
        return [list(r) for r in rows]
    if k == 'ndarray':
        return np.array(rows, dtype=object)
    if k == 'str':
        return 'TRAV'
    if k == 'series':
        return pd.Series([r[1] for r in rows], name='CDR3A')
    if k == 'dict':
        return {'TRAV': [r[0] for r in rows], 'CDR3A': [r[1] for r in rows], 'TRBV': [r[2] for r in rows], 'CDR3B': [r[3] for r in rows]}
    if k == 'records':
        return [dict(TRAV=r[0], CDR3A=r[1], TRBV=r[2], CDR3B=r[3]) for r in rows]
    if k == 'duck':
        return Duck(rows)
    if k == 'tuple_of_frames':
        return (pd.DataFrame(rows, columns=['TRAV', 'CDR3A', 'TRBV', 'CDR3B']),)
    raise ValueError(k)


def nrows(fj):
    if 'take' in fj:
        return len(fj['take'])
    return len(fj['index']) if fj['index'] != 'default' else (len(next(iter(fj['data'].values()))) if fj['data'] else 0)


def wire_rows(fj):
    n = nrows(fj)
    idx = list(range(n)) if fj['index'] == 'default' else fj['index']
    take = fj.get('take', range(n))
    get = lambda c, i: fj['data'][c][take[i]] if c in fj['data'] else ''
    return [(str(idx[i]), get('TRAV', i), get('CDR3A', i), get('TRBV', i), get('CDR3B', i)) for i in range(n)]


def is_big(case):
    return any('take' in case[k] for k in ('A', 'B') if k in case)


def distinct_of(fj):
    """the table of the distinct rows of a large table (what the oracle is asked about)"""
    if 'take' not in fj:
        return fj
    return dict(columns=fj['columns'], index='default', data=fj['data'], dtypes={})


def materialize(fj):
    """a large-table description written out row by row"""
    if 'take' not in fj:
        return fj
    return dict(columns=fj['columns'], index=fj['index'], data={c: [v[t] for t in fj['take']] for c, v in fj['data'].items()}, dtypes=fj.get('dtypes', {}))


def take_of(fj):
    return np.asarray(fj['take'] if 'take' in fj else range(nrows(fj)), dtype=np.int64)


def expand(case, D):
    """expected result of a case with large tables from the distance table D of the distinct rows (anchors' x comparisons' distinct rows)"""
    D = np.asarray(D, dtype=np.int64)
    ta = take_of(case['A'])
    if case['kind'] == 'cdist':
        tb = take_of(case['B'])
        return D[np.ix_(ta, tb)]          # a large table has >= 1 distinct row, so D is k_A x k_B with k >= 1
    i, j = np.triu_indices(len(ta), 1)
    return D[ta[i], ta[j]]


def wire_obj(oj):
    """(is_frame, columns, rows) for the model"""
    if 'nontable' in oj:
        return False, [], []
    return True, list(oj['columns']), wire_rows(oj)


def genes_for(*ojs):
    al = set()
    for oj in ojs:
        if 'nontable' not in oj:
            for c in ('TRAV', 'TRBV'):
                al.update(oj['data'].get(c, ['']))      # absent V column: the wire row carries ''
    return [(a, loops_of(a) if a else ('', '')) for a in sorted(al)]


def snapshot(x):
    return copy.deepcopy(x)


def same_object(a, b):
    """caller's object after the call equals the snapshot taken before"""
    if isinstance(a, pd.DataFrame):
        return (isinstance(b, pd.DataFrame) and list(a.columns) == list(b.columns) and a.index.equals(b.index)
                and type(a.index) is type(b.index) and list(a.dtypes.astype(str)) == list(b.dtypes.astype(str)) and a.equals(b)
                and dict(a.attrs) == dict(b.attrs))
    if isinstance(a, pd.Series):
        return isinstance(b, pd.Series) and a.equals(b)
    if isinstance(a, np.ndarray):
        return isinstance(b, np.ndarray) and a.shape == b.shape and a.tolist() == b.tolist()
    if isinstance(a, tuple) and a and isinstance(a[0], pd.DataFrame):
        return isinstance(b, tuple) and len(a) == len(b) and all(same_object(x, y) for x, y in zip(a, b))
    return a == b


def construct(case):
    import pyrepseq.metric.tcr_metric as tm
    cls = getattr(tm, case['cls'])
    return cls(*case.get('pos', []), **case.get('kwargs', {}))


def cfg_of(case):
    """intended configuration: (cs, ls, (wi, wd, ws), (alpha, beta, cdr1, cdr2, cdr3)); defaults are 1"""
    cs, ls, _ = CLASSES[case['cls']]
    kw = dict(case.get('kwargs', {}))
    pos = list(case.get('pos', []))
    names = ['insertion_weight', 'deletion_weight', 'substitution_weight']
    for n, v in zip(names, pos):
        kw[n] = v
    w3 = tuple(kw.get(n, 1) for n in names)
    w5 = tuple(kw.get(n, 1) for n in W5)
    return cs, ls, w3, w5


def mat_equal(val, exp, shape):
    try:
        arr = np.asarray(val)
    except Exception:
        return False
    if arr.shape != tuple(shape) or arr.dtype == object:
        return False
    if isinstance(exp, np.ndarray):         # large table: expected values expanded from the distinct rows' distance table
        return exp.shape == arr.shape and bool(np.array_equal(arr, exp))
    got = arr.tolist()
    if len(shape) == 1:
        return len(got) == len(exp) and all(x == e for x, e in zip(got, exp))
    return len(got) == len(exp) and all(len(r) == len(er) and all(x == e for x, e in zip(r, er)) for r, er in zip(got, exp))


def first_diff(val, exp):
    try:
        if isinstance(exp, np.ndarray):
            arr = np.asarray(val)
            if arr.shape != exp.shape:
                return None
            bad = np.argwhere(arr != exp)
            if not len(bad):
                return None
            pos = tuple(int(x) for x in bad[0])
            return (pos[0], pos[1] if len(pos) > 1 else None, arr[pos].item(), int(exp[pos]))
        got = np.asarray(val).tolist()
        for i, (r, er) in enumerate(zip(got, exp)):
            if isinstance(er, list):
                for j, (x, e) in enumerate(zip(r, er)):
                    if x != e:
                        return (i, j, x, e)
            elif r != er:
                return (i, None, r, er)
    except Exception:
        pass
    return None


# ------------------------------------------------------------------ one case
def requests_for(case):
    cs, ls, w3, w5 = cfg_of(case)
    if is_big(case):
        # large tables: the distance table of the distinct rows (anchors' x comparisons'; instances' x instances'), expanded by judge
        A = distinct_of(case['A'])
        B = distinct_of(case['B']) if case['kind'] == 'cdist' else A
        g = genes_for(A, B)
        fa, fb = wire_obj(A), wire_obj(B)
        return [('api_c09_cdist', [cs, ls, w3, w5, g, fa[0], fa[1], fa[2], fb[0], fb[1], fb[2]]),
                ('api_c09_spec_cdist', [cs, ls, w3, w5, g, fa[2], fb[2]])]
    if case['kind'] == 'cdist':
        A, B = case['A'], case['B']
        g = genes_for(A, B)
        fa, fb = wire_obj(A), wire_obj(B)
        reqs = [('api_c09_cdist', [cs, ls, w3, w5, g, fa[0], fa[1], fa[2], fb[0], fb[1], fb[2]])]
        if fa[0] and fb[0]:
            reqs.append(('api_c09_spec_cdist', [cs, ls, w3, w5, g, fa[2], fb[2]]))
        return reqs
    X = case['A']
    g = genes_for(X)
    fx = wire_obj(X)
    reqs = [('api_c09_pdist', [cs, ls, w3, w5, g, fx[0], fx[1], fx[2]])]
    if fx[0]:
        reqs.append(('api_c09_spec_pdist', [cs, ls, w3, w5, g, fx[2]]))
    return reqs


def is_table_req(oj):
    f = wire_obj(oj)
    return ('api_c09_is_table', [f[0], f[1]])


def judge(ctx, case, outs, tbl):
    """outs: oracle answers for requests_for(case); tbl: (model, spec) is-table verdicts of the objects.
    Returns the list of (kind, what) problems found on this case."""
    problems = []
    alive = case.get('alive') or {}
    keep = []                       # every metric object of this case stays alive until the case has been judged
    metric = None
    for c in list(alive.get('before', [])) + [case] + list(alive.get('after', [])):
        m = call_impl(construct, c)
        if m[0] != 'ok':
            return [('property', 'constructing %s(%s) raised %s' % (c['cls'], fmt_args(c), m[1]))]
        if c is case:
            metric = m[1]
        else:
            keep.append(m[1])
    objs = [make_obj(case['A'])] + ([make_obj(case['B'])] if case['kind'] == 'cdist' else [])
    before = [snapshot(o) for o in objs]
    # calls made before the judged one: [who, how]; who = -1 the metric under test, else a companion (before + after order)
    for who, how in alive.get('steps', []):
        m = metric if who < 0 else (keep[who] if who < len(keep) else None)
        if m is None:
            continue
        a, b = objs[0], objs[-1]
        if how == 'same':
            call_impl(m.calc_cdist_matrix, a, b) if case['kind'] == 'cdist' else call_impl(m.calc_pdist_vector, a)
        elif how == 'swap':
            call_impl(m.calc_cdist_matrix, b, a)
        elif how == 'selfA':
            call_impl(m.calc_cdist_matrix, a, a)
        elif how == 'selfB':
            call_impl(m.calc_cdist_matrix, b, b)
        elif how == 'pdistA':
            call_impl(m.calc_pdist_vector, a)
        elif how == 'pdistB':
            call_impl(m.calc_pdist_vector, b)
        elif how == 'edited':
            # the SAME table object held other content when it was evaluated earlier (rows in reverse order), and was edited in place
            # since: the judged call sees the content the object holds now
            if isinstance(a, pd.DataFrame) and len(a) >= 2 and a.columns.is_unique:
                saved = {c: a[c].copy() for c in a.columns}
                ctx.count('step_edited_in_place')
                for c in a.columns:
                    a[c] = pd.Series(saved[c].to_numpy(dtype=object)[::-1].copy(), index=a.index, dtype=saved[c].dtype)
                call_impl(m.calc_cdist_matrix, a, b) if case['kind'] == 'cdist' else call_impl(m.calc_pdist_vector, a)
                for c in a.columns:
                    a[c] = pd.Series(saved[c].to_numpy(dtype=object).copy(), index=a.index, dtype=saved[c].dtype)
                if not same_object(before[0], a):      # the restore did not give back the very same table: take a fresh one, step void
                    ctx.count('step_edited_void')
                    objs[0] = make_obj(case['A'])
                    if case['kind'] != 'cdist' or objs[-1] is a:
                        objs[-1] = objs[0]
                    before[0] = snapshot(objs[0])
    if case['kind'] == 'cdist':
        res = call_impl(metric.calc_cdist_matrix, objs[0], objs[1])
        call = '%s(%s).calc_cdist_matrix' % (case['cls'], fmt_args(case))
    else:
        res = call_impl(metric.calc_pdist_vector, objs[0])
        call = '%s(%s).calc_pdist_vector' % (case['cls'], fmt_args(case))
    call += describe_alive(case)
    for k, (o, b) in enumerate(zip(objs, before)):
        if not same_object(b, o):
            problems.append(('property', '%s modified the caller\'s %s: columns %s -> %s' %
                             (call, ['anchors / instances', 'comparisons'][k],
                              list(getattr(b, 'columns', [])), list(getattr(o, 'columns', [])))))
    spec_table = all(t[1] for t in tbl)
    model_table = all(t[0] for t in tbl)
    tag, mval = outs[0]
    if not spec_table:
        # not a TCR table -> ValueError
        if res != ('exc', 'ValueError'):
            problems.append(('property', '%s on an input that is not a TCR table (%s) gave %s, expected ValueError' %
                             (call, describe_objs(case), short(res))))
        if model_table or tag != 1:
            problems.append(('correspondence', 'model (today\'s tcr_columns) accepts an input that is not a TCR table'))
        return problems
    if len(outs) < 2:
        return problems
    spec = outs[1]
    if tag == 3:
        problems.append(('correspondence', 'harness error: allele missing from the table passed to the model'))
        return problems
    complete = all(set(['TRAV', 'CDR3A', 'TRBV', 'CDR3B']) <= set(oj['columns']) for oj in [case['A']] + ([case['B']] if case['kind'] == 'cdist' else []))
    if tag == 2 and not complete:
        return problems        # a table lacking a column the metric reads: outside the statement, not judged
    n = nrows(case['A'])
    shape = (n, nrows(case['B'])) if case['kind'] == 'cdist' else (n * (n - 1) // 2,)
    if is_big(case):
        spec = expand(case, spec)
        if tag == 0:
            mval = expand(case, mval)
    if res[0] != 'ok':
        kind = 'property' if complete else 'correspondence'
        problems.append((kind, '%s raised %s on TCR tables (%s)' % (call, res[1], describe_objs(case))))
        return problems
    if not mat_equal(res[1], spec, shape):
        d = first_diff(res[1], spec)
        where = ''
        if d and d[1] is not None:
            where = ' at [%s, %s]: %s vs %s' % d
        elif d:
            where = ' at [%s]%s: %s vs %s' % (d[0], pair_of(n, d[0]) if case['kind'] == 'pdist' else '', d[2], d[3])
        problems.append(('property', '%s differs from the stated weighted sum%s; shape %s expected %s; got %s expected %s (%s)' %
                         (call, where, getattr(np.asarray(res[1]), 'shape', None), shape, short_arr(res[1], d), short_arr(spec, d), describe_objs(case))))
    if tag != 0 or not mat_equal(res[1], mval, shape):
        problems.append(('correspondence', '%s: the model built from today\'s source facts gives %s, the implementation %s' %
                         (call, short((tag, short_arr(mval))), short_arr(res[1]))))
    return problems


def fmt_args(case):
    return ', '.join([str(v) for v in case.get('pos', [])] + ['%s=%s' % kv for kv in case.get('kwargs', {}).items()])


def describe_alive(case):
    alive = case.get('alive') or {}
    out = []
    comp = list(alive.get('before', [])) + list(alive.get('after', []))
    if alive.get('before'):
        out.append('constructed earlier and still alive: ' + ', '.join('%s(%s)' % (c['cls'], fmt_args(c)) for c in alive['before']))
    if alive.get('after'):
        out.append('constructed after it, before the call: ' + ', '.join('%s(%s)' % (c['cls'], fmt_args(c)) for c in alive['after']))
    if alive.get('steps'):
        names = lambda w: 'this metric' if w < 0 else ('%s(%s)' % (comp[w]['cls'], fmt_args(comp[w])) if w < len(comp) else '?')
        out.append('evaluated before this call: ' + ', '.join('%s:%s' % (names(w), h) for w, h in alive['steps']))
    return (' [' + '; '.join(out) + ']') if out else ''


def short(x, n=300):
    s = str(x)
    return s if len(s) <= n else s[:n] + '...'


def short_arr(x, d=None):
    """a result / expected array for a message; a big one is shown around the first differing position"""
    try:
        arr = np.asarray(x)
        if arr.size <= 400 or arr.dtype == object:
            return short(arr.tolist())
        if arr.ndim == 1:
            k = max(0, (d[0] if d else 0) - 3)
            return '[.. %d entries; from position %d: %s ..]' % (arr.size, k, arr[k:k + 12].tolist())
        i, j = (d[0], max(0, (d[1] or 0) - 3)) if d else (0, 0)
        return '[.. %s entries; row %d from column %d: %s ..]' % (list(arr.shape), i, j, arr[i, j:j + 12].tolist())
    except Exception:
        return short(x)


def pair_of(n, k):
    """condensed position k of an n-row table = the pair (i, j), i < j, row-major"""
    i = 0
    while i < n - 1 and k >= n - 1 - i:
        k -= n - 1 - i
        i += 1
    return ' = pair (row %d, row %d) of %d rows' % (i, i + 1 + k, n)


def describe_objs(case):
    out = []
    for k in ('A', 'B'):
        if k in case:
            oj = case[k]
            if 'nontable' in oj:
                out.append('%s=<%s>' % (k, oj['nontable']))
            else:
                own = {c: oj['data'][c] for c in oj['columns'] if c in INTERNAL_COLS}
                if 'take' in oj:
                    out.append('%s=frame(columns=%s, index=%s, %d rows = the %d distinct rows %s repeated in the order %s%s)' %
                               (k, oj['columns'], short(oj['index'], 60), nrows(oj), len(set(oj['take'])), short([r[1:] for r in wire_rows(distinct_of(oj))], 500),
                                short(list(oj['take']), 80), (', caller\'s own loop-named columns %s' % short(own, 300)) if own else ''))
                    continue
                out.append('%s=frame(columns=%s, index=%s, rows=%s%s)' % (k, oj['columns'], short(oj['index'], 60), short([r[1:] for r in wire_rows(oj)], 400),
                                                                        (', caller\'s own loop-named columns %s' % short(own, 300)) if own else ''))
    return '; '.join(out)


def sub_frame(fj, rows):
    n = nrows(fj)
    idx = list(range(n)) if fj['index'] == 'default' else fj['index']
    if 'take' in fj:
        sub = dict(fj, index=[idx[i] for i in rows], take=[fj['take'][i] for i in rows])
        return sub if len(rows) > 12 else materialize(sub)
    return dict(columns=fj['columns'], index=[idx[i] for i in rows], data={c: [v[i] for i in rows] for c, v in fj['data'].items()},
                dtypes=fj.get('dtypes', {}))


def run_cases(ctx, cases, report=True):
    """Evaluate a batch; returns list of (case, problems)."""
    reqs, spans, treqs, tspans = [], [], [], []
    for c in cases:
        r = requests_for(c)
        spans.append((len(reqs), len(reqs) + len(r)))
        reqs += r
        objs = [c['A']] + ([c['B']] if c['kind'] == 'cdist' else [])
        tspans.append((len(treqs), len(treqs) + len(objs)))
        treqs += [is_table_req(o) for o in objs]
    outs = ctx.oracle.run_parallel(reqs, nproc=12)
    touts = ctx.oracle.run_parallel(treqs, nproc=4)
    results = []
    for c, (a, b), (ta, tb) in zip(cases, spans, tspans):
        o = outs[a:b]
        if any(isinstance(x, Exception) for x in o):
            results.append((c, [('correspondence', 'oracle error: %s' % [str(x) for x in o if isinstance(x, Exception)][:1])], o))
            continue
        results.append((c, judge(ctx, c, o, touts[ta:tb]), o))
    return results


def shrink(ctx, case, kind):
    """cheap: try every single (anchor row, comparison row) pair / row pair, keep the first that still fails the same way"""
    if any('nontable' in case[k] for k in ('A', 'B') if k in case):
        return case
    if case.get('alive'):
        # does it fail without any other metric object / earlier call?  else: with one companion and no earlier call? with the companions only?
        al = case['alive']
        variants = [{k: v for k, v in case.items() if k != 'alive'}]
        variants += [dict(case, alive=dict(before=[c], after=[], steps=[])) for c in al.get('before', [])]
        variants += [dict(case, alive=dict(before=[], after=[c], steps=[])) for c in al.get('after', [])]
        variants += [dict(case, alive=dict(before=[], after=[], steps=[[-1, h]])) for w, h in al.get('steps', []) if w < 0]
        variants += [dict(case, alive=dict(before=al.get('before', []), after=al.get('after', []), steps=[]))]
        for c, probs, _ in run_cases(ctx, variants):
            if any(k == kind for k, _ in probs):
                case = c
                break
    if is_big(case):
        case = shrink_size(ctx, case, kind)
        if is_big(case):
            return case             # needs a table of that size: no row pair fails on its own
    na = nrows(case['A'])
    cands = []
    if case['kind'] == 'cdist':
        nb = nrows(case['B'])
        for i in range(na):
            for j in range(nb):
                cands.append(dict(case, A=sub_frame(case['A'], [i]), B=sub_frame(case['B'], [j])))
    else:
        for i in range(na):
            for j in range(i + 1, na):
                cands.append(dict(case, A=sub_frame(case['A'], [i, j])))
    cands = cands[:150]
    if not cands:
        return case
    for c, probs, _ in run_cases(ctx, cands):
        if any(k == kind for k, _ in probs):
            return c
    return case


def shrink_size(ctx, case, kind):
    """large tables: per table the shortest leading part that still fails the same way (bisection; <= 12 evaluations per table)"""
    fails = lambda c: any(k == kind for k, _ in run_cases(ctx, [c])[0][1])
    for key in [k for k in ('A', 'B') if k in case and 'take' in case[k]]:
        lo, hi = 0, nrows(case[key])            # the leading hi rows fail; the leading lo rows are not known to
        for c in (2, 12):
            if c < hi and fails(dict(case, **{key: sub_frame(case[key], range(c))})):
                hi = c
                break
            lo = c
        while hi - lo > 1 and hi > 12:
            mid = (lo + hi) // 2
            if fails(dict(case, **{key: sub_frame(case[key], range(mid))})):
                hi = mid
            else:
                lo = mid
        if hi < nrows(case[key]):
            case = dict(case, **{key: sub_frame(case[key], range(hi))})
    return case


def report(ctx, case, problems):
    kinds = [k for k, _ in problems]
    kind = 'property' if 'property' in kinds else kinds[0]
    small = shrink(ctx, case, kind)
    if small is not case:
        again = run_cases(ctx, [small])[0][1]
        if any(k == kind for k, _ in again):
            case, problems = small, again
    what = '; '.join(w for k, w in problems if k == kind)
    site = 'tcr_levenshtein.%s' % ('calc_cdist_matrix' if case['kind'] == 'cdist' else 'calc_pdist_vector')
    ctx.violation(kind, what, dict(case=case), site=site)


# ------------------------------------------------------------------ generators
def gen_cdr3(rng, pool):
    r = rng.random()
    if r < 0.08:
        return ''
    if r < 0.16:
        return ''.join(rng.choice(['a', 'B', '1', '2', '3', 'A', ' ', 'é', '中', '\U0001F600', 'x', '*', '_']) for _ in range(rng.randint(1, 8)))
    if r < 0.75 and pool:
        return gens.mutate(rng, rng.choice(pool), gens.AA, rng.randint(0, 4))
    return 'C' + ''.join(rng.choice(gens.AA) for _ in range(rng.randint(5, 20))) + rng.choice('FW')


def gen_index(rng, kind, n):
    if kind == 'default':
        return 'default'
    if kind == 'shifted':
        s = rng.choice([1, 5, 100, -3])
        return list(range(s, s + n))
    if kind == 'permuted':
        p = list(range(n))
        rng.shuffle(p)
        return p
    if kind == 'duplicated':
        return [rng.choice([0, 1, 7]) for _ in range(n)] if rng.random() < 0.7 else [3] * n
    labels = ['r%d' % i for i in range(n)]
    rng.shuffle(labels)
    if rng.random() < 0.3 and n >= 2:
        labels[1] = labels[0]
    return labels


def gen_frame(rng, av, bv, special, n, kind, pool, plain=False):
    data = {
        'TRAV': [rng.choice(special[0]) if rng.random() < 0.15 else rng.choice(av) for _ in range(n)],
        'CDR3A': [gen_cdr3(rng, pool[0]) for _ in range(n)],
        'TRAJ': [rng.choice(['TRAJ12*01', 'TRAJ33*01', None]) for _ in range(n)],
        'TRBV': [rng.choice(special[1]) if rng.random() < 0.1 else rng.choice(bv) for _ in range(n)],
        'CDR3B': [gen_cdr3(rng, pool[1]) for _ in range(n)],
        'TRBJ': [rng.choice(['TRBJ2-7*01', 'TRBJ1-1*01', None]) for _ in range(n)],
    }
    cols = list(TCR_COLS)
    dtypes = {}
    if not plain:
        if rng.random() < 0.25:
            data['clone_count'] = [rng.randint(1, 50) for _ in range(n)]
            data['Epitope'] = [rng.choice(['GILGFVFTL', 'NLVPMVATV']) for _ in range(n)]
            cols += ['clone_count', 'Epitope']
        if rng.random() < 0.3:
            # the caller's own columns named like the implementation's loop columns: the loops are those of the row's V allele
            add_loop_named_columns(rng, data, cols, n, av, bv)
        if rng.random() < 0.3:
            rng.shuffle(cols)
        if rng.random() < 0.12 and n > 0:
            dtypes = {'TRAV': 'category', 'TRBV': 'category'}
        elif rng.random() < 0.1 and n > 0:
            dtypes = {'CDR3A': 'string', 'CDR3B': 'string'}
    return dict(columns=cols, index=gen_index(rng, kind, n), data={c: data[c] for c in cols}, dtypes=dtypes)


def gen_big_frame(rng, av, bv, special, n, kind, pool, plain=False):
    """a table of n rows made of 4-8 distinct rows in random order (each at least once)"""
    k = min(n, rng.randint(4, 8))
    fj = gen_frame(rng, av, bv, special, k, 'default', pool, plain=plain)
    take = list(range(k)) + [rng.randrange(k) for _ in range(n - k)]
    rng.shuffle(take)
    return dict(fj, index=gen_index(rng, kind, n), take=take)


SIZE_BANDS = [(13, 100), (101, 400), (401, 1000), (1001, 1300), (1301, 2600)]
ROUND_SIZES = [16, 32, 50, 64, 100, 128, 200, 250, 256, 500, 512, 1000, 1024, 2000, 2048]


def gen_size(rng, band):
    """a row count of the band; half of the time next to a round number of the band (block / chunk sizes of an implementation are round numbers)"""
    lo, hi = SIZE_BANDS[band]
    near = [r + d for r in ROUND_SIZES for d in (-1, 0, 1, 2, 3) if lo <= r + d <= hi]
    return rng.choice(near) if near and rng.random() < 0.5 else rng.randint(lo, hi)


def ncolumns(cls):
    cs, ls, _ = CLASSES[cls]
    return (2 if cs == 0 else 1) * (3 if ls == 0 else 1)


def gen_sized_case(rng, av, bv, special, kind, na, nb, budget):
    """one case on large table(s).  `budget` bounds the number of per-pair Python-level scorer calls (entries x loop columns) a case with
    explicit edit weights may need (cost control only): such a case takes a class that fits, else the case keeps the unit / default scorer."""
    pool = (['C' + ''.join(rng.choice(gens.AA) for _ in range(rng.randint(6, 16))) + 'F' for _ in range(3)],
            ['CASS' + ''.join(rng.choice(gens.AA) for _ in range(rng.randint(4, 14))) + 'F' for _ in range(3)])
    entries = na * nb if kind == 'cdist' else na * na       # pdist evaluates the square
    mode = rng.choice(ALL_MODES)
    classes = list(CLASSES)
    if mode in EDIT_MODES:
        classes = [c for c in CLASSES if entries * ncolumns(c) <= budget]
        if not classes:
            mode, classes = rng.choice(['unit', 'default']), list(CLASSES)
    cls = rng.choice(classes)
    mk = lambda n: (gen_big_frame if n > 12 else gen_frame)(rng, av, bv, special, n, rng.choice(INDEX_KINDS), pool, plain=rng.random() < 0.6)
    case = dict(kind=kind, cls=cls, A=mk(na), **gen_weights(rng, cls, mode))
    if kind == 'cdist':
        case['B'] = mk(nb)
    return case


def junk_column(rng, name, data, n, av, bv):
    """content of a caller's column that merely has the NAME of an internal loop column"""
    r = rng.random()
    if r < 0.15:
        return [rng.choice(['ZZZZ', 'QQ', ''])] * n
    if r < 0.35:
        return [''.join(rng.choice(gens.AA + '.') for _ in range(rng.randint(0, 12))) for _ in range(n)]
    if r < 0.6:
        # loops of some other allele (an annotation made before the V call was corrected), possibly IMGT-gapped
        out = []
        for _ in range(n):
            l = loops_of(rng.choice(av if rng.random() < 0.5 else bv))[rng.randint(0, 1)]
            out.append(l[:len(l) // 2] + '....' + l[len(l) // 2:] if rng.random() < 0.4 else l)
        return out
    if r < 0.8:
        # the row's own loops under the wrong name: other chain and / or other loop
        V = data['TRBV'] if (name.endswith('A') or rng.random() < 0.3) else data['TRAV']
        k = 1 if '1' in name else 0
        return [loops_of(v)[k] for v in V]
    if r < 0.9:
        return [None] * n
    return [rng.randint(0, 9) for _ in range(n)]


def add_loop_named_columns(rng, data, cols, n, av, bv, names=None):
    if names is None:
        names = list(LOOP_COLS) if rng.random() < 0.5 else rng.sample(INTERNAL_COLS, rng.randint(1, len(INTERNAL_COLS)))
        rng.shuffle(names)
    for c in names:
        data[c] = junk_column(rng, c, data, n, av, bv)
    if rng.random() < 0.3:
        cols[:0] = names            # in front of the TCR columns
    else:
        cols += names


def gen_ctor(rng, case):
    """another metric object to keep alive next to the one under test: same class with other weights, or another class"""
    cls = case['cls'] if rng.random() < 0.5 else rng.choice(list(CLASSES))
    return dict(cls=cls, **gen_weights(rng, cls, rng.choice(ALL_MODES)))


def add_alive(rng, case, p=0.7):
    """several metric objects constructed up front, evaluated in an interleaved order, the one under test judged last"""
    if rng.random() >= p:
        return case
    before = [gen_ctor(rng, case) for _ in range(rng.choice([0, 0, 1, 2]))]
    after = [gen_ctor(rng, case) for _ in range(rng.choice([0, 1, 1, 2]))]
    steps = []
    for _ in range(rng.choice([0, 0, 1, 2, 3])):
        who = rng.randint(-1, len(before) + len(after) - 1)
        hows = STEP_HOWS if case['kind'] == 'cdist' else ['same', 'selfA', 'pdistA']
        steps.append([who, rng.choice(hows)])
    if rng.random() < 0.3:
        steps.append([-1, 'edited'])          # last step before the judged call, on the metric under test
    case['alive'] = dict(before=before, after=after, steps=steps)
    return case


def gen_weights(rng, cls, mode):
    """constructor arguments; mode 'unit' keeps insertion=deletion=substitution=1 (the C scorer path), 'weighted' = three distinct primes,
    'uniform' = one common edit weight > 1 (w, w, w), 'mixed' = each of the three drawn independently from {1, 2, 3, 5, 7}, not all 1
    (so one or two of them may be 1, and two or all three may coincide)"""
    ws = rng.sample(SMALL_PRIMES, 3) + rng.sample(PRIMES, 5)
    if mode == 'uniform':
        ws[:3] = [rng.choice(SMALL_PRIMES)] * 3
    elif mode == 'mixed':
        while True:
            ws[:3] = [rng.choice([1] + SMALL_PRIMES) for _ in range(3)]
            if ws[:3] != [1, 1, 1]:
                break
    kwargs, pos = {}, []
    if mode == 'default':
        return dict(pos=[], kwargs={})
    if mode != 'unit':
        if rng.random() < 0.4:
            pos = ws[:3]
        else:
            kwargs.update(insertion_weight=ws[0], deletion_weight=ws[1], substitution_weight=ws[2])
    for name, w in zip(CLASSES[cls][2], ws[3:]):
        if rng.random() < 0.9:
            kwargs[name] = w
    return dict(pos=pos, kwargs=kwargs)


def nontable_objects(rng):
    objs = [dict(nontable=k) for k in ('none', 'list', 'ndarray', 'str', 'series', 'dict', 'records', 'duck', 'tuple_of_frames')]
    # frames without any TCR column (near misses included)
    for cols in ([], ['x'], ['trav', 'cdr3a'], ['CDR3', 'V', 'J'], ['TRAV ', 'CDR3A_'], ['v_call', 'junction_aa'], ['CDR1A', 'CDR2A', 'TRAC'], [0, 1]):
        n = rng.randint(0, 3)
        objs.append(dict(columns=[str(c) for c in cols], index='default', data={str(c): ['CASSF'] * n for c in cols}, dtypes={}))
    return objs


# ------------------------------------------------------------------ run
def run(ctx):
    rng = ctx.rng
    ctx.rule = ('six classes x tables of 0..12 rows (V alleles drawn from the %s human TRAV/TRBV alleles tidytcells has sequence data '
                'for, the alleles without a CDR2 over-represented; CDR3 = mutated clones, random strings, empty, non-amino-acid / '
                'non-BMP text) x constructor weights that are pairwise distinct primes (or the unit scorer path, or all defaults; or one common edit '
                'weight w > 1 for insertion = deletion = substitution; or each edit weight drawn independently from {1, 2, 3, 5, 7}, not all 1) x '
                'index kinds {default, shifted, permuted, duplicated, string} chosen independently for anchors and comparisons x '
                'extra / stale / shuffled columns, category / string dtypes; plus the full product class x anchor index x comparison '
                'index x scorer path on one fixed table pair; plus non-table objects in every argument position. Tables may carry the '
                'caller\'s own columns named CDR1A / CDR2A / CDR1B / CDR2B / CDR1X / CDR2X (any subset, any content); 50-70 %% of the cases '
                'construct 1-4 further metric objects (same class with other weights, or another class) before / after the one under test, '
                'keep them alive, and evaluate them or the metric under test on other argument combinations before the judged call; plus large tables '
                '(13-100, 101-400, 401-1000, 1001-1300 rows; thorough also 1301-2600; half of the sizes next to a round number) for calc_pdist_vector '
                'and for calc_cdist_matrix (large x small, small x large, large x large), built from 4-8 distinct rows repeated in random order, '
                'expected values expanded from the distinct rows\' distance table by C09_row_local + C09_pdist_condensed. non-trivial := '
                'both tables have >= 2 rows, some entry is non-zero, and the weights in scope are pairwise distinct primes')
    av, bv = allele_pools()
    ctx.rule = ctx.rule % (len(av) + len(bv))
    try:
        import json, os, core
        st = json.load(open(os.path.join(core.BUILD, 'regen_status.json')))
        for k, v in st.items():
            if k.startswith('c09.') and v.get('error'):
                ctx.note('%s: %s' % (k, v['error']))
                ctx.extra.setdefault('regen', {})[k] = v['error']
    except Exception:
        pass
    no_c2 = [a for a in av if loops_of(a)[1] == ''] or av[:1]
    no_c2b = [b for b in bv if loops_of(b)[1] == '' or loops_of(b)[0] == ''] or bv[:1]
    special = (no_c2, no_c2b)
    ctx.count('alleles without CDR1 or CDR2 in the reference', len([a for a in av + bv if '' in loops_of(a)]))
    ctx.assumptions += ['tidytcells.tr.get_aa_sequence is the gene reference (CDR1-IMGT / CDR2-IMGT of an allele, absent key = empty loop): '
                        'its content is an input of the model, not verified',
                        'rapidfuzz process.cdist values and result dtypes (uint32 for the C scorer, float32 for the Python-lambda scorer: exact '
                        'below 2^24, the largest value generated here is below 4*10^6); pandas column assignment inside the copied frame; '
                        'scipy squareform(checks=False) = strict upper triangle, row-major']
    cases = []
    # (a) full configuration product on one fixed pair of tables
    pool = (['CAVRDSNYQLIW', 'CAVSDRGSTLGRLYF'], ['CASSIRSSYEQYF', 'CASSLAPGATNEKLFF'])
    fixedA = gen_frame(rng, av, bv, special, 3, 'default', pool, plain=True)
    fixedB = gen_frame(rng, av, bv, special, 4, 'default', pool, plain=True)
    fixedA['data']['TRAV'][0] = no_c2[0]
    kinds_a = INDEX_KINDS
    kinds_b = INDEX_KINDS if not ctx.quick else ['default', 'permuted', 'duplicated']
    nprod = 0
    for cls in CLASSES:
        for ka in kinds_a:
            for kb in kinds_b:
                nprod += 1
                for mode in ('unit', 'weighted', 'uniform', 'mixed') if not ctx.quick else ('unit', 'weighted', ('uniform', 'mixed')[nprod % 2]):
                    A = dict(fixedA, index=gen_index(rng, ka, 3))
                    B = dict(fixedB, index=gen_index(rng, kb, 4))
                    w = gen_weights(rng, cls, mode)
                    cases.append(add_alive(rng, dict(kind='cdist', cls=cls, A=A, B=B, tag=('product', ka, kb, mode), **w), p=0.5))
                A = dict(fixedA, index=gen_index(rng, ka, 3))
                mode = rng.choice(EDIT_MODES)
                cases.append(add_alive(rng, dict(kind='pdist', cls=cls, A=A, tag=('product', ka, '-', mode), **gen_weights(rng, cls, mode)), p=0.5))
    # (a2) class x {cdist anchors, cdist comparisons, cdist both, pdist} x which loop-named columns the caller's table carries
    for cls in CLASSES:
        for names in (LOOP_COLS, ['CDR1A', 'CDR2A'], ['CDR1B', 'CDR2B'], ['CDR1A', 'CDR1B'], ['CDR2A', 'CDR2B'], INTERNAL_COLS):
            fr = []
            for f in (fixedA, fixedB):
                data, cols = {c: list(v) for c, v in f['data'].items()}, list(f['columns'])
                add_loop_named_columns(rng, data, cols, len(data['TRAV']), av, bv, names=list(names))
                fr.append(dict(f, columns=cols, data=data))
            where = rng.choice(['anchors', 'comparisons', 'both']) if ctx.quick and names is not LOOP_COLS else None
            for wh, A, B in (('anchors', fr[0], fixedB), ('comparisons', fixedA, fr[1]), ('both', fr[0], fr[1])):
                if where in (None, wh):
                    cases.append(dict(kind='cdist', cls=cls, A=A, B=B, tag=('product', 'default', 'default', 'weighted'), **gen_weights(rng, cls, 'weighted')))
            cases.append(dict(kind='pdist', cls=cls, A=fr[0], tag=('product', 'default', '-', 'weighted'), **gen_weights(rng, cls, 'weighted')))
    ctx.exhaustive = True
    # (b) random tables
    nrand = 400 if ctx.quick else 4000
    for t in range(nrand):
        cls = rng.choice(list(CLASSES))
        pool = (['C' + ''.join(rng.choice(gens.AA) for _ in range(rng.randint(6, 16))) + 'F' for _ in range(3)],
                ['CASS' + ''.join(rng.choice(gens.AA) for _ in range(rng.randint(4, 14))) + 'F' for _ in range(3)])
        na = rng.choice([0, 1, 2]) if rng.random() < 0.08 else rng.randint(3, 12)
        nb = rng.choice([0, 1, 2]) if rng.random() < 0.08 else rng.randint(3, 12)
        ka, kb = rng.choice(INDEX_KINDS), rng.choice(INDEX_KINDS)
        mode = rng.choice(ALL_MODES)
        A = gen_frame(rng, av, bv, special, na, ka, pool)
        B = gen_frame(rng, av, bv, special, nb, kb, pool)
        w = gen_weights(rng, cls, mode)
        cases.append(add_alive(rng, dict(kind='cdist', cls=cls, A=A, B=B, tag=('random', ka, kb, mode), **w)))
        if t % 2 == 0:
            cases.append(add_alive(rng, dict(kind='pdist', cls=cls, A=A, tag=('random', ka, '-', mode), **w)))
        if t % 10 == 0 and na > 0:
            # a table holding only the columns of one chain, for the metrics of that chain's CDR3
            c1 = rng.choice(['AlphaCdr3Levenshtein', 'BetaCdr3Levenshtein'])
            keep = ['CDR3A', 'TRAV'] if c1.startswith('Alpha') else ['TRBV', 'CDR3B']
            A1 = dict(A, columns=keep, data={c: A['data'][c] for c in keep}, dtypes={})
            cases.append(add_alive(rng, dict(kind='cdist', cls=c1, A=A1, B=B, tag=('one-chain table', ka, kb, mode), **gen_weights(rng, c1, mode))))
    # (f) large tables (13 .. 1300 rows; thorough .. 2600): a few distinct rows repeated in random order; expected values expanded from the
    #     distinct rows' distance table (C09_row_local + C09_pdist_condensed).  The value of a pair may not depend on how many rows the table has.
    budget = 400000 if ctx.quick else 4000000
    top = 3 if ctx.quick else 4
    sized = []
    for rnd in range(1 if ctx.quick else 6):
        for cls_i in range(len(CLASSES)):
            n = gen_size(rng, 3 if (ctx.quick or cls_i % 2) else 4)       # more than 1000 rows, every class, cheap scorer
            c = gen_sized_case(rng, av, bv, special, 'pdist', n, 0, 0)
            c['cls'] = list(CLASSES)[cls_i]
            c.update(gen_weights(rng, c['cls'], rng.choice(['unit', 'default'])))
            sized.append(c)
        for band in range(top + 1):
            for _ in range(2):
                sized.append(gen_sized_case(rng, av, bv, special, 'pdist', gen_size(rng, band), 0, budget))
        for _ in range(1 if ctx.quick else 2):                            # explicit edit weights on more than 1000 rows
            c = gen_sized_case(rng, av, bv, special, 'pdist', rng.randint(1001, 1040 if ctx.quick else 1100), 0, 0)
            c['cls'] = rng.choice(['AlphaCdr3Levenshtein', 'BetaCdr3Levenshtein'] if ctx.quick else list(CLASSES)[:3])
            c.update(gen_weights(rng, c['cls'], rng.choice(EDIT_MODES)))
            sized.append(c)
        for band in range(top + 1):
            small = rng.randint(1, 12)
            big, big2 = gen_size(rng, band), gen_size(rng, rng.randint(0, band))
            sized.append(gen_sized_case(rng, av, bv, special, 'cdist', big, small, budget))
            sized.append(gen_sized_case(rng, av, bv, special, 'cdist', small, big, budget))
            sized.append(gen_sized_case(rng, av, bv, special, 'cdist', big, big2, budget))
            sized.append(gen_sized_case(rng, av, bv, special, 'cdist', big2, big, budget))
    for c in sized:
        c['tag'] = ('sized', 'any', 'any', 'unit' if cfg_of(c)[2] == (1, 1, 1) else 'explicit edit weights')
    cases += sized
    # (c) inputs that are not TCR tables, in every argument position
    good = gen_frame(rng, av, bv, special, 3, 'permuted', pool, plain=True)
    for bad in nontable_objects(rng):
        for cls in (list(CLASSES) if not ctx.quick else rng.sample(list(CLASSES), 3)):
            w = gen_weights(rng, cls, rng.choice(['weighted', 'uniform', 'default']))
            cases.append(dict(kind='cdist', cls=cls, A=bad, B=good, tag=('non-table', 'anchors'), **w))
            cases.append(dict(kind='cdist', cls=cls, A=good, B=bad, tag=('non-table', 'comparisons'), **w))
            cases.append(dict(kind='cdist', cls=cls, A=bad, B=bad, tag=('non-table', 'both'), **w))
            cases.append(dict(kind='pdist', cls=cls, A=bad, tag=('non-table', 'instances'), **w))

    results = run_cases(ctx, cases)
    nviol = 0
    biggest = max([v for _, _, o in results if len(o) > 1 and not isinstance(o[1], Exception)
                   for r in o[1] for v in (r if isinstance(r, list) else [r])] or [0])
    ctx.note('largest specification value generated: %d (float32 / uint32 storage is exact below 2^24 = 16777216, C09_bounded)' % biggest)
    assert biggest < 2 ** 24, 'generator left the exact-storage domain'
    for n, (case, problems, outs) in enumerate(results):
        tag = case.get('tag', ('?',))
        cs, ls, w3, w5 = cfg_of(case)
        ctx.count('class=' + case['cls'])
        ctx.count('kind=' + tag[0])
        if case.get('alive'):
            al = case['alive']
            ctx.count('other metric objects alive=%d' % (len(al['before']) + len(al['after'])))
            ctx.count('earlier calls=%d' % len(al['steps']))
        for k in ('A', 'B'):
            if k in case and 'nontable' not in case[k] and any(c in INTERNAL_COLS for c in case[k]['columns']):
                ctx.count('table with caller\'s loop-named columns: ' + ('all four' if set(LOOP_COLS) <= set(case[k]['columns']) else 'some'))
        if tag[0] in ('product', 'random', 'one-chain table'):
            ctx.count('anchor index=' + tag[1])
            ctx.count('scorer=' + tag[3])
            na = nrows(case['A'])
            ctx.count('rows=' + ('0-2' if na <= 2 else '3-12'))
            if len(set(w3)) < 3 and w3 != (1, 1, 1):
                ctx.count('edit weights not pairwise distinct: ' + ('all three equal (> 1)' if len(set(w3)) == 1 else 'two equal'))
        if tag[0] == 'sized':
            ctx.count('scorer=' + tag[3])
            for k in ('A', 'B'):
                if k in case:
                    nk = nrows(case[k])
                    ctx.count('large-table case: rows of a table=' + ('<= 12' if nk <= 12 else '13-100' if nk <= 100 else '101-400' if nk <= 400 else
                                                                      '401-1000' if nk <= 1000 else '1001-1300' if nk <= 1300 else '1301-2600'))
        nt = None
        if tag[0] != 'non-table' and len(outs) > 1 and not isinstance(outs[1], Exception):
            spec = outs[1]
            flat = [v for r in spec for v in (r if isinstance(r, list) else [r])]
            inscope = [w5[0]] * (cs in (0, 1) and 'alpha_weight' in CLASSES[case['cls']][2]) + [w5[1]] * (cs in (0, 2) and 'beta_weight' in CLASSES[case['cls']][2]) \
                + ([w5[2], w5[3], w5[4]] if ls == 0 else [])
            if any(v > 0 for v in flat) and len(flat) >= 2 and len(set(inscope)) == len(inscope) and all(w > 1 for w in inscope) and len(set(w3)) == 3:
                nt = ('c09', case['cls'], tuple(flat[:40]), w3, w5)
        sample = None
        if nt is not None and n % 97 == 0:
            sample = dict(call='%s(%s).%s' % (case['cls'], fmt_args(case), 'calc_cdist_matrix' if case['kind'] == 'cdist' else 'calc_pdist_vector'),
                          anchors=[r[1:] for r in wire_rows(case['A'])][:3], anchor_index=short(case['A']['index'], 40), spec=short(outs[1], 120))
        ctx.case(sample=sample, nontrivial_key=nt)
        if problems:
            report(ctx, case, problems)
            nviol += 1
            if nviol >= 4:
                break
        elif tag[0] == 'product' and case['kind'] == 'cdist' and tag[1] == 'default' and tag[2] == 'default' and len(ctx.vm_cases) < 12:
            reqs = requests_for(case)
            ctx.add_vm(reqs[1][0], reqs[1][1], outs[1])
            ctx.add_vm(reqs[0][0], reqs[0][1], outs[0])

    # (d) additivity on the implementation's own outputs, exact integers
    if nviol == 0:
        additivity(ctx, rng, av, bv, special)
    # (e) class scopes as regenerated vs intended (auxiliary: localises a proof break)
    scopes = ctx.oracle.run([('api_c09_class_scope', [name]) for name in CLASSES])
    for name, sc in zip(CLASSES, scopes):
        if sc != CLASSES[name][:2]:
            ctx.note('generated class table: %s has scope %s, intended %s' % (name, sc, CLASSES[name][:2]))


def additivity(ctx, rng, av, bv, special):
    import pyrepseq.metric.tcr_metric as tm
    for t in range(12 if ctx.quick else 120):
        pool = (['CAVRDSNYQLIW'], ['CASSIRSSYEQYF'])
        A = gen_frame(rng, av, bv, special, rng.randint(2, 6), rng.choice(INDEX_KINDS), pool)
        B = gen_frame(rng, av, bv, special, rng.randint(2, 6), rng.choice(INDEX_KINDS), pool)
        ws = rng.sample(SMALL_PRIMES, 3) + rng.sample(PRIMES, 5)
        if t % 4 == 1:
            ws[:3] = [ws[0]] * 3            # one common edit weight > 1
        w3 = dict(insertion_weight=ws[0], deletion_weight=ws[1], substitution_weight=ws[2]) if t % 3 else {}
        cd = dict(cdr1_weight=ws[5], cdr2_weight=ws[6], cdr3_weight=ws[7])
        for paired, alpha, beta, extra in ((tm.Cdr3Levenshtein, tm.AlphaCdr3Levenshtein, tm.BetaCdr3Levenshtein, {}),
                                           (tm.CdrLevenshtein, tm.AlphaCdrLevenshtein, tm.BetaCdrLevenshtein, cd)):
            fa, fb = make_frame(A), make_frame(B)
            # the three metric objects exist side by side (constructed in a random order) and are evaluated in a random order
            made, got = {}, {}
            ctors = dict(p=lambda: paired(alpha_weight=ws[3], beta_weight=ws[4], **w3, **extra), a=lambda: alpha(**w3, **extra), b=lambda: beta(**w3, **extra))
            for k in rng.sample('pab', 3):
                made[k] = call_impl(ctors[k])
            for k in rng.sample('pab', 3):
                got[k] = call_impl(made[k][1].calc_cdist_matrix, fa, fb) if made[k][0] == 'ok' else made[k]
            p, a, b = got['p'], got['a'], got['b']
            ctx.case(nontrivial_key=('additive', paired.__name__, t))
            ok = p[0] == a[0] == b[0] == 'ok'
            if ok:
                pl, al, bl = np.asarray(p[1]).tolist(), np.asarray(a[1]).tolist(), np.asarray(b[1]).tolist()
                ok = all(x == ws[3] * int(y) + ws[4] * int(z) and float(y).is_integer() and float(z).is_integer()
                         for r, s, u in zip(pl, al, bl) for x, y, z in zip(r, s, u)) and len(pl) == len(al) == len(bl)
            if not ok:
                case = dict(kind='cdist', cls=paired.__name__, A=A, B=B, pos=[], kwargs=dict(alpha_weight=ws[3], beta_weight=ws[4], **w3, **extra))
                ctx.violation('property', '%s(alpha_weight=%d, beta_weight=%d, ...) != %d * %s + %d * %s entrywise: %s vs %s, %s (%s)' %
                              (paired.__name__, ws[3], ws[4], ws[3], alpha.__name__, ws[4], beta.__name__, short(p, 150), short(a, 150), short(b, 150),
                               describe_objs(case)), dict(case=case, additivity=True), site='tcr_levenshtein.calc_cdist_matrix')
                return


def replay(ctx, obj):
    rep = obj.get('replay') or {}
    case = rep.get('case')
    if not case:
        return run(ctx)
    ctx.rule = 'replay of one stored case'
    allele_pools()
    for c, problems, outs in run_cases(ctx, [case]):
        ctx.case(sample=dict(case=short(case, 400)), nontrivial_key=('replay',))
        if problems:
            kinds = [k for k, _ in problems]
            kind = 'property' if 'property' in kinds else kinds[0]
            ctx.violation(kind, '; '.join(w for k, w in problems if k == kind), dict(case=case),
                          site='tcr_levenshtein.%s' % ('calc_cdist_matrix' if case['kind'] == 'cdist' else 'calc_pdist_vector'))
    if rep.get('additivity'):
        run(ctx)
