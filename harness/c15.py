"""C15 - clusters are the connected components / SciPy clusters of the stated distances.

(a) graph_clustering(adj, nodes, 'cc')            vs api_graph_cc (proved = path connectivity, C15_components / C15_cc_output)
                                                  incl. the two-collection search of a collection against itself (self pairs (i, i, 0))
(b) graph_clustering(adj, nodes, <community>)     refinement of api_components (C15_refinement), incl. repertoires with more than
                                                  100 clusters (many small components + components that the community methods split)
(c) hierarchical_clustering(seqs, ...)            vs scipy linkage / fcluster applied to the MODEL's condensed distance vector
(d) single linkage cut at t                       vs api_components of the max_edits = t neighbour graph from the real search
                                                  and vs the single-linkage model's cut (C15_single_linkage_cut / _neighbour_graph)
Audit widening (NOTES.md): (a)-(d) over the containers / forms / sizes / options / call histories the parts above never generated:
cc_input_kinds, cc_raw_search, cc_large, cc_refill, community_extra, hc_extras, hc_refill, sl_extras (all drawn after the older parts).
"""
import itertools
import numpy as np
import pandas as pd
import gens
from gens import repertoire, all_strings, shrink_list
from core import call_impl, jsonable

ENGINES = ['nearest_neighbor', 'symdel', 'kdtree', 'hash_based']
CROSS_ENGINES = ['nearest_neighbor_x', 'symdel_x']          # the engines that take seqs2
COMMUNITY = ['fastgreedy', 'multilevel', 'leiden', 'label_propagation', 'walktrap', 'infomap']
COMMUNITY_KW = {'leiden': [dict(), dict(objective_function='modularity')], 'walktrap': [dict(), dict(steps=2)],
                'infomap': [dict(), dict(trials=2)]}


def steered_kwargs(rng, method, n):
    """options handed through to igraph that SUGGEST a coarser partition than the components: seed labels shared by all nodes
    (semi-supervised label propagation), a starting partition with everything in one block refined at resolution 0 (leiden / CPM).
    The statement holds for them as for the defaults: a cluster never spans two components."""
    if method == 'label_propagation':
        initial = [rng.choice([0, 0, 0, 1, -1]) for _ in range(n)]
        if all(x < 0 for x in initial):
            initial[0] = 0
        return dict(initial=initial, fixed=[x >= 0 and rng.random() < 0.8 for x in initial])
    if method == 'leiden':
        return dict(objective_function='CPM', resolution=0.0, initial_membership=[rng.choice([0, 0, 0, 1]) for _ in range(n)])
    return None


# ------------------------------------------------------------------ canonical forms
def partition_of(labels):
    """labelling (one cluster id per node) -> canonical partition: sorted list of sorted node lists."""
    d = {}
    for u, c in enumerate(labels):
        d.setdefault(c, []).append(u)
    return sorted(sorted(v) for v in d.values())


def label_clusters(pairs):
    """[(label, cluster id)] -> sorted list of sorted label lists (cluster ids renamed away)."""
    d = {}
    for lab, c in pairs:
        d.setdefault(c, []).append(lab)
    return sorted(sorted(v) for v in d.values())


def _lab(a):
    """canonical text of a node label: str() as before, but a tuple / a Python or NumPy integer keep their kind ((…) / i:…), so that (a, b) is not
    the text of a list and 101 is not '101'"""
    if isinstance(a, tuple):
        return 'tuple:' + repr(tuple(a))
    return str(a)


def frame_pairs(df):
    """(label, cluster id) rows of the DataFrame returned by graph_clustering."""
    if not isinstance(df, pd.DataFrame) or 'cluster' not in df.columns or len(df.columns) < 2:
        raise ValueError('not a (label, cluster) table: %r' % (df,))
    labcol = [c for c in df.columns if c != 'cluster'][0]
    return [(_lab(a), int(c)) for a, c in zip(df[labcol].tolist(), df['cluster'].tolist())]


def edges_of(adj):
    return [(int(t[0]), int(t[1])) for t in adj]


def search(engine, seqs, k, raw=False):
    """neighbour triplets from the real search function; k = 0 keeps the distance-0 pairs of the k = 1 search
    (the search functions reject max_edits = 0). raw: the object the search returns, untouched (what a caller hands straight on to
    graph_clustering: whatever integer types the engine happens to produce), output_type left at its default."""
    import pyrepseq.nn as nn
    if raw:
        return getattr(nn, engine)(list(seqs), max_edits=max(1, k))
    if engine.endswith('_x'):
        # the two-collection form of the search with the collection searched against itself (seqs2 = seqs): every sequence is
        # listed as its own neighbour, (i, i, 0), next to the pairs of the one-collection form
        res = getattr(nn, engine[:-2])(list(seqs), max_edits=max(1, k), seqs2=list(seqs), output_type='triplets')
    elif engine == 'kdtree_top1':
        # max_returns=1: each sequence lists only its nearest neighbour, so the list is NOT symmetric (an edge may appear in one
        # orientation only) - still a neighbour list produced by the search functions
        res = nn.kdtree(list(seqs), max_edits=max(1, k), max_returns=1, output_type='triplets')
    else:
        fn = getattr(nn, engine)
        res = fn(list(seqs), max_edits=max(1, k), output_type='triplets')
    res = [(int(a), int(b), int(d)) for a, b, d in res]
    if k == 0:
        res = [t for t in res if t[2] == 0]
    return res


def engine_ok(engine, seqs, k):
    """documented limits of the alternative engines (amino-acid alphabet; hash_based enumerates the edit ball)."""
    if engine in ('kdtree', 'kdtree_top1', 'hash_based') and any(c not in gens.AA for s in seqs for c in s):
        return False
    if engine == 'hash_based' and (k > 2 or any(len(s) > (13 if k <= 1 else 8) for s in seqs) or (k == 2 and len(seqs) > 25)):
        return False
    return True


ADJ_KINDS = ['list', 'lists', 'tuple', 'ndarray', 'int32', 'float64', 'floatdist', 'npscalars', 'fortran', 'view']
NODE_KINDS = ['list', 'tuple', 'ndarray', 'ndarray_U', 'series', 'series_perm', 'series_str', 'index', 'categorical', 'series_dupidx', 'series_dupidx3']


def adj_as(kind, adj):
    """the neighbour list in the containers a caller holds it in (array_like of (i, j, dist))."""
    if kind in ('raw', 'asis'):
        return adj
    if kind == 'list':
        return [tuple(t) for t in adj]
    if kind == 'ndarray':
        return np.array(adj) if adj else np.array(adj)
    if kind == 'ndarray0x3':
        return np.array(adj, dtype=np.int64).reshape(-1, 3)
    if kind == 'lists':
        return [list(t) for t in adj]
    if kind == 'tuple':
        return tuple(tuple(t) for t in adj)
    if kind == 'int32':
        return np.array(adj, dtype=np.int32).reshape(-1, 3)
    if kind == 'float64':                 # what np.array makes of triplets with a float (custom) distance
        return np.array(adj, dtype=np.float64).reshape(-1, 3)
    if kind == 'floatdist':               # python tuples (int, int, float)
        return [(int(a), int(b), float(d) + 0.5) for a, b, d in adj]
    if kind == 'npscalars':
        return [(np.int64(a), np.int32(b), np.int64(d)) for a, b, d in adj]
    if kind == 'fortran':
        return np.asfortranarray(np.array(adj, dtype=np.int64).reshape(-1, 3))
    if kind == 'view':                    # every second column of a wider table: not contiguous
        wide = np.full((len(adj), 6), -7, dtype=np.int64)
        wide[:, ::2] = np.array(adj, dtype=np.int64).reshape(-1, 3)
        return wide[:, ::2]
    raise ValueError(kind)


def nodes_as(which, labels):
    """the caller's node labels in the containers a caller uses: list, tuple, ndarray (object / fixed-width dtype), a column of a
    filtered / re-ordered table (Series whose index is not 0..n-1: shifted, a permutation of 0..n-1, strings), pandas Index,
    Categorical. (numbers: the four forms used by the older parts)"""
    labels = list(labels)
    n = len(labels)
    if which == 1 or which == 'ndarray':
        return np.array(labels, dtype=object)
    if which == 2:
        return pd.Series(labels, index=[3 * i + 5 for i in range(n)][::-1], dtype=object)
    if which == 3 or which == 'index':
        return pd.Index(labels)
    if which == 'tuple':
        return tuple(labels)
    if which == 'ndarray_U':
        return np.array(labels)
    if which == 'series':
        return pd.Series(labels, dtype=object)
    if which == 'series_perm':            # index = a permutation of 0..n-1: label-based and positional access differ
        return pd.Series(labels, index=[(i + 1) % n for i in range(n)][::-1], dtype=object)
    if which == 'series_str':
        return pd.Series(labels, index=['row%d' % (n - i) for i in range(n)], dtype=object)
    if which == 'categorical':
        return pd.Categorical(labels)
    if which == 'series_dupidx':          # repeated index labels (two repertoires concatenated without ignore_index): rows are positions
        return pd.Series(labels, index=[i // 2 for i in range(n)], dtype=object)
    if which == 'series_dupidx3':
        return pd.Series(labels, index=[i % 3 for i in range(n)], dtype=object)
    return labels


# ------------------------------------------------------------------ (a) connected components
def cc_outcome(adj, kind, labels, nkind=None):
    from pyrepseq.clustering import graph_clustering
    nodes = nodes_as(len(adj) % 4 if nkind is None else nkind, labels)
    held = adj_as(kind, adj)
    snap = held.copy() if isinstance(held, np.ndarray) else None
    if snap is not None and len(adj) % 3 == 0:
        held.setflags(write=False)          # a neighbour list the caller cannot write to (a view of a table): reading is all that is needed
    if nkind is not None and len(adj) % 2:
        g = call_impl(lambda: graph_clustering(nodes=nodes, adjacency_matrix=held, clustering='cc'))
    else:
        g = call_impl(lambda: graph_clustering(held, nodes, 'cc'))
    if g[0] != 'ok':
        return g
    if snap is not None and not np.array_equal(held, snap):
        # the caller's neighbour list is an input: it holds the same triplets afterwards (seeded change C15-r9m1: rows sorted in place)
        return ('exc', 'ArgumentModified: the neighbour array handed in was changed by the call (first rows now %s, were %s)' % (held[:3].tolist(), snap[:3].tolist()))
    try:
        return ('ok', label_clusters(frame_pairs(g[1])))
    except Exception as e:
        return ('exc', 'BadFrame:%s' % e)


def check_cc(ctx, n, adj, kind, labels, desc, seqs=None, engine=None, k=None, nkind=None):
    """returns True when implementation and model agree. nkind: container of the node labels (None: the older parts' rule)."""
    raw = kind == 'raw'
    exp_pairs = ctx.oracle.run([('api_graph_cc', [n, edges_of(adj)])])[0]
    expected = label_clusters([(_lab(labels[u]), c) for u, c in exp_pairs])
    got = cc_outcome(adj, kind, labels, nkind)
    if got == ('ok', expected):
        return True
    rep = dict(part='cc', n=n, adj=[tuple(int(x) for x in t) for t in adj] if raw else adj, kind=kind, labels=list(labels), seqs=seqs,
               engine=engine, k=k, nkind=nkind)
    # shrink over the sequence list when the edges came from a search
    if seqs is not None and engine is not None and len(seqs) <= 80:
        def fails(ss):
            a = search(engine, ss, k, raw)
            labs = ['L%d' % i for i in range(len(ss))]
            e = ctx.oracle.run([('api_graph_cc', [len(ss), edges_of(a)])])[0]
            return cc_outcome(a, kind, labs, nkind) != ('ok', label_clusters([(labs[u], c) for u, c in e]))
        try:
            ss = shrink_list(seqs, fails, max_steps=150)
            if fails(ss):
                a = search(engine, ss, k, raw)
                labs = ['L%d' % i for i in range(len(ss))]
                e = ctx.oracle.run([('api_graph_cc', [len(ss), edges_of(a)])])[0]
                rep = dict(part='cc', n=len(ss), adj=[tuple(int(x) for x in t) for t in a], kind=kind, labels=labs, seqs=ss, engine=engine, k=k,
                           nkind=nkind)
                expected = label_clusters([(labs[u], c) for u, c in e])
                got = cc_outcome(a, kind, labs, nkind)
        except Exception:
            pass
    site = 'clustering.graph_clustering[empty]' if len(rep['adj']) == 0 else 'clustering.graph_clustering[cc]'
    ctx.violation('property', "%s: graph_clustering(adj=%s as %s, nodes=%s%s, 'cc') gave %s but the connected components with more than one member are %s" %
                  (desc, rep['adj'][:12], kind, rep['labels'][:12], '' if nkind is None else ' as %s' % nkind, jsonable(got), expected), rep, site=site)
    return False


# ------------------------------------------------------------------ (b) community variants
def community_labelling(n, adj, labels, method, kw, seed, akind='list', nkind='list'):
    """('ok', P) with P the full per-node labelling (nodes absent from the output are singletons), or ('bad', reason).
    igraph draws from Python's random module; it is pointed at a generator seeded from the harness stream so a run replays."""
    import random as _random
    import igraph
    from pyrepseq.clustering import graph_clustering
    igraph.set_random_number_generator(_random.Random(seed))
    try:
        g = call_impl(lambda: graph_clustering(adj_as(akind, adj), nodes_as(nkind, labels), method, **kw))
    finally:
        igraph.set_random_number_generator(_random)
    if g[0] != 'ok':
        return ('bad', 'raised %s' % g[1])
    try:
        pairs = frame_pairs(g[1])
    except Exception as e:
        return ('bad', str(e))
    pos = {lab: u for u, lab in enumerate(labels)}
    P = [None] * n
    for lab, c in pairs:
        if lab not in pos or P[pos[lab]] is not None:
            return ('bad', 'row label %r is not one of the caller\'s labels / is repeated' % lab)
        P[pos[lab]] = c
    fresh = max([c for c in P if c is not None] + [0]) + 1
    for u in range(n):
        if P[u] is None:
            P[u] = fresh
            fresh += 1
    return ('ok', P)


def report_community(ctx, n, adj, labels, method, kw, seed, desc, seqs, why, akind='list', nkind='list'):
    ctx.violation('property', '%s: graph_clustering(adj=%s%s, nodes=%s%s, %r, **%s) [igraph rng seed %d]: %s' %
                  (desc, adj[:16], '' if akind == 'list' else ' as ' + akind, labels[:8], '' if nkind == 'list' else ' as ' + nkind, method, kw, seed, why),
                  dict(part='community', n=n, adj=adj, labels=list(labels), method=method, kwargs=kw, seed=seed, seqs=seqs, akind=akind, nkind=nkind),
                  site='clustering.graph_clustering[%s]' % method)


# igraph's own refusals (ARPACK / optimiser did not converge) of the two methods that have them: no clustering was returned, nothing to judge
IGRAPH_MAY_DECLINE = {'leading_eigenvector': 'raised Other:InternalError', 'voronoi': 'raised Other:InternalError'}


def check_community(ctx, n, adj, labels, method, kw, desc, seqs=None, seed=None, akind='list', nkind='list'):
    seed = ctx.rng.getrandbits(30) if seed is None else seed
    r = community_labelling(n, adj, labels, method, kw, seed, akind, nkind)
    why = None
    if r[0] != 'ok' and IGRAPH_MAY_DECLINE.get(method) == r[1]:
        ctx.count('community:%s-declined-by-igraph' % method)
        return True
    if r[0] != 'ok':
        why = r[1]
    else:
        P = r[1]
        Q = ctx.oracle.run([('api_components', [n, edges_of(adj)])])[0]
        if not ctx.oracle.run([('api_refines', [P, Q])])[0]:
            u, v = next((u, v) for u in range(n) for v in range(n) if P[u] == P[v] and Q[u] != Q[v])
            why = 'nodes %s and %s are in one cluster but no path of neighbour edges connects them' % (labels[u], labels[v])
    if why is not None:
        report_community(ctx, n, adj, labels, method, kw, seed, desc, seqs, why, akind, nkind)
        return False
    return True


def community_small_graphs(ctx, nn, masks):
    """the six community variants on labelled graphs with nn nodes (edge sets given as bit masks), batched."""
    pairs = [(i, j) for i in range(nn) for j in range(i + 1, nn)]
    labels = ['v%d' % i for i in range(nn)]
    jobs = []
    for mask in masks:
        adj = []
        for b, (i, j) in enumerate(pairs):
            if mask >> b & 1:
                adj += [(i, j, 1), (j, i, 1)]
        for m in COMMUNITY:
            jobs.append((mask, adj, m, ctx.rng.getrandbits(30)))
    comps = ctx.oracle.run_parallel([('api_components', [nn, edges_of(adj)]) for _, adj, _, _ in jobs])
    reqs, live = [], []
    for (mask, adj, m, seed), Q in zip(jobs, comps):
        ctx.count('community:small-graphs-%d' % nn)
        ctx.case(nontrivial_key=('cg', nn, mask, m))
        r = community_labelling(nn, adj, labels, m, {}, seed)
        if r[0] != 'ok':
            report_community(ctx, nn, adj, labels, m, {}, seed, 'graph on %d nodes #%d' % (nn, mask), None, r[1])
            continue
        reqs.append(('api_refines', [r[1], Q]))
        live.append((mask, adj, m, seed, r[1], Q))
    outs = ctx.oracle.run_parallel(reqs)
    nbad = 0
    for (mask, adj, m, seed, P, Q), ok in zip(live, outs):
        if ok:
            continue
        nbad += 1
        if nbad > 3:
            continue
        u, v = next((u, v) for u in range(nn) for v in range(nn) if P[u] == P[v] and Q[u] != Q[v])
        report_community(ctx, nn, adj, labels, m, {}, seed, 'graph on %d nodes #%d' % (nn, mask), None,
                         'nodes %s and %s are in one cluster but no path of neighbour edges connects them' % (labels[u], labels[v]))
    return nbad


def community_many_clusters(ctx, ngraphs, big=False):
    """(a) + (b) on repertoires with MORE THAN 100 clusters: many small components (pairs, triples) next to components made of several
    tight groups joined by single edges, which the community methods split - the neighbour list comes from the real search."""
    rng = ctx.rng
    graphs, jobs = [], []
    for gi in range(ngraphs):
        layout = ['headtail', 'blocks', 'headtail', 'nodes', 'headtail'][gi % 5]
        seqs = many_cluster_repertoire(rng, layout, big and gi % 2 == 1)
        eng = ['nearest_neighbor', 'symdel', 'kdtree', 'nearest_neighbor_x'][gi % 4]
        n = len(seqs)
        adj = search(eng, seqs, 1)
        labels = ['node_%d' % i for i in range(n)]
        desc = '%s(max_edits=1) on %d sequences (many clusters, %s order)' % (eng, n, layout)
        ctx.count('cc:many-clusters')
        ctx.case(nontrivial_key=('cc-many', tuple(seqs)))
        check_cc(ctx, n, adj, ['list', 'ndarray'][gi % 2], labels, desc, seqs, eng, 1)
        graphs.append((n, adj, labels, seqs, desc))
        for m in COMMUNITY:
            kw = rng.choice(COMMUNITY_KW.get(m, [dict()]))
            seed = rng.getrandbits(30)
            ctx.count('community:' + m)
            ctx.case(nontrivial_key=('community-many', m, tuple(seqs)))
            r = community_labelling(n, adj, labels, m, kw, seed)
            if r[0] != 'ok':
                report_community(ctx, n, adj, labels, m, kw, seed, m + ' on ' + desc, seqs, r[1])
                continue
            ctx.count('community:more-than-100-communities' if len(set(r[1])) > 100 else 'community:at-most-100-communities')
            jobs.append((gi, m, kw, seed, r[1]))
        if len(ctx.violations) > 8:
            return
    comps = ctx.oracle.run_parallel([('api_components', [n, edges_of(adj)]) for n, adj, _, _, _ in graphs], nproc=4)
    for (n, adj, _, _, _), Q in zip(graphs, comps):
        ctx.count('community:many-clusters-components>100' if len(set(Q)) > 100 else 'community:many-clusters-components<=100')
    outs = ctx.oracle.run_parallel([('api_refines', [P, comps[gi]]) for gi, _, _, _, P in jobs])
    nbad = 0
    for (gi, m, kw, seed, P), ok in zip(jobs, outs):
        n, adj, labels, seqs, desc = graphs[gi]
        Q = comps[gi]
        if len(set(zip(P, Q))) > len(set(Q)):
            ctx.count('community:many-clusters-a-component-is-split')
        if ok:
            continue
        nbad += 1
        if nbad > 3:
            continue
        first = {}
        u, v = next((first[c], w) for w, c in enumerate(P) if Q[first.setdefault(c, w)] != Q[w])
        report_community(ctx, n, adj, labels, m, kw, seed, m + ' on ' + desc, seqs,
                         'nodes %s (%s) and %s (%s) are in one cluster but no path of neighbour edges connects them' %
                         (labels[u], seqs[u], labels[v], seqs[v]))
    return nbad


# ------------------------------------------------------------------ (c) hierarchical clustering vs SciPy on the model's vector
STD_COLUMNS = ['TRAV', 'CDR3A', 'TRAJ', 'TRBV', 'CDR3B', 'TRBJ']


def make_input(kind, cols, rng_perm):
    """cols: dict column -> list of strings (plain sequences under key None)."""
    if kind in ('list', 'tuple', 'ndarray', 'series', 'ndarray_U', 'series_default', 'series_intperm', 'index'):
        xs = cols[None]
        return {'list': lambda: list(xs), 'tuple': lambda: tuple(xs) if len(xs) != 2 else list(xs),
                'ndarray': lambda: np.array(xs, dtype=object),
                'series': lambda: pd.Series(list(xs), index=['r%d' % i for i in rng_perm], dtype=object),
                'ndarray_U': lambda: np.array(list(xs)),
                'series_default': lambda: pd.Series(list(xs), dtype=object, name='CDR3B'),     # a column taken from a table
                # index = a permutation of 0..n-1 (a re-ordered table's column): inputs are taken by POSITION
                'series_intperm': lambda: pd.Series(list(xs), index=list(rng_perm), dtype=object),
                'index': lambda: pd.Index(list(xs))}[kind]()
    if kind == 'pair_tuple':
        return (list(cols['CDR3A']), list(cols['CDR3B']))
    if kind == 'pair_tuple_nd':
        return (np.array(list(cols['CDR3A']), dtype=object), tuple(cols['CDR3B']))
    if kind == 'pair_tuple_series':
        # the two chains held in Series with unrelated indexes (taken from differently indexed tables): paired by POSITION
        return (pd.Series(list(cols['CDR3A']), index=list(rng_perm), dtype=object),
                pd.Series(list(cols['CDR3B']), index=['t%d' % i for i in range(len(cols['CDR3B']))], dtype=object))
    n = len(next(iter(cols.values())))
    if kind == 'table_fullcols':
        # all six standard columns, beta chain first, the columns the harness did not draw filled with one allele
        full = {c: list(cols[c]) if c in cols else ['TR%sV1*01' % c[2] if c[3] == 'V' else 'TR%sJ1*01' % c[2]] * n
                for c in ['TRBV', 'CDR3B', 'TRBJ', 'TRAV', 'CDR3A', 'TRAJ'] if c in cols or not c.startswith('CDR3')}
        df = pd.DataFrame(full)
        df.index = ['t%d' % i for i in rng_perm]
        return df
    df = pd.DataFrame({c: list(v) for c, v in cols.items()})
    if kind == 'table_beta_first':        # a paired table that lists the beta chain before the alpha chain (column order is not part of the format)
        df = df[[c for c in ('CDR3B', 'TRBV', 'CDR3A', 'TRAV', 'TRBJ', 'TRAJ') if c in df.columns] + [c for c in df.columns if c not in ('CDR3B', 'TRBV', 'CDR3A', 'TRAV', 'TRBJ', 'TRAJ')]]
        return df
    if kind == 'table_dupindex':          # rows of a concatenated table: every index value occurs twice
        df.index = [i // 2 for i in range(n)]
        return df
    if kind == 'table_default':
        return df
    df.index = list(rng_perm) if kind == 'table_permuted' else ['t%d' % i for i in rng_perm]
    return df


def metric_columns(cols, metric_spec):
    """(columns entering the distance, edit weights) for the default metric dispatch or an explicit metric."""
    if metric_spec is None:
        return dict(cols), (1, 1, 1)
    name, weights = metric_spec[0], tuple(metric_spec[1])
    if name == 'BetaCdr3Levenshtein':
        return {'CDR3B': cols['CDR3B']}, weights
    if name == 'AlphaCdr3Levenshtein':
        return {'CDR3A': cols['CDR3A']}, weights
    return dict(cols), weights


def custom_distance(scale, x, y):
    """the distance of the harness's own Metric (a caller-defined metric): not an integer, scaled to any magnitude."""
    return scale * (abs(len(x) - len(y)) + 0.25 * (x[:1] != y[:1]) + 0.5 * (x[-1:] != y[-1:]))


def custom_metric(scale):
    from pyrepseq.metric import Metric

    class HarnessMetric(Metric):
        name = 'harness metric'

        def calc_cdist_matrix(self, anchors, comparisons):
            return np.array([[custom_distance(scale, x, y) for y in comparisons] for x in anchors], dtype=np.float64)

        def calc_pdist_vector(self, instances):
            xs = list(instances)
            return np.array([custom_distance(scale, xs[i], xs[j]) for i in range(len(xs)) for j in range(i + 1, len(xs))], dtype=np.float64)
    return HarnessMetric()


def model_vector(ctx, cols, weights):
    """condensed distance vector of the model. weights: (ins, del, sub) or (ins, del, sub, alpha weight, beta weight);
    ('Custom', scale) columns: the harness metric's own formula."""
    weights = tuple(weights)
    chain = {'CDR3A': weights[3], 'CDR3B': weights[4]} if len(weights) == 5 else {}
    keys = [c for c in cols if c is None or c.startswith('CDR3')]
    reqs = [('api_pdist_wlev', [weights[0], weights[1], weights[2], list(cols[c])]) for c in keys]
    outs = ctx.oracle.run(reqs)
    outs = [[chain.get(c, 1) * d for d in o] for c, o in zip(keys, outs)]
    return [sum(t) for t in zip(*outs)] if outs and len(outs[0]) else []


_HC_DEFAULTS = []


def hc_defaults():
    """the function's own documented defaults of linkage_kws / cluster_kws, read from its signature ONCE, before the first call of this
    process: what an omitted option means on every later call too."""
    if not _HC_DEFAULTS:
        import copy
        import inspect
        import pyrepseq.distance as ds
        sig = inspect.signature(ds.hierarchical_clustering).parameters
        lk, ck = sig['linkage_kws'].default, sig['cluster_kws'].default
        # (a signature that fills its defaults inside the body: the documented values of the pinned tree)
        lk = lk if isinstance(lk, dict) else dict(method='average', optimal_ordering=True)
        ck = ck if isinstance(ck, dict) else dict(t=6, criterion='distance')
        _HC_DEFAULTS.append((copy.deepcopy(dict(lk)), copy.deepcopy(dict(ck))))
    return _HC_DEFAULTS[0]


def with_arrays(kws):
    """option dicts as stored in a replay -> as handed to SciPy (monocrit is an array)."""
    kws = dict(kws)
    if 'monocrit' in kws:
        kws['monocrit'] = np.array(kws['monocrit'], dtype=np.float64)
    return kws


def hc_compare(ctx, cols, kind, perm, metric_spec, linkage_kws, cluster_kws, desc, positional=False):
    """positional: the metric is handed over as the second positional argument."""
    import pyrepseq.distance as ds
    import scipy.cluster.hierarchy as hc
    from pyrepseq.metric import Levenshtein, WeightedLevenshtein
    from pyrepseq.metric.tcr_metric import BetaCdr3Levenshtein, AlphaCdr3Levenshtein, Cdr3Levenshtein
    dlk, dck = hc_defaults()
    n = len(next(iter(cols.values())))
    metric = None
    if metric_spec is not None and metric_spec[0] == 'Custom':
        scale = metric_spec[1][0]
        metric = custom_metric(scale)
        xs = cols[None]
        vec = [custom_distance(scale, xs[i], xs[j]) for i in range(n) for j in range(i + 1, n)]
    else:
        used, weights = metric_columns(cols, metric_spec)
        if metric_spec is not None:
            metric = dict(Levenshtein=lambda: Levenshtein(), WeightedLevenshtein=lambda: WeightedLevenshtein(*weights),
                          BetaCdr3Levenshtein=lambda: BetaCdr3Levenshtein(*weights), AlphaCdr3Levenshtein=lambda: AlphaCdr3Levenshtein(*weights),
                          Cdr3Levenshtein=lambda: Cdr3Levenshtein(*weights[:3]) if len(weights) == 3 else
                          Cdr3Levenshtein(insertion_weight=weights[0], deletion_weight=weights[1], substitution_weight=weights[2],
                                          alpha_weight=weights[3], beta_weight=weights[4]))[metric_spec[0]]()
        vec = model_vector(ctx, used, weights)
    kw = {}
    if metric is not None and not positional:
        kw['metric'] = metric
    if linkage_kws is not None:
        kw['linkage_kws'] = with_arrays(linkage_kws)
    if cluster_kws is not None:
        kw['cluster_kws'] = with_arrays(cluster_kws)
    # omitted options: the function's own documented defaults (read from its signature, the statement does not fix them)
    lk = with_arrays(dlk if linkage_kws is None else linkage_kws)
    ck = with_arrays(dck if cluster_kws is None else cluster_kws)
    x = make_input(kind, cols, perm)
    snapshot = x.copy(deep=True) if isinstance(x, (pd.DataFrame, pd.Series)) else None
    if positional and metric is not None:
        got = call_impl(lambda: ds.hierarchical_clustering(x, metric, **kw))
    else:
        got = call_impl(lambda: ds.hierarchical_clustering(x, **kw))

    def ref():
        Z = hc.linkage(np.array(vec, dtype=np.float64), **lk)
        return Z, hc.fcluster(Z, **ck)
    exp = call_impl(ref)
    rep = dict(part='hc', cols={str(k): v for k, v in cols.items()}, kind=kind, perm=list(perm), metric=metric_spec,
               linkage_kws=linkage_kws, cluster_kws=cluster_kws, positional=positional)
    site = 'distance.hierarchical_clustering'
    ok = got[0] == exp[0]
    why = ''
    if not ok:
        why = 'outcome %s, SciPy on the metric\'s distances gives %s' % (got if got[0] == 'exc' else 'ok', exp if exp[0] == 'exc' else 'ok')
    elif got[0] == 'exc':
        ok = got[1] == exp[1]
        why = 'raises %s, SciPy raises %s' % (got[1], exp[1])
    else:
        try:
            Z, cl = got[1]
            Z, cl = np.asarray(Z), np.asarray(cl)
        except Exception as e:
            ok, why = False, 'result is not a (linkage, cluster) pair: %s' % e
        if ok:
            Zr, clr = exp[1]
            if Z.shape != Zr.shape or not np.array_equal(Z, Zr):
                ok, why = False, 'linkage differs from scipy.cluster.hierarchy.linkage of the pairwise distances %s: %s vs %s' % (vec[:10], Z.tolist()[:4], Zr.tolist()[:4])
            elif cl.shape != (n,):
                ok, why = False, 'not one label per input: %d labels for %d inputs' % (cl.size, n)
            elif not np.array_equal(cl, clr):
                bad = [i for i in range(n) if cl[i] != clr[i]][:1]
                ok, why = False, 'flat clusters %s differ from fcluster %s%s' % (cl.tolist()[:20], clr.tolist()[:20],
                                                                                 ' (first at input %d: %s vs %s)' % (bad[0], cl[bad[0]], clr[bad[0]]) if bad and bad[0] >= 20 else '')
    if ok and snapshot is not None and not snapshot.equals(x):
        ok, why = False, 'the caller\'s table was modified'
    if not ok:
        ctx.violation('property', '%s: hierarchical_clustering(%s %s, metric=%s%s, linkage_kws=%s, cluster_kws=%s): %s' %
                      (desc, kind, {str(k): [w[:40] for w in v[:8]] for k, v in cols.items()}, metric_spec, ' (positional)' if positional else '',
                       linkage_kws, cluster_kws, why), rep, site=site)
    return ok


# ------------------------------------------------------------------ (d) single linkage at t = components of the t-neighbour graph
def sl_compare(ctx, seqs, t, engine, desc, check_heights=True, variant=None):
    """variant: dict(kind=container of the sequences, float_t=threshold handed over as a float, optimal_ordering=...)."""
    import pyrepseq.distance as ds
    n = len(seqs)
    variant = dict(variant or {})
    lkw = dict(method='single')
    if 'optimal_ordering' in variant:
        lkw['optimal_ordering'] = bool(variant['optimal_ordering'])
    targ = float(t) if variant.get('float_t') else t

    def call(xs):
        x = make_input(variant.get('kind', 'list'), {None: list(xs)}, list(range(1, len(xs))) + [0])
        return call_impl(lambda: ds.hierarchical_clustering(x, linkage_kws=dict(lkw), cluster_kws=dict(t=targ, criterion='distance')))
    got = call(seqs)
    rep = dict(part='single', seqs=list(seqs), t=t, engine=engine, variant=variant)
    site = 'distance.hierarchical_clustering[single]'
    if got[0] != 'ok':
        ctx.violation('property', '%s: hierarchical_clustering(%s, single, t=%d) raised %s' % (desc, seqs[:12], t, got[1]), rep, site=site)
        return False
    Z, cl = np.asarray(got[1][0]), np.asarray(got[1][1])
    if cl.shape != (n,):
        ctx.violation('property', '%s: not one label per input (%d labels, %d inputs)' % (desc, cl.size, n), rep, site=site)
        return False
    adj = search(engine, seqs, t)
    M = ctx.oracle.run([('api_cdist_wlev', [1, 1, 1, list(seqs), list(seqs)])])[0]
    comp, cut, cut_lev, dendro = ctx.oracle.run([('api_components', [n, edges_of(adj)]),
                                                 ('api_c15_sl_cut', [n, M, t]),
                                                 ('api_c15_sl_cut_lev', [t, list(seqs)]),
                                                 ('api_c15_single_linkage', [n, M])])
    p_impl, p_comp, p_cut = partition_of(cl.tolist()), partition_of(comp), partition_of(cut)
    if cut != cut_lev or p_cut != p_comp:
        # model-internal (would contradict C15_single_linkage_neighbour_graph unless the search result is wrong)
        ctx.violation('correspondence', '%s: model cut %s vs components of the real %s(max_edits=%d) graph %s on %s' %
                      (desc, p_cut, engine, t, p_comp, seqs[:12]), rep, site='nn.' + engine)
    if p_impl != p_comp or p_impl != p_cut:
        ss = list(seqs)
        if len(ss) <= 60:
            def fails(xs):
                if len(xs) < 2:
                    return False
                g = call(xs)
                c = ctx.oracle.run([('api_c15_sl_cut_lev', [t, list(xs)])])[0]
                return g[0] != 'ok' or partition_of(np.asarray(g[1][1]).tolist()) != partition_of(c)
            try:
                s2 = shrink_list(ss, fails, max_steps=120)
                if fails(s2):
                    ss = s2
            except Exception:
                pass
        g = call(ss)
        c = ctx.oracle.run([('api_c15_sl_cut_lev', [t, list(ss)])])[0]
        rep = dict(part='single', seqs=ss, t=t, engine=engine, variant=variant)
        ctx.violation('property', '%s: hierarchical_clustering(%s, single linkage, distance t=%d) gives the partition %s but the connected components of the '
                      'max_edits = %d neighbour graph are %s' % (desc, ss[:14], t, partition_of(np.asarray(g[1][1]).tolist()) if g[0] == 'ok' else g, t, partition_of(c)),
                      rep, site=site)
        return False
    if check_heights and n >= 2:
        hs = sorted(int(h) for _, h in dendro)
        if Z.shape != (n - 1, 4) or sorted(Z[:, 2].tolist()) != [float(h) for h in hs]:
            ctx.violation('property', '%s: single-linkage merge heights %s differ from the model dendrogram %s on %s' %
                          (desc, sorted(Z[:, 2].tolist())[:12] if Z.ndim == 2 else Z, hs[:12], seqs[:12]), rep, site=site)
            return False
    return True


# ------------------------------------------------------------------ generators
def small_repertoire(rng, n, alphabet=gens.AA, maxlen=None):
    seqs = repertoire(rng, n, alphabet)
    if maxlen:
        seqs = [s for s in seqs if len(s) <= maxlen] or ['CAF']
    return seqs


def far_apart(rng, n):
    """sequences with no neighbour at all: the search returns the empty list."""
    return [c * rng.randint(6, 9) for c in rng.sample(gens.AA, n)]


def variants_at(rng, base, pos, size):
    """`size` sequences that differ from each other at position pos only (mutually at distance 1), `base` first."""
    letters = [base[pos]] + rng.sample([x for x in gens.AA if x != base[pos]], size - 1)
    return [base[:pos] + x + base[pos + 1:] for x in letters]


def group_chain(rng, ngroups, size):
    """one connected family made of ngroups tight groups (each: variants at one position); a group hangs on an earlier one by a single
    substitution at another position, so consecutive groups are joined by one neighbour edge and community detection separates them."""
    base = ''.join(rng.choice(gens.AA) for _ in range(rng.randint(12, 15)))
    p = rng.randrange(len(base))
    out = [variants_at(rng, base, p, size())]
    for _ in range(ngroups - 1):
        src = rng.choice(out[-1] if rng.random() < 0.7 else rng.choice(out))
        q = rng.choice([i for i in range(len(src)) if i != p])
        b = src[:q] + rng.choice([x for x in gens.AA if x != src[q]]) + src[q + 1:]
        p = rng.choice([i for i in range(len(b)) if i not in (p, q)])
        out.append(variants_at(rng, b, p, size()))
    return out


def many_cluster_repertoire(rng, layout, big=False):
    """a repertoire with somewhat more than 100 clusters: P small families (pairs, a few triples, unrelated random roots), K larger
    families made of several tight groups (group_chain), a few sequences without neighbour. Order of the input:
    'headtail' - the first group of every larger family, then the small families, then the remaining groups (shuffled);
    'blocks'   - the first group of every larger family, then small families and remaining groups shuffled as blocks;
    'nodes'    - every sequence at a random place.
    The number of small families straddles 100 so that cluster / community numbers on both sides of 100 (and 200 for big) occur."""
    def size():
        return rng.randint(4, 5)
    if layout == 'headtail':
        K = rng.choice([1, 1, 2, 3])
        P = rng.randint(186, 200) if big else rng.randint(86, 100)
        late = rng.randint(14, 22) + 6 * (K - 1)
        per = [1] * K
        for _ in range(late - K):
            per[rng.randrange(K)] += 1
        ngroups = [1 + x for x in per]
    else:
        K = rng.randint(2, 6)
        P = rng.randint(95, 230 if big else 130)
        ngroups = [rng.randint(2, 8) for _ in range(K)]
    bigs = [group_chain(rng, g, size) for g in ngroups]
    smalls = []
    for _ in range(P):
        root = ''.join(rng.choice(gens.AA) for _ in range(rng.randint(10, 15)))
        smalls.append(variants_at(rng, root, rng.randrange(len(root)), 2 if rng.random() < 0.8 else 3))
    lone = [[''.join(rng.choice(gens.AA) for _ in range(rng.randint(10, 15)))] for _ in range(rng.randint(1, 3))]
    head = [b[0] for b in bigs]
    tail = [g for b in bigs for g in b[1:]]
    if layout == 'headtail':
        rng.shuffle(tail)
        mid = smalls + lone
        rng.shuffle(mid)
        blocks = head + mid + tail
    else:
        rest = smalls + tail + lone
        rng.shuffle(rest)
        blocks = head + rest
    seqs = [s for b in blocks for s in b]
    if layout == 'nodes':
        rng.shuffle(seqs)
    return seqs


def tcr_columns(rng, n, which):
    def chain():
        xs = []
        while len(xs) < n:
            xs += repertoire(rng, n, extras=False, minlen=3)
        return xs[:n]
    a, b = chain(), chain()
    if n >= 3 and rng.random() < 0.35:
        # unusually long, dissimilar junctions: per-column distances beyond 25 / 50 (the upper end of the metrics' default distance bins)
        for _ in range(rng.randint(1, 2)):
            i = rng.randrange(n)
            a[i] = 'C' + ''.join(rng.choice(gens.AA) for _ in range(rng.randint(35, 70))) + 'F'
            b[i] = 'C' + ''.join(rng.choice(gens.AA) for _ in range(rng.randint(35, 70))) + 'F'
    for i in range(1, n):               # repeated chains: distance 0 on one column
        if rng.random() < 0.25:
            a[i] = a[rng.randrange(i)]
        if rng.random() < 0.25:
            b[i] = b[rng.randrange(i)]
    cols = {}
    if which in ('A', 'AB'):
        cols['CDR3A'] = a
    if which in ('B', 'AB'):
        cols['CDR3B'] = b
    if rng.random() < 0.5:              # other standard columns must not matter
        cols['TRBV'] = [rng.choice(['TRBV5-1*01', 'TRBV7-9*01', 'TRBV20-1*01']) for _ in range(n)]
    if rng.random() < 0.3:
        cols['clone_count'] = [str(rng.randint(1, 9)) for _ in range(n)]
    return cols


# ------------------------------------------------------------------ audit widening: containers, edge-list forms, sizes, repeated calls
def py_clusters(n, edges):
    """the specification computed directly (union-find over the undirected edges): the classes with more than one member, as sorted
    lists of node numbers. Used where the extracted model's unary numbers are too slow (2**15 nodes and more); tied to the model
    (api_graph_cc) on every small graph of cc_input_kinds in the same run."""
    parent = list(range(n))

    def find(u):
        while parent[u] != u:
            parent[u] = parent[parent[u]]
            u = parent[u]
        return u
    for a, b in edges:
        ra, rb = find(a), find(b)
        if ra != rb:
            parent[max(ra, rb)] = min(ra, rb)
    d = {}
    for u in range(n):
        d.setdefault(find(u), []).append(u)
    return sorted(v for v in d.values() if len(v) > 1)


def edge_form(rng, und, form, nself=()):
    """neighbour list of the undirected edges `und` [(i, j)] in one of the forms such lists come in: 'sym' both orientations (the
    one-collection search), 'one' a single orientation per pair (a caller who kept i < j, or max_returns), 'dup' orientations repeated
    (two search results concatenated), 'self' both orientations plus the self pairs (i, i, 0) of the nodes in nself (two-collection
    search). Distances are whatever the search reported: they do not decide connectivity."""
    adj = []
    for i, j in und:
        d = rng.choice([0, 1, 1, 2, 3, 7, 25, 1000])
        if form == 'one':
            adj.append((i, j, d) if rng.random() < 0.5 else (j, i, d))
        elif form == 'dup':
            for _ in range(rng.randint(1, 3)):
                adj.append((i, j, d))
            for _ in range(rng.randint(0, 2)):
                adj.append((j, i, d))
        else:
            adj += [(i, j, d), (j, i, d)]
    if form == 'self':
        adj += [(u, u, 0) for u in nself]
    if form != 'sym':
        rng.shuffle(adj)
    return adj


LABEL_KINDS = ['str', 'int_shift', 'int_perm', 'dup', 'float', 'pair']


def labels_of(lkind, n):
    if lkind == 'int_shift':
        return [100 + 7 * i for i in range(n)]
    if lkind == 'int_perm':           # node numbers in another order: positions and labels must not be confused
        return [(i + 2) % n for i in range(n)][::-1]
    if lkind == 'dup':                # the sequences themselves, some equal
        return ['CASS' + 'AFY'[i % 3] for i in range(n)]
    if lkind == 'float':
        return [0.5 + i for i in range(n)]
    if lkind == 'pair':               # paired-chain clonotypes as labels: tuples (alpha, beta), what list(zip(cdr3a, cdr3b)) gives
        return [('CAV%d' % (i % 3), 'CASS%d' % i) for i in range(n)]
    if lkind == 'int_and_str':        # 101 and '101' are different labels
        return [(100 + i // 2) if i % 2 == 0 else str(100 + i // 2) for i in range(n)]
    return ['s%d' % i for i in range(n)]


def cc_input_kinds(ctx, nrandom):
    """(a) over the containers and forms of its two arguments: every graph on 4 nodes and random graphs on 5-12 nodes, each in one of the
    edge-list forms of edge_form, the list held in every kind of ADJ_KINDS, the labels (strings, integers that are not positions, equal
    labels, floats) in every kind of NODE_KINDS. Expected: api_graph_cc, batched."""
    rng = ctx.rng
    forms = ['sym', 'one', 'dup', 'self']
    pairs4 = [(i, j) for i in range(4) for j in range(i + 1, 4)]
    cases = []
    idx = 0
    for mask in range(0, 1 << len(pairs4)):
        und = [p for b, p in enumerate(pairs4) if mask >> b & 1]
        for form in forms:
            if form == 'dup' and mask % 3:
                continue
            if form == 'sym' and mask % 2:
                continue
            nself = [u for u in range(4) if rng.random() < 0.6]
            cases.append((4, edge_form(rng, und, form, nself), form, idx, 'graph on 4 nodes #%d' % mask))
            idx += 1
    for _ in range(nrandom):
        n = rng.randint(5, 12)
        live = rng.sample(range(n), rng.randint(2, n - 1))          # at least one node without any edge
        und = sorted(set(tuple(sorted(rng.sample(live, 2))) for _ in range(rng.randint(1, n))))
        form = forms[idx % 4]
        nself = [u for u in range(n) if rng.random() < 0.5]
        cases.append((n, edge_form(rng, und, form, nself), form, idx, 'random graph on %d nodes' % n))
        idx += 1
    exps = ctx.oracle.run_parallel([('api_graph_cc', [n, edges_of(adj)]) for n, adj, _, _, _ in cases], nproc=4)
    nbad = 0
    for (n, adj, form, i, desc), exp_pairs in zip(cases, exps):
        akind = ADJ_KINDS[i % len(ADJ_KINDS)]
        nkind = NODE_KINDS[(i // len(ADJ_KINDS) + i) % len(NODE_KINDS)]
        lkind = LABEL_KINDS[(i // 5 + i // 3) % len(LABEL_KINDS)]
        if nkind == 'categorical' and lkind == 'dup':
            lkind = 'str'
        if lkind == 'pair' and nkind not in ('list', 'tuple', 'series', 'series_perm', 'series_str', 'series_dupidx', 'series_dupidx3'):
            nkind = ['list', 'series', 'tuple', 'series_perm'][i % 4]         # tuples as elements: containers that keep them one label each
        labels = labels_of(lkind, n)
        ctx.count('cc:adj-as-' + akind)
        ctx.count('cc:nodes-as-' + nkind)
        ctx.count('cc:labels-' + lkind)
        ctx.count('cc:edge-form-' + form)
        ctx.case(nontrivial_key=('cc-kinds', n, tuple(adj), akind, nkind, lkind))
        mine = py_clusters(n, edges_of(adj))
        if mine != sorted(sorted(u for u, c in exp_pairs if c == c0) for c0 in set(c for _, c in exp_pairs)):
            ctx.violation('correspondence', 'harness: union-find clusters %s differ from api_graph_cc %s on n=%d, %s' % (mine, exp_pairs, n, adj),
                          dict(part='cc', n=n, adj=adj, kind='list', labels=labels), site='harness')
        expected = label_clusters([(_lab(labels[u]), c) for u, c in exp_pairs])
        if cc_outcome(adj, akind, labels, nkind) == ('ok', expected):
            continue
        nbad += 1
        if nbad <= 3:
            check_cc(ctx, n, adj, akind, labels, '%s, %s edge list' % (desc, form), nkind=nkind)
    return nbad


def cc_raw_search(ctx, ncases):
    """(a) on what the search functions return, handed on UNTOUCHED (no conversion to Python ints, output_type at its default), with
    the sequences as they are held (list / ndarray / Series) as node labels."""
    rng = ctx.rng
    for it in range(ncases):
        eng = ENGINES[it % 4]
        k = rng.choice([1, 2]) if eng == 'hash_based' else rng.choice([1, 1, 2, 3])
        seqs = small_repertoire(rng, rng.randint(2, 25), maxlen=(13 if k == 1 else 8) if eng == 'hash_based' else None)
        if it % 3 == 0:
            seqs = seqs + far_apart(rng, 2)
        n = len(seqs)
        adj = search(eng, seqs, k, raw=True)
        nkind = ['list', 'ndarray_U', 'series_perm', 'ndarray', 'index'][it % 5]
        labels = list(seqs) if it % 2 else ['node_%d' % i for i in range(n)]
        ctx.count('cc:raw-search-result-' + eng)
        ctx.case(nontrivial_key=('cc-raw', tuple(seqs), k, eng))
        check_cc(ctx, n, adj, 'raw', labels, 'raw result of %s(max_edits=%d) on %d sequences' % (eng, k, n), seqs, eng, k, nkind=nkind)


def large_graph(rng, n):
    """sparse neighbour list on n nodes whose clusters involve the highest node numbers (beyond 2**15, 2**16 when n allows)."""
    und = []
    top = list(range(n - 40, n))
    rng.shuffle(top)
    und += [(top[0], top[1]), (top[1], top[2]), (top[3], top[4])]                    # clusters of the highest numbers only
    und += [(top[5], rng.randrange(0, 100)), (top[6], rng.randrange(100, 30000))]     # high with low
    for b in (2 ** 15, 2 ** 16):
        if n > b + 2:
            und += [(b - 2, b - 1), (b - 1, b), (b, b + 1)]                           # a chain across the power of two
            und += [(b + 2, rng.randrange(0, b - 5))]
    for _ in range(150):
        a, b = rng.sample(range(n), 2)
        und.append((a, b))
    for _ in range(60):                                                                  # pairs differing by a multiple of 2**15 / 2**16 / 256
        a = rng.randrange(0, n)
        b = a + rng.choice([256, 2 ** 15, 2 ** 16])
        if b < n:
            und.append((a, b))
    return und


def check_cc_large(ctx, n, adj, kind, desc):
    labels = ['n%d' % i for i in range(n)]
    expected = sorted(sorted(labels[u] for u in cl) for cl in py_clusters(n, edges_of(adj)))
    got = cc_outcome(adj, kind, labels, 'list' if kind == 'list' else 'ndarray')
    if got == ('ok', expected):
        return True
    miss = 'outcome %s' % (got,) if got[0] != 'ok' else 'clusters only returned %s, only expected %s' % (
        [c for c in got[1] if c not in expected][:4], [c for c in expected if c not in got[1]][:4])
    ctx.violation('property', "%s: graph_clustering(adj=%s... (%d triplets) as %s, nodes=['n0', ..., 'n%d'], 'cc'): %s" %
                  (desc, adj[:6], len(adj), kind, n - 1, miss), dict(part='cc-large', n=n, adj=adj, kind=kind),
                  site='clustering.graph_clustering[cc]')
    return False


def cc_large(ctx, sizes):
    """(a) beyond 2**15 (and 2**16) nodes; expected from py_clusters."""
    rng = ctx.rng
    for it, n in enumerate(sizes):
        n = n + rng.randint(50, 400)
        adj = edge_form(rng, large_graph(rng, n), ['sym', 'one'][it % 2])
        ctx.count('cc:nodes>2**16' if n > 2 ** 16 else 'cc:nodes>2**15')
        ctx.case(nontrivial_key=('cc-large', n, tuple(adj[:20])))
        check_cc_large(ctx, n, adj, ['list', 'ndarray', 'int32'][it % 3], 'sparse graph on %d nodes' % n)


def many_edges_graph(n, m, seed):
    """m ordered triplets (more than 2**20) on n nodes, as an int64 array sorted by first index the way the search engines list them: short
    chains (node u linked to u + 1 unless u % 5 == 4) in both orientations plus seeded long-range links among the HIGHEST node numbers, whose
    rows come last (seeded change C15-r7m3: edges handed to igraph in blocks, the last partial block dropped)."""
    import random as _r
    r = _r.Random(seed)
    a = np.arange(n - 1, dtype=np.int64)
    a = a[a % 5 != 4]
    und = np.stack([a, a + 1], axis=1)
    extra = np.array([[r.randrange(n - 2000, n), r.randrange(0, n)] for _ in range(400)], dtype=np.int64)
    extra = extra[extra[:, 0] != extra[:, 1]]
    und = np.concatenate([und, extra])
    both = np.concatenate([und, und[:, ::-1]])
    both = both[np.lexsort((both[:, 1], both[:, 0]))][:m]
    return np.concatenate([both, np.ones((len(both), 1), dtype=np.int64)], axis=1)


def check_cc_many_edges(ctx, n, m, seed, desc):
    from pyrepseq.clustering import graph_clustering
    adj = many_edges_graph(n, m, seed)
    exp = py_clusters(n, [(int(x), int(y)) for x, y in adj[:, :2]])
    g = call_impl(lambda: graph_clustering(adj, np.arange(n), 'cc'))
    ctx.count('cc:more than 2**20 triplets')
    ctx.case(nontrivial_key=('cc-many-edges', n, len(adj), seed))
    why = None
    if g[0] != 'ok':
        why = 'outcome %s' % (g,)
    else:
        try:
            df = g[1]
            got = {}
            for node, c in zip(df.iloc[:, 0].to_numpy().tolist(), df.iloc[:, 1].to_numpy().tolist()):
                got.setdefault(c, []).append(int(node))
            got = sorted(sorted(v) for v in got.values())
        except Exception as e:
            got, why = None, 'result is not a (node, cluster) table: %s' % e
        if got is not None and got != exp:
            lost = [c for c in exp if c not in got][:3]
            why = '%d clusters over %d nodes returned, %d clusters over %d nodes expected; e.g. expected only: %s' % (
                len(got), sum(map(len, got)), len(exp), sum(map(len, exp)), lost)
    if why:
        ctx.violation('property', "%s: graph_clustering(%d triplets as int64 array, nodes=arange(%d), 'cc'): %s" % (desc, len(adj), n, why),
                      dict(part='cc-many-edges', n=n, m=m, seed=seed), site='clustering.graph_clustering[cc]')
        return False
    return True


def check_cc_refill(ctx, rounds, desc):
    """(a) called again and again with the SAME objects, refilled in place between the calls: one preallocated (m, 3) array, one label
    list. rounds: [(adj, labels, changed)] with equal lengths; every call must answer for the content at the time of the call."""
    m, n = len(rounds[0][0]), len(rounds[0][1])
    arr = np.zeros((m, 3), dtype=np.int64)
    labs = [None] * n
    for r, (adj, labels) in enumerate(rounds):
        arr[:] = np.array(adj, dtype=np.int64).reshape(m, 3)
        labs[:] = labels
        exp_pairs = ctx.oracle.run([('api_graph_cc', [n, edges_of(adj)])])[0]
        expected = label_clusters([(_lab(labels[u]), c) for u, c in exp_pairs])
        from pyrepseq.clustering import graph_clustering
        g = call_impl(lambda: graph_clustering(arr, labs, 'cc'))
        try:
            got = ('ok', label_clusters(frame_pairs(g[1]))) if g[0] == 'ok' else g
        except Exception as e:
            got = ('exc', 'BadFrame:%s' % e)
        if got != ('ok', expected):
            ctx.violation('property', "%s: call %d of graph_clustering(arr, labels, 'cc') on one preallocated array / label list refilled in place "
                          "(now adj=%s, labels=%s; earlier calls: %s) gave %s but the connected components with more than one member are %s" %
                          (desc, r + 1, adj[:12], labels[:8], [a[:6] for a, _ in rounds[:r]], jsonable(got), expected),
                          dict(part='cc-refill', rounds=[[a, l] for a, l in rounds[:r + 1]]), site='clustering.graph_clustering[cc]')
            return False
    return True


def cc_refill(ctx, nseries):
    rng = ctx.rng
    for _ in range(nseries):
        n = rng.randint(4, 9)
        m = 2 * rng.randint(1, 5)
        rounds = []
        for r in range(4):
            und = [tuple(rng.sample(range(n - 1), 2)) for _ in range(m // 2)]
            adj = [t for i, j in und for t in ((i, j, 1), (j, i, 1))]
            labels = ['r%d_%d' % (r if r != 2 else 1, i) for i in range(n)]          # round 3 re-uses the labels of round 2
            if r == 3:
                adj = [tuple(t) for t in rounds[-1][0]]                               # round 4: the edges of round 3, new labels only
            rounds.append((adj, labels))
        ctx.count('cc:same-objects-refilled-in-place')
        ctx.case(nontrivial_key=('cc-refill', str(rounds)))
        check_cc_refill(ctx, rounds, 'repeated calls')


EXTRA_COMMUNITY = ['edge_betweenness', 'leading_eigenvector', 'voronoi', 'optimal_modularity']
EXTRA_KW = {'leiden': [dict(resolution=1.0), dict(objective_function='modularity', n_iterations=-1), dict(objective_function='modularity', resolution=0.05),
                       dict(objective_function='CPM', resolution=0.3, beta=0.1, n_iterations=4)],
            'multilevel': [dict(resolution=0.2), dict(resolution=3.0)], 'walktrap': [dict(steps=1), dict(steps=8)], 'infomap': [dict(trials=5)],
            'edge_betweenness': [dict(), dict(directed=False)], 'voronoi': [dict(), dict(radius=1.0)],
            'leading_eigenvector': [dict(), dict(clusters=2)]}


def community_batch(ctx, jobs):
    """jobs: [(n, adj, labels, method, kw, desc, seqs, akind, nkind)] - check_community for all of them with the model's two functions
    evaluated in two batches."""
    live = []
    for n, adj, labels, m, kw, desc, seqs, akind, nkind in jobs:
        seed = ctx.rng.getrandbits(30)
        r = community_labelling(n, adj, labels, m, kw, seed, akind, nkind)
        if r[0] != 'ok' and IGRAPH_MAY_DECLINE.get(m) == r[1]:
            ctx.count('community:%s-declined-by-igraph' % m)
        elif r[0] != 'ok':
            report_community(ctx, n, adj, labels, m, kw, seed, desc, seqs, r[1], akind, nkind)
        else:
            live.append((n, adj, labels, m, kw, desc, seqs, akind, nkind, seed, r[1]))
    comps = ctx.oracle.run_parallel([('api_components', [j[0], edges_of(j[1])]) for j in live], nproc=4)
    oks = ctx.oracle.run_parallel([('api_refines', [j[10], Q]) for j, Q in zip(live, comps)], nproc=4)
    nbad = 0
    for (n, adj, labels, m, kw, desc, seqs, akind, nkind, seed, P), Q, ok in zip(live, comps, oks):
        if ok:
            continue
        nbad += 1
        if nbad > 3:
            continue
        u, v = next((u, v) for u in range(n) for v in range(n) if P[u] == P[v] and Q[u] != Q[v])
        report_community(ctx, n, adj, labels, m, kw, seed, desc, seqs,
                         'nodes %s and %s are in one cluster but no path of neighbour edges connects them' % (labels[u], labels[v]), akind, nkind)
    return nbad


def community_extra(ctx, nsmall, nrandom):
    """(b) for the other community_* methods the `clustering` argument reaches (the name is pasted into g.community_<name>): edge_betweenness
    (a dendrogram, like fastgreedy / walktrap), leading_eigenvector, voronoi, optimal_modularity (small graphs only); further igraph options
    through **kwargs for the six older ones; the neighbour list and the labels in other containers and edge-list forms."""
    rng = ctx.rng
    pairs5 = [(i, j) for i in range(5) for j in range(i + 1, 5)]
    masks = list(range(1, 1 << 10))
    if nsmall < len(masks):
        masks = rng.sample(masks, nsmall)
    labels5 = ['v%d' % i for i in range(5)]
    jobs = []
    for mask in masks:
        und = [p for b, p in enumerate(pairs5) if mask >> b & 1]
        for m in EXTRA_COMMUNITY:
            form = ['sym', 'one', 'dup', 'self'][(mask + len(m)) % 4]
            adj = edge_form(rng, und, form, range(5))
            ctx.count('community:' + m)
            ctx.case(nontrivial_key=('cg5x', mask, m))
            jobs.append((5, adj, labels5, m, rng.choice(EXTRA_KW.get(m, [dict()])), 'graph on 5 nodes #%d, %s edge list' % (mask, form), None, 'list', 'list'))
    for it in range(nrandom):
        eng = ['nearest_neighbor', 'symdel', 'kdtree'][it % 3]
        k = rng.choice([1, 2, 3])
        seqs = small_repertoire(rng, rng.randint(4, 30)) + far_apart(rng, 2)
        n = len(seqs)
        sym = search(eng, seqs, k)
        if not sym:
            continue
        form = ['sym', 'one', 'dup', 'self'][it % 4]
        und = sorted(set((min(a, b), max(a, b)) for a, b, _ in sym))
        adj = sym if form == 'sym' else edge_form(rng, und, form, range(n))
        akind = ADJ_KINDS[it % len(ADJ_KINDS)]
        nkind = NODE_KINDS[(it * 4 + 1) % len(NODE_KINDS)]
        labels = ['node_%d' % i for i in range(n)]
        for m in COMMUNITY + EXTRA_COMMUNITY[:3]:
            kw = rng.choice(EXTRA_KW.get(m, [dict()]) + COMMUNITY_KW.get(m, []))
            ctx.count('community:' + m)
            ctx.count('community:adj-as-' + akind)
            ctx.count('community:options=' + ','.join(sorted(kw)) if kw else 'community:options=none')
            ctx.case(nontrivial_key=('community-extra', m, tuple(seqs), k, str(kw)))
            jobs.append((n, adj, labels, m, kw, '%s on %s(max_edits=%d) %s edge list, %d sequences' % (m, eng, k, form, n), seqs, akind, nkind))
    return community_batch(ctx, jobs)


def check_hc_refill(ctx, hist, w, lk0, ck0, desc):
    """(c) called again and again with the SAME objects (one object array of sequences, one metric object, the same option dicts),
    the array refilled in place with the next entry of hist between the calls."""
    import pyrepseq.distance as ds
    import scipy.cluster.hierarchy as hc
    from pyrepseq.metric import WeightedLevenshtein
    arr = np.empty(len(hist[0]), dtype=object)
    metric = WeightedLevenshtein(*w)
    lk, ck = dict(lk0), dict(ck0)
    for r, seqs in enumerate(hist):
        arr[:] = seqs
        vec = ctx.oracle.run([('api_pdist_wlev', [w[0], w[1], w[2], list(seqs)])])[0]
        got = call_impl(lambda: ds.hierarchical_clustering(arr, metric, lk, ck))
        Zr = hc.linkage(np.array(vec, dtype=np.float64), **lk0)
        clr = hc.fcluster(Zr, **ck0)
        ctx.count('hc:same-objects-refilled-in-place')
        ctx.case(nontrivial_key=('hc-refill', tuple(seqs), r))
        if got[0] != 'ok' or not np.array_equal(np.asarray(got[1][0]), Zr) or not np.array_equal(np.asarray(got[1][1]), clr):
            ctx.violation('property', '%s: call %d of hierarchical_clustering(arr, metric, linkage_kws, cluster_kws) with the same objects, arr refilled in place '
                          '(now %s; earlier %s), WeightedLevenshtein%s, %s, %s: %s differs from SciPy on the distances %s: %s' %
                          (desc, r + 1, list(seqs), hist[:r], tuple(w), lk0, ck0, jsonable(got[1][1]) if got[0] == 'ok' else got, vec[:10], clr.tolist()),
                          dict(part='hc-refill', history=[list(h) for h in hist[:r + 1]], weights=list(w), linkage_kws=lk0, cluster_kws=ck0),
                          site='distance.hierarchical_clustering')
            return False
    return True


def hc_refill(ctx, nseries):
    rng = ctx.rng
    for _ in range(nseries):
        n = rng.randint(3, 9)
        w = [rng.choice([1, 2]) for _ in range(3)]
        lk, ck = dict(method=rng.choice(['single', 'complete', 'average'])), dict(t=rng.randint(1, 6), criterion='distance')
        hist = [(small_repertoire(rng, n) * n)[:n] for _ in range(3)]
        if not check_hc_refill(ctx, hist, w, lk, ck, 'repeated calls'):
            return


def check_hc_refill_table(ctx, hist, spec, lk0, ck0, desc):
    """(c) on ONE table object and ONE TCR metric object, called again and again, the table edited in place between the calls (a chain
    column overwritten, finally a row dropped): every call is SciPy's clustering of the distances of the rows the table holds NOW (seeded
    change C15-r6m3: a metric that remembers the last table it saw)."""
    import pyrepseq.distance as ds
    import scipy.cluster.hierarchy as hc
    from pyrepseq.metric.tcr_metric import BetaCdr3Levenshtein, AlphaCdr3Levenshtein, Cdr3Levenshtein
    name, weights = spec
    metric = dict(BetaCdr3Levenshtein=lambda: BetaCdr3Levenshtein(*weights), AlphaCdr3Levenshtein=lambda: AlphaCdr3Levenshtein(*weights),
                  Cdr3Levenshtein=lambda: Cdr3Levenshtein(*weights))[name]()
    df = pd.DataFrame({c: list(v) for c, v in hist[0].items()})
    for r, cols in enumerate(hist):
        if r:
            n_now, n_new = len(df), len(next(iter(cols.values())))
            if n_new < n_now:
                df.drop(index=df.index[n_new:], inplace=True)
            for c, v in cols.items():
                df[c] = list(v)
        used, w = metric_columns(cols, spec)
        vec = model_vector(ctx, used, w)
        got = call_impl(lambda: ds.hierarchical_clustering(df, metric, dict(lk0), dict(ck0)))
        Zr = hc.linkage(np.array(vec, dtype=np.float64), **lk0)
        clr = hc.fcluster(Zr, **ck0)
        ctx.count('hc:same-table-and-metric-edited-in-place')
        ctx.case(nontrivial_key=('hc-refill-table', str(cols), r))
        if got[0] != 'ok' or not np.array_equal(np.asarray(got[1][0]), Zr) or not np.array_equal(np.asarray(got[1][1]), clr):
            ctx.violation('property', '%s: call %d of hierarchical_clustering(table, metric, ..) with the same table and %s%s objects, the table edited in place '
                          '(now %s; earlier %s), %s, %s: %s differs from SciPy on the distances %s: %s' %
                          (desc, r + 1, name, tuple(weights), cols, hist[:r], lk0, ck0, jsonable(got[1][1]) if got[0] == 'ok' else got, vec[:10], clr.tolist()),
                          dict(part='hc-refill-table', history=hist[:r + 1], metric=[name, list(weights)], linkage_kws=lk0, cluster_kws=ck0),
                          site='distance.hierarchical_clustering')
            return False
    return True


def hc_refill_table(ctx, nseries):
    rng = ctx.rng
    for it in range(nseries):
        n = rng.randint(4, 8)
        spec = [('Cdr3Levenshtein', [1, 1, 1]), ('BetaCdr3Levenshtein', [rng.choice([1, 2]) for _ in range(3)]), ('AlphaCdr3Levenshtein', [1, 1, 1])][it % 3]
        lk, ck = dict(method=rng.choice(['single', 'complete', 'average'])), dict(t=rng.randint(1, 5), criterion='distance')
        hist = []
        for r, m in enumerate((n, n, n - 1)):
            hist.append({'CDR3A': (small_repertoire(rng, m) * m)[:m], 'CDR3B': (small_repertoire(rng, m) * m)[:m]})
        if not check_hc_refill_table(ctx, hist, spec, lk, ck, 'repeated calls on one table'):
            return


def hc_strings_as_given(ctx):
    """(c) strings are compared AS GIVEN: letter case, symbols and blanks are characters like any other (seeded change C15-r6m2: a
    pre-processor that folds case and strips non-alphanumerics inside the metric)."""
    rng = ctx.rng
    fam = ['CASSLG', 'casslg', 'CAS*LG', 'CAS_LG', ' CASSLG', 'CASSLG ', 'CaSSLG', 'CAS-LG', 'CASSLG.', 'cAS*Lg']
    for it in range(4 if ctx.quick else 24):
        n = rng.randint(4, len(fam))
        seqs = rng.sample(fam, n)
        spec = [None, ('WeightedLevenshtein', [rng.choice([1, 2]) for _ in range(3)]), ('Levenshtein', [1, 1, 1]), None][it % 4]
        lk = dict(method=['single', 'complete', 'average', 'weighted'][it % 4])
        ck = dict(t=rng.choice([0, 1, 2]), criterion='distance')
        kind = ['list', 'ndarray', 'series', 'ndarray_U'][it % 4]
        ctx.count('hc:strings-as-given (case, symbols, blanks)')
        ctx.case(nontrivial_key=('hc-as-given', tuple(seqs), str(spec), str(lk), str(ck)))
        if not hc_compare(ctx, {None: seqs}, kind, list(range(n)), spec, lk, ck, 'strings differing by case / symbols / blanks', positional=(it % 2 == 1 and spec is not None)):
            return


def hc_column_order(ctx):
    """(c) the default metric of a paired table does not depend on the ORDER of its columns (seeded change C15-r7m1: a lookup keyed by the
    CDR3 columns in order of appearance)."""
    rng = ctx.rng
    for it in range(3 if ctx.quick else 18):
        n = rng.randint(3, 9)
        cols = tcr_columns(rng, n, 'AB')
        lk = dict(method=['average', 'single', 'complete'][it % 3])
        ck = dict(t=rng.randint(1, 6), criterion='distance')
        ctx.count('hc:paired table, beta chain column first, default metric')
        ctx.case(nontrivial_key=('hc-colorder', str(cols), str(lk), str(ck)))
        if not hc_compare(ctx, cols, 'table_beta_first', list(range(n)), None, lk, ck, 'paired table with the beta chain columns first'):
            return


def hc_index_independence(ctx):
    """(c) rows are rows: a table whose index is permuted / made of strings / repeated clusters exactly as the same rows under the default index,
    also with the all-CDR metrics, which look the CDR1 / CDR2 loops up from each row's V allele (seeded change C15-r9m3: the looked-up loops
    put back under a fresh 0..n-1 index, so that a re-indexed table gets other rows' loops)."""
    import pyrepseq.distance as ds
    from pyrepseq.metric.tcr_metric import CdrLevenshtein, BetaCdrLevenshtein, AlphaCdrLevenshtein
    rng = ctx.rng
    trav = ['TRAV1-1*01', 'TRAV12-1*01', 'TRAV21*01', 'TRAV8-4*01', 'TRAV38-1*01']
    trbv = ['TRBV7-9*01', 'TRBV20-1*01', 'TRBV5-1*01', 'TRBV2*01', 'TRBV28*01']
    for it in range(3 if ctx.quick else 24):
        n = rng.randint(4, 8)
        base = pd.DataFrame(dict(TRAV=[rng.choice(trav) for _ in range(n)], CDR3A=(small_repertoire(rng, n) * n)[:n], TRAJ=['TRAJ1*01'] * n,
                                 TRBV=[rng.choice(trbv) for _ in range(n)], CDR3B=(small_repertoire(rng, n) * n)[:n], TRBJ=['TRBJ1-1*01'] * n))
        perm = list(range(n))
        rng.shuffle(perm)
        idx = [perm, ['r%d' % i for i in perm], [i // 2 for i in range(n)]][it % 3]
        other = base.copy()
        other.index = idx
        mk = [CdrLevenshtein, BetaCdrLevenshtein, AlphaCdrLevenshtein][it % 3]
        lk, ck = dict(method=['average', 'single', 'complete'][it % 3]), dict(t=rng.randint(2, 12), criterion='distance')
        a = call_impl(lambda: ds.hierarchical_clustering(base, mk(), dict(lk), dict(ck)))
        b = call_impl(lambda: ds.hierarchical_clustering(other, mk(), dict(lk), dict(ck)))
        ctx.count('hc:all-CDR metric, re-indexed table = default-index table')
        ctx.case(nontrivial_key=('hc-index', str(base.values.tolist()), str(idx), mk.__name__))
        same = a[0] == b[0] and (a[0] != 'ok' or (np.array_equal(np.asarray(a[1][0]), np.asarray(b[1][0])) and np.array_equal(np.asarray(a[1][1]), np.asarray(b[1][1]))))
        if not same or a[0] != 'ok':
            ctx.violation('property', 'hierarchical_clustering(table, %s(), %s, %s) on rows %s: with the index %s the result is %s, with the default index %s' %
                          (mk.__name__, lk, ck, base.values.tolist(), idx, str(b)[:300], str(a)[:300]),
                          dict(part='hc-index', rows=base.values.tolist(), index=[str(x) for x in idx], metric=mk.__name__), site='distance.hierarchical_clustering')
            return


def hc_extras(ctx, nrounds):
    """(c) over what the older loop leaves out: further containers, a caller-defined Metric with non-integer / very large distances,
    chain weights, the metric handed over positionally or with the legacy pair tuple, partial option dicts (SciPy's own defaults apply to
    what they omit), linkage methods centroid / median / ward, criteria monocrit / maxclust_monocrit, thresholds that are not integers,
    sequences long enough for distances beyond 127 and 255, enough sequences for more than 255 flat clusters."""
    rng = ctx.rng
    plain_kinds = ['ndarray_U', 'series_default', 'series_intperm', 'index', 'list', 'tuple']
    table_kinds = ['table_dupindex', 'table_fullcols', 'table_default', 'pair_tuple_nd', 'pair_tuple_series', 'pair_tuple']
    methods = ['centroid', 'median', 'ward', 'single', 'complete', 'average', 'weighted']

    def options(n, it):
        lk = [dict(), dict(optimal_ordering=True), dict(method=methods[it % 7]), dict(method=methods[it % 7], optimal_ordering=it % 2 == 0)][it % 4]
        c = it % 6
        if c == 0:
            ck = dict(t=rng.choice([0.5, 1.5, 2.25, 3.0, 1e6]), criterion='distance')
        elif c == 1:
            ck = dict(t=rng.choice([0.7, 1.0, 1.2]))                                   # criterion omitted: SciPy's default
        elif c == 2 and n >= 2:
            ck = dict(t=rng.choice([1, 2, 3, 5]), criterion=rng.choice(['monocrit', 'maxclust_monocrit']), monocrit=[float(rng.randint(0, 6)) for _ in range(n - 1)])
        elif c == 3:
            ck = dict(t=rng.choice([1, n, n + 3, 10 ** 6]), criterion='maxclust')
        elif c == 4:
            ck = dict(t=rng.randint(0, 9), criterion='distance')
        else:
            ck = None
        return (None if it % 11 == 10 else lk), ck

    for it in range(nrounds):
        n = rng.randint(2, 12) if it % 9 else rng.choice([1, 2])
        perm = list(range(n))
        rng.shuffle(perm)
        positional = False
        if it % 2 == 0:
            kind = plain_kinds[it // 2 % len(plain_kinds)]
            cols = {None: (small_repertoire(rng, n, rng.choice([gens.AA, 'ACD'])) * n)[:n]}
            m = it // 2 % 4
            if m == 0:
                metric_spec = ('Custom', [rng.choice([1, 1, 0.125, 40000, 3e9])])
            elif m == 1:
                metric_spec = ('WeightedLevenshtein', [rng.choice([1, 2, 5]) for _ in range(3)])
                positional = True
            elif m == 2:
                metric_spec = ('Levenshtein', [1, 1, 1])
                positional = it % 3 == 0
            else:
                metric_spec = None
        else:
            kind = table_kinds[it // 2 % len(table_kinds)]
            which = 'AB' if kind.startswith('pair') else ['A', 'B', 'AB'][it // 2 % 3]
            cols = tcr_columns(rng, n, which)
            if kind.startswith('pair'):
                cols = {c: cols[c] for c in ('CDR3A', 'CDR3B')}
            m = it // 2 % 5
            metric_spec = None
            if which == 'AB' and m in (0, 1):
                metric_spec = ('Cdr3Levenshtein', [rng.choice([1, 2]) for _ in range(3)] + [rng.choice([1, 2, 3]), rng.choice([1, 2, 3])])
            elif which == 'AB' and m == 2:
                metric_spec = (rng.choice(['BetaCdr3Levenshtein', 'AlphaCdr3Levenshtein']), [rng.choice([1, 2]) for _ in range(3)])
                positional = True
            elif which == 'A' and m == 3:
                metric_spec = ('AlphaCdr3Levenshtein', [1, 1, 1])
            elif which == 'B' and m == 3:
                metric_spec = ('BetaCdr3Levenshtein', [2, 1, 1])
        lk, ck = options(n, it)
        ctx.count('hc:input=' + kind)
        ctx.count('hc:method=' + ('default' if lk is None else lk.get('method', 'omitted')))
        ctx.count('hc:criterion=' + ('default' if ck is None else ck.get('criterion', 'omitted')))
        ctx.count('hc:metric=' + ('default' if metric_spec is None else metric_spec[0] + ('+chain-weights' if len(metric_spec[1]) == 5 else '')))
        if positional:
            ctx.count('hc:metric-positional')
        ctx.case(nontrivial_key=('hc-extra', kind, tuple(map(tuple, cols.values())), str(lk), str(ck), str(metric_spec)))
        hc_compare(ctx, cols, kind, perm, metric_spec, lk, ck, 'extra case %d' % it, positional=positional)
        if len(ctx.violations) > 8:
            return
    # long sequences: distances beyond 127 (unweighted) and beyond 255 (weighted)
    for spec, lo, hi in ((None, 150, 175), (('WeightedLevenshtein', [2, 3, 3]), 128, 140)):
        seqs = [''.join(rng.choice(gens.AA) for _ in range(rng.randint(lo, hi))) for _ in range(3)]
        seqs.append(gens.mutate(rng, seqs[0], gens.AA, 3))
        seqs.append('CASSF')
        rng.shuffle(seqs)
        ctx.count('hc:sequences-longer-than-127')
        ctx.case(nontrivial_key=('hc-long', tuple(seqs)))
        hc_compare(ctx, {None: seqs}, 'list', list(range(5)), spec, dict(method='complete'), dict(t=rng.choice([100, 127, 130, 256, 300]), criterion='distance'),
                   'long sequences')
    # many sequences: more than 255 flat clusters, cluster numbers in the linkage beyond 2 * 255
    seqs = []
    while len(seqs) < 290:
        seqs = sorted(set(seqs + repertoire(rng, 330, extras=False, minlen=3)))
    rng.shuffle(seqs)
    seqs = seqs[:rng.randint(262, 290)]
    # (the second one with the function's default linkage options: average linkage with optimal leaf ordering)
    for lk, ck in ((dict(method='single'), dict(t=0, criterion='distance')), (None, dict(t=258, criterion='maxclust'))):
        ctx.count('hc:more-than-255-flat-clusters')
        ctx.case(nontrivial_key=('hc-many', tuple(seqs), str(ck)))
        hc_compare(ctx, {None: seqs}, 'ndarray', list(range(len(seqs))), None, lk, ck, '%d distinct sequences' % len(seqs))
    if not ctx.quick:
        # more than 1000 sequences, default options (the model's 550 000 distances take about 10 s)
        seqs = []
        while len(seqs) < 1030:
            seqs = sorted(set(seqs + repertoire(rng, 1200, extras=False, minlen=3)))
        rng.shuffle(seqs)
        seqs = seqs[:rng.randint(1005, 1030)]
        ctx.count('hc:more-than-1000-sequences')
        ctx.case(nontrivial_key=('hc-1000', tuple(seqs)))
        hc_compare(ctx, {None: seqs}, 'list', list(range(len(seqs))), None, None, dict(t=rng.choice([3, 1001]), criterion=rng.choice(['distance', 'maxclust'])),
                   '%d distinct sequences' % len(seqs))


def sl_extras(ctx, nrounds):
    """(d) with the sequences in other containers, the threshold as a float, optimal_ordering, thresholds 5 and 6 (short sequences)."""
    rng = ctx.rng
    base = all_strings('AC', 3) + all_strings('ACD', 2, 1)
    for it in range(nrounds):
        if it % 2:
            seqs = rng.sample(base, rng.randint(4, 12)) + rng.sample(base, 2)
        else:
            seqs = small_repertoire(rng, rng.randint(3, 14), maxlen=9) + ['WWWWWWW', 'PPPPPP']
        if len(seqs) < 2:
            seqs = seqs + ['CASSF']
        variant = dict(kind=['ndarray', 'series', 'series_intperm', 'ndarray_U', 'index', 'tuple'][it % 6], float_t=it % 2 == 0)
        if it % 3 == 0:
            variant['optimal_ordering'] = it % 2 == 0
        for t in ([1, 5, 6] if it % 2 == 0 else [0, 2, 3]):
            eng = ['nearest_neighbor', 'symdel'][it % 2]
            ctx.count('single:t=%d' % t)
            ctx.count('single:input=' + variant['kind'])
            ctx.case(nontrivial_key=('single-extra', tuple(seqs), t, str(variant)))
            sl_compare(ctx, seqs, t, eng, 'single linkage t=%s (%s, %s), %d sequences' % (t, eng, variant, len(seqs)), variant=variant)
        if len(ctx.violations) > 8:
            return


# ------------------------------------------------------------------ run
def run(ctx):
    rng = ctx.rng
    q = ctx.quick
    hc_defaults()
    ctx.rule = ("(a) graph_clustering 'cc' on neighbour lists returned by nearest_neighbor / symdel / kdtree / hash_based (triplets; list of tuples and "
                "ndarray) for clonal repertoires with duplicates at distance 0, isolated nodes, and repertoires with no neighbours (the empty list), plus "
                "every graph on 4 nodes without and with the self pairs (i, i, 0), and the lists of nearest_neighbor / symdel(seqs, seqs2=seqs) "
                "(every sequence its own neighbour); string node labels (unique, and the sequences themselves); (b) the six community variants: "
                "refinement of the connected components, also on repertoires with more than 100 clusters / communities; (c) hierarchical_clustering vs scipy linkage/fcluster of the model's condensed distances for list / tuple / ndarray / "
                "Series(non-default index) / TCR tables with permuted or string index (CDR3A, CDR3B, both) / legacy pair tuple, methods single, complete, "
                "average, weighted, optimal_ordering on/off, criteria distance / maxclust / inconsistent, explicit metrics; (d) single linkage cut at "
                "t = 0..4 vs components of the max_edits = t graph from the real search and vs the single-linkage model; "
                "(e) audit widening: (a) with the neighbour list as list of lists / tuple of tuples / int32, float64, Fortran, non-contiguous arrays / NumPy-scalar "
                "tuples / the search result untouched, in symmetric, one-orientation, repeated and self-pair forms with distances up to 1000, the labels "
                "(strings, integers that are not positions, floats, equal labels across clusters) as tuple / ndarray / Series (default, permuted, string index) / "
                "Index / Categorical, beyond 2**15 and 2**16 nodes, and on one array / label list refilled in place between calls; (b) also edge_betweenness, "
                "leading_eigenvector, voronoi, optimal_modularity and further igraph options; (c) also fixed-width arrays, Series with default / permuted integer "
                "index, Index, tables with default / duplicated index / all six columns, a caller-defined Metric (non-integer, very large distances), chain weights, "
                "positional metric, metric with the pair tuple, partial option dicts, centroid / median / ward, monocrit criteria, distances beyond 127 and 255, "
                "more than 255 flat clusters, same objects refilled in place; (d) also other containers, float t, t = 5, 6. "
                "non-trivial := the expected partition has a cluster of size >= 3 and an isolated node (a, b, d) / at least 3 distinct distances (c)")

    # ---- (a) connected components ------------------------------------------------------------------
    # the empty neighbour list first: what every search returns when nothing is close
    seqs = far_apart(rng, 4)
    empty_ok = True
    for eng in ENGINES:
        if not empty_ok:
            break
        adj = search(eng, seqs, 1)
        ctx.count('cc:empty-neighbour-list')
        ctx.case(nontrivial_key=None)
        if adj:
            ctx.violation('correspondence', 'generator: far-apart sequences have neighbours %s' % adj, dict(seqs=seqs), site='harness')
            continue
        for kind in ('list', 'ndarray0x3'):
            if not check_cc(ctx, len(seqs), adj, kind, ['far%d' % i for i in range(len(seqs))], 'no neighbours (%s, %s)' % (eng, kind), seqs, eng, 1):
                empty_ok = False
                break
    # every graph on 4 nodes (both orientations as the search returns them)
    pairs4 = [(i, j) for i in range(4) for j in range(i + 1, 4)]
    vmn = 0
    for mask in range(1, 1 << len(pairs4)):
        adj = []
        for b, (i, j) in enumerate(pairs4):
            if mask >> b & 1:
                adj += [(i, j, 1), (j, i, 1)]
        labels = ['w', 'x', 'y', 'z']
        ctx.case(nontrivial_key=('g4', mask))
        ctx.count('cc:all-graphs-4')
        check_cc(ctx, 4, adj, 'list' if mask % 2 else 'ndarray', labels, 'graph on 4 nodes #%d' % mask)
        if mask % 9 == 0:
            e = edges_of(adj)
            ctx.add_vm('api_graph_cc', [4, e], ctx.oracle.run([('api_graph_cc', [4, e])])[0])
    # the same graphs as the two-collection search of a collection against itself lists them: every node is its own neighbour at
    # distance 0 (incl. mask 0: nothing but the self pairs). A node whose only neighbour is itself is a cluster with ONE member.
    nself_bad = 0
    for mask in range(0, 1 << len(pairs4)):
        adj = [(i, i, 0) for i in range(4)]
        for b, (i, j) in enumerate(pairs4):
            if mask >> b & 1:
                adj += [(i, j, 1), (j, i, 1)]
        adj.sort()
        ctx.case(nontrivial_key=('g4-self', mask))
        ctx.count('cc:all-graphs-4-with-self-pairs')
        if nself_bad < 2 and not check_cc(ctx, 4, adj, 'ndarray' if mask % 2 else 'list', ['w', 'x', 'y', 'z'], 'graph on 4 nodes #%d with self pairs' % mask):
            nself_bad += 1
        if mask in (0, 5, 33):
            e = edges_of(adj)
            ctx.add_vm('api_graph_cc', [4, e], ctx.oracle.run([('api_graph_cc', [4, e])])[0])
    ctx.exhaustive = True
    # (b) the community variants on every labelled graph with 5 nodes (quick: every graph with an isolated node, the rest sampled)
    all5 = list(range(1, 1 << 10))
    if q:
        pairs5 = [(i, j) for i in range(5) for j in range(i + 1, 5)]

        def has_isolated(mask):
            deg = [0] * 5
            for b, (i, j) in enumerate(pairs5):
                if mask >> b & 1:
                    deg[i] += 1
                    deg[j] += 1
            return 0 in deg
        iso = [m for m in all5 if has_isolated(m)]
        all5 = iso + rng.sample([m for m in all5 if not has_isolated(m)], 60)
    community_small_graphs(ctx, 5, all5)
    if len(ctx.violations) > 8:
        return
    ncc = 70 if q else 1200
    for it in range(ncc):
        eng = ENGINES[it % 4] if it % 9 != 8 else 'kdtree_top1'
        k = rng.choice([1, 1, 2, 3])
        n = rng.randint(2, 40 if q else 120)
        if eng == 'hash_based':
            k = min(k, 2)
            seqs = small_repertoire(rng, min(n, 25), maxlen=13 if k == 1 else 8)
        else:
            seqs = small_repertoire(rng, n)
        if it % 6 == 5:
            seqs = seqs + far_apart(rng, 3)           # isolated nodes for sure
        n = len(seqs)
        adj = search(eng, seqs, k)
        kind = ['list', 'ndarray'][it % 2] if adj else 'list'
        labels = ['node_%d' % i for i in range(n)] if it % 3 else list(seqs)
        comp = ctx.oracle.run([('api_components', [n, edges_of(adj)])])[0]
        sizes = sorted(len(p) for p in partition_of(comp))
        nt = sizes and sizes[-1] >= 3 and sizes[0] == 1
        ctx.count('cc:' + eng)
        ctx.count('cc:has-dist0-edge' if any(d == 0 for _, _, d in adj) else 'cc:no-dist0-edge')
        ctx.count('cc:empty-neighbour-list' if not adj else 'cc:nonempty')
        ctx.case(sample=dict(part='cc', engine=eng, k=k, seqs=seqs[:10], edges=len(adj), components=partition_of(comp)[:6]) if nt and it % 10 == 0 else None,
                 nontrivial_key=('cc', tuple(seqs), k) if nt else None)
        check_cc(ctx, n, adj, kind, labels, '%s(max_edits=%d) on %d sequences' % (eng, k, n), seqs, eng, k)
        if vmn < 10 and n <= 12 and adj:
            vmn += 1
            ctx.add_vm('api_components', [n, edges_of(adj)], comp)
        # ---- (b) community variants on the same neighbour list
        if adj and it % (2 if q else 1) == 0:
            ulabels = ['node_%d' % i for i in range(n)]
            for m in COMMUNITY:
                kw = rng.choice(COMMUNITY_KW.get(m, [dict()]))
                st = steered_kwargs(rng, m, n) if rng.random() < 0.5 else None
                if st is not None:
                    kw = st
                    ctx.count('community:steered-' + m)
                ctx.count('community:' + m)
                ctx.case(nontrivial_key=('community', m, tuple(seqs), k) if nt else None)
                check_community(ctx, n, adj, ulabels, m, kw, '%s on %s(max_edits=%d), %d sequences' % (m, eng, k, n), seqs)
        if len(ctx.violations) > 8:
            return

    # ---- (c) hierarchical clustering --------------------------------------------------------------
    methods = ['single', 'complete', 'average', 'weighted']
    nhc = 60 if q else 900
    for it in range(nhc):
        n = rng.choice([1, 2, 2, 3]) if it % 12 == 0 else rng.randint(3, 14 if q else 40)
        perm = list(range(n))
        rng.shuffle(perm)
        form = it % 6
        metric_spec = None
        if form <= 2:
            kind = ['list', 'ndarray', 'series', 'tuple'][it // 6 % 4]
            cols = {None: small_repertoire(rng, n, rng.choice([gens.AA, 'AC', 'ACDE']))[:n]}
            while len(cols[None]) < n:
                cols[None].append(rng.choice(cols[None]))
            if it % 5 == 0:
                metric_spec = ('WeightedLevenshtein', [rng.choice([1, 2, 3]) for _ in range(3)])
            elif it % 5 == 1:
                metric_spec = ('Levenshtein', [1, 1, 1])
        else:
            which = ['A', 'B', 'AB'][form - 3]
            cols = tcr_columns(rng, n, which)
            kind = rng.choice(['table_permuted', 'table_strindex'])
            if which == 'AB' and (it // 6) % 4 == 0:
                kind = 'pair_tuple' if (it // 24) % 2 == 0 else 'pair_tuple_series'
                cols = {c: cols[c] for c in ('CDR3A', 'CDR3B')}
            elif which == 'AB' and (it // 6) % 4 == 1:
                metric_spec = (rng.choice(['BetaCdr3Levenshtein', 'AlphaCdr3Levenshtein']), [1, 1, 1])
            elif which == 'AB' and (it // 6) % 4 == 2:
                metric_spec = ('Cdr3Levenshtein', [rng.choice([1, 2]), rng.choice([1, 2]), rng.choice([1, 2])])
        if it % 7 == 0:
            lk, ck = None, None                                                   # the defaults
        else:
            lk = dict(method=rng.choice(methods))
            if rng.random() < 0.6:
                lk['optimal_ordering'] = rng.random() < 0.5
            crit = rng.choice(['distance', 'distance', 'maxclust', 'inconsistent'])
            ck = {'distance': dict(t=rng.randint(0, 8), criterion='distance'), 'maxclust': dict(t=rng.randint(1, 5), criterion='maxclust'),
                  'inconsistent': dict(t=rng.choice([0.8, 1.0, 1.15]), criterion='inconsistent', depth=rng.choice([2, 3]))}[crit]
            if rng.random() < 0.15:
                ck = None
        vec = model_vector(ctx, *metric_columns(cols, metric_spec))
        nt = len(set(vec)) >= 3
        ctx.count('hc:input=' + kind)
        ctx.count('hc:method=' + ('default' if lk is None else lk['method']))
        ctx.count('hc:criterion=' + ('default' if ck is None else ck['criterion']))
        ctx.count('hc:metric=' + ('default' if metric_spec is None else metric_spec[0]))
        ctx.case(sample=dict(part='hc', kind=kind, cols={str(k_): v[:6] for k_, v in cols.items()}, linkage_kws=lk, cluster_kws=ck, distances=vec[:10]) if nt and it % 12 == 1 else None,
                 nontrivial_key=('hc', kind, tuple(map(tuple, cols.values())), str(lk), str(ck), str(metric_spec)) if nt else None)
        hc_compare(ctx, cols, kind, perm, metric_spec, lk, ck, 'case %d' % it)
        if len(ctx.violations) > 8:
            return

    # ---- (d) single linkage at t = components of the t-neighbour graph -----------------------------
    base = all_strings('AC', 3) + all_strings('ACD', 2, 1)
    nsl = 14 if q else 250
    vmn = 0
    for it in range(nsl):
        eng = ENGINES[it % 4]
        if it % 5 == 0:
            seqs = rng.sample(base, rng.randint(4, 12)) + rng.sample(base, 3)       # dense small universe, duplicates
        else:
            seqs = small_repertoire(rng, rng.randint(2, 16 if q else 45), maxlen=8 if eng == 'hash_based' else None)
            if eng == 'hash_based':
                seqs = seqs[:25]
        if len(seqs) < 2:
            seqs = seqs + ['CASSF']
        if it % 4 == 3:
            seqs = seqs + far_apart(rng, 2) if eng != 'hash_based' else seqs + ['WWWWWWW', 'PPPPPP']
        for t in range(5):
            e = eng if engine_ok(eng, seqs, max(1, t)) else 'nearest_neighbor'
            ok = sl_compare(ctx, seqs, t, e, 'single linkage t=%d (%s), %d sequences' % (t, e, len(seqs)))
            comp = ctx.oracle.run([('api_c15_sl_cut_lev', [t, list(seqs)])])[0]
            sizes = sorted(len(p) for p in partition_of(comp))
            nt = sizes[-1] >= 3 and sizes[0] == 1
            ctx.count('single:t=%d' % t)
            ctx.count('single:' + e)
            ctx.case(sample=dict(part='single', t=t, engine=e, seqs=seqs[:10], partition=partition_of(comp)[:6]) if nt and it % 4 == 0 and t == 1 else None,
                     nontrivial_key=('single', tuple(seqs), t) if nt else None)
            if ok and vmn < 12 and len(seqs) <= 7 and t in (1, 2):
                vmn += 1
                ctx.add_vm('api_c15_sl_cut_lev', [t, list(seqs)], comp)
        if len(ctx.violations) > 8:
            return
    # ---- (a) + (b) on the neighbour lists of the two-collection search, the collection searched against itself -----------------
    # (drawn after the older parts so that their random streams are what they were)
    ncx = 16 if q else 250
    for it in range(ncx):
        eng = CROSS_ENGINES[it % 2]
        k = rng.choice([0, 1, 1, 2, 3])                 # 0: only the pairs at distance 0, self pairs included
        seqs = small_repertoire(rng, rng.randint(1, 30 if q else 100))
        if it % 3 == 2:
            seqs = seqs + far_apart(rng, rng.randint(1, 3))      # sequences whose only neighbour is themselves, for sure
        n = len(seqs)
        adj = search(eng, seqs, k)
        comp = ctx.oracle.run([('api_components', [n, edges_of(adj)])])[0]
        sizes = sorted(len(p) for p in partition_of(comp))
        nt = sizes[-1] >= 3 and sizes[0] == 1
        nself = sum(1 for a, b, _ in adj if a == b)
        ctx.count('cc:' + eng)
        ctx.count('cc:self-pairs-for-every-node' if nself == n else 'cc:self-pairs-missing')
        ctx.count('cc:has-node-with-only-a-self-pair' if sizes[0] == 1 else 'cc:no-node-with-only-a-self-pair')
        ctx.case(sample=dict(part='cc', engine=eng, k=k, seqs=seqs[:10], edges=len(adj), components=partition_of(comp)[:6]) if nt and it % 8 == 0 else None,
                 nontrivial_key=('cc-x', tuple(seqs), k) if nt else None)
        labels = ['node_%d' % i for i in range(n)] if it % 4 else list(seqs)
        check_cc(ctx, n, adj, ['list', 'ndarray'][it // 2 % 2], labels, '%s(max_edits=%d, seqs2=seqs)%s on %d sequences' %
                 (eng[:-2], max(1, k), ' distance-0 pairs' if k == 0 else '', n), seqs, eng, k)
        if it % 4 == 0:
            ulabels = ['node_%d' % i for i in range(n)]
            for m in COMMUNITY:
                kw = rng.choice(COMMUNITY_KW.get(m, [dict()]))
                ctx.count('community:' + m)
                ctx.case(nontrivial_key=('community-x', m, tuple(seqs), k) if nt else None)
                check_community(ctx, n, adj, ulabels, m, kw, '%s on %s(max_edits=%d, seqs2=seqs), %d sequences' % (m, eng[:-2], max(1, k), n), seqs)
        if len(ctx.violations) > 8:
            return
    # ---- (a) + (b) on repertoires with more than 100 clusters -------------------------------------------------------------------
    community_many_clusters(ctx, 5 if q else 40, big=not q)
    if len(ctx.violations) > 8:
        return
    # ---- audit widening (drawn after all older parts so that their random streams are what they were) ---------------------------
    cc_input_kinds(ctx, 40 if q else 800)
    cc_raw_search(ctx, 12 if q else 120)
    cc_large(ctx, [2 ** 15, 2 ** 16] if q else [2 ** 15, 2 ** 16, 2 ** 15, 2 ** 16, 2 ** 17, 2 ** 15])
    for n_, m_ in ([(700000, 2 ** 20 + 4097)] if q else [(700000, 2 ** 20 + 4097), (700000, 2 ** 20 + 1), (1400000, 2 ** 21 + 70001)]):
        check_cc_many_edges(ctx, n_, m_, rng.randrange(2 ** 31), 'more than 2**20 neighbour triplets')
    cc_refill(ctx, 3 if q else 30)
    if len(ctx.violations) > 8:
        return
    community_extra(ctx, 30 if q else 1023, 6 if q else 60)
    if len(ctx.violations) > 8:
        return
    hc_extras(ctx, 48 if q else 480)
    hc_refill(ctx, 2 if q else 20)
    hc_refill_table(ctx, 3 if q else 24)
    hc_strings_as_given(ctx)
    hc_column_order(ctx)
    hc_index_independence(ctx)
    if len(ctx.violations) > 8:
        return
    sl_extras(ctx, 6 if q else 36)
    if len(ctx.violations) > 8:
        return
    # a tiny matrix case for the dendrogram entry itself
    M = [[0, 1, 5, 6], [1, 0, 2, 7], [5, 2, 0, 9], [6, 7, 9, 0]]
    o = ctx.oracle.run([('api_c15_single_linkage', [4, M]), ('api_c15_threshold_graph', [4, M, 2]), ('api_c15_sl_cut', [4, M, 2])])
    ctx.add_vm('api_c15_single_linkage', [4, M], o[0])
    ctx.add_vm('api_c15_threshold_graph', [4, M, 2], o[1])
    ctx.add_vm('api_c15_sl_cut', [4, M, 2], o[2])

    ctx.assumptions += ['igraph Graph.connected_components / community_* (contract: membership vector over the n nodes; tied by correspondence to the proved labelling / refinement check)',
                        'scipy.cluster.hierarchy.linkage / fcluster are the reference the statement names (applied by the harness to the model\'s condensed vector; '
                        'for single linkage + distance criterion additionally tied to the proved single-linkage model)',
                        'rapidfuzz process.cdist and scipy squareform(checks=False) layout (C08)',
                        'pandas DataFrame construction / value_counts / isin in graph_clustering']


# ------------------------------------------------------------------ replay
def replay(ctx, obj):
    r = obj.get('replay') or {}
    part = r.get('part')
    ctx.rule = 'replay of a stored failing input'
    ctx.case(nontrivial_key=('replay', str(r)[:200]))
    hc_defaults()
    if part == 'cc':
        adj = [tuple(t) for t in r['adj']]
        if r.get('seqs') is not None and r.get('engine'):
            adj = search(r['engine'], r['seqs'], r['k'], r['kind'] == 'raw')
        check_cc(ctx, r['n'], adj, r['kind'], r['labels'], 'replay', r.get('seqs'), r.get('engine'), r.get('k'), nkind=r.get('nkind'))
    elif part == 'cc-large':
        check_cc_large(ctx, r['n'], [tuple(t) for t in r['adj']], r['kind'], 'replay')
    elif part == 'cc-many-edges':
        check_cc_many_edges(ctx, r['n'], r['m'], r['seed'], 'replay')
    elif part == 'cc-refill':
        check_cc_refill(ctx, [([tuple(t) for t in a], list(l)) for a, l in r['rounds']], 'replay')
    elif part == 'hc-refill':
        check_hc_refill(ctx, r['history'], r['weights'], r['linkage_kws'], r['cluster_kws'], 'replay')
    elif part == 'hc-refill-table':
        check_hc_refill_table(ctx, r['history'], (r['metric'][0], r['metric'][1]), r['linkage_kws'], r['cluster_kws'], 'replay')
    elif part == 'community':
        check_community(ctx, r['n'], [tuple(t) for t in r['adj']], r['labels'], r['method'], r.get('kwargs') or {}, 'replay', r.get('seqs'), seed=r.get('seed'),
                        akind=r.get('akind') or 'list', nkind=r.get('nkind') or 'list')
    elif part == 'hc':
        cols = {(None if k == 'None' else k): v for k, v in r['cols'].items()}
        hc_compare(ctx, cols, r['kind'], r['perm'], r.get('metric'), r.get('linkage_kws'), r.get('cluster_kws'), 'replay',
                   positional=bool(r.get('positional')))
    elif part == 'single':
        sl_compare(ctx, r['seqs'], r['t'], r.get('engine') or 'nearest_neighbor', 'replay', variant=r.get('variant'))
    else:
        run(ctx)
