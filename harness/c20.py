"""C20 - calls are pure: arguments stay untouched and results ignore the call history.

Tie of the generated effect table (coq/gen/Gen_c20.v, theorems in coq/props/C20.v) to the real code:
 * ~150 base call templates over the public functions of nn, stats, distance, metric, clustering, io, util,
   entropy, plotting with representative arguments (lists, arrays, Series, tables, option dicts);
 * every call is bracketed by deep snapshots of its arguments, of __defaults__/__kwdefaults__ of every
   pyrepseq callable, of all module-level and class-level data and of NumPy's generator state; whatever
   changed must be allowed by the summary of the callable (api_c20_may_write) - and an argument or default
   object that changed is a failure of the property by itself;
 * each template runs ALONE in a fresh interpreter (one subprocess per template), and inside histories
   (fresh interpreter per history, length 2..12, repetitions, raising calls); the canonical result of a
   call in a history must equal the result of the same call alone; randomised calls run under np.random.seed.
 * a SHARED-DATA family (`shared_templates`): three overlapping sequence collections (and one table) are fed to every
   neighbour-search / distance / statistics entry point over a grid of the OTHER arguments (which collection is the
   reference, which the query or none, max_edits, distance option, container type).  Sessions walk this grid so that a
   call is preceded by calls that used the same sequences with other arguments - per-sequence state kept by an earlier
   call (a memoised helper whose result was modified in place, a reused index) then shows up as a difference from the
   fresh-process result.
 * COVERAGE AUDIT (`audit_templates`, au_*): the container kinds that stay aliased after each callable's own conversion
   (float64 / integer ndarrays, Series views, sets, tables with missing cells, string indexes), `progress=True`, every
   **kwargs pass-through, `ax=` given, pairs of options, sizes 1 / 2 / 1001, 300 residues, one object as two arguments -
   and OBJECTS THAT LIVE ACROSS CALLS (`au_live_*` against `au_ref_*`, `judge_live`): one database / metric / caller's
   container used for many calls (refilled in place in between) must give what objects built for each call give.  Every
   audit template is followed by a plain template of a callable it uses (audit probes in make_histories).
 * PROCESS-WIDE state outside pyrepseq's modules (`ambient`: NumPy error mode / print options, warnings filters, matplotlib
   rcParams, pandas options, Python's `random`, os.environ, cwd, ...) is part of every snapshot: a call that leaves it
   changed violates the property (later results depend on it).  `edge_templates`: calls that raise LATE (inside the
   optimiser, a callback, a library routine, a half-drawn figure) and BOUNDARY calls with nan / inf / empty results; every
   raising template is followed by the boundary templates in the after-raise sessions.
This file is also the worker: `python c20.py worker` reads {"history": [[template, seed-or-null], ...]} (one fresh
interpreter running one history) or {"fork": [history, ...]} (an interpreter that has imported pyrepseq but made no call
forks one pristine child per history; used for the single-call references and for shrinking)."""
import json, math, os, re, subprocess, sys, time

HERE = os.path.dirname(os.path.abspath(__file__))
ROOT = os.path.dirname(HERE)


# ------------------------------------------------------------------ canonical form
def canon(v, depth=0):
    import numpy as np
    import pandas as pd
    if depth > 12:
        return '<deep>'
    if v is None or isinstance(v, (bool, str)):
        return v
    if isinstance(v, (int, np.integer)):
        return int(v)
    if isinstance(v, (float, np.floating)):
        f = float(v)
        return 'nan' if math.isnan(f) else repr(f)
    if isinstance(v, complex):
        return repr(v)
    if isinstance(v, np.ndarray):
        return ['ndarray', list(v.shape), str(v.dtype), canon(v.tolist(), depth + 1)]
    if isinstance(v, pd.DataFrame):
        return ['DataFrame', canon(list(v.index), depth + 1), canon(list(v.columns), depth + 1),
                [str(t) for t in v.dtypes], canon(v.to_numpy(dtype=object).tolist(), depth + 1)]
    if isinstance(v, pd.Series):
        return ['Series', canon(list(v.index), depth + 1), str(v.dtype), canon(v.name, depth + 1),
                canon(v.to_numpy(dtype=object).tolist(), depth + 1)]
    if isinstance(v, pd.Index):
        return ['Index', canon(list(v), depth + 1)]
    if v is pd.NA or v is pd.NaT:
        return 'nan'
    if isinstance(v, dict):
        return ['dict', [[canon(k, depth + 1), canon(x, depth + 1)] for k, x in v.items()]]
    if isinstance(v, (list, tuple)):
        return [type(v).__name__, [canon(x, depth + 1) for x in v]]
    if isinstance(v, (set, frozenset)):
        return ['set', sorted((canon(x, depth + 1) for x in v), key=lambda t: json.dumps(t, sort_keys=True, default=str))]
    if isinstance(v, range):
        return ['range', v.start, v.stop, v.step]
    mod = type(v).__module__ or ''
    if mod.startswith('scipy.sparse'):
        return ['sparse', canon(v.toarray(), depth + 1)]
    if mod.startswith('matplotlib') or mod.startswith('seaborn') or mod.startswith('logomaker') or mod.startswith('pyrepseq.plotting'):
        return canon_artist(v, depth)
    if hasattr(v, '__next__'):
        return ['iter', [canon(x, depth + 1) for x in v]]
    if callable(v):
        return '<callable %s>' % getattr(v, '__name__', type(v).__name__)
    if mod.startswith('pyrepseq'):
        return ['object', type(v).__name__, canon({k: x for k, x in sorted(vars(v).items())}, depth + 1)]
    if isinstance(v, bytes):
        return ['bytes', v.hex()]
    return '<%s>' % type(v).__name__


def canon_artist(v, depth):
    """What a figure-producing call returned, reduced to the data it drew."""
    import numpy as np
    name = type(v).__name__
    try:
        if hasattr(v, 'get_xydata'):                          # Line2D
            return ['Line2D', canon(np.asarray(v.get_xydata()), depth + 1)]
        if hasattr(v, 'ax_heatmap'):                          # ClusterGrid
            cax = getattr(v, 'cax', None)
            return ['ClusterGrid', canon(np.asarray(getattr(v, 'data2d', [])), depth + 1),
                    canon(v.ax_heatmap.get_xlabel()), canon(v.ax_heatmap.get_ylabel()),
                    canon(np.asarray(cax.get_xticks())) if cax is not None else None,
                    [t.get_text() for t in cax.get_xticklabels()] if cax is not None else None,
                    canon(getattr(v, 'dendrogram_row', None) and v.dendrogram_row.reordered_ind),
                    canon(row_colors(v), depth + 1)]
        if hasattr(v, 'get_lines') and hasattr(v, 'collections'):   # Axes
            cols = []
            for c in v.collections:
                cols.append([canon(np.asarray(c.get_offsets()), depth + 1),
                             canon(np.asarray(c.get_array()) if c.get_array() is not None else None, depth + 1)])
            return ['Axes', v.get_xlabel(), v.get_ylabel(), v.get_xscale(), v.get_yscale(),
                    [canon(np.asarray(l.get_xydata()), depth + 1) for l in v.get_lines()], cols,
                    [t.get_text() for t in v.texts], len(v.patches)]
    except Exception as e:                                     # never let a renderer detail decide
        return '<%s: %s>' % (name, type(e).__name__)
    return '<%s>' % name


def row_colors(cg):
    rc = getattr(cg, 'row_colors', None)
    if rc is None:
        return None
    try:
        return [[list(map(float, c)) if hasattr(c, '__len__') and not isinstance(c, str) else c for c in row] for row in rc]
    except Exception:
        return '<row_colors>'


def exc_token(e):
    msg = re.sub(r'0x[0-9a-fA-F]+', '0x', str(e))[:120]
    return ['exc', type(e).__name__, msg]


# ------------------------------------------------------------------ fixtures (rebuilt for every call)
SEQS = ['CASSLGQAYEQYF', 'CASSLGQSYEQYF', 'CASSLGAYEQYF', 'CASSPGQAYEQYF', 'CATSLGQAYEQYF', 'CASSLGQAYEQF',
        'CAWSVGQGYEQYF', 'CASRLGQAYEQYF', 'CASSLGQAYEQYF', 'CASSQETQYF']
SEQS2 = ['CASSLGQAYEQYF', 'CASSLGQAYEQYW', 'CASSQETQYF', 'CAISEGQAYEQYF']
# a third collection: mostly 1-2 edit neighbours of members of SEQS / SEQS2, few exact members (a DIFFERENT reference)
SEQS3 = ['CASSLGQAYEQYW', 'CASSLGQYEQYF', 'CASSLGQAAYEQYF', 'CASSQETQYF', 'CASSQETQYFF', 'CAISEGQAYEQF', 'CASRLGQAYEQF',
         'CAWSVGQGYEQYF', 'CASSPGQSYEQYF']
SHARED = dict(a=SEQS, b=SEQS2, c=SEQS3)
ALPHA = ['CAVRDSNYQLIW', 'CAVRDSNYQLIW', 'CAVSDSNYQLIW', 'CAVRDGNYQLIW', 'CALSEAGTALIF', 'CAVRDSNYQLIW',
         'CAASGGSYIPTF', 'CAVRDSNYQLIF', 'CAVRDSNYQLIW', 'CAMREGYSTLTF']
TRBV = ['TRBV5-1*01', 'TRBV5-1*01', 'TRBV7-2*01', 'TRBV5-1*01', 'TRBV19*01', 'TRBV5-1*01', 'TRBV30*01',
        'TRBV7-9*01', 'TRBV5-1*01', 'TRBV19*01']
TRAV = ['TRAV12-2*01', 'TRAV12-2*01', 'TRAV21*01', 'TRAV12-2*01', 'TRAV19*01', 'TRAV12-2*01', 'TRAV13-1*01',
        'TRAV21*01', 'TRAV12-2*01', 'TRAV14/DV4*01']
SHORT = ['AAC', 'AAD', 'ACC', 'CCC', 'AAC', 'ADD']
COUNTS = [10, 4, 4, 2, 1, 1, 1, 7, 3]


def tcr_df():
    import pandas as pd
    return pd.DataFrame(dict(TRAV=TRAV, CDR3A=ALPHA, TRBV=TRBV, CDR3B=SEQS,
                             group=['a', 'a', 'b', 'b', 'a', 'c', 'c', 'b', 'a', 'c'],
                             donor=['x', 'y', 'x', 'y', 'x', 'y', 'x', 'y', 'x', 'y'],
                             clone_count=[5, 1, 2, 1, 9, 1, 1, 3, 2, 1]))


def raw_df():
    import pandas as pd
    import numpy as np
    return pd.DataFrame(
        data=[['av26.1*1', 'CIVRAPGRADMRF', 'aj43*1', 'bv13*1', 'CASSYLPGQGDHYSNQPQHF', 'bj1.5*1', 'FLKEKGGL', 'b8', 'b2m'],
              ['TCRAV20*01', 'CAVPSGAGSYQLTF', 'TCRAJ28*01', 'TCRBV28S1*01', 'CASSLGQSGANVLTF', 'TCRBJ2S6*01', 'LQPFPQPELPYPQPQ', 'HLA-DQA1*05', 'HLA-DQB1*02'],
              ['unknown', np.nan, 'unknown', 'TRBV7-2*01', 'CASSDWGSQNTLYF', 'TRBJ2-4*01', 'YMPYFFTLL', 'HLA-A*02', 'B2M']],
        columns=['TRAV', 'CDR3A', 'TRAJ', 'TRBV', 'CDR3B', 'TRBJ', 'Epitope', 'MHCA', 'MHCB'])


def lev3(a, b):
    from rapidfuzz.distance.Levenshtein import distance
    return 3 * distance(a, b)


def trip(seqs=None):
    import pyrepseq as prs
    return prs.symdel(list(seqs or SEQS), max_edits=2)


def T(name, entries, make, random=False, fig=False):
    return dict(name=name, entries=entries, make=make, random=random, fig=fig)


def templates():
    """name -> template. make() builds (callable, args, kwargs) from fresh objects."""
    import numpy as np
    import pandas as pd
    import pyrepseq as prs
    import pyrepseq.nn as nn
    import pyrepseq.util as util
    import pyrepseq.plotting as pp
    import pyrepseq.metric.tcr_metric as tm
    L = []
    # ---- search (nn)
    for cont, conv in [('list', list), ('ndarray', np.array), ('series', lambda s: pd.Series(s, index=np.arange(len(s)) + 3))]:
        L.append(T('kdtree_' + cont, ['nn.kdtree'], lambda conv=conv: (prs.kdtree, [conv(SEQS)], dict(max_edits=2))))
        if cont != 'ndarray':
            L.append(T('symdel_' + cont, ['nn.symdel'], lambda conv=conv: (prs.symdel, [conv(SEQS)], dict(max_edits=2))))
        if cont != 'series':
            L.append(T('hash_' + cont, ['nn.hash_based'], lambda conv=conv: (prs.hash_based, [conv(SEQS)], dict(max_edits=1))))
    L += [
        T('kdtree_hamming', ['nn.kdtree'], lambda: (prs.kdtree, [list(SEQS)], dict(max_edits=2, custom_distance='hamming'))),
        T('kdtree_custom', ['nn.kdtree'], lambda: (prs.kdtree, [list(SEQS)], dict(max_edits=2, custom_distance=lev3, max_custom_distance=3.0))),
        T('kdtree_short', ['nn.kdtree'], lambda: (prs.kdtree, [list(SHORT)], dict(max_edits=1, output_type='ndarray'))),
        T('kdtree_coo', ['nn.kdtree'], lambda: (prs.kdtree, [list(SEQS)], dict(max_edits=1, output_type='coo_matrix', compression=2))),
        T('kdtree_ncpu2', ['nn.kdtree'], lambda: (prs.kdtree, [list(SEQS2)], dict(max_edits=2, n_cpu=2))),
        T('kdtree_top1', ['nn.kdtree'], lambda: (prs.kdtree, [list(SEQS)], dict(max_edits=3, max_returns=1))),
        T('kdtree_empty_raises', ['nn.kdtree'], lambda: (prs.kdtree, [[]], {})),
        T('kdtree_badtype_raises', ['nn.kdtree'], lambda: (prs.kdtree, [list(SEQS)], dict(output_type='frame'))),
        T('hash_hamming', ['nn.hash_based'], lambda: (prs.hash_based, [list(SEQS)], dict(max_edits=1, custom_distance='hamming', output_type='ndarray'))),
        T('hash_custom', ['nn.hash_based'], lambda: (prs.hash_based, [list(SEQS)], dict(max_edits=1, custom_distance=lev3, max_custom_distance=3))),
        T('symdel_two', ['nn.symdel'], lambda: (prs.symdel, [list(SEQS)], dict(max_edits=1, seqs2=list(SEQS2)))),
        T('symdel_hamming', ['nn.symdel'], lambda: (prs.symdel, [list(SEQS)], dict(max_edits=2, custom_distance='hamming', output_type='coo_matrix'))),
        T('symdel_custom', ['nn.symdel'], lambda: (prs.symdel, [list(SEQS)], dict(max_edits=2, custom_distance=lev3, max_custom_distance=3))),
        T('symdel_k0_raises', ['nn.symdel'], lambda: (prs.symdel, [list(SEQS)], dict(max_edits=0))),
        T('symdel_notstr_raises', ['nn.symdel'], lambda: (prs.symdel, [[1, 2, 3]], {})),
        T('nearest_neighbor', ['nn.nearest_neighbor'], lambda: (prs.nearest_neighbor, [list(SEQS)], dict(max_edits=2))),
        T('nearest_neighbor_two', ['nn.nearest_neighbor'], lambda: (prs.nearest_neighbor, [np.array(SEQS)], dict(max_edits=1, seqs2=np.array(SEQS2), output_type='ndarray'))),
        T('lookupdb', ['nn.LookupDB.__init__', 'nn.LookupDB.lookup'], lambda: (lambda s, q: nn.LookupDB(s).lookup(q, max_edits=1), [list(SEQS), list(SEQS2)], {})),
        T('symdeldb', ['nn.SymdelDB.__init__', 'nn.SymdelDB.lookup'], lambda: (lambda s, q: nn.SymdelDB(s, 2).lookup(q), [list(SEQS), list(SEQS2)], {})),
        T('symdeldb_twice', ['nn.SymdelDB.__init__', 'nn.SymdelDB.lookup'],
          lambda: (lambda s, q: (lambda db: [db.lookup(q), db.lookup(q[:2], custom_distance='hamming'), db.lookup(q)])(nn.SymdelDB(s, 1)), [list(SEQS), list(SEQS2)], {})),
        T('tcrdist_beta', ['nn.nearest_neighbor_tcrdist'], lambda: (prs.nearest_neighbor_tcrdist, [tcr_df()], dict(chain='beta', max_edits=2, max_tcrdist=60))),
        T('tcrdist_both_kwargs', ['nn.nearest_neighbor_tcrdist'],
          lambda: (prs.nearest_neighbor_tcrdist, [tcr_df()], dict(chain='both', max_edits=2, max_tcrdist=200, edit_on_trimmed=False,
                                                                   tcrdist_kwargs=dict(ntrim=2, ctrim=1, dist_weight=1)))),
    ]
    # ---- statistics
    L += [
        T('powerlaw_sample', ['stats.powerlaw_sample'], lambda: (prs.powerlaw_sample, [], dict(size=20, xmin=1.0, alpha=2.2)), random=True),
        T('subsample', ['stats.subsample'], lambda: (prs.subsample, [list(COUNTS), 12], {}), random=True),
        T('subsample_arr', ['stats.subsample'], lambda: (prs.subsample, [np.array(COUNTS), 5], {}), random=True),
        T('mle_exact', ['stats.powerlaw_mle_alpha'], lambda: (prs.powerlaw_mle_alpha, [list(COUNTS)], dict(cmin=1.0))),
        T('mle_exact_kwargs', ['stats.powerlaw_mle_alpha'], lambda: (prs.powerlaw_mle_alpha, [np.array(COUNTS)], dict(cmin=1.0, bounds=[1.2, 5.0]))),
        T('mle_simple', ['stats.powerlaw_mle_alpha'], lambda: (prs.powerlaw_mle_alpha, [list(COUNTS)], dict(cmin=2.0, method='simple'))),
        T('mle_cc', ['stats.powerlaw_mle_alpha'], lambda: (prs.powerlaw_mle_alpha, [pd.Series(COUNTS)], dict(method='continuitycorrection'))),
        T('mle_bad_raises', ['stats.powerlaw_mle_alpha'], lambda: (prs.powerlaw_mle_alpha, [list(COUNTS)], dict(method='nope'))),
        T('pc_n', ['stats.pc_n'], lambda: (prs.pc_n, [list(COUNTS)], {})),
        T('pc_n_series', ['stats.pc_n'], lambda: (prs.pc_n, [pd.Series(COUNTS)], {})),
        T('pc_list', ['stats.pc'], lambda: (prs.pc, [list(SEQS)], {})),
        T('pc_two', ['stats.pc'], lambda: (prs.pc, [np.array(SEQS), pd.Series(SEQS2)], {})),
        T('pc_frame', ['stats.pc'], lambda: (prs.pc, [tcr_df()[['CDR3A', 'CDR3B']]], {})),
        T('pc_frame_na', ['stats.pc'], lambda: (prs.pc, [raw_df()[['CDR3A', 'TRAV']], raw_df()[['CDR3A', 'TRAV']]], {})),
        T('pc_tuple', ['stats.pc'], lambda: (prs.pc, [(list(ALPHA), list(SEQS))], {})),
        T('pc_joint', ['stats.pc_joint'], lambda: (prs.pc_joint, [tcr_df(), ['CDR3A', 'CDR3B']], {})),
        T('pc_joint_two', ['stats.pc_joint'], lambda: (prs.pc_joint, [tcr_df(), ['TRBV', 'group'], tcr_df().iloc[::2]], dict(gap_token='|'))),
        T('pc_grouped_cross', ['stats.pc_grouped_cross'], lambda: (prs.pc_grouped_cross, [tcr_df(), 'group', 'TRBV'], {})),
        T('pc_grouped_cross_list', ['stats.pc_grouped_cross'], lambda: (prs.pc_grouped_cross, [tcr_df(), 'donor', ['TRBV', 'TRAV']], {})),
        T('pc_conditional', ['stats.pc_conditional'], lambda: (prs.pc_conditional, [tcr_df(), ['group'], 'TRBV'], {})),
        T('pc_conditional_w', ['stats.pc_conditional'], lambda: (prs.pc_conditional, [tcr_df(), 'group', ['TRBV', 'TRAV']], dict(group_weights=[1.0, 2.0, 3.0]))),
        T('pc_conditional_w_array', ['stats.pc_conditional'], lambda: (prs.pc_conditional, [tcr_df(), 'group', 'TRBV'], dict(group_weights=np.array([1.0, 2.0, 3.0])))),
        T('varpc_n', ['stats.varpc_n'], lambda: (prs.varpc_n, [np.array(COUNTS)], {})),
        T('stdpc_n', ['stats.stdpc_n'], lambda: (prs.stdpc_n, [np.array(COUNTS)], {})),
        T('stdpc', ['stats.stdpc'], lambda: (prs.stdpc, [list(SEQS) + list(SEQS2)], {})),
        T('stdpc_joint', ['stats.stdpc_joint'], lambda: (prs.stdpc_joint, [tcr_df(), ['TRBV', 'group']], {})),
        T('chao1', ['stats.chao1'], lambda: (prs.chao1, [[3, 2, 1]], {})),
        T('chao1_arr', ['stats.chao1'], lambda: (prs.chao1, [np.array([5, 0, 1])], {})),
        T('var_chao1', ['stats.var_chao1'], lambda: (prs.var_chao1, [[3, 2, 1]], {})),
        T('chao2', ['stats.chao2'], lambda: (prs.chao2, [[3, 2, 1], 5], {})),
        T('var_chao2', ['stats.var_chao2'], lambda: (prs.var_chao2, [np.array([3, 2, 1]), 5], {})),
        T('chao1_empty_raises', ['stats.chao1'], lambda: (prs.chao1, [[]], {})),
        T('jaccard', ['stats.jaccard_index'], lambda: (prs.jaccard_index, [list(SEQS), list(SEQS2)], {})),
        T('jaccard_series', ['stats.jaccard_index'], lambda: (prs.jaccard_index, [pd.Series(['a', None, 'b']), pd.Series(['b', 'c', np.nan])], {})),
        T('overlap', ['stats.overlap'], lambda: (prs.overlap, [list(SEQS), tuple(SEQS2)], {})),
        T('overlap_coefficient', ['stats.overlap_coefficient'], lambda: (prs.overlap_coefficient, [pd.Series(SEQS), list(SEQS2) + [None]], {})),
    ]
    # ---- distances
    L += [
        T('pdist', ['distance.pdist'], lambda: (prs.pdist, [list(SEQS)], {})),
        T('pdist_metric', ['distance.pdist'], lambda: (prs.pdist, [pd.Series(SEQS2)], dict(metric=lev3, dtype=np.float64))),
        T('pdist_metric_same', ['distance.pdist'], lambda: (prs.pdist, [list(SEQS)], dict(metric=lev3, dtype=np.uint16))),
        T('cdist', ['distance.cdist'], lambda: (prs.cdist, [list(SEQS), np.array(SEQS2)], {})),
        T('downsample', ['distance.downsample'], lambda: (prs.downsample, [list(SEQS), 4], {}), random=True),
        T('downsample_frame', ['distance.downsample'], lambda: (prs.downsample, [tcr_df(), 3], {}), random=True),
        T('downsample_all', ['distance.downsample'], lambda: (prs.downsample, [list(SEQS), 50], {})),
        T('pcDelta', ['distance.pcDelta'], lambda: (prs.pcDelta, [list(SEQS)], {})),
        T('pcDelta_two', ['distance.pcDelta'], lambda: (prs.pcDelta, [np.array(SEQS), list(SEQS2)], dict(bins=[0, 1, 2, 5, 30], normalize=False))),
        T('pcDelta_bins0', ['distance.pcDelta'], lambda: (prs.pcDelta, [list(SEQS)], dict(bins=0))),
        T('pcDelta_frame', ['distance.pcDelta'], lambda: (prs.pcDelta, [tcr_df()], dict(bins=np.arange(0, 40), pseudocount=0.5))),
        T('pcDelta_metric', ['distance.pcDelta'], lambda: (prs.pcDelta, [list(SEQS)], dict(metric=prs.metric.WeightedLevenshtein(2, 1, 3)))),
        T('pcDelta_maxseqs', ['distance.pcDelta'], lambda: (prs.pcDelta, [list(SEQS)], dict(maxseqs=5)), random=True),
        T('pcDelta_grouped', ['distance.pcDelta_grouped'], lambda: (prs.pcDelta_grouped, [tcr_df(), 'group', 'CDR3B'], dict(bins=[0, 1, 2, 3, 30]))),
        T('pcDelta_grouped_cross', ['distance.pcDelta_grouped_cross'], lambda: (prs.pcDelta_grouped_cross, [tcr_df(), 'group', 'CDR3B'], dict(bins=[0, 1, 2, 3, 30], condensed=True))),
        T('background', ['distance.load_pcDelta_background'], lambda: (prs.load_pcDelta_background, [], {})),
        T('background_nobins', ['distance.load_pcDelta_background'], lambda: (prs.load_pcDelta_background, [], dict(return_bins=False))),
        T('lev_neighbors', ['distance.levenshtein_neighbors'], lambda: (lambda x: list(prs.levenshtein_neighbors(x)), ['CAAF'], {})),
        T('lev_neighbors_alphabet', ['distance.levenshtein_neighbors'], lambda: (lambda x, a: list(prs.levenshtein_neighbors(x, a)), ['CAAF', ['A', 'C', 'D']], {})),
        T('ham_neighbors', ['distance.hamming_neighbors'], lambda: (lambda x, p: list(prs.hamming_neighbors(x, variable_positions=p)), ['CAAF', [1, 2]], {})),
        T('next_nearest', ['distance.next_nearest_neighbors'], lambda: (prs.next_nearest_neighbors, ['CAF', prs.hamming_neighbors], dict(maxdistance=2))),
        T('find_pairs', ['distance.find_neighbor_pairs'], lambda: (prs.find_neighbor_pairs, [list(SHORT)], {})),
        T('find_pairs_set', ['distance.find_neighbor_pairs'], lambda: (prs.find_neighbor_pairs, [set(SHORT)], {})),
        T('find_pairs_lev', ['distance.find_neighbor_pairs'], lambda: (prs.find_neighbor_pairs, [list(dict.fromkeys(SEQS))], dict(neighborhood=prs.levenshtein_neighbors))),
        T('find_pairs_index', ['distance.find_neighbor_pairs_index'], lambda: (prs.find_neighbor_pairs_index, [list(dict.fromkeys(SHORT))], {})),
        T('neighbor_numbers', ['distance.calculate_neighbor_numbers'], lambda: (prs.calculate_neighbor_numbers, [list(SEQS)], {})),
        T('neighbor_numbers_ref', ['distance.calculate_neighbor_numbers'], lambda: (prs.calculate_neighbor_numbers, [list(SEQS)], dict(reference=set(SEQS2), neighborhood=prs.hamming_neighbors))),
        T('isdist1', ['distance.isdist1'], lambda: (prs.isdist1, ['CASSLGQAYEQYW', set(SEQS)], {})),
        T('nndist_hamming', ['distance.nndist_hamming'], lambda: (prs.nndist_hamming, ['AAF', {'ADD', 'CCC'}], {})),
        T('nndist_hamming_2', ['distance.nndist_hamming'], lambda: (prs.nndist_hamming, ['AAC', set(SHORT[1:4])], dict(maxdist=2))),
        T('nndist_hamming_raises', ['distance.nndist_hamming'], lambda: (prs.nndist_hamming, ['AAC', set(SHORT)], dict(maxdist=5))),
        T('hierarchical', ['distance.hierarchical_clustering'], lambda: (prs.hierarchical_clustering, [list(SEQS)], {})),
        T('hierarchical_frame', ['distance.hierarchical_clustering'], lambda: (prs.hierarchical_clustering, [tcr_df()], dict(cluster_kws=dict(t=2, criterion='maxclust')))),
        T('hierarchical_kws', ['distance.hierarchical_clustering'], lambda: (prs.hierarchical_clustering, [pd.Series(SEQS)], dict(linkage_kws=dict(method='single'), cluster_kws=dict(t=1, criterion='distance')))),
        T('default_metric', ['distance.get_default_metric_for_input_data'], lambda: (prs.get_default_metric_for_input_data, [tcr_df()[['CDR3B']]], {})),
    ]
    # ---- metrics
    L += [
        T('lev_cdist', ['metric.levenshtein.Levenshtein.__init__', 'metric.levenshtein.Levenshtein.calc_cdist_matrix'], lambda: (lambda a, b: prs.metric.Levenshtein().calc_cdist_matrix(a, b), [list(SEQS), list(SEQS2)], {})),
        T('lev_pdist', ['metric.levenshtein.Levenshtein.calc_pdist_vector'], lambda: (lambda a: prs.metric.Levenshtein().calc_pdist_vector(a), [pd.Series(SEQS)], {})),
        T('wlev_cdist', ['metric.levenshtein.WeightedLevenshtein.__init__', 'metric.levenshtein.WeightedLevenshtein.calc_cdist_matrix'], lambda: (lambda a, b: prs.metric.WeightedLevenshtein(2, 1, 3).calc_cdist_matrix(a, b), [np.array(SEQS), list(SEQS2)], {})),
        T('wlev_pdist', ['metric.levenshtein.WeightedLevenshtein.calc_pdist_vector'], lambda: (lambda a: prs.metric.WeightedLevenshtein(substitution_weight=2).calc_pdist_vector(a), [list(SEQS)], {})),
        T('cdr3lev_pdist', ['metric.tcr_metric.tcr_levenshtein.Cdr3Levenshtein.__init__', 'metric.tcr_metric.tcr_levenshtein.TcrLevenshtein.calc_pdist_vector'], lambda: (lambda d: tm.Cdr3Levenshtein(alpha_weight=2).calc_pdist_vector(d), [tcr_df()], {})),
        T('acdr3lev_cdist', ['metric.tcr_metric.tcr_levenshtein.AlphaCdr3Levenshtein.__init__', 'metric.tcr_metric.tcr_levenshtein.TcrLevenshtein.calc_cdist_matrix'], lambda: (lambda a, b: tm.AlphaCdr3Levenshtein().calc_cdist_matrix(a, b), [tcr_df(), tcr_df().iloc[:4]], {})),
        T('bcdr3lev_cdist', ['metric.tcr_metric.tcr_levenshtein.BetaCdr3Levenshtein.__init__', 'metric.tcr_metric.tcr_levenshtein.TcrLevenshtein.calc_cdist_matrix'], lambda: (lambda a, b: tm.BetaCdr3Levenshtein(1, 2, 1).calc_cdist_matrix(a, b), [tcr_df(), tcr_df().iloc[3:]], {})),
        T('cdrlev_pdist', ['metric.tcr_metric.tcr_levenshtein.TcrLevenshtein.__init__', 'metric.tcr_metric.tcr_levenshtein.TcrLevenshtein.calc_pdist_vector'], lambda: (lambda d: tm.CdrLevenshtein(cdr1_weight=2).calc_pdist_vector(d), [tcr_df()], {})),
        T('bcdrlev_cdist', ['metric.tcr_metric.tcr_levenshtein.BetaCdrLevenshtein.__init__', 'metric.tcr_metric.tcr_levenshtein.TcrLevenshtein.calc_cdist_matrix'], lambda: (lambda a, b: tm.BetaCdrLevenshtein().calc_cdist_matrix(a, b), [tcr_df(), tcr_df().iloc[:3]], {})),
        T('tcrmetric_raises', ['metric.tcr_metric.tcr_levenshtein.TcrLevenshtein.calc_pdist_vector'], lambda: (lambda d: tm.Cdr3Levenshtein().calc_pdist_vector(d), [list(SEQS)], {})),
        T('standard_format', ['metric.tcr_metric.tcr_metric.is_in_standard_format'], lambda: (tm.tcr_metric.is_in_standard_format, [tcr_df()], {})),
    ]
    # ---- clustering
    L += [
        T('graph_cc', ['clustering.graph_clustering'], lambda: (prs.graph_clustering, [trip(), list(SEQS)], {})),
        T('graph_cc_array', ['clustering.graph_clustering'], lambda: (prs.graph_clustering, [np.array(trip()), np.array(SEQS)], dict(clustering='cc'))),
        T('graph_fastgreedy', ['clustering.graph_clustering'], lambda: (prs.graph_clustering, [trip(), list(SEQS)], dict(clustering='fastgreedy'))),
        T('graph_empty_raises', ['clustering.graph_clustering'], lambda: (prs.graph_clustering, [[], list(SEQS)], {})),
    ]
    # ---- io / util / entropy
    L += [
        T('standardize', ['io.standardize_dataframe'], lambda: (prs.standardize_dataframe, [raw_df()], dict(suppress_warnings=True))),
        T('standardize_mapper', ['io.standardize_dataframe'], lambda: (prs.standardize_dataframe, [raw_df().rename(columns=dict(TRBV='v', CDR3B='cdr3'))],
                                                                   dict(col_mapper={'v': 'TRBV', 'cdr3': 'CDR3B'}, suppress_warnings=True, tcr_precision='allele'))),
        T('standardize_off', ['io.standardize_dataframe'], lambda: (prs.standardize_dataframe, [], dict(df_old=raw_df(), standardize=False))),
        T('standardize_none_raises', ['io.standardize_dataframe'], lambda: (prs.standardize_dataframe, [], {})),
        T('isvalidaa', ['io.isvalidaa'], lambda: (lambda xs: [prs.isvalidaa(x) for x in xs], [['CASSF', 'CAXF', '', 5, None, ['C', 'A']]], {})),
        T('isvalidcdr3', ['io.isvalidcdr3'], lambda: (lambda xs: [prs.isvalidcdr3(x) for x in xs], [['CASSF', 'CASS', 'AASF', 3.5, None]], {})),
        T('multimerge_suffix', ['io.multimerge'], lambda: (prs.multimerge, [[tcr_df()[['CDR3B', 'clone_count']].drop_duplicates('CDR3B'), tcr_df()[['CDR3B', 'group']].drop_duplicates('CDR3B')], 'CDR3B'], dict(suffixes=['x', 'y']))),
        T('multimerge_index', ['io.multimerge'], lambda: (prs.multimerge, [[tcr_df()[['clone_count']], tcr_df()[['group']].iloc[2:], tcr_df()[['donor']]], 'index'], dict(how='inner'))),
        T('multimerge_index_suffix', ['io.multimerge'], lambda: (prs.multimerge, [[tcr_df()[['clone_count', 'group']], tcr_df()[['clone_count', 'donor']].iloc[1:]], 'index'], dict(suffixes=['s1', 's2'], how='outer'))),
        T('multimerge_column_nosuffix', ['io.multimerge'], lambda: (prs.multimerge, [[tcr_df()[['CDR3B', 'clone_count']].drop_duplicates('CDR3B'), tcr_df()[['CDR3B', 'group']].drop_duplicates('CDR3B')], 'CDR3B'], {})),
        T('seqs_to_regex', ['util.seqs_to_regex'], lambda: (util.seqs_to_regex, [['CASF', 'CATF', 'CASW']], dict(align=False))),
        T('seqs_to_consensus', ['util.seqs_to_consensus'], lambda: (util.seqs_to_consensus, [['CASF', 'CATF', 'CASW']], dict(align=False))),
        T('align_seqs_raises', ['util.align_seqs'], lambda: (util.align_seqs, [['CASF', 'CATFF']], {})),
        T('ensure_numpy', ['util.ensure_numpy'], lambda: (lambda a, b, c: [util.ensure_numpy(a), util.ensure_numpy(b), util.ensure_numpy(c)], [list(SEQS), pd.Series(SEQS), np.array(SEQS)], {})),
        T('convert_tuple', ['util.convert_tuple_to_dataframe_if_necessary'], lambda: (util.convert_tuple_to_dataframe_if_necessary, [(list(ALPHA), list(SEQS))], {})),
        T('renyi2', ['entropy.renyi2_entropy'], lambda: (prs.renyi2_entropy, [tcr_df(), 'TRBV'], {})),
        T('renyi2_joint', ['entropy.renyi2_entropy'], lambda: (prs.renyi2_entropy, [tcr_df(), ['TRBV', 'group']], dict(base=None))),
        T('renyi2_by', ['entropy.renyi2_entropy'], lambda: (prs.renyi2_entropy, [tcr_df(), 'TRBV'], dict(by='group', group_weights=[3, 2, 1]))),
        T('renyi2_by_array', ['entropy.renyi2_entropy'], lambda: (prs.renyi2_entropy, [tcr_df(), 'TRBV'], dict(by='group', group_weights=np.array([3.0, 2.0, 1.0])))),
        T('stdrenyi2', ['entropy.stdrenyi2_entropy'], lambda: (prs.stdrenyi2_entropy, [tcr_df(), ['TRBV', 'group']], {})),
        T('renyi2_base_raises', ['entropy.renyi2_entropy'], lambda: (prs.renyi2_entropy, [tcr_df(), 'TRBV'], dict(base=-1.0))),
    ]
    # ---- plotting
    L += [
        T('rankfrequency', ['plotting.rankfrequency'], lambda: (pp.rankfrequency, [list(COUNTS) + [float('nan')]], {}), fig=True),
        T('rankfrequency_kw', ['plotting.rankfrequency'], lambda: (pp.rankfrequency, [np.array(COUNTS, dtype=float)], dict(normalize_x=False, normalize_y=True, log_x=False, color='k', scalex=2.0)), fig=True),
        T('colors_hls', ['plotting.labels_to_colors_hls'], lambda: (pp.labels_to_colors_hls, [list('aabbbcd')], dict(min_count=2)), random=True),
        T('colors_hls_kws', ['plotting.labels_to_colors_hls'], lambda: (pp.labels_to_colors_hls, [np.array(list('aabbbcd'))], dict(palette_kws=dict(l=0.3, s=0.9))), random=True),
        T('colors_tableau', ['plotting.labels_to_colors_tableau'], lambda: (pp.labels_to_colors_tableau, [pd.Series(list('aabbbcd'))], {}), random=True),
        T('clustermap_split', ['plotting.clustermap_split', 'plotting.ClusterGridSplit.__init__', 'plotting.ClusterGridSplit.plot_matrix'],
          lambda: (pp.clustermap_split, [pd.DataFrame(np.arange(16.0).reshape(4, 4)), pd.DataFrame(np.arange(16.0).reshape(4, 4).T)], dict(figsize=(3, 3), cbar_kws=dict(label='d')))),
        T('similarity_clustermap', ['plotting.similarity_clustermap'], lambda: (pp.similarity_clustermap, [tcr_df()], dict(alpha_column='CDR3A', beta_column='CDR3B')), random=True, fig=True),
        T('similarity_clustermap_norm', ['plotting.similarity_clustermap'], lambda: (pp.similarity_clustermap, [tcr_df()], dict(alpha_column='CDR3A', beta_column='CDR3B', norm=__import__('matplotlib').colors.Normalize(0, 12))), random=True, fig=True),
        T('similarity_clustermap_single', ['plotting.similarity_clustermap'], lambda: (pp.similarity_clustermap, [tcr_df()], dict(alpha_column=None, beta_column='CDR3B', meta_columns=['group'], bounds=np.arange(0, 5, 1))), random=True, fig=True),
        T('similarity_clustermap_kws', ['plotting.similarity_clustermap'], lambda: (pp.similarity_clustermap, [tcr_df()], dict(alpha_column='CDR3A', beta_column='CDR3B', cbar_kws=dict(label='my distance', orientation='horizontal'),
                                                                                    linkage_kws=dict(method='single'), cluster_kws=dict(t=3, criterion='distance'))), random=True, fig=True),
        T('label_axes', ['plotting.label_axes'], lambda: (lambda n: (lambda fig: (pp.label_axes(fig, labels=['x', 'y']), [a.texts[0].get_text() for a in fig.axes])[1])(__import__('matplotlib.pyplot').pyplot.subplots(ncols=n)[0]), [3], {}), fig=True),
        T('seqlogos', ['plotting.seqlogos'], lambda: (pp.seqlogos, [['CASF', 'CATF', 'CASW']], {}), fig=True),
        T('seqlogos_vj', ['plotting.seqlogos_vj'], lambda: (lambda d: [canon(a) for a in pp.seqlogos_vj(d, 'cdr3', 'v', 'j')], [pd.DataFrame(dict(cdr3=['CASF', 'CATF', 'CASW'], v=['TRBV5', 'TRBV5', 'TRBV7'], j=['TRBJ1', 'TRBJ2', 'TRBJ1']))], {}), fig=True),
        T('density_scatter', ['plotting.density_scatter'], lambda: (pp.density_scatter, [list(np.linspace(0, 1, 30)), list(np.linspace(0, 1, 30) ** 2)], dict(bins=5)), fig=True),
        T('density_scatter_discrete', ['plotting.density_scatter'], lambda: (pp.density_scatter, [np.array([1, 1, 2, 3, 3, 3]), np.array([1, 1, 2, 1, 1, 1])], dict(discrete=True, cbar=True)), fig=True),
    ]
    for t in L:
        if t['name'].startswith('clustermap_split'):
            t['fig'] = True
    L += edge_templates()
    L += shared_templates()
    L += audit_templates()
    out = {}
    for t in L:
        assert t['name'] not in out, t['name']
        out[t['name']] = t
    return out


class Failing:
    """A caller-supplied callable that works for the first `n` calls and then raises: the exception comes out of the MIDDLE
    of the pyrepseq call (after its set-up, inside a loop / a library routine / a worker), not out of its argument checks."""

    def __init__(self, n, fn):
        self.n, self.fn, self.calls, self.__name__ = n, fn, 0, 'failing_after_%d' % n

    def __call__(self, *a, **k):
        self.calls += 1
        if self.calls > self.n:
            raise RuntimeError('callback failed')
        return self.fn(*a, **k)


def lev1(a, b):
    from rapidfuzz.distance.Levenshtein import distance
    return distance(a, b)


def edge_templates():
    """Round 3.  (1) calls that raise LATE - from inside the optimiser, a callback, a library routine, a plotting call -
    so that any 'set something, work, put it back' sequence of the callable is cut between the set and the put back;
    (2) BOUNDARY calls whose correct result is nan / inf / empty (0/0, x/0, log 0): pc of one element, renyi2 without
    coincidences, pcDelta of a single sequence ... - exactly the results that depend on process-wide numeric settings.
    Sessions run every raising template followed by the boundary templates (make_histories)."""
    import numpy as np
    import pandas as pd
    import pyrepseq as prs
    import pyrepseq.nn as nn
    import pyrepseq.util as util
    import pyrepseq.plotting as pp
    import pyrepseq.metric.tcr_metric as tm
    single = lambda: pd.DataFrame(dict(s=['CASSA', 'CASSB', 'CASSC'], g=['u', 'u', 'v']))
    nbh = lambda n: Failing(n, prs.hamming_neighbors)
    L = [
        # ---- raising late: statistics
        T('mle_zero_cmin0_raises', ['stats.powerlaw_mle_alpha'], lambda: (prs.powerlaw_mle_alpha, [np.array(COUNTS + [0, 0])], dict(cmin=0))),
        T('mle_zero_cmin0_list_raises', ['stats.powerlaw_mle_alpha'], lambda: (prs.powerlaw_mle_alpha, [[5, 0, 3, 1, 1, 0]], dict(cmin=0.0, bounds=[1.1, 6.0]))),
        T('mle_bounds_short_raises', ['stats.powerlaw_mle_alpha'], lambda: (prs.powerlaw_mle_alpha, [list(COUNTS)], dict(bounds=[1.5]))),
        T('mle_bounds_order_raises', ['stats.powerlaw_mle_alpha'], lambda: (prs.powerlaw_mle_alpha, [list(COUNTS)], dict(bounds=[4.5, 1.5]))),
        T('mle_tol_raises', ['stats.powerlaw_mle_alpha'], lambda: (prs.powerlaw_mle_alpha, [list(COUNTS)], dict(bounds=[1.5, 4.5], options=dict(maxiter=50), tol='x'))),
        T('mle_bracket_raises', ['stats.powerlaw_mle_alpha'], lambda: (prs.powerlaw_mle_alpha, [tuple(COUNTS)], dict(cmin=1.0, bracket=(2.0, 3.0)))),
        T('mle_maxiter_raises', ['stats.powerlaw_mle_alpha'], lambda: (prs.powerlaw_mle_alpha, [pd.Series(COUNTS)], dict(options=dict(maxiter=2)))),
        T('mle_strings_raises', ['stats.powerlaw_mle_alpha'], lambda: (prs.powerlaw_mle_alpha, [['a', 'b']], dict(cmin='a'))),
        T('subsample_toomany_raises', ['stats.subsample'], lambda: (prs.subsample, [list(COUNTS), 500], {}), random=True),
        T('pc_conditional_weights_raises', ['stats.pc_conditional'], lambda: (prs.pc_conditional, [tcr_df(), 'group', 'TRBV'], dict(group_weights=[1.0, 2.0]))),
        T('pc_joint_column_raises', ['stats.pc_joint'], lambda: (prs.pc_joint, [tcr_df(), ['TRBV', 'nope']], {})),
        T('pc_grouped_cross_column_raises', ['stats.pc_grouped_cross'], lambda: (prs.pc_grouped_cross, [tcr_df(), 'group', 'nope'], {})),
        T('jaccard_empty_raises', ['stats.jaccard_index'], lambda: (prs.jaccard_index, [[], []], {})),
        T('powerlaw_sample_alpha1_raises', ['stats.powerlaw_sample'], lambda: (prs.powerlaw_sample, [3], dict(xmin=1, alpha=1.0)), random=True),
        # ---- raising late: search / distances (callback fails after a few pairs)
        T('symdel_cb_raises', ['nn.symdel'], lambda: (prs.symdel, [list(SEQS)], dict(max_edits=2, custom_distance=Failing(4, lev1), max_custom_distance=5))),
        T('kdtree_cb_raises', ['nn.kdtree'], lambda: (prs.kdtree, [list(SEQS)], dict(max_edits=2, custom_distance=Failing(4, lev1), max_custom_distance=5))),
        T('kdtree_cb_ncpu2_raises', ['nn.kdtree'], lambda: (prs.kdtree, [list(SEQS)], dict(max_edits=2, custom_distance=Failing(4, lev1), max_custom_distance=5, n_cpu=2))),
        T('hash_cb_raises', ['nn.hash_based'], lambda: (prs.hash_based, [list(SEQS)], dict(max_edits=1, custom_distance=Failing(4, lev1), max_custom_distance=5))),
        T('nearest_neighbor_cb_raises', ['nn.nearest_neighbor'], lambda: (prs.nearest_neighbor, [list(SEQS)], dict(max_edits=1, seqs2=list(SEQS2), custom_distance=Failing(4, lev1), max_custom_distance=5))),
        T('symdeldb_cb_raises', ['nn.SymdelDB.__init__', 'nn.SymdelDB.lookup'], lambda: (lambda s, q, d: nn.SymdelDB(s, 1).lookup(q, custom_distance=d, max_custom_distance=5), [list(SEQS), list(SEQS2), Failing(2, lev1)], {})),
        T('tcrdist_column_raises', ['nn.nearest_neighbor_tcrdist'], lambda: (prs.nearest_neighbor_tcrdist, [tcr_df().drop(columns=['TRBV'])], dict(chain='beta', max_edits=2, max_tcrdist=60))),
        T('pdist_cb_raises', ['distance.pdist'], lambda: (prs.pdist, [list(SEQS)], dict(metric=Failing(5, lev3)))),
        T('cdist_cb_raises', ['distance.cdist'], lambda: (prs.cdist, [list(SEQS), list(SEQS2)], dict(metric=Failing(5, lev3)))),
        T('pcDelta_bins_raises', ['distance.pcDelta'], lambda: (prs.pcDelta, [list(SEQS)], dict(bins=[3, 1, 2]))),
        T('pcDelta_metric_raises', ['distance.pcDelta'], lambda: (prs.pcDelta, [list(SEQS)], dict(metric=Failing(5, lev3)))),
        T('neighbor_numbers_cb_raises', ['distance.calculate_neighbor_numbers'], lambda: (prs.calculate_neighbor_numbers, [list(SEQS)], dict(neighborhood=nbh(3)))),
        T('find_pairs_cb_raises', ['distance.find_neighbor_pairs'], lambda: (prs.find_neighbor_pairs, [list(SHORT)], dict(neighborhood=nbh(3)))),
        T('find_pairs_set_cb_raises', ['distance.find_neighbor_pairs'], lambda: (prs.find_neighbor_pairs, [set(SHORT)], dict(neighborhood=nbh(2)))),
        T('next_nearest_cb_raises', ['distance.next_nearest_neighbors'], lambda: (prs.next_nearest_neighbors, ['CAF', nbh(2)], dict(maxdistance=2))),
        T('hierarchical_linkage_raises', ['distance.hierarchical_clustering'], lambda: (prs.hierarchical_clustering, [list(SEQS)], dict(linkage_kws=dict(method='nope')))),
        T('hierarchical_criterion_raises', ['distance.hierarchical_clustering'], lambda: (prs.hierarchical_clustering, [list(SEQS)], dict(cluster_kws=dict(t=1, criterion='nope')))),
        T('lev_cdist_notstr_raises', ['metric.levenshtein.Levenshtein.calc_cdist_matrix'], lambda: (lambda a, b: prs.metric.Levenshtein().calc_cdist_matrix(a, b), [list(SEQS), [1, 2]], {})),
        T('cdr3lev_notstr_raises', ['metric.tcr_metric.tcr_levenshtein.TcrLevenshtein.calc_pdist_vector'], lambda: (lambda d: tm.Cdr3Levenshtein().calc_pdist_vector(d), [tcr_df().assign(CDR3B=[1] * 10)], {})),
        # ---- raising late: clustering / io / util
        T('graph_method_raises', ['clustering.graph_clustering'], lambda: (prs.graph_clustering, [trip(), list(SEQS)], dict(clustering='nope'))),
        T('graph_nodes_raises', ['clustering.graph_clustering'], lambda: (prs.graph_clustering, [[[0, 99, 1]], list(SEQS)], {})),
        T('standardize_cell_raises', ['io.standardize_dataframe'], lambda: (prs.standardize_dataframe, [raw_df().assign(TRBV=[5, 6.5, 'TRBV7-2*01'])], dict(suppress_warnings=True))),
        T('multimerge_clash_raises', ['io.multimerge'], lambda: (prs.multimerge, [[tcr_df()[['clone_count']], tcr_df()[['group']]], 'index'], dict(right_index=True))),
        T('multimerge_key_raises', ['io.multimerge'], lambda: (prs.multimerge, [[tcr_df()[['CDR3B', 'clone_count']], tcr_df()[['group']]], 'CDR3B'], {})),
        T('seqs_to_regex_ragged_raises', ['util.seqs_to_regex'], lambda: (util.seqs_to_regex, [['CASF', 'CA']], dict(align=False))),
        # ---- raising late: plotting (the figure is half drawn)
        T('rankfrequency_color_raises', ['plotting.rankfrequency'], lambda: (pp.rankfrequency, [list(COUNTS)], dict(color='notacolor')), fig=True),
        T('rankfrequency_kw_raises', ['plotting.rankfrequency'], lambda: (pp.rankfrequency, [list(COUNTS)], dict(nope=3)), fig=True),
        T('similarity_clustermap_criterion_raises', ['plotting.similarity_clustermap'], lambda: (pp.similarity_clustermap, [tcr_df()], dict(alpha_column='CDR3A', beta_column='CDR3B', cluster_kws=dict(t=1, criterion='nope'))), random=True, fig=True),
        T('similarity_clustermap_cbar_raises', ['plotting.similarity_clustermap'], lambda: (pp.similarity_clustermap, [tcr_df()], dict(alpha_column='CDR3A', beta_column='CDR3B', cbar_kws=dict(nope=1))), random=True, fig=True),
        T('similarity_clustermap_meta_raises', ['plotting.similarity_clustermap'], lambda: (pp.similarity_clustermap, [tcr_df()], dict(alpha_column='CDR3A', beta_column='CDR3B', meta_columns=['nope'])), random=True, fig=True),
        T('seqlogos_kw_raises', ['plotting.seqlogos'], lambda: (pp.seqlogos, [['CASF', 'CATF']], dict(nope=3)), fig=True),
        T('density_scatter_length_raises', ['plotting.density_scatter'], lambda: (pp.density_scatter, [[1.0, 2.0, 3.0], [1.0, 2.0]], dict(bins=3)), fig=True),
        T('density_scatter_kw_raises', ['plotting.density_scatter'], lambda: (pp.density_scatter, [list(np.linspace(0, 1, 30)), list(np.linspace(0, 1, 30) ** 2)], dict(bins=5, nope=2)), fig=True),
        T('clustermap_split_shape_raises', ['plotting.clustermap_split', 'plotting.ClusterGridSplit.__init__', 'plotting.ClusterGridSplit.plot_matrix'],
          lambda: (pp.clustermap_split, [pd.DataFrame(np.arange(16.0).reshape(4, 4)), pd.DataFrame(np.arange(9.0).reshape(3, 3))], dict(figsize=(3, 3))), fig=True),
        T('colors_hls_kws_raises', ['plotting.labels_to_colors_hls'], lambda: (pp.labels_to_colors_hls, [list('aabb')], dict(palette_kws=dict(nope=1))), random=True),
    ]
    B = [
        # ---- boundary results: nan / inf / empty
        T('bd_pc_one', ['stats.pc'], lambda: (prs.pc, [['CASSA']], {})),
        T('bd_pc_one_array', ['stats.pc'], lambda: (prs.pc, [np.array(['CASSA'])], {})),
        T('bd_pc_two_empty', ['stats.pc'], lambda: (prs.pc, [['A'], []], {})),
        T('bd_pc_n_one', ['stats.pc_n'], lambda: (prs.pc_n, [[1]], {})),
        T('bd_pc_n_zero', ['stats.pc_n'], lambda: (prs.pc_n, [np.array([0, 0])], {})),
        T('bd_pc_joint_one', ['stats.pc_joint'], lambda: (prs.pc_joint, [single().iloc[:1], ['s', 'g']], {})),
        T('bd_pc_conditional_singletons', ['stats.pc_conditional'], lambda: (prs.pc_conditional, [single(), 's', 'g'], {})),
        T('bd_pc_conditional_nocoincidence', ['stats.pc_conditional'], lambda: (prs.pc_conditional, [single(), 'g', 's'], {})),
        T('bd_pc_grouped_cross_singletons', ['stats.pc_grouped_cross'], lambda: (prs.pc_grouped_cross, [single(), 's', 'g'], {})),
        T('bd_stdpc_n_one', ['stats.stdpc_n'], lambda: (prs.stdpc_n, [np.array([1])], {})),
        T('bd_stdpc_two', ['stats.stdpc'], lambda: (prs.stdpc, [['A', 'B']], {})),
        T('bd_stdpc_joint', ['stats.stdpc_joint'], lambda: (prs.stdpc_joint, [single(), ['s', 'g']], {})),
        T('bd_mle_simple_all_cmin', ['stats.powerlaw_mle_alpha'], lambda: (prs.powerlaw_mle_alpha, [[2, 2, 2]], dict(cmin=2.0, method='simple'))),
        T('bd_mle_cc_none_left', ['stats.powerlaw_mle_alpha'], lambda: (prs.powerlaw_mle_alpha, [[1, 1]], dict(cmin=2.0, method='continuitycorrection'))),
        T('bd_mle_exact_none_left', ['stats.powerlaw_mle_alpha'], lambda: (prs.powerlaw_mle_alpha, [[1, 1]], dict(cmin=2.0))),
        T('bd_mle_exact', ['stats.powerlaw_mle_alpha'], lambda: (prs.powerlaw_mle_alpha, [np.array(COUNTS * 3)], dict(cmin=2))),
        T('bd_chao1_no_doubletons', ['stats.chao1'], lambda: (prs.chao1, [[1, 1, 1]], {})),
        T('bd_chao1_zero', ['stats.chao1'], lambda: (prs.chao1, [[0]], {})),
        T('bd_var_chao1_no_singletons', ['stats.var_chao1'], lambda: (prs.var_chao1, [[3, 3]], {})),
        T('bd_chao2_m1', ['stats.chao2'], lambda: (prs.chao2, [[1, 2, 1], 1], {})),
        T('bd_var_chao2_no_doubletons', ['stats.var_chao2'], lambda: (prs.var_chao2, [[1, 1, 1], 3], {})),
        T('bd_overlap_coefficient_empty', ['stats.overlap_coefficient'], lambda: (prs.overlap_coefficient, [[], ['a']], {})),
        T('bd_subsample_zero', ['stats.subsample'], lambda: (prs.subsample, [[0, 0], 0], {}), random=True),
        T('bd_renyi2_no_coincidence', ['entropy.renyi2_entropy'], lambda: (prs.renyi2_entropy, [single(), 's'], {})),
        T('bd_renyi2_no_coincidence_nats', ['entropy.renyi2_entropy'], lambda: (prs.renyi2_entropy, [single(), 's'], dict(base=None))),
        T('bd_renyi2_by', ['entropy.renyi2_entropy'], lambda: (prs.renyi2_entropy, [single(), 's'], dict(by='g'))),
        T('bd_stdrenyi2_no_coincidence', ['entropy.stdrenyi2_entropy'], lambda: (prs.stdrenyi2_entropy, [single(), 's'], {})),
        T('bd_pcDelta_one', ['distance.pcDelta'], lambda: (prs.pcDelta, [['CASSA']], dict(bins=np.arange(0, 5)))),
        T('bd_pcDelta_one_counts', ['distance.pcDelta'], lambda: (prs.pcDelta, [['CASSA']], dict(bins=np.arange(0, 5), normalize=False))),
        T('bd_pcDelta_empty_histogram', ['distance.pcDelta'], lambda: (prs.pcDelta, [['CASSA', 'WWWWWWWWWW']], dict(bins=np.arange(0, 3)))),
        T('bd_pcDelta_two_one', ['distance.pcDelta'], lambda: (prs.pcDelta, [['CASSA'], ['CASSA']], dict(bins=np.arange(0, 3)))),
        T('bd_pdist_one', ['distance.pdist'], lambda: (prs.pdist, [['CASSA']], {})),
        T('bd_hierarchical_identical', ['distance.hierarchical_clustering'], lambda: (prs.hierarchical_clustering, [['CASSA', 'CASSA']], {})),
        T('bd_rankfrequency_zeros', ['plotting.rankfrequency'], lambda: (pp.rankfrequency, [[0.0, 0.0]], dict(normalize_y=True)), fig=True),
        T('bd_rankfrequency_zero_log', ['plotting.rankfrequency'], lambda: (pp.rankfrequency, [[0.0, 0.0, 1.0]], dict(normalize_y=True)), fig=True),
    ]
    for t in B:
        t['boundary'] = True
    return L + B


def shared_templates():
    """The shared-data family.  name = sh_<function>_<reference>_<query or 0>_k<max_edits>_<option>; `coords` holds the
    grid coordinates (two templates are grid neighbours when they differ in exactly one coordinate)."""
    import numpy as np
    import pandas as pd
    import pyrepseq as prs
    import pyrepseq.nn as nn
    rconv = [list, lambda s: pd.Series(s, index=np.arange(len(s)) + 3), tuple, list]
    qconv = [list, np.array, tuple, lambda s: pd.Series(s)]
    dist = dict(l=None, h='hamming')

    def searcher(fn, r, q, k, d):
        cd = dist.get(d)
        i = 'abc'.index(r) + (0 if q is None else 1 + 'abc'.index(q)) + k + len(fn)       # container types rotate over the grid
        R = lambda: rconv[i % 4](SHARED[r])
        Q = lambda: qconv[(i // 2) % 4](SHARED[q])
        if fn in ('symdel', 'nn'):
            f = prs.symdel if fn == 'symdel' else prs.nearest_neighbor
            ent = ['nn.symdel'] if fn == 'symdel' else ['nn.nearest_neighbor']
            if q is None:
                return ent, lambda: (f, [R()], dict(max_edits=k, custom_distance=cd))
            return ent, lambda: (f, [R()], dict(max_edits=k, custom_distance=cd, seqs2=Q()))
        if fn == 'symdeldb':
            ent = ['nn.SymdelDB.__init__', 'nn.SymdelDB.lookup']
            if q is None:
                return ent, lambda: (lambda s: nn.SymdelDB(s, k).lookup(s, custom_distance=cd), [R()], {})
            return ent, lambda: (lambda s, t: nn.SymdelDB(s, k).lookup(t, custom_distance=cd), [R(), Q()], {})
        if fn == 'lookupdb':
            ent = ['nn.LookupDB.__init__', 'nn.LookupDB.lookup']
            if q is None:
                return ent, lambda: (lambda s: nn.LookupDB(s).lookup(s, max_edits=k, pdist_mode=True, custom_distance=cd), [R()], {})
            return ent, lambda: (lambda s, t: nn.LookupDB(s).lookup(t, max_edits=k, custom_distance=cd), [R(), Q()], {})
        if fn == 'kdtree':
            if d == 'p':                # worker processes: whatever they hold must come from THIS call
                return ['nn.kdtree'], lambda: (prs.kdtree, [R()], dict(max_edits=k, n_cpu=2))
            return ['nn.kdtree'], lambda: (prs.kdtree, [R()], dict(max_edits=k, custom_distance=cd))
        if fn == 'hash':
            return ['nn.hash_based'], lambda: (prs.hash_based, [list(SHARED[r]) if i % 2 else np.array(SHARED[r])], dict(max_edits=k, custom_distance=cd))
        if fn == 'nbrs':
            nb = prs.levenshtein_neighbors if d == 'l' else prs.hamming_neighbors
            return ['distance.calculate_neighbor_numbers'], lambda: (prs.calculate_neighbor_numbers, [list(SHARED[q or r])], dict(reference=set(SHARED[r]), neighborhood=nb))
        if fn == 'dist':
            kw = {} if d == 'l' else dict(metric=lev3, dtype=np.uint16)
            if q is None:
                return ['distance.pdist'], lambda: (prs.pdist, [R()], dict(kw))
            return ['distance.cdist'], lambda: (prs.cdist, [R(), Q()], dict(kw))
        if fn == 'pc':
            return ['stats.pc'], lambda: (prs.pc, [R()] + ([] if q is None else [Q()]), {})
        if fn == 'pcdelta':
            kw = dict(bins=[0, 1, 2, 3, 30]) if d == 'l' else dict(bins=0, normalize=False)
            return ['distance.pcDelta'], lambda: (prs.pcDelta, [R()] + ([] if q is None else [Q()]), dict(kw))
        raise KeyError(fn)

    out = []
    two = dict(symdel=(1, 2), nn=(1, 2), symdeldb=(1, 2), lookupdb=(1,), nbrs=(1,), dist=(1,), pc=(1,), pcdelta=(1,))
    one = dict(kdtree=(1, 2), hash=(1,))
    for fn, ks in list(two.items()) + list(one.items()):
        for r in 'abc':
            for q in ([None] + [x for x in 'abc' if x != r] if fn in two else [None]):
                for k in ks:
                    for d in ('l',) if fn == 'pc' else ('lhp' if fn == 'kdtree' else 'lh'):
                        ent, make = searcher(fn, r, q, k, d)
                        t = T('sh_%s_%s_%s_k%d_%s' % (fn, r, q or '0', k, d), ent, make)
                        t['coords'] = (fn, r, q, k, d)
                        out.append(t)
    # the same table, other chain / radius / second table
    for ch in ('alpha', 'beta', 'both'):
        for k in (1, 2):
            for sub in (None, 'even'):
                def make(ch=ch, k=k, sub=sub):
                    df = tcr_df() if sub is None else tcr_df().iloc[::2].reset_index(drop=True)
                    return (prs.nearest_neighbor_tcrdist, [df], dict(chain=ch, max_edits=k, max_tcrdist=40 * k))
                t = T('sh_tcrdist_%s_%s_k%d_l' % (ch, sub or '0', k), ['nn.nearest_neighbor_tcrdist'], make)
                t['coords'] = ('tcrdist', ch, sub, k, 'l')
                out.append(t)
    return out


# ------------------------------------------------------------------ coverage audit: what the families above never generated
AA20 = 'ACDEFGHIKLMNPQRSTVWY'
LONG = ['A' * 300, 'A' * 150 + 'C' + 'A' * 149, 'A' * 299, 'C' + 'A' * 299]      # longer than 127 / 255 residues
SEQS_V2 = SEQS3 + ['CAWSVGQGYEQYF']          # as long as SEQS: what a reused container is refilled with
COUNTS_F = [10.0, 4.0, 4.0, 2.0, 1.0, 1.0, 1.0, 7.0, 3.0]
RING7 = [(i, (i + 1) % 7, 1) for i in range(7)] + [((i + 1) % 7, i, 1) for i in range(7)]


def big_seqs(n=1001):
    """n sequences (duplicates, many 1-edit neighbours, lengths 6..9), the same in every process: crosses the 1000 mark"""
    import random
    r = random.Random(20 + n)
    base = [''.join(r.choice(AA20) for _ in range(r.randint(6, 9))) for _ in range(n // 3)]
    out = []
    for _ in range(n):
        s = r.choice(base)
        if r.random() < 0.5:
            p = r.randrange(len(s))
            s = s[:p] + r.choice(AA20) + s[p + 1:]
        out.append(s)
    return out


def na_df():
    """the TCR table with missing cells in the value columns (None and nan) and a string index"""
    import numpy as np
    import pandas as pd
    df = tcr_df()
    df.loc[[1, 4], 'TRBV'] = None
    df.loc[[2], 'TRAV'] = np.nan
    df.loc[[4, 7], 'donor'] = None
    df.index = pd.Index(list('abcdefghij'))
    return df


def str_df():
    import pandas as pd
    return tcr_df().set_index(pd.Index(['r%d' % (9 - i) for i in range(10)]))


def vj_df():
    import pandas as pd
    return pd.DataFrame(dict(cdr3=['CASF', 'CATF', 'CASW'], v=['TRBV5', 'TRBV5', 'TRBV7'], j=['TRBJ1', 'TRBJ2', 'TRBJ1']))


def audit_templates():
    """Coverage audit (see NOTES.md).  au_*: container kinds / dtypes that stay ALIASED after the callable's own conversion
    (float64 arrays through np.asarray(dtype=float), ndarrays through ensure_numpy, Series views, built-in sets), missing
    cells, string / shifted indexes, every **kwargs pass-through, `progress=True`, `ax=` given, the remaining option values and
    combinations of two options, sizes 1 / 2 / 1001 and sequences of 300 residues, the same object passed twice.
    au_live_* / au_ref_*: OBJECTS THAT LIVE ACROSS CALLS - one database / metric object used for several lookups with other
    options (and two of them alive at once), one caller's container used for several calls and REFILLED IN PLACE between
    them; the reference template makes the same calls on objects built for each call, and both must agree (`same_as`)."""
    import numpy as np
    import pandas as pd
    import pyrepseq as prs
    import pyrepseq.nn as nn
    import pyrepseq.util as util
    import pyrepseq.plotting as pp
    import pyrepseq.metric.tcr_metric as tm
    import matplotlib.pyplot as plt
    from rapidfuzz.distance import Levenshtein as RF
    shifted = lambda s: pd.Series(list(s), index=np.arange(len(s)) + 3)
    stridx = lambda s: pd.Series(list(s), index=['k%d' % (len(s) - i) for i in range(len(s))])
    objarr = lambda s: np.array(list(s), dtype=object)
    L = []
    A = lambda name, entries, make, **k: L.append(T('au_' + name, entries, make, **k))

    # ---- search: containers, option values, option pairs, sizes
    for nm, f, ent, kw in [('kdtree', prs.kdtree, 'nn.kdtree', dict(max_edits=2)), ('symdel', prs.symdel, 'nn.symdel', dict(max_edits=2)),
                           ('hash', prs.hash_based, 'nn.hash_based', dict(max_edits=1)), ('nn', prs.nearest_neighbor, 'nn.nearest_neighbor', dict(max_edits=1))]:
        for cn, conv in [('objarr', objarr), ('tuple', tuple), ('stridx', stridx), ('shifted', shifted), ('ndarray', np.array)]:
            A('%s_%s' % (nm, cn), [ent], lambda f=f, conv=conv, kw=kw: (f, [conv(SEQS)], dict(kw)))
        A(nm + '_one', [ent], lambda f=f: (f, [['CASSLGQAYEQYF']], {}))
        A(nm + '_two', [ent], lambda f=f: (f, [np.array(['CASSLGQAYEQYF', 'CASSLGQAYEQYW'])], dict(output_type='ndarray')))
        A(nm + '_1001', [ent], lambda f=f: (f, [big_seqs()], dict(max_edits=1)))
        A(nm + '_1001_arr', [ent], lambda f=f: (f, [np.array(big_seqs())], dict(max_edits=1, custom_distance='hamming')))
        A(nm + '_long', [ent], lambda f=f: (f, [list(LONG)], dict(max_edits=1, output_type='coo_matrix')))
        A(nm + '_ignored_opts', [ent], lambda f=f: (f, [list(SEQS)], dict(max_edits=1, max_returns=2, n_cpu=2)))
        A(nm + '_custom_ndarray_out', [ent], lambda f=f, kw=kw: (f, [shifted(SEQS)], dict(kw, custom_distance=lev3, max_custom_distance=6.0, output_type='ndarray')))
    L_ = [
        ('kdtree_hamming_ncpu2', prs.kdtree, 'nn.kdtree', lambda: ([list(SEQS)], dict(max_edits=2, custom_distance='hamming', n_cpu=2))),
        ('kdtree_top1_ncpu2', prs.kdtree, 'nn.kdtree', lambda: ([np.array(SEQS)], dict(max_edits=2, max_returns=1, n_cpu=2))),
        ('kdtree_custom_ncpu2', prs.kdtree, 'nn.kdtree', lambda: ([list(SEQS)], dict(max_edits=2, custom_distance=lev3, max_custom_distance=3, n_cpu=2))),
        ('kdtree_compress3_hamming', prs.kdtree, 'nn.kdtree', lambda: ([shifted(SEQS)], dict(max_edits=1, custom_distance='hamming', compression=3, output_type='ndarray'))),
        ('kdtree_top2_custom', prs.kdtree, 'nn.kdtree', lambda: ([list(SEQS)], dict(max_edits=2, max_returns=2, custom_distance=lev3, max_custom_distance=6))),
        ('kdtree_1001_ncpu2', prs.kdtree, 'nn.kdtree', lambda: ([big_seqs()], dict(max_edits=1, n_cpu=2))),
        ('kdtree_alphabet_raises', prs.kdtree, 'nn.kdtree', lambda: ([['CASSF', 'CASXF', 'CASSW']], dict(max_edits=1))),
        ('kdtree_ncpu4_four_seqs', prs.kdtree, 'nn.kdtree', lambda: ([tuple(SEQS2)], dict(max_edits=2, n_cpu=4, output_type='coo_matrix'))),
        ('kdtree_ncpu3_1001_top1', prs.kdtree, 'nn.kdtree', lambda: ([np.array(big_seqs())], dict(max_edits=1, n_cpu=3, max_returns=1))),
        ('kdtree_distance_spelling_raises', prs.kdtree, 'nn.kdtree', lambda: ([list(SEQS)], dict(max_edits=1, custom_distance='Hamming'))),
        ('symdel_two_progress', prs.symdel, 'nn.symdel', lambda: ([list(SEQS)], dict(max_edits=1, seqs2=list(SEQS2), progress=True))),
        ('symdel_two_progress_arr', prs.symdel, 'nn.symdel', lambda: ([np.array(SEQS)], dict(max_edits=2, seqs2=np.array(SEQS2), progress=True, custom_distance='hamming'))),
        ('symdel_progress_alone', prs.symdel, 'nn.symdel', lambda: ([list(SEQS)], dict(max_edits=1, progress=True))),
        ('symdel_unicode', prs.symdel, 'nn.symdel', lambda: ([['caß', 'cas', 'ca', 'xyz', 'caß']], dict(max_edits=1))),
        ('symdel_two_1001', prs.symdel, 'nn.symdel', lambda: ([big_seqs()], dict(max_edits=1, seqs2=list(SEQS) + big_seqs()[:40]))),
        ('symdel_two_stridx', prs.symdel, 'nn.symdel', lambda: ([stridx(SEQS)], dict(max_edits=1, seqs2=stridx(SEQS2), output_type='coo_matrix'))),
        ('hash_progress', prs.hash_based, 'nn.hash_based', lambda: ([list(SEQS)], dict(max_edits=1, progress=True))),
        ('hash_progress_arr_k2', prs.hash_based, 'nn.hash_based', lambda: ([np.array(SHORT)], dict(max_edits=2, progress=True, custom_distance='hamming'))),
        ('nn_positional', prs.nearest_neighbor, 'nn.nearest_neighbor', lambda: ([list(SEQS), 2, None, 1, 'hamming', float('inf'), 'ndarray', tuple(SEQS2)], {})),
    ]
    for nm, f, ent, mk in L_:
        A(nm, [ent], lambda f=f, mk=mk: (f,) + mk())
    # the same object as both collections
    A('symdel_same_object', ['nn.symdel'], lambda: (lambda s: prs.symdel(s, max_edits=1, seqs2=s), [list(SEQS)], {}))
    A('nn_same_object_arr', ['nn.nearest_neighbor'], lambda: (lambda s: prs.nearest_neighbor(s, max_edits=2, seqs2=s, output_type='coo_matrix'), [np.array(SEQS)], {}))
    A('cdist_same_object', ['distance.cdist'], lambda: (lambda s: prs.cdist(s, s), [list(SEQS2)], {}))
    A('pc_same_object', ['stats.pc'], lambda: (lambda s: prs.pc(s, s), [np.array(SEQS)], {}))
    A('pcDelta_same_object', ['distance.pcDelta'], lambda: (lambda s: prs.pcDelta(s, s, bins=[0, 1, 2, 30]), [shifted(SEQS)], {}))
    A('jaccard_same_set', ['stats.jaccard_index'], lambda: (lambda s: prs.jaccard_index(s, s), [set(SEQS)], {}))
    A('lev_cdist_same_object', ['metric.levenshtein.Levenshtein.calc_cdist_matrix'], lambda: (lambda s: prs.metric.Levenshtein().calc_cdist_matrix(s, s), [np.array(SEQS)], {}))
    A('cdr3lev_cdist_same_frame', ['metric.tcr_metric.tcr_levenshtein.TcrLevenshtein.calc_cdist_matrix'], lambda: (lambda d: tm.CdrLevenshtein().calc_cdist_matrix(d, d), [str_df()], {}))
    A('pc_joint_same_frame', ['stats.pc_joint'], lambda: (lambda d: prs.pc_joint(d, ['TRBV', 'TRAV'], d), [na_df()], {}))
    A('multimerge_same_frame', ['io.multimerge'], lambda: (lambda d: prs.multimerge([d, d, d], 'index', suffixes=('a', 'b', 'c')), [tcr_df()[['clone_count', 'group']]], {}))
    # databases: the other options of lookup
    A('lookupdb_k2_hamming', ['nn.LookupDB.__init__', 'nn.LookupDB.lookup'], lambda: (lambda s, q: nn.LookupDB(s).lookup(q, max_edits=2, custom_distance='hamming', output_type='ndarray'), [np.array(SHORT), tuple(SHORT[:3])], {}))
    A('lookupdb_custom_coo_progress', ['nn.LookupDB.__init__', 'nn.LookupDB.lookup'], lambda: (lambda s, q: nn.LookupDB(s).lookup(q, max_edits=1, custom_distance=lev3, max_custom_distance=3, output_type='coo_matrix', progress=True), [list(SEQS), shifted(SEQS2)], {}))
    A('symdeldb_progress_ndarray', ['nn.SymdelDB.__init__', 'nn.SymdelDB.lookup'], lambda: (lambda s, q: nn.SymdelDB(s, 1).lookup(q, progress=True, output_type='ndarray'), [shifted(SEQS), np.array(SEQS2)], {}))
    A('symdeldb_custom', ['nn.SymdelDB.__init__', 'nn.SymdelDB.lookup'], lambda: (lambda s, q: nn.SymdelDB(s, 2).lookup(q, custom_distance=lev3, max_custom_distance=3.0, output_type='coo_matrix'), [tuple(SEQS), list(SEQS3)], {}))
    # TCRdist search: **kwargs go on to nearest_neighbor; index kinds; empty result
    A('tcrdist_kwargs_hamming', ['nn.nearest_neighbor_tcrdist'], lambda: (prs.nearest_neighbor_tcrdist, [tcr_df()], dict(chain='beta', max_edits=2, max_tcrdist=90, custom_distance='hamming')))
    A('tcrdist_kwargs_ignored', ['nn.nearest_neighbor_tcrdist'], lambda: (prs.nearest_neighbor_tcrdist, [tcr_df()], dict(chain='alpha', max_edits=1, max_tcrdist=60, max_returns=3, n_cpu=2)))
    A('tcrdist_stridx_both', ['nn.nearest_neighbor_tcrdist'], lambda: (prs.nearest_neighbor_tcrdist, [str_df()], dict(chain='both', max_edits=2, max_tcrdist=150)))
    A('tcrdist_trimmed_kwargs', ['nn.nearest_neighbor_tcrdist'], lambda: (prs.nearest_neighbor_tcrdist, [tcr_df()], dict(chain='beta', max_edits=1, max_tcrdist=80, tcrdist_kwargs=dict(ntrim=2, ctrim=3))))
    A('tcrdist_no_neighbours', ['nn.nearest_neighbor_tcrdist'], lambda: (prs.nearest_neighbor_tcrdist, [tcr_df().iloc[[0, 6]]], dict(chain='beta', max_edits=1)))
    # near-miss spelling of the chain: passes the search and fails late, at the V-gene table
    A('tcrdist_chain_spelling_raises', ['nn.nearest_neighbor_tcrdist'], lambda: (prs.nearest_neighbor_tcrdist, [tcr_df()], dict(chain='Beta', max_edits=2, max_tcrdist=60)))
    A('tcrdist_kwargs_ndarray', ['nn.nearest_neighbor_tcrdist'], lambda: (prs.nearest_neighbor_tcrdist, [tcr_df()], dict(chain='beta', output_type='ndarray')))

    # ---- statistics: arrays that np.asarray / ensure_numpy hand on WITHOUT a copy, Series views, sets, missing cells
    A('pc_n_arr', ['stats.pc_n'], lambda: (prs.pc_n, [np.array(COUNTS)], {}))
    A('pc_n_float_arr', ['stats.pc_n'], lambda: (prs.pc_n, [np.array(COUNTS_F)], {}))
    A('pc_n_stridx', ['stats.pc_n'], lambda: (prs.pc_n, [stridx(COUNTS)], {}))
    A('varpc_n_float_arr', ['stats.varpc_n'], lambda: (prs.varpc_n, [np.array(COUNTS_F)], {}))
    A('varpc_n_float_series', ['stats.varpc_n'], lambda: (prs.varpc_n, [stridx(COUNTS_F)], {}))
    A('varpc_n_list', ['stats.varpc_n'], lambda: (prs.varpc_n, [list(COUNTS)], {}))
    A('stdpc_n_float_arr', ['stats.stdpc_n'], lambda: (prs.stdpc_n, [np.array(COUNTS_F)], {}))
    A('stdpc_n_series', ['stats.stdpc_n'], lambda: (prs.stdpc_n, [shifted(COUNTS)], {}))
    A('stdpc_arr', ['stats.stdpc'], lambda: (prs.stdpc, [np.array(SEQS + SEQS2)], {}))
    A('stdpc_objarr', ['stats.stdpc'], lambda: (prs.stdpc, [objarr(SEQS + SEQS2)], {}))
    A('stdpc_series', ['stats.stdpc'], lambda: (prs.stdpc, [stridx(SEQS + SEQS2)], {}))
    A('stdpc_tuple', ['stats.stdpc'], lambda: (prs.stdpc, [tuple(SEQS + SEQS2)], {}))
    A('pc_arr', ['stats.pc'], lambda: (prs.pc, [np.array(SEQS)], {}))
    A('pc_objarr', ['stats.pc'], lambda: (prs.pc, [objarr(SEQS), objarr(SEQS2)], {}))
    A('pc_stridx', ['stats.pc'], lambda: (prs.pc, [stridx(SEQS), shifted(SEQS2)], {}))
    A('pc_int_arr', ['stats.pc'], lambda: (prs.pc, [np.array([5, 3, 5, 1, 3, 5])], {}))
    A('pc_tuple_series', ['stats.pc'], lambda: (prs.pc, [(shifted(ALPHA), stridx(SEQS))], {}))
    A('pc_frame_two_stridx', ['stats.pc'], lambda: (prs.pc, [na_df()[['TRBV', 'TRAV']], tcr_df()[['TRBV', 'TRAV']]], {}))
    A('pc_1001', ['stats.pc'], lambda: (prs.pc, [np.array(big_seqs())], {}))
    for nm, f, ent in [('chao1', prs.chao1, 'stats.chao1'), ('var_chao1', prs.var_chao1, 'stats.var_chao1')]:
        for cn, conv in [('tuple', tuple), ('arr', np.array), ('series', pd.Series), ('float_arr', lambda c: np.array(c, dtype=float))]:
            A('%s_%s' % (nm, cn), [ent], lambda f=f, conv=conv: (f, [conv([4, 2, 1, 1])], {}))
    for nm, f, ent in [('chao2', prs.chao2, 'stats.chao2'), ('var_chao2', prs.var_chao2, 'stats.var_chao2')]:
        for cn, conv in [('tuple', tuple), ('arr', np.array), ('series', pd.Series), ('list', list)]:
            A('%s_%s' % (nm, cn), [ent], lambda f=f, conv=conv: (f, [conv([4, 2, 1, 1]), 6], {}))
    for nm, f, ent in [('jaccard', prs.jaccard_index, 'stats.jaccard_index'), ('overlap', prs.overlap, 'stats.overlap'),
                       ('overlap_coefficient', prs.overlap_coefficient, 'stats.overlap_coefficient')]:
        A(nm + '_sets', [ent], lambda f=f: (f, [set(SEQS), set(SEQS2)], {}))
        A(nm + '_set_frozenset', [ent], lambda f=f: (f, [frozenset(SEQS3), set(SEQS)], {}))
        A(nm + '_series_na', [ent], lambda f=f: (f, [stridx(SEQS[:4] + [None, np.nan]), shifted([None] + SEQS2)], {}))
        A(nm + '_arrays', [ent], lambda f=f: (f, [np.array(SEQS), objarr(SEQS2)], {}))
        A(nm + '_dict_keys', [ent], lambda f=f: (f, [dict.fromkeys(SEQS, 1), tuple(SEQS3)], {}))
    A('subsample_series', ['stats.subsample'], lambda: (prs.subsample, [stridx(COUNTS), 6], {}), random=True)
    A('subsample_tuple_float_n', ['stats.subsample'], lambda: (prs.subsample, [tuple(COUNTS), 7.0], {}), random=True)
    A('powerlaw_sample_positional', ['stats.powerlaw_sample'], lambda: (prs.powerlaw_sample, [7, 2, 3.0], {}), random=True)
    for m in ('exact', 'simple', 'continuitycorrection'):
        A('mle_%s_float_arr' % m, ['stats.powerlaw_mle_alpha'], lambda m=m: (prs.powerlaw_mle_alpha, [np.array(COUNTS_F)], dict(cmin=2.0, method=m)))
        A('mle_%s_stridx' % m, ['stats.powerlaw_mle_alpha'], lambda m=m: (prs.powerlaw_mle_alpha, [stridx(COUNTS_F)], dict(cmin=1, method=m)))
    A('mle_exact_options', ['stats.powerlaw_mle_alpha'], lambda: (prs.powerlaw_mle_alpha, [tuple(COUNTS)], dict(bounds=(1.1, 8.0), options=dict(xatol=1e-3, maxiter=200))))
    # tables with missing cells in the value columns, string index; `by` / `on` as lists
    A('pc_joint_na', ['stats.pc_joint'], lambda: (prs.pc_joint, [na_df(), ['TRBV', 'TRAV']], {}))
    A('pc_joint_two_na', ['stats.pc_joint'], lambda: (prs.pc_joint, [na_df(), ['TRBV', 'donor'], na_df().iloc[::-1]], dict(gap_token='')))
    A('stdpc_joint_na', ['stats.stdpc_joint'], lambda: (prs.stdpc_joint, [na_df(), ['TRBV', 'TRAV']], dict(gap_token='+')))
    A('pc_grouped_cross_na', ['stats.pc_grouped_cross'], lambda: (prs.pc_grouped_cross, [na_df(), 'group', ['TRBV', 'TRAV']], {}))
    A('pc_grouped_cross_by_list', ['stats.pc_grouped_cross'], lambda: (prs.pc_grouped_cross, [tcr_df(), ['group', 'donor'], 'TRBV'], {}))
    A('pc_grouped_cross_na_single_raises', ['stats.pc_grouped_cross'], lambda: (prs.pc_grouped_cross, [na_df(), 'group', 'TRBV'], {}))
    A('pc_conditional_na', ['stats.pc_conditional'], lambda: (prs.pc_conditional, [na_df(), 'group', ['TRBV', 'TRAV']], {}))
    A('pc_conditional_by2', ['stats.pc_conditional'], lambda: (prs.pc_conditional, [tcr_df(), ['group', 'donor'], 'TRBV'], {}))
    A('pc_conditional_w_series', ['stats.pc_conditional'], lambda: (prs.pc_conditional, [tcr_df(), 'group', 'TRBV'], dict(group_weights=pd.Series([1.0, 2.0, 3.0], index=list('xyz')))))
    A('pc_conditional_w_int_arr', ['stats.pc_conditional'], lambda: (prs.pc_conditional, [str_df(), ['group'], ['TRBV']], dict(group_weights=np.array([1, 2, 3]))))
    A('pc_conditional_w_tuple', ['stats.pc_conditional'], lambda: (prs.pc_conditional, [tcr_df(), 'group', 'TRBV'], dict(group_weights=(3, 1, 1))))
    A('renyi2_joint_na', ['entropy.renyi2_entropy'], lambda: (prs.renyi2_entropy, [na_df(), ['TRBV', 'TRAV']], {}))
    A('renyi2_by_list_nats', ['entropy.renyi2_entropy'], lambda: (prs.renyi2_entropy, [tcr_df(), ['TRBV', 'TRAV']], dict(by=['group'], base=None)))
    A('renyi2_by2_base10', ['entropy.renyi2_entropy'], lambda: (prs.renyi2_entropy, [str_df(), 'TRBV'], dict(by=['group', 'donor'], base=10)))
    A('renyi2_by_w_series', ['entropy.renyi2_entropy'], lambda: (prs.renyi2_entropy, [tcr_df(), 'TRBV'], dict(by='group', base=math.e, group_weights=pd.Series([0.5, 0.25, 0.25]))))
    A('renyi2_kwargs_unused', ['entropy.renyi2_entropy'], lambda: (prs.renyi2_entropy, [tcr_df(), 'TRBV'], dict(group_weights=[1, 2, 3])))
    A('stdrenyi2_single', ['entropy.stdrenyi2_entropy'], lambda: (prs.stdrenyi2_entropy, [tcr_df(), 'TRBV'], dict(base=10)))
    A('stdrenyi2_gap_token_nats', ['entropy.stdrenyi2_entropy'], lambda: (prs.stdrenyi2_entropy, [na_df(), ['TRBV', 'group']], dict(base=None, gap_token='|')))
    A('stdrenyi2_base_raises', ['entropy.stdrenyi2_entropy'], lambda: (prs.stdrenyi2_entropy, [tcr_df(), 'TRBV'], dict(base=0)))

    # ---- distances
    A('pdist_kwargs', ['distance.pdist'], lambda: (prs.pdist, [list(SEQS)], dict(metric=RF.distance, dtype=np.uint16, weights=(1, 2, 3))))
    A('cdist_kwargs', ['distance.cdist'], lambda: (prs.cdist, [shifted(SEQS), tuple(SEQS2)], dict(metric=RF.distance, score_cutoff=3)))
    A('pdist_generator', ['distance.pdist'], lambda: (lambda s: prs.pdist(x for x in s), [list(SEQS2)], {}))
    A('cdist_generators', ['distance.cdist'], lambda: (lambda s, t: prs.cdist(iter(s), (x for x in t), dtype=np.int64), [list(SEQS2), list(SEQS3)], {}))
    A('pdist_long', ['distance.pdist'], lambda: (prs.pdist, [list(LONG)], dict(dtype=np.uint16)))
    A('pdist_objarr_stridx', ['distance.pdist'], lambda: (lambda a, b: [prs.pdist(a), prs.pdist(b, dtype=float)], [objarr(SEQS2), stridx(SEQS3)], {}))
    A('pdist_300', ['distance.pdist'], lambda: (prs.pdist, [np.array(big_seqs()[:300])], {}))
    A('downsample_series', ['distance.downsample'], lambda: (prs.downsample, [stridx(SEQS), 4], {}), random=True)
    A('downsample_arr', ['distance.downsample'], lambda: (prs.downsample, [np.array(SEQS), 3], {}), random=True)
    A('downsample_none', ['distance.downsample'], lambda: (lambda s: [prs.downsample(s), prs.downsample(None, 3), prs.downsample(s, len(s))], [list(SEQS)], {}))
    A('downsample_frame_stridx', ['distance.downsample'], lambda: (prs.downsample, [na_df(), 4], {}), random=True)
    A('pcDelta_tuple', ['distance.pcDelta'], lambda: (prs.pcDelta, [(list(ALPHA), list(SEQS))], {}))
    A('pcDelta_tuple_series_two', ['distance.pcDelta'], lambda: (prs.pcDelta, [(shifted(ALPHA), stridx(SEQS)), (np.array(ALPHA[:4]), tuple(SEQS[:4]))], dict(bins=np.arange(0, 30), normalize=False)))
    A('pcDelta_bins_int', ['distance.pcDelta'], lambda: (prs.pcDelta, [np.array(SEQS)], dict(bins=5)))
    A('pcDelta_two_maxseqs', ['distance.pcDelta'], lambda: (prs.pcDelta, [list(SEQS), np.array(SEQS3)], dict(maxseqs=4, bins=[0, 1, 2, 5, 30])), random=True)
    A('pcDelta_two_pseudocount', ['distance.pcDelta'], lambda: (prs.pcDelta, [stridx(SEQS), list(SEQS2)], dict(pseudocount=0.5, bins=(0, 1, 2, 30))))
    A('pcDelta_frames_two', ['distance.pcDelta'], lambda: (prs.pcDelta, [str_df(), tcr_df().iloc[2:7]], dict(bins=range(0, 40))))
    A('pcDelta_frame_metric_two', ['distance.pcDelta'], lambda: (prs.pcDelta, [tcr_df(), str_df().iloc[:4]], dict(metric=tm.BetaCdrLevenshtein(cdr3_weight=2), bins=np.arange(0, 60, 2), normalize=False)))
    A('pcDelta_frame_maxseqs', ['distance.pcDelta'], lambda: (prs.pcDelta, [str_df()], dict(maxseqs=5, bins=np.arange(0, 40), pseudocount=1.0)), random=True)
    A('pcDelta_bins0_two_frames', ['distance.pcDelta'], lambda: (prs.pcDelta, [na_df()[['TRBV', 'TRAV']], tcr_df()[['TRBV', 'TRAV']]], dict(bins=0)))
    A('pcDelta_long', ['distance.pcDelta'], lambda: (prs.pcDelta, [list(LONG)], dict(bins=[0, 1, 2, 400])))
    A('pcDelta_grouped_by_list_cols', ['distance.pcDelta_grouped'], lambda: (prs.pcDelta_grouped, [str_df(), ['group'], ['CDR3A', 'CDR3B']], dict(bins=[0, 1, 2, 30])))
    A('pcDelta_grouped_by2_counts', ['distance.pcDelta_grouped'], lambda: (prs.pcDelta_grouped, [tcr_df(), ['group', 'donor'], 'CDR3B'], dict(bins=np.array([0, 1, 2, 30]), normalize=False)))
    A('pcDelta_grouped_metric_pseudo', ['distance.pcDelta_grouped'], lambda: (prs.pcDelta_grouped, [tcr_df(), 'group', 'CDR3A'], dict(bins=[0, 2, 4, 60], metric=prs.metric.WeightedLevenshtein(1, 1, 2), pseudocount=0.5)))
    A('pcDelta_grouped_maxseqs', ['distance.pcDelta_grouped'], lambda: (prs.pcDelta_grouped, [tcr_df(), 'group', 'CDR3B'], dict(bins=[0, 1, 2, 3, 30], maxseqs=2)), random=True)
    A('pcDelta_grouped_bins0', ['distance.pcDelta_grouped'], lambda: (prs.pcDelta_grouped, [str_df(), 'group', 'TRBV'], dict(bins=0)))
    A('pcDelta_grouped_nobins', ['distance.pcDelta_grouped'], lambda: (prs.pcDelta_grouped, [tcr_df(), 'donor', 'CDR3B'], {}))
    A('pcDelta_grouped_cross_square', ['distance.pcDelta_grouped_cross'], lambda: (prs.pcDelta_grouped_cross, [tcr_df(), 'group', 'CDR3B'], dict(bins=0)))
    A('pcDelta_grouped_cross_square_frames', ['distance.pcDelta_grouped_cross'], lambda: (prs.pcDelta_grouped_cross, [na_df(), ['group'], ['TRBV', 'TRAV']], dict(bins=0, condensed=False)))
    A('pcDelta_grouped_cross_maxseqs', ['distance.pcDelta_grouped_cross'], lambda: (prs.pcDelta_grouped_cross, [str_df(), 'group', 'CDR3B'], dict(bins=[0, 1, 2, 3, 30], condensed=True, maxseqs=2, normalize=False)), random=True)
    A('pcDelta_grouped_cross_vector_square_raises', ['distance.pcDelta_grouped_cross'], lambda: (prs.pcDelta_grouped_cross, [tcr_df(), 'group', 'CDR3B'], dict(bins=[0, 1, 2, 3, 30])))
    A('lev_neighbors_str_alphabet', ['distance.levenshtein_neighbors'], lambda: (lambda x, a: list(prs.levenshtein_neighbors(x, alphabet=a)), ['CAAF', 'AC'], {}))
    A('ham_neighbors_alphabet_positions', ['distance.hamming_neighbors'], lambda: (lambda x, a, p: list(prs.hamming_neighbors(x, a, p)), ['CAAF', ['A', 'C', 'D'], (0, 3)], {}))
    A('ham_neighbors_positions_arr', ['distance.hamming_neighbors'], lambda: (lambda x, p: list(prs.hamming_neighbors(x, variable_positions=p)), ['CAAF', np.array([2, 0])], {}))
    A('next_nearest_1', ['distance.next_nearest_neighbors'], lambda: (prs.next_nearest_neighbors, ['CAF', prs.levenshtein_neighbors], dict(maxdistance=1)))
    A('next_nearest_3', ['distance.next_nearest_neighbors'], lambda: (lambda x: len(prs.next_nearest_neighbors(x, prs.hamming_neighbors, 3)), ['CAF'], {}))
    for cn, conv in [('tuple', tuple), ('arr', np.array), ('stridx', stridx), ('frozenset', frozenset), ('dict', lambda s: dict.fromkeys(s, 0))]:
        A('find_pairs_' + cn, ['distance.find_neighbor_pairs'], lambda conv=conv: (prs.find_neighbor_pairs, [conv(list(dict.fromkeys(SHORT)))], {}))
    A('find_pairs_set_lev', ['distance.find_neighbor_pairs'], lambda: (prs.find_neighbor_pairs, [set(SEQS)], dict(neighborhood=prs.levenshtein_neighbors)))
    for cn, conv in [('tuple', tuple), ('arr', np.array), ('stridx', stridx)]:
        A('find_pairs_index_' + cn, ['distance.find_neighbor_pairs_index'], lambda conv=conv: (prs.find_neighbor_pairs_index, [conv(list(dict.fromkeys(SEQS)))], dict(neighborhood=prs.levenshtein_neighbors)))
    A('neighbor_numbers_arr_frozen', ['distance.calculate_neighbor_numbers'], lambda: (prs.calculate_neighbor_numbers, [np.array(SEQS)], dict(reference=frozenset(SEQS3))))
    A('neighbor_numbers_stridx_hamming', ['distance.calculate_neighbor_numbers'], lambda: (prs.calculate_neighbor_numbers, [stridx(SEQS)], dict(neighborhood=prs.hamming_neighbors)))
    A('neighbor_numbers_same_set', ['distance.calculate_neighbor_numbers'], lambda: (lambda s: prs.calculate_neighbor_numbers(s, s), [set(SEQS)], {}))
    A('neighbor_numbers_list_reference_raises', ['distance.calculate_neighbor_numbers'], lambda: (prs.calculate_neighbor_numbers, [list(SEQS)], dict(reference=list(SEQS2))))
    A('isdist1_list_hamming', ['distance.isdist1'], lambda: (lambda x, r: [prs.isdist1(y, r, neighborhood=prs.hamming_neighbors) for y in x], [['CASSLGQAYEQYW', 'CASSLGQAYEQF', 'WWW'], list(SEQS)], {}))
    A('isdist1_dict', ['distance.isdist1'], lambda: (prs.isdist1, ['CASSQETQYW', dict.fromkeys(SEQS, 1)], {}))
    A('nndist_hamming_all', ['distance.nndist_hamming'], lambda: (lambda r: [prs.nndist_hamming(s, r, maxdist=m) for s in ('AAC', 'AAF', 'AFF', 'FFF', 'WWW') for m in (1, 2, 3, 4)], [{'AAC', 'ADD', 'CCC'}], {}))
    A('nndist_hamming_frozenset_list', ['distance.nndist_hamming'], lambda: (lambda a, b: [prs.nndist_hamming('AFF', a), prs.nndist_hamming('AFF', b, 3)], [frozenset(SHORT), list(SHORT)], {}))
    A('hierarchical_tuple', ['distance.hierarchical_clustering'], lambda: (prs.hierarchical_clustering, [(shifted(ALPHA), list(SEQS))], {}))
    A('hierarchical_metric', ['distance.hierarchical_clustering'], lambda: (prs.hierarchical_clustering, [np.array(SEQS)], dict(metric=prs.metric.WeightedLevenshtein(1, 1, 2))))
    A('hierarchical_frame_metric_kws', ['distance.hierarchical_clustering'], lambda: (prs.hierarchical_clustering, [str_df()], dict(metric=tm.AlphaCdrLevenshtein(cdr2_weight=2), linkage_kws=dict(method='complete'), cluster_kws=dict(t=3, criterion='maxclust'))))
    A('hierarchical_1001', ['distance.hierarchical_clustering'], lambda: (prs.hierarchical_clustering, [big_seqs()], {}))
    A('hierarchical_1001_kws', ['distance.hierarchical_clustering'], lambda: (prs.hierarchical_clustering, [np.array(big_seqs())], dict(linkage_kws=dict(method='average', optimal_ordering=False), cluster_kws=dict(t=2, criterion='distance'))))
    A('hierarchical_long', ['distance.hierarchical_clustering'], lambda: (prs.hierarchical_clustering, [list(LONG)], {}))
    A('default_metric_kinds', ['distance.get_default_metric_for_input_data'], lambda: (lambda *xs: [type(prs.get_default_metric_for_input_data(x)).__name__ for x in xs], [tcr_df(), tcr_df()[['CDR3A']], tcr_df()[['TRBV']], list(SEQS), None], {}))

    # ---- metric classes: containers, the lambda scorer, frames with string index / missing V genes
    A('lev_cdist_containers', ['metric.levenshtein.Levenshtein.calc_cdist_matrix'], lambda: (lambda a, b, c, d: (lambda m: [m.calc_cdist_matrix(a, b), m.calc_cdist_matrix(c, d)])(prs.metric.Levenshtein()), [tuple(SEQS), stridx(SEQS2), objarr(SEQS3), shifted(SEQS)], {}))
    A('lev_pdist_containers', ['metric.levenshtein.Levenshtein.calc_pdist_vector'], lambda: (lambda a, b, c: (lambda m: [m.calc_pdist_vector(a), m.calc_pdist_vector(b), m.calc_pdist_vector(c)])(prs.metric.Levenshtein()), [tuple(SEQS), np.array(SEQS2), objarr(LONG)], {}))
    A('wlev_pdist_containers', ['metric.levenshtein.WeightedLevenshtein.calc_pdist_vector'], lambda: (lambda a, b: (lambda m: [m.calc_pdist_vector(a), m.calc_cdist_matrix(b, a)])(prs.metric.WeightedLevenshtein(deletion_weight=3)), [stridx(SEQS), np.array(SEQS2)], {}))
    A('lev_1001', ['metric.levenshtein.Levenshtein.calc_pdist_vector'], lambda: (lambda a: prs.metric.Levenshtein().calc_pdist_vector(a).sum(), [np.array(big_seqs())], {}))
    A('acdrlev_pdist', ['metric.tcr_metric.tcr_levenshtein.AlphaCdrLevenshtein.__init__', 'metric.tcr_metric.tcr_levenshtein.TcrLevenshtein.calc_pdist_vector'], lambda: (lambda d: tm.AlphaCdrLevenshtein(2, 1, 1, cdr1_weight=3).calc_pdist_vector(d), [str_df()], {}))
    A('cdr3lev_weights_cdist', ['metric.tcr_metric.tcr_levenshtein.Cdr3Levenshtein.__init__', 'metric.tcr_metric.tcr_levenshtein.TcrLevenshtein.calc_cdist_matrix'], lambda: (lambda a, b: tm.Cdr3Levenshtein(1, 2, 3, alpha_weight=2, beta_weight=5).calc_cdist_matrix(a, b), [str_df(), tcr_df().iloc[::3]], {}))
    A('cdrlev_cdist_all_weights', ['metric.tcr_metric.tcr_levenshtein.TcrLevenshtein.__init__', 'metric.tcr_metric.tcr_levenshtein.TcrLevenshtein.calc_cdist_matrix'], lambda: (lambda a, b: tm.CdrLevenshtein(1, 1, 2, 2, 3, 1, 2, 4).calc_cdist_matrix(a, b), [tcr_df().iloc[:5], str_df().iloc[4:]], {}))
    A('bcdr3lev_pdist_minimal_frame', ['metric.tcr_metric.tcr_levenshtein.BetaCdr3Levenshtein.__init__', 'metric.tcr_metric.tcr_levenshtein.TcrLevenshtein.calc_pdist_vector'], lambda: (lambda d: tm.BetaCdr3Levenshtein().calc_pdist_vector(d), [str_df()[['CDR3B']]], {}))
    A('standard_format_kinds', ['metric.tcr_metric.tcr_metric.is_in_standard_format'], lambda: (lambda *xs: [tm.tcr_metric.is_in_standard_format(x) for x in xs], [tcr_df()[['group']], list(SEQS), None, str_df()[['TRAV']], raw_df()[['TRBJ', 'Epitope']]], {}))

    # ---- clustering: deterministic community routines, their **kwargs, node containers, the DBSCAN branch
    A('graph_walktrap_steps', ['clustering.graph_clustering'], lambda: (prs.graph_clustering, [trip(), np.array(SEQS)], dict(clustering='walktrap', steps=3)))
    A('graph_edge_betweenness_kwargs', ['clustering.graph_clustering'], lambda: (prs.graph_clustering, [np.array(trip()), stridx(SEQS)], dict(clustering='edge_betweenness', directed=False)))
    A('graph_cc_tuple_nodes', ['clustering.graph_clustering'], lambda: (prs.graph_clustering, [tuple(trip()), tuple(SEQS)], {}))
    A('graph_cc_asymmetric', ['clustering.graph_clustering'], lambda: (prs.graph_clustering, [prs.kdtree(list(SEQS), max_edits=2, max_returns=1), shifted(SEQS)], {}))
    A('graph_dbscan', ['clustering.graph_clustering'], lambda: (prs.graph_clustering, [np.array(trip()), list(SEQS)], dict(clustering='DBSCAN')))
    A('graph_fastgreedy_1001', ['clustering.graph_clustering'], lambda: (prs.graph_clustering, [prs.symdel(big_seqs(), max_edits=1), big_seqs()], dict(clustering='fastgreedy')))
    A('graph_method_spelling_raises', ['clustering.graph_clustering'], lambda: (prs.graph_clustering, [trip(), list(SEQS)], dict(clustering='CC')))
    A('graph_kwargs_raises', ['clustering.graph_clustering'], lambda: (prs.graph_clustering, [trip(), list(SEQS)], dict(clustering='fastgreedy', nope=1)))

    # ---- io / util
    A('standardize_mouse_options', ['io.standardize_dataframe'], lambda: (prs.standardize_dataframe, [raw_df()], dict(species='MusMusculus', tcr_enforce_functional=False, mhc_precision='allele', suppress_warnings=True)))
    A('standardize_strict_protein', ['io.standardize_dataframe'], lambda: (prs.standardize_dataframe, [raw_df().assign(CDR3A=['CIVRAPGRADMR', 'AVPSGAGSYQLT', None])], dict(strict_cdr3_standardization=True, mhc_precision='protein', tcr_enforce_functional=False, suppress_warnings=True)))
    A('standardize_warnings_on', ['io.standardize_dataframe'], lambda: (prs.standardize_dataframe, [raw_df()], {}))
    A('standardize_mapper_only', ['io.standardize_dataframe'], lambda: (prs.standardize_dataframe, [raw_df()], dict(col_mapper=dict(Epitope='epitope', MHCA='mhc_a'), standardize=False)))
    A('standardize_stridx_beta_only', ['io.standardize_dataframe'], lambda: (prs.standardize_dataframe, [raw_df()[['TRBV', 'CDR3B', 'TRBJ']].set_index(pd.Index(['x', 'y', 'x']))], dict(suppress_warnings=True, tcr_precision='allele')))
    A('standardize_positional', ['io.standardize_dataframe'], lambda: (prs.standardize_dataframe, [raw_df(), None, True, 'HomoSapiens', False, 'gene', 'gene', False, True], {}))
    A('standardize_both_raises', ['io.standardize_dataframe'], lambda: (prs.standardize_dataframe, [raw_df()], dict(df_old=raw_df())))
    A('standardize_species_unknown', ['io.standardize_dataframe'], lambda: (prs.standardize_dataframe, [raw_df()], dict(species='nope', suppress_warnings=True)))
    A('isvalid_kinds', ['io.isvalidaa', 'io.isvalidcdr3'], lambda: (lambda xs: [[prs.isvalidaa(x), prs.isvalidcdr3(x)] for x in xs], [[np.str_('CASSF'), 'casf', b'CAF', ('C', 'F'), {'C': 1}, float('nan'), pd.NA, np.array(['C', 'F']), 'C' * 300 + 'F']], {}))
    A('multimerge_on_list_suffix_inner', ['io.multimerge'], lambda: (prs.multimerge, [[tcr_df()[['CDR3B', 'TRBV', 'clone_count']].drop_duplicates(['CDR3B', 'TRBV']), str_df()[['CDR3B', 'TRBV', 'group']].drop_duplicates(['CDR3B', 'TRBV'])], ['CDR3B', 'TRBV']], dict(suffixes=('l', 'r'), how='inner')))
    A('multimerge_three_suffix', ['io.multimerge'], lambda: (prs.multimerge, [(tcr_df()[['clone_count']], str_df()[['clone_count']].reset_index(drop=True), tcr_df()[['clone_count']].iloc[::2]), 'index'], dict(suffixes=['a', 'b', 'c'], sort=True)))
    A('multimerge_column_left_kwargs', ['io.multimerge'], lambda: (prs.multimerge, [[tcr_df()[['CDR3B', 'clone_count']].drop_duplicates('CDR3B'), tcr_df()[['CDR3B', 'group']].drop_duplicates('CDR3B').iloc[2:], tcr_df()[['CDR3B', 'donor']].drop_duplicates('CDR3B').iloc[:5]], 'CDR3B'], dict(how='left', sort=True, indicator=False)))
    A('multimerge_stridx_index', ['io.multimerge'], lambda: (prs.multimerge, [[str_df()[['clone_count']], str_df()[['group']].iloc[::-1], na_df()[['donor']]], 'index'], {}))
    A('multimerge_one_frame', ['io.multimerge'], lambda: (prs.multimerge, [[tcr_df()[['CDR3B', 'group']]], 'CDR3B'], dict(suffixes=['only'])))
    A('seqs_to_regex_containers', ['util.seqs_to_regex'], lambda: (lambda a, b, c: [util.seqs_to_regex(x, align=False) for x in (a, b, c)], [np.array(['CASF', 'CATF', 'CASW']), stridx(['CASF', 'CATF', 'CA-W']), ('CASF', 'CASF')], {}))
    A('seqs_to_consensus_containers', ['util.seqs_to_consensus'], lambda: (lambda a, b, c: [util.seqs_to_consensus(x, align=False) for x in (a, b, c)], [np.array(['CASF', 'CATF', 'CASW']), stridx(['CASF', 'C--F', 'C--W']), ('CASF',)], {}))
    A('align_seqs_debug_raises', ['util.align_seqs'], lambda: (util.align_seqs, [np.array(['CASF', 'CATFF'])], dict(debug=True)))
    A('ensure_numpy_kinds', ['util.ensure_numpy'], lambda: (lambda *xs: [util.ensure_numpy(x) for x in xs], [tuple(SEQS), stridx(COUNTS_F), objarr(SEQS2), np.array(COUNTS), range(4)], {}))
    A('convert_tuple_kinds', ['util.convert_tuple_to_dataframe_if_necessary'], lambda: (lambda *xs: [util.convert_tuple_to_dataframe_if_necessary(x) for x in xs], [(shifted(ALPHA), stridx(SEQS)), (np.array(ALPHA), tuple(SEQS)), tuple(SEQS), (list(ALPHA), list(SEQS), list(SEQS)), None, [list(ALPHA), list(SEQS)]], {}))

    # ---- plotting: axes handed in (built inside the template: drawing on them is the purpose), transforms, **kwargs, arrays
    def with_ax(f, *args, **kw):
        def call(*a):
            fig, ax = plt.subplots(figsize=(3, 2))
            return f(*a, ax=ax, **kw)
        return call, list(args), {}
    A('rankfrequency_int_arr_counts', ['plotting.rankfrequency'], lambda: (pp.rankfrequency, [np.array([3, 1, 7, 2, 5, 2])], dict(normalize_x=False)), fig=True)
    A('rankfrequency_uint_arr_both', ['plotting.rankfrequency'], lambda: (pp.rankfrequency, [np.array([3, 1, 7, 2, 5, 2], dtype=np.uint16)], dict(normalize_x=False, normalize_y=True, log_x=False, log_y=False)), fig=True)
    A('rankfrequency_nan_arr', ['plotting.rankfrequency'], lambda: (pp.rankfrequency, [np.array([3.0, np.nan, 2.0, 7.0, np.nan, 5.0])], {}), fig=True)
    A('rankfrequency_nan_series', ['plotting.rankfrequency'], lambda: (pp.rankfrequency, [stridx([3.0, np.nan, 2.0, 7.0, 5.0])], dict(normalize_x=False, scaley=0.5)), fig=True)
    A('rankfrequency_tuple_kwargs', ['plotting.rankfrequency'], lambda: (pp.rankfrequency, [(3, 1, 2)], dict(normalize_y=True, where='post')), fig=True)
    A('rankfrequency_ax_transforms', ['plotting.rankfrequency'], lambda: with_ax(pp.rankfrequency, np.array([3, 1, 2, 7, 5]), normalize_x=False, transform_x=np.sqrt, transform_y=lambda y: y + 1, log_y=False, scaley=2.0, lw=0.5), fig=True)
    A('density_scatter_arrays', ['plotting.density_scatter'], lambda: (pp.density_scatter, [np.linspace(0, 1, 30)[::-1].copy(), stridx(np.linspace(0, 1, 30) ** 2)], dict(bins=5)), fig=True)
    A('density_scatter_nosort_trans_kwargs', ['plotting.density_scatter'], lambda: (pp.density_scatter, [np.linspace(0, 1, 30), shifted(np.linspace(1, 0, 30) ** 2)], dict(bins=(4, 6), sort=False, trans=np.log1p, s=3, cmap='magma')), fig=True)
    A('density_scatter_ax_cbar', ['plotting.density_scatter'], lambda: with_ax(pp.density_scatter, np.linspace(0, 1, 30)[::-1].copy(), np.linspace(0, 1, 30) ** 2, bins=4, cbar=True), fig=True)
    A('density_scatter_discrete_lists_nosort', ['plotting.density_scatter'], lambda: (pp.density_scatter, [[3, 1, 1, 2, 3, 3], [1, 1, 1, 2, 1, 1]], dict(discrete=True, sort=False, marker='s')), fig=True)
    A('density_scatter_discrete_ax', ['plotting.density_scatter'], lambda: with_ax(pp.density_scatter, stridx([3, 1, 1, 2, 3, 3]), np.array([1, 1, 1, 2, 1, 1]), discrete=True), fig=True)
    A('colors_hls_int_series', ['plotting.labels_to_colors_hls'], lambda: (lambda a, b: [pp.labels_to_colors_hls(a, min_count=2), pp.labels_to_colors_hls(b, dict(l=0.4, s=0.5, h=0.2))], [np.array([3, 3, 1, 2, 2, 2]), stridx(list('aabbbcd'))], {}), random=True)
    A('colors_hls_tuple_positional', ['plotting.labels_to_colors_hls'], lambda: (pp.labels_to_colors_hls, [tuple('aabbbcd'), dict(l=0.6), 3], {}), random=True)
    A('colors_tableau_min_count', ['plotting.labels_to_colors_tableau'], lambda: (lambda a, b: [pp.labels_to_colors_tableau(a, min_count=2), pp.labels_to_colors_tableau(b, 1)], [list('aabbbcd'), np.array([3, 3, 1, 2, 2, 2])], {}), random=True)
    A('colors_tableau_many', ['plotting.labels_to_colors_tableau'], lambda: (pp.labels_to_colors_tableau, [['l%02d' % (i % 23) for i in range(50)]], {}), random=True)
    A('seqlogos_series_ax_kwargs', ['plotting.seqlogos'], lambda: with_ax(pp.seqlogos, stridx(['CASF', 'CATF', 'CASW']), color_scheme='hydrophobicity', baseline_width=0.5), fig=True)
    A('seqlogos_arr', ['plotting.seqlogos'], lambda: (pp.seqlogos, [np.array(['CASF', 'CATF', 'CASW', 'CASF'])], dict(show_spines=True)), fig=True)
    A('seqlogos_ragged_raises', ['plotting.seqlogos'], lambda: (pp.seqlogos, [['CASF', 'CATFF']], {}), fig=True)

    def vj_axes(d):
        fig, axes = plt.subplots(ncols=3, figsize=(4, 1))
        return [canon(a) for a in pp.seqlogos_vj(d, 'cdr3', 'v', 'j', axes=axes, color_scheme='charge')]
    A('seqlogos_vj_axes_kwargs', ['plotting.seqlogos_vj'], lambda: (vj_axes, [vj_df().set_index(pd.Index(list('xyz')))], {}), fig=True)

    def label_list(n):
        fig, axes = plt.subplots(ncols=n)
        pp.label_axes(list(axes), labels='ab', labelstyle='(%s)', xy=(0.1, 0.9), xycoords='axes fraction', fontsize=7, va='bottom')
        return [[t.get_text(), t.get_fontsize(), t.get_va(), list(t.xy)] for a in axes for t in a.texts]
    A('label_axes_list_kwargs', ['plotting.label_axes'], lambda: (label_list, [3], {}), fig=True)
    A('label_axes_default_labels', ['plotting.label_axes'], lambda: (lambda n: (lambda fig: (pp.label_axes(fig), [a.texts[0].get_text() for a in fig.axes])[1])(plt.subplots(ncols=n)[0]), [2], {}), fig=True)
    A('label_axes_none_raises', ['plotting.label_axes'], lambda: (lambda n: pp.label_axes(plt.subplots(ncols=n)[0], labels=None), [2], {}), fig=True)

    def handler(horizontal):
        fig, ax = plt.subplots(figsize=(3, 2))
        l1, = ax.plot([0, 1], [0, 1], 'o')
        l2, = ax.plot([0, 1], [1, 0], 's')
        l3, = ax.plot([0, 1], [1, 1], '-')
        leg = ax.legend([(l1, l2), (l1, l2, l3)], ['two', 'three'], handler_map={tuple: pp.HandlerTupleOffset(horizontal=horizontal)})
        fig.canvas.draw()
        arts = pp.HandlerTupleOffset(horizontal=horizontal, pad=0.3).create_artists(leg, (l1, l3, l2), 1.0, 2.0, 20.0, 7.0, 10.0, ax.transAxes)
        return [np.asarray(a.get_xydata()) for a in arts] + [[t.get_text() for t in leg.get_texts()]]
    A('handler_tuple_offset_h', ['plotting.HandlerTupleOffset.__init__', 'plotting.HandlerTupleOffset.create_artists'], lambda: (handler, [True], {}), fig=True)
    A('handler_tuple_offset_v', ['plotting.HandlerTupleOffset.__init__', 'plotting.HandlerTupleOffset.create_artists'], lambda: (handler, [False], {}), fig=True)
    cgs = ['plotting.clustermap_split', 'plotting.ClusterGridSplit.__init__', 'plotting.ClusterGridSplit.plot_matrix']
    A('clustermap_split_options', cgs,
      lambda: (pp.clustermap_split, [pd.DataFrame(np.arange(16.0).reshape(4, 4)), pd.DataFrame(np.arange(16.0).reshape(4, 4).T)],
               dict(figsize=(3, 3), row_cluster=False, col_cluster=False, annot=True, xticklabels=list('abcd'), yticklabels=list('wxyz'), mask=np.eye(4, dtype=bool),
                    row_colors=['r', 'g', 'b', 'k'], tree_kws=dict(linewidths=0.5))), fig=True)
    A('clustermap_split_linkage_options', cgs,
      lambda: (pp.clustermap_split, [pd.DataFrame(np.arange(9.0).reshape(3, 3)), pd.DataFrame(np.arange(9.0).reshape(3, 3).T)],
               dict(figsize=(3, 3), method='single', metric='cityblock', annot=True, cbar_kws=dict(orientation='horizontal'), vmin=0, vmax=10, col_colors=['r', 'g', 'b'])), fig=True)
    A('clustermap_split_labelled_raises', cgs,      # labelled frames: seaborn aligns the (labelled) mask with the unlabelled merged matrix and fails, late
      lambda: (pp.clustermap_split, [pd.DataFrame(np.arange(9.0).reshape(3, 3), index=list('xyz'), columns=list('xyz')), pd.DataFrame(np.arange(9.0).reshape(3, 3).T, index=list('xyz'), columns=list('xyz'))],
               dict(figsize=(3, 3))), fig=True)
    A('clustermap_split_nocbar_raises', cgs,
      lambda: (pp.clustermap_split, [pd.DataFrame(np.arange(16.0).reshape(4, 4)), pd.DataFrame(np.arange(16.0).reshape(4, 4).T)], dict(figsize=(3, 3), cbar_pos=None)), fig=True)
    A('similarity_clustermap_meta_dict', ['plotting.similarity_clustermap'], lambda: (pp.similarity_clustermap, [str_df()], dict(alpha_column='CDR3A', beta_column=None, meta_columns=dict(group='Group', donor='Donor'),
                                                                                          meta_to_colors=[pp.labels_to_colors_hls, pp.labels_to_colors_tableau, pp.labels_to_colors_hls], figsize=(3, 3), cbar_pos=(0.3, 0.95, 0.4, 0.02))), random=True, fig=True)
    A('similarity_clustermap_bounds_pair', ['plotting.similarity_clustermap'], lambda: (pp.similarity_clustermap, [tcr_df()], dict(alpha_column='CDR3A', beta_column='CDR3B', bounds=np.arange(0, 4), meta_columns=['donor'])), random=True, fig=True)
    A('similarity_clustermap_norm_kws', ['plotting.similarity_clustermap'], lambda: (pp.similarity_clustermap, [tcr_df()], dict(alpha_column='CDR3A', beta_column='CDR3B', norm=__import__('matplotlib').colors.Normalize(0, 9), cbar_kws=dict(label='d'),
                                                                                        linkage_kws=dict(method='complete'), cluster_kws=dict(t=2, criterion='maxclust'), dendrogram_ratio=0.2)), random=True, fig=True)

    # ---- objects that live across calls; containers reused and refilled in place between calls
    def live(name, entries, steps, builders, random=False):
        """steps: list of functions of the live objects; builders: name -> constructor.  live: all objects are built once, up
        front; ref: every step gets the object it uses built for it alone, immediately before the call."""
        def run_live():
            objs = {k: b() for k, b in builders.items()}
            return [st(objs) for st in steps]

        class PerCall(dict):                 # an object is built at the moment a step asks for it, for that step alone
            def __getitem__(self, k):
                return builders[k]()

        def run_ref():
            return [st(PerCall()) for st in steps]
        L.append(T('au_live_' + name, entries, lambda: (run_live, [], {}), random=random))
        L.append(T('au_ref_' + name, entries, lambda: (run_ref, [], {}), random=random))
        L[-2]['same_as'] = 'au_ref_' + name
    sdb = ['nn.SymdelDB.__init__', 'nn.SymdelDB.lookup']
    ldb = ['nn.LookupDB.__init__', 'nn.LookupDB.lookup']
    for k in (1, 2):
        live('symdeldb_k%d_options' % k, sdb,
             [lambda o: o['db'].lookup(list(SEQS2)), lambda o: o['db'].lookup(list(SEQS2), custom_distance='hamming'),
              lambda o: o['db'].lookup(list(SEQS2)), lambda o: o['db'].lookup(list(SEQS3), custom_distance=lev3, max_custom_distance=3),
              lambda o: o['db'].lookup(list(SEQS3)), lambda o: o['db'].lookup(list(SEQS2), custom_distance='hamming', output_type='ndarray'),
              lambda o: o['db'].lookup(list(SEQS), custom_distance=lev3, max_custom_distance=6.0), lambda o: o['db'].lookup(list(SEQS))],
             dict(db=lambda k=k: nn.SymdelDB(list(SEQS), k)))
    live('lookupdb_options', ldb,
         [lambda o: o['db'].lookup(list(SEQS2)), lambda o: o['db'].lookup(list(SEQS2), custom_distance='hamming'), lambda o: o['db'].lookup(['CASSQETQYF', 'CASSLGQAYEQF'], max_edits=2),
          lambda o: o['db'].lookup(list(SEQS2)), lambda o: o['db'].lookup(list(SEQS), pdist_mode=True), lambda o: o['db'].lookup(list(SEQS3), custom_distance=lev3, max_custom_distance=3),
          lambda o: o['db'].lookup(list(SEQS3)), lambda o: o['db'].lookup(list(SEQS))],
         dict(db=lambda: nn.LookupDB(list(SEQS))))
    live('two_databases', sdb + ldb,
         [lambda o: o['a'].lookup(list(SEQS2)), lambda o: o['c'].lookup(list(SEQS2)), lambda o: o['l'].lookup(list(SEQS2)), lambda o: o['a'].lookup(list(SEQS2)),
          lambda o: o['c'].lookup(list(SEQS), custom_distance='hamming'), lambda o: o['a'].lookup(list(SEQS), custom_distance='hamming'), lambda o: o['l'].lookup(list(SEQS3), max_edits=1, custom_distance='hamming'),
          lambda o: o['c'].lookup(list(SEQS2))],
         dict(a=lambda: nn.SymdelDB(list(SEQS), 1), c=lambda: nn.SymdelDB(np.array(SEQS3), 2), l=lambda: nn.LookupDB(tuple(SEQS3))))
    def safe(step):                       # a step that is expected to raise: the live object must survive it unchanged
        def run(o):
            try:
                return ['ok', step(o)]
            except Exception as e:
                return exc_token(e)
        return run
    live('databases_after_raise', sdb + ldb,
         [lambda o: o['a'].lookup(list(SEQS2)), safe(lambda o: o['a'].lookup(list(SEQS2), custom_distance=Failing(3, lev1), max_custom_distance=5)), lambda o: o['a'].lookup(list(SEQS2)),
          safe(lambda o: o['a'].lookup([1, 2])), safe(lambda o: o['a'].lookup(list(SEQS2), output_type='nope')), lambda o: o['a'].lookup(list(SEQS3), custom_distance='hamming'),
          lambda o: o['l'].lookup(list(SEQS2)), safe(lambda o: o['l'].lookup(list(SEQS2), custom_distance=Failing(3, lev1), max_custom_distance=5)), safe(lambda o: o['l'].lookup(['CASXF', 7])),
          lambda o: o['l'].lookup(list(SEQS2)), lambda o: o['l'].lookup(list(SEQS), pdist_mode=True, custom_distance='hamming')],
         dict(a=lambda: nn.SymdelDB(list(SEQS), 2), l=lambda: nn.LookupDB(np.array(SEQS))))
    live('metrics_after_raise', ['metric.tcr_metric.tcr_levenshtein.TcrLevenshtein.calc_pdist_vector', 'metric.levenshtein.Levenshtein.calc_cdist_matrix'],
         [lambda o: o['m'].calc_pdist_vector(tcr_df()), safe(lambda o: o['m'].calc_pdist_vector(list(SEQS))), safe(lambda o: o['m'].calc_pdist_vector(tcr_df().drop(columns=['TRBV']))),
          safe(lambda o: o['m'].calc_cdist_matrix(tcr_df(), tcr_df().assign(CDR3B=[1] * 10))), lambda o: o['m'].calc_pdist_vector(tcr_df()),
          lambda o: o['w'].calc_pdist_vector(list(SEQS)), safe(lambda o: o['w'].calc_cdist_matrix(list(SEQS), [1, 2])), lambda o: o['w'].calc_pdist_vector(list(SEQS))],
         dict(m=lambda: tm.CdrLevenshtein(1, 2, 1, cdr1_weight=3, beta_weight=2), w=lambda: prs.metric.WeightedLevenshtein(2, 1, 3)))
    live('tcr_metrics_alive', ['metric.tcr_metric.tcr_levenshtein.TcrLevenshtein.__init__', 'metric.tcr_metric.tcr_levenshtein.TcrLevenshtein.calc_pdist_vector', 'metric.tcr_metric.tcr_levenshtein.TcrLevenshtein.calc_cdist_matrix'],
         [lambda o: o['m1'].calc_pdist_vector(tcr_df()), lambda o: o['m2'].calc_pdist_vector(tcr_df()), lambda o: o['m3'].calc_pdist_vector(tcr_df()), lambda o: o['m1'].calc_pdist_vector(tcr_df()),
          lambda o: o['m4'].calc_cdist_matrix(tcr_df(), tcr_df().iloc[:3]), lambda o: o['m2'].calc_cdist_matrix(tcr_df(), tcr_df().iloc[:3]), lambda o: o['m5'].calc_pdist_vector(tcr_df()),
          lambda o: o['m3'].calc_cdist_matrix(tcr_df().iloc[:4], tcr_df()), lambda o: o['m1'].calc_cdist_matrix(tcr_df().iloc[:4], tcr_df())],
         dict(m1=lambda: tm.Cdr3Levenshtein(alpha_weight=2, beta_weight=3), m2=lambda: tm.Cdr3Levenshtein(), m3=lambda: tm.CdrLevenshtein(1, 2, 1, cdr1_weight=3, cdr3_weight=2, alpha_weight=2),
              m4=lambda: tm.BetaCdrLevenshtein(cdr2_weight=5), m5=lambda: tm.AlphaCdr3Levenshtein(2, 2, 1)))
    live('string_metrics_alive', ['metric.levenshtein.WeightedLevenshtein.__init__', 'metric.levenshtein.WeightedLevenshtein.calc_pdist_vector', 'metric.levenshtein.Levenshtein.calc_cdist_matrix'],
         [lambda o: o['w'].calc_pdist_vector(list(SEQS)), lambda o: o['l'].calc_pdist_vector(list(SEQS)), lambda o: o['w2'].calc_cdist_matrix(list(SEQS), list(SEQS2)), lambda o: o['w'].calc_cdist_matrix(list(SEQS), list(SEQS2)),
          lambda o: o['l'].calc_cdist_matrix(list(SEQS2), list(SEQS)), lambda o: prs.pcDelta(list(SEQS), metric=o['w']), lambda o: prs.hierarchical_clustering(list(SEQS), metric=o['w2']), lambda o: o['w'].calc_pdist_vector(list(SEQS2))],
         dict(w=lambda: prs.metric.WeightedLevenshtein(2, 1, 3), l=lambda: prs.metric.Levenshtein(), w2=lambda: prs.metric.WeightedLevenshtein(substitution_weight=2)))
    # one container of the caller: several calls with other options, REFILLED IN PLACE in between
    def refill(o, key, new):
        obj = o[key]
        if isinstance(obj, pd.DataFrame):
            for col in new.columns:
                obj[col] = new[col].to_numpy()
        elif isinstance(obj, pd.Series):
            obj.iloc[:] = list(new)
        elif isinstance(obj, set):
            obj.clear()
            obj.update(new)
        else:
            obj[:] = new
        return None
    for cn, conv in [('list', list), ('arr', lambda s: np.array(list(s), dtype='<U20')), ('objarr', objarr), ('series', shifted)]:
        steps = [lambda o: prs.symdel(o['s'], max_edits=1), lambda o: prs.symdel(o['s'], max_edits=2, custom_distance='hamming'), lambda o: prs.kdtree(o['s'], max_edits=2),
                 lambda o: prs.hash_based(o['s'], max_edits=1), lambda o: prs.nearest_neighbor(o['s'], max_edits=1, seqs2=list(SEQS2)), lambda o: prs.pdist(o['s']), lambda o: prs.pc(o['s']),
                 lambda o: prs.pcDelta(o['s'], bins=[0, 1, 2, 30]), lambda o: prs.calculate_neighbor_numbers(o['s']), lambda o: prs.metric.Levenshtein().calc_pdist_vector(o['s']),
                 lambda o: prs.hierarchical_clustering(o['s']), lambda o: prs.stdpc(o['s']), lambda o: prs.jaccard_index(o['s'], list(SEQS2)), lambda o: prs.kdtree(o['s'], max_edits=1, n_cpu=2)]
        n = len(steps)
        # v1 for all steps, refill, then v2 for all steps again - the reference builds v1 / v2 containers per step
        def mk(conv=conv, steps=steps):
            def run_live():
                o = dict(s=conv(SEQS))
                r1 = [st(o) for st in steps]
                refill(o, 's', list(SEQS_V2))
                return r1 + [st(o) for st in steps]

            def run_ref():
                return [st(dict(s=conv(SEQS))) for st in steps] + [st(dict(s=conv(SEQS_V2))) for st in steps]
            return run_live, run_ref
        rl, rr = mk()
        ents = ['nn.symdel', 'nn.kdtree', 'nn.hash_based', 'nn.nearest_neighbor', 'distance.pdist', 'stats.pc', 'distance.pcDelta', 'distance.calculate_neighbor_numbers', 'distance.hierarchical_clustering', 'stats.stdpc']
        L.append(T('au_live_reuse_seqs_' + cn, ents, lambda rl=rl: (rl, [], {})))
        L.append(T('au_ref_reuse_seqs_' + cn, ents, lambda rr=rr: (rr, [], {})))
        L[-2]['same_as'] = 'au_ref_reuse_seqs_' + cn
    # counts arrays refilled
    for cn, conv in [('int_arr', np.array), ('float_arr', lambda c: np.array(c, dtype=float)), ('list', list), ('series', lambda c: pd.Series(list(c), dtype=float))]:
        steps = [lambda o: prs.pc_n(o['c']), lambda o: prs.varpc_n(o['c']), lambda o: prs.stdpc_n(o['c']), lambda o: prs.chao1(o['c']), lambda o: prs.var_chao1(o['c']), lambda o: prs.chao2(o['c'], 4),
                 lambda o: prs.powerlaw_mle_alpha(o['c'], cmin=1), lambda o: prs.powerlaw_mle_alpha(o['c'], cmin=2.0, method='simple'), lambda o: prs.powerlaw_mle_alpha(o['c'], method='continuitycorrection'),
                 lambda o: canon(pp.rankfrequency(o['c'], normalize_x=False)), lambda o: canon(pp.rankfrequency(o['c']))]
        def mk(conv=conv, steps=steps):
            v2 = COUNTS[::-1][:-1] + [12]
            def run_live():
                o = dict(c=conv(COUNTS))
                r1 = [st(o) for st in steps]
                refill(o, 'c', v2)
                return r1 + [st(o) for st in steps]

            def run_ref():
                return [st(dict(c=conv(COUNTS))) for st in steps] + [st(dict(c=conv(v2))) for st in steps]
            return run_live, run_ref
        rl, rr = mk()
        ents = ['stats.pc_n', 'stats.varpc_n', 'stats.stdpc_n', 'stats.chao1', 'stats.var_chao1', 'stats.chao2', 'stats.powerlaw_mle_alpha', 'plotting.rankfrequency']
        L.append(T('au_live_reuse_counts_' + cn, ents, lambda rl=rl: (rl, [], {}), fig=True))
        L.append(T('au_ref_reuse_counts_' + cn, ents, lambda rr=rr: (rr, [], {}), fig=True))
        L[-2]['same_as'] = 'au_ref_reuse_counts_' + cn
    # one table of the caller: several calls, cells replaced in place in between
    def table_v2():
        d = tcr_df()
        d['CDR3B'] = SEQS_V2
        d['CDR3A'] = ALPHA[::-1]
        d['TRBV'] = TRBV[::-1]
        d['group'] = ['c', 'a', 'b', 'b', 'a', 'c', 'a', 'b', 'a', 'c']
        return d
    tsteps = [lambda o: tm.Cdr3Levenshtein().calc_pdist_vector(o['d']), lambda o: tm.CdrLevenshtein().calc_pdist_vector(o['d']), lambda o: prs.pc_joint(o['d'], ['TRBV', 'group']),
              lambda o: prs.pc_conditional(o['d'], 'group', 'TRBV'), lambda o: prs.pc_grouped_cross(o['d'], 'group', 'TRBV'), lambda o: prs.renyi2_entropy(o['d'], 'TRBV', by='group'),
              lambda o: prs.pcDelta(o['d']), lambda o: prs.pcDelta_grouped(o['d'], 'group', 'CDR3B', bins=[0, 1, 2, 30]), lambda o: prs.nearest_neighbor_tcrdist(o['d'], chain='beta', max_edits=2, max_tcrdist=80),
              lambda o: prs.pc(o['d'][['CDR3A', 'CDR3B']]), lambda o: prs.hierarchical_clustering(o['d']), lambda o: prs.standardize_dataframe(o['d'], suppress_warnings=True),
              lambda o: prs.stdrenyi2_entropy(o['d'], ['TRBV', 'group'])]
    def run_live_t():
        o = dict(d=tcr_df())
        r1 = [st(o) for st in tsteps]
        refill(o, 'd', table_v2())
        return r1 + [st(o) for st in tsteps]

    def run_ref_t():
        return [st(dict(d=tcr_df())) for st in tsteps] + [st(dict(d=table_v2())) for st in tsteps]
    ents = ['metric.tcr_metric.tcr_levenshtein.TcrLevenshtein.calc_pdist_vector', 'stats.pc_joint', 'stats.pc_conditional', 'stats.pc_grouped_cross', 'entropy.renyi2_entropy', 'distance.pcDelta',
            'distance.pcDelta_grouped', 'nn.nearest_neighbor_tcrdist', 'io.standardize_dataframe']
    L.append(T('au_live_reuse_table', ents, lambda: (run_live_t, [], {})))
    L.append(T('au_ref_reuse_table', ents, lambda: (run_ref_t, [], {})))
    L[-2]['same_as'] = 'au_ref_reuse_table'
    # one set of the caller
    ssteps = [lambda o: prs.find_neighbor_pairs(o['s']), lambda o: prs.calculate_neighbor_numbers(sorted(o['s']), reference=o['s']), lambda o: prs.jaccard_index(o['s'], set(SEQS2)),
              lambda o: prs.overlap(o['s'], o['s']), lambda o: prs.overlap_coefficient(set(SEQS3), o['s']), lambda o: prs.isdist1('CASSLGQAYEQYW', o['s']),
              lambda o: prs.nndist_hamming('CASSLGQAYEQYW', o['s'], 2), lambda o: prs.find_neighbor_pairs(o['s'], prs.levenshtein_neighbors)]
    def run_live_s():
        o = dict(s=set(SEQS))
        r1 = [st(o) for st in ssteps]
        refill(o, 's', SEQS_V2)
        return r1 + [st(o) for st in ssteps]

    def run_ref_s():
        return [st(dict(s=set(SEQS))) for st in ssteps] + [st(dict(s=set(SEQS_V2))) for st in ssteps]
    ents = ['distance.find_neighbor_pairs', 'distance.calculate_neighbor_numbers', 'stats.jaccard_index', 'stats.overlap', 'stats.overlap_coefficient', 'distance.isdist1', 'distance.nndist_hamming']
    L.append(T('au_live_reuse_set', ents, lambda: (run_live_s, [], {})))
    L.append(T('au_ref_reuse_set', ents, lambda: (run_ref_s, [], {})))
    L[-2]['same_as'] = 'au_ref_reuse_set'
    # option dictionaries of the caller reused for several calls
    def run_live_kws():
        lk, ck, tk, pk = dict(method='single'), dict(t=2, criterion='maxclust'), dict(ntrim=2, ctrim=1), dict(l=0.4, s=0.6)
        np.random.seed(11)
        return [prs.hierarchical_clustering(list(SEQS), linkage_kws=lk, cluster_kws=ck), prs.hierarchical_clustering(tcr_df(), linkage_kws=lk, cluster_kws=ck),
                prs.nearest_neighbor_tcrdist(tcr_df(), max_tcrdist=80, tcrdist_kwargs=tk), prs.nearest_neighbor_tcrdist(tcr_df(), chain='alpha', max_tcrdist=80, tcrdist_kwargs=tk),
                pp.labels_to_colors_hls(list('aabbc'), pk), pp.labels_to_colors_hls(list('abc'), pk), prs.hierarchical_clustering(list(SEQS3), linkage_kws=lk, cluster_kws=ck)]

    def run_ref_kws():
        lk, ck, tk, pk = (lambda: dict(method='single')), (lambda: dict(t=2, criterion='maxclust')), (lambda: dict(ntrim=2, ctrim=1)), (lambda: dict(l=0.4, s=0.6))
        np.random.seed(11)
        return [prs.hierarchical_clustering(list(SEQS), linkage_kws=lk(), cluster_kws=ck()), prs.hierarchical_clustering(tcr_df(), linkage_kws=lk(), cluster_kws=ck()),
                prs.nearest_neighbor_tcrdist(tcr_df(), max_tcrdist=80, tcrdist_kwargs=tk()), prs.nearest_neighbor_tcrdist(tcr_df(), chain='alpha', max_tcrdist=80, tcrdist_kwargs=tk()),
                pp.labels_to_colors_hls(list('aabbc'), pk()), pp.labels_to_colors_hls(list('abc'), pk()), prs.hierarchical_clustering(list(SEQS3), linkage_kws=lk(), cluster_kws=ck())]
    ents = ['distance.hierarchical_clustering', 'nn.nearest_neighbor_tcrdist', 'plotting.labels_to_colors_hls']
    L.append(T('au_live_reuse_option_dicts', ents, lambda: (run_live_kws, [], {}), random=True))
    L.append(T('au_ref_reuse_option_dicts', ents, lambda: (run_ref_kws, [], {}), random=True))
    L[-2]['same_as'] = 'au_ref_reuse_option_dicts'

    if True:
        # D23 (known finding, recorded in known_findings.json): igraph's randomised community routines draw from Python's `random`, not from
        # NumPy's generator - the result is not a function of the NumPy seed and the call leaves Python's generator advanced
        for cl, kw in [('multilevel', {}), ('leiden', dict(objective_function='modularity')), ('label_propagation', {})]:
            A('pending_graph_%s_ring7' % cl, ['clustering.graph_clustering'], lambda cl=cl, kw=kw: (prs.graph_clustering, [list(RING7), [str(i) for i in range(7)]], dict(clustering=cl, **kw)), random=True)
            L[-1]['site_tag'] = ':igraph community routine under Python random'
    for t in L:
        t['audit'] = True
    return L


# ------------------------------------------------------------------ snapshots
def _defaults(prefix, f, snap):
    import inspect
    code = getattr(f, '__code__', None)
    if code is not None and not hasattr(f, '__wrapped__') and '__signature__' not in getattr(f, '__dict__', {}):
        # plain function: what inspect.signature reports, read directly (ten times cheaper; this runs twice per call)
        d = f.__defaults__ or ()
        pos = code.co_varnames[:code.co_argcount]
        for name, v in zip(pos[len(pos) - len(d):], d):
            snap['D:%s:%s' % (prefix, name)] = canon(v)
        for name, v in (f.__kwdefaults__ or {}).items():
            snap['D:%s:%s' % (prefix, name)] = canon(v)
        return
    try:
        sig = inspect.signature(f)
    except (TypeError, ValueError):
        return
    for p in sig.parameters.values():
        if p.default is not inspect.Parameter.empty:
            snap['D:%s:%s' % (prefix, p.name)] = canon(p.default)


def world():
    """Everything of pyrepseq that outlives a call: default objects, module-level and class-level data, NumPy's generator."""
    import hashlib, inspect, types
    import numpy as np
    snap = {}
    for mname, mod in sorted(sys.modules.items()):
        if mod is None or not (mname == 'pyrepseq' or mname.startswith('pyrepseq.')):
            continue
        rel = mname[len('pyrepseq.'):] if mname != 'pyrepseq' else ''
        for k, v in sorted(vars(mod).items()):
            if k.startswith('__') or isinstance(v, types.ModuleType):
                continue
            q = (rel + '.' if rel else '') + k
            if inspect.isfunction(v):
                if v.__module__ == mname:
                    _defaults(q, v, snap)
            elif inspect.isclass(v):
                if v.__module__ == mname:
                    for ck, cv in sorted(vars(v).items()):
                        raw = cv.__func__ if isinstance(cv, (staticmethod, classmethod)) else cv
                        if inspect.isfunction(raw):
                            _defaults(q + '.' + ck, raw, snap)
                        elif not ck.startswith('__') and not ck.startswith('_abc') and not isinstance(cv, property):
                            snap['G:%s.%s' % (q, ck)] = canon(cv)
            elif callable(v) and not isinstance(v, (list, dict, set, tuple)):
                continue
            else:
                snap['G:' + q] = canon(v)
    st = np.random.get_state()
    snap['R:numpy.random'] = hashlib.md5(repr((st[0], st[1].tobytes(), st[2:])).encode()).hexdigest()
    ambient(snap)
    return snap


_ADDR = re.compile(r'0x[0-9a-fA-F]+')


def _tok(v):
    r = repr(v)
    return _ADDR.sub('0x', r) if '0x' in r else r


def _flat(prefix, d, snap):
    for k, v in d.items():
        if isinstance(v, dict):
            _flat('%s%s.' % (prefix, k), v, snap)
        else:
            snap['%s%s' % (prefix, k)] = _tok(v)


def ambient(snap):
    """PROCESS-WIDE state outside pyrepseq's own modules that a call may leave changed and that later results depend on
    (round 3): NumPy's floating-point error mode (decides whether 0/0 is nan or FloatingPointError) and print options,
    the warnings filters, matplotlib's rcParams / interactive mode, pandas' options, Python's `random` generator (the
    default random number generator of igraph), the environment, the working directory, a few interpreter settings.
    Keys 'E:<state>'; only libraries that are already imported are looked at."""
    import hashlib, random, warnings
    import numpy as np
    for k, v in np.geterr().items():
        snap['E:numpy.errstate[%s]' % k] = v
    snap['E:numpy.errcall'] = _tok(np.geterrcall())
    for k, v in np.get_printoptions().items():
        snap['E:numpy.printoptions[%s]' % k] = _tok(v)
    snap['E:warnings.filters'] = [[f[0], getattr(f[1], 'pattern', None), getattr(f[2], '__name__', str(f[2])),
                                   getattr(f[3], 'pattern', None), f[4]] for f in warnings.filters]
    snap['E:python.random'] = hashlib.md5(repr(random.getstate()).encode()).hexdigest()
    mpl = sys.modules.get('matplotlib')
    if mpl is not None:
        rc = mpl.rcParams
        for k in dict.keys(rc):
            snap['E:matplotlib.rcParams[%s]' % k] = _tok(dict.__getitem__(rc, k))
        snap['E:matplotlib.interactive'] = bool(mpl.is_interactive())
    pd = sys.modules.get('pandas')
    if pd is not None:
        try:
            _flat('E:pandas.options.', pd._config.config._global_config, snap)
        except Exception:
            for k in ('mode.copy_on_write', 'mode.chained_assignment', 'mode.use_inf_as_na', 'future.infer_string',
                      'future.no_silent_downcasting', 'display.precision', 'compute.use_numexpr', 'compute.use_bottleneck'):
                try:
                    snap['E:pandas.options.' + k] = _tok(pd.get_option(k))
                except Exception:
                    pass
    for k, v in os.environ.items():
        snap['E:os.environ[%s]' % k] = v
    try:
        snap['E:os.cwd'] = os.getcwd()
    except OSError as e:
        snap['E:os.cwd'] = '<%s>' % type(e).__name__
    snap['E:sys.path'] = list(sys.path)
    snap['E:sys.recursionlimit'] = sys.getrecursionlimit()
    snap['E:sys.stdio'] = [id(sys.stdout), id(sys.stderr), id(sys.stdin)]
    loc = sys.modules.get('locale')
    if loc is not None:
        try:
            snap['E:locale'] = loc.setlocale(loc.LC_ALL)
        except Exception:
            pass
    dec = sys.modules.get('decimal')
    if dec is not None:
        snap['E:decimal.context'] = _tok(dec.getcontext())
    lg = sys.modules.get('logging')
    if lg is not None:
        snap['E:logging'] = [lg.root.level, lg.root.manager.disable, bool(lg.raiseExceptions)]


def diff_keys(a, b):
    return sorted(k for k in set(a) | set(b) if a.get(k, '<absent>') != b.get(k, '<absent>'))


def arg_snapshot(args, kwargs):
    snap = {}
    for i, a in enumerate(args):
        snap['arg%d' % i] = canon(a)
    for k, a in kwargs.items():
        snap[k] = canon(a)
    return snap


def run_call(t, seed):
    import warnings
    import numpy as np
    import matplotlib.pyplot as plt
    f, args, kwargs = t['make']()
    if seed is not None:
        np.random.seed(seed)
    with warnings.catch_warnings():
        # both snapshots are taken INSIDE the block: a warnings filter installed by the call is seen before
        # catch_warnings takes it out again
        # (an 'ignore everything' filter of the harness' own, written so that it is NOT the entry that a plain
        # warnings.filterwarnings('ignore') / simplefilter('ignore') of the library would add: that one must show as a change)
        warnings.filterwarnings('ignore', message='.*')
        a0, w0 = arg_snapshot(args, kwargs), world()
        t0 = time.time()
        try:
            res = ['ok', canon(f(*args, **kwargs))]
        except Exception as e:
            res = exc_token(e)
        t1 = time.time()
        a1, w1 = arg_snapshot(args, kwargs), world()
    plt.close('all')
    changed_args = diff_keys(a0, a1)
    changed_world = diff_keys(w0, w1)
    return dict(template=t['name'], seed=seed, result=res, secs=round(t1 - t0, 3),
                arg_changes=[[k, a0.get(k), a1.get(k)] for k in changed_args],
                world_changes=[[k, w0.get(k, '<absent>'), w1.get(k, '<absent>')] for k in changed_world])


def worker_main():
    sys.path.insert(0, os.path.join(ROOT, 'standin'))
    spec = json.loads(sys.stdin.read())
    import matplotlib
    matplotlib.use('Agg')
    import pwseqdist
    import pyrepseq.nn as nn
    nn.pwseqdist = pwseqdist            # optional dependency absent: vendored stand-in (see standin/pwseqdist)
    ts = templates()
    if 'fork' in spec:
        # this interpreter has imported everything and made NO pyrepseq call: every history runs in its own forked child,
        # i.e. in a process whose state is that of a freshly started interpreter (validated against real fresh
        # interpreters by cross_validate below)
        sys.stdout.write('\n@@C20@@' + json.dumps([forked(ts, h) for h in spec['fork']]))
        return
    out = []
    for name, seed in spec['history']:
        out.append(run_call(ts[name], seed))
    sys.stdout.write('\n@@C20@@' + json.dumps(out))


def forked(ts, history):
    import signal
    r, w = os.pipe()
    pid = os.fork()
    if pid == 0:
        code = 0
        try:
            os.close(r)
            signal.alarm(420)
            data = json.dumps([run_call(ts[name], seed) for name, seed in history])
        except BaseException as e:           # reported to the parent, which falls back to a real fresh interpreter
            data, code = json.dumps(dict(failed='%s: %s' % (type(e).__name__, str(e)[:300]))), 1
        try:
            with os.fdopen(w, 'w') as fh:
                fh.write(data)
        finally:
            os._exit(code)
    os.close(w)
    with os.fdopen(r) as fh:
        data = fh.read()
    os.waitpid(pid, 0)
    try:
        return json.loads(data)
    except ValueError:
        return dict(failed='child of the fork server died: %r' % data[-200:])


def spawn(history, timeout=600):
    """Run a history (list of [template, seed]) in a fresh interpreter; returns the list of per-call records."""
    env = dict(os.environ)
    env.setdefault('MPLBACKEND', 'Agg')
    env['PYTHONHASHSEED'] = '0'
    env.update(OMP_NUM_THREADS='1', OPENBLAS_NUM_THREADS='1', MKL_NUM_THREADS='1', NUMEXPR_NUM_THREADS='1')
    p = subprocess.run(['timeout', str(timeout), sys.executable, '-W', 'ignore', os.path.abspath(__file__), 'worker'],
                       input=json.dumps(dict(history=history)), capture_output=True, text=True, env=env)
    if '@@C20@@' not in p.stdout:
        raise RuntimeError('worker failed on %s: rc=%s %s' % (history, p.returncode, (p.stderr or p.stdout)[-800:]))
    return json.loads(p.stdout.split('@@C20@@')[-1])


NPROC = max(4, min(16, (os.cpu_count() or 8)))


def spawn_many(histories, nproc=NPROC):
    if not histories:
        return []
    from concurrent.futures import ThreadPoolExecutor
    with ThreadPoolExecutor(nproc) as ex:
        return list(ex.map(spawn, histories))


def fork_server(histories, timeout=900):
    env = dict(os.environ)
    env.setdefault('MPLBACKEND', 'Agg')
    env['PYTHONHASHSEED'] = '0'
    env.update(OMP_NUM_THREADS='1', OPENBLAS_NUM_THREADS='1', MKL_NUM_THREADS='1', NUMEXPR_NUM_THREADS='1')
    p = subprocess.run(['timeout', str(timeout), sys.executable, '-W', 'ignore', os.path.abspath(__file__), 'worker'],
                       input=json.dumps(dict(fork=histories)), capture_output=True, text=True, env=env)
    if '@@C20@@' not in p.stdout:
        return [dict(failed='fork server: rc=%s %s' % (p.returncode, (p.stderr or p.stdout)[-300:]))] * len(histories)
    return json.loads(p.stdout.split('@@C20@@')[-1])


def fresh_many(histories, nproc=NPROC):
    """Every history in its own pristine process (children of a few fork servers; a real fresh interpreter where a
    child failed).  Same result format as spawn_many."""
    if not histories:
        return []
    from concurrent.futures import ThreadPoolExecutor
    k = max(1, min(nproc, len(histories)))
    # dealt round-robin to k fork servers
    slots = [list(range(i, len(histories), k)) for i in range(k)]
    with ThreadPoolExecutor(k) as ex:
        parts = list(ex.map(lambda idx: fork_server([histories[i] for i in idx]), slots))
    out = [None] * len(histories)
    for idx, recs in zip(slots, parts):
        for i, r in zip(idx, recs):
            out[i] = r
    redo = [i for i, r in enumerate(out) if not isinstance(r, list)]
    for i, recs in zip(redo, spawn_many([histories[i] for i in redo], nproc)):
        out[i] = recs
    return out


# ------------------------------------------------------------------ the check
def table_rows(ctx):
    n = ctx.oracle.run([('api_c20_size', [False])])[0]
    rows = ctx.oracle.run([('api_c20_entry', [i]) for i in range(n)])
    mw = ctx.oracle.run([('api_c20_may_write', [i]) for i in range(n)])
    tab = {}
    for i, (r, w) in enumerate(zip(rows, mw)):
        name, (pub, rng, clean), params, defaults, mutp, mutd, other, rbw, writes = r
        tab[name] = dict(index=i, public=pub, rng=rng, clean=clean, params=params, defaults=defaults, mut_params=mutp,
                         mut_defaults=mutd, other=other, rbw=rbw, writes=writes, may_write=[(k, s) for k, s in w])
    for i in range(min(n, 40)):
        ctx.add_vm('api_c20_entry', [i], rows[i])
    return tab


def introspect_public():
    """Public callables of the importable pyrepseq modules: name -> (parameter names, parameters with a default)."""
    import inspect, types
    import pyrepseq  # noqa
    out = {}
    for mname, mod in sorted(sys.modules.items()):
        if mod is None or not mname.startswith('pyrepseq.') or 'tcrdist' in mname.split('.')[-2:]:
            continue
        rel = mname[len('pyrepseq.'):]
        for k, v in vars(mod).items():
            if inspect.isfunction(v) and v.__module__ == mname:
                out[rel + '.' + k] = v
            elif inspect.isclass(v) and v.__module__ == mname:
                for ck, cv in vars(v).items():
                    raw = cv.__func__ if isinstance(cv, (staticmethod, classmethod)) else cv
                    if inspect.isfunction(raw) and raw.__module__ == mname and raw.__qualname__.startswith(k + '.'):
                        out['%s.%s.%s' % (rel, k, ck)] = raw
    res = {}
    for q, f in out.items():
        sig = inspect.signature(f)
        res[q] = ([p.name for p in sig.parameters.values()],
                  [p.name for p in sig.parameters.values() if p.default is not inspect.Parameter.empty])
    return res


def allowed_keys(tab, entries):
    ok = set()
    for e in entries:
        for kind, s in tab.get(e, {}).get('may_write', []):
            if kind == 2:
                ok.add('G:' + s)
            elif kind == 3:
                ok.add('R:numpy.random')
            elif kind == 1:
                ok.add('D:%s:%s' % (e, s))
    return ok


def judge_effects(ctx, tab, ts, rec, history, pos):
    """Snapshots around one executed call: arguments, default objects, module data, generator."""
    t = ts[rec['template']]
    short = [h for h in history[:pos + 1]]
    for key, before, after in rec['arg_changes']:
        ctx.violation('property', 'call template %s (%s) modified the object it was given as %s (%s); afterwards %s' %
                      (t['name'], t['entries'][-1], key, json.dumps(before)[:120], first_difference(after, before).replace('alone:', 'before:')),
                      dict(history=[[t['name'], rec['seed']]], position=0, kind='argument', argument=key),
                      site='%s[argument]' % t['entries'][-1])
    ok = allowed_keys(tab, t['entries'])
    for key, before, after in rec['world_changes']:
        if key.startswith('D:'):
            ctx.violation('property', 'call template %s (%s) altered a default argument: %s was %s, is %s afterwards' %
                          (t['name'], t['entries'][-1], key[2:], json.dumps(before)[:200], json.dumps(after)[:200]),
                          dict(history=[[t['name'], rec['seed']]], position=0, kind='default', key=key),
                          site='%s[default]' % key[2:].split(':')[0])
        elif key.startswith('E:'):
            state = key[2:].split('[')[0]
            if (t['entries'][-1], state) in AMBIENT_REPORTED:
                ctx.count('ambient_change_again:' + state)      # one report per callable and state
                continue
            AMBIENT_REPORTED.add((t['entries'][-1], state))
            ctx.violation('property', 'call template %s (%s) %s and left process-wide state changed that later results depend on: '
                          '%s was %s, is %s afterwards%s' %
                          (t['name'], t['entries'][-1], 'raised %s' % rec['result'][1] if rec['result'][0] == 'exc' else 'returned',
                           key[2:], json.dumps(before)[:160], json.dumps(after)[:160], AMBIENT_WHY.get(key[2:].split('[')[0], '')),
                          dict(history=[[t['name'], rec['seed']]], position=0, kind='ambient', key=key),
                          site='%s[ambient:%s]' % (t['entries'][-1], state))
        elif key not in ok:
            ctx.violation('correspondence', 'call template %s (%s) changed %s, which the generated effect summary does not allow '
                          '(allowed: %s): %s -> %s' % (t['name'], t['entries'], key, sorted(ok), json.dumps(before)[:160], json.dumps(after)[:160]),
                          dict(history=short, position=pos, kind='state', key=key), site='%s[state]' % t['entries'][-1])
        else:
            ctx.count('allowed_state_change:' + key)


def audit_family(n):
    if n.startswith('au_live_') or n.startswith('au_ref_'):
        return 'objects_living_across_calls'
    if n.startswith('au_pending_'):
        return 'pending'
    for key, fam in [('same_object', 'same_object_twice'), ('same_set', 'same_object_twice'), ('same_frame', 'same_object_twice'), ('1001', 'size_1001'), ('_300', 'size_300'),
                     ('long', 'sequences_of_300_residues'), ('progress', 'progress_bar'), ('_na', 'missing_cells'), ('kwargs', 'kwargs_pass_through'), ('_ax', 'axes_given'),
                     ('float_arr', 'float64_ndarray'), ('objarr', 'object_ndarray'), ('stridx', 'string_index'), ('shifted', 'shifted_index'), ('series', 'series'), ('_arr', 'ndarray'),
                     ('tuple', 'tuple'), ('set', 'set'), ('dict', 'dict'), ('generator', 'generator'), ('ncpu2', 'n_cpu_2_with_second_option'), ('_one', 'size_1'), ('_two', 'size_2')]:
        if key in n:
            return fam
    return 'other_options'


def judge_live(ctx, ts, fresh, seeds):
    """Objects that live across calls: the template that keeps ONE database / metric / container for all its calls (and
    refills the container in place) must return what the same calls return on objects built for each call alone."""
    for n in sorted(ts):
        ref = ts[n].get('same_as')
        if not ref:
            continue
        ctx.count('live_objects_compared_with_per_call_objects')
        a, b = fresh[n]['result'], fresh[ref]['result']
        if a != b:
            step = ''
            try:
                xs, ys = a[1][1], b[1][1]
                k = next(i for i, (x, y) in enumerate(zip(xs, ys)) if x != y)
                step = ' (first difference at its call #%d of %d, counted from 0)' % (k, len(xs))
            except Exception:
                pass
            ctx.violation('property', 'call template %s (%s) keeps its objects (database / metric / caller\'s container, refilled in place) across '
                          'its calls and returns something else than the same calls on objects built for each call (%s)%s: %s'
                          % (n, ts[n]['entries'][:3], ref, step, first_difference(a, b).replace('alone:', 'per-call objects:')),
                          dict(history=[[n, seeds.get(n)]], position=0, kind='live', same_as=ref), site='%s[live]' % n)


AMBIENT_REPORTED = set()
AMBIENT_WHY = {
    'numpy.errstate': ' (NumPy\'s error mode decides whether 0/0, x/0, log(0) give nan / inf or raise FloatingPointError: pc of one '
                      'element, renyi2_entropy without coincidences, pcDelta of one sequence ...)',
    'numpy.printoptions': ' (every later str() / repr() of an array)',
    'warnings.filters': ' (whether later calls warn, stay silent or raise)',
    'python.random': ' (Python\'s `random` generator is igraph\'s default random number generator)',
    'matplotlib.rcParams': ' (every later figure)', 'matplotlib.interactive': ' (every later figure)',
}


def grid_neighbours(ts, shared):
    """shared-data templates that differ in exactly one grid coordinate (other function, other reference collection,
    query given / not given / another one, other max_edits, other distance option) - the same DATA, other arguments"""
    nb = {n: [] for n in shared}
    for i, a in enumerate(shared):
        ca = ts[a]['coords']
        for b in shared[i + 1:]:
            cb = ts[b]['coords']
            if (ca[0] == 'tcrdist') != (cb[0] == 'tcrdist'):
                continue
            if sum(1 for x, y in zip(ca, cb) if x != y) == 1:
                nb[a].append(b)
                nb[b].append(a)
    return nb


def make_histories(ctx, ts, seeds):
    rng = ctx.rng
    names = sorted(ts)
    shared = [n for n in names if 'coords' in ts[n]]
    base = [n for n in names if 'coords' not in ts[n]]
    raising = [n for n in names if n.endswith('_raises')]
    H = []
    # every template immediately repeated, in shuffled chunks of six (length 12)
    order = names[:]
    if ctx.quick:       # quick tier: half of the audit templates (another half for every seed); defaults / module state are
        order = [n for n in order if not ts[n].get('audit') or rng.random() < 0.5]      # snapshotted around every call anyway
    rng.shuffle(order)
    for i in range(0, len(order), 6):
        H.append([x for n in order[i:i + 6] for x in (n, n)])
    # all templates of one callable, in both orders (a stale default / global shows up between its own calls)
    fam = {}
    for n in names:
        fam.setdefault(ts[n]['entries'][-1], []).append(n)
    for e, ns in sorted(fam.items()):
        if len(ns) >= 2:
            rng.shuffle(ns)
            ns = ns[:6]
            H.append(ns + ns[::-1])
    # random histories of length 2..12 with repetitions and raising calls
    for _ in range(24 if ctx.quick else 2000):
        h = []
        for _ in range(rng.randint(2, 12)):
            r = rng.random()
            if h and r < 0.25:
                h.append(rng.choice(h))
            elif r < 0.40:
                h.append(rng.choice(raising))
            elif r < 0.85:
                h.append(rng.choice(base))
            else:
                h.append(rng.choice(shared))
        H.append(h)
    H = [[[n, seeds.get(n)] for n in h] for h in H]
    # after a call that RAISED (round 3): every raising template - most of them raise late, from inside an optimiser, a
    # callback, a library routine, a half-drawn figure - is followed by the boundary templates (results nan / inf / empty:
    # 0/0, x/0, log 0), in a fresh random order each time, so that whatever the interrupted call did not put back
    # (NumPy's error mode, a filter, an option, a module-level block) meets the calls that are sensitive to it.  The
    # thorough tier additionally has every ordered pair adjacent (all ordered pairs of base templates below).
    boundary = [n for n in names if ts[n].get('boundary')]
    after_raise = []
    if boundary and raising:
        order = raising[:]
        rng.shuffle(order)
        ngrp = 8
        for g in range(ngrp):
            h = []
            for r in order[g::ngrp]:
                b = boundary[:]
                rng.shuffle(b)
                if ctx.quick and ts[r].get('audit'):
                    b = b[:12]                       # quick tier: a sample of the boundary templates after an audit template
                h += [r] + b
            if h:
                after_raise.append([[n, seeds.get(n)] for n in h])
    H += after_raise
    ctx.extra['after_raise'] = dict(raising_templates=len(raising), boundary_templates=len(boundary), sessions=len(after_raise),
                                    calls=sum(len(h) for h in after_raise))
    # histories are concatenated into sessions, one fresh interpreter each (a session is itself a history)
    nsess = 20 if ctx.quick else max(20, sum(len(h) for h in H) // 120)
    S = [[] for _ in range(nsess)]
    for i, h in enumerate(H[:len(H) - len(after_raise)]):
        S[i % nsess] += h
    S = [x for x in S if x] + after_raise
    # ---- audit probes: every audit template is followed at once by a PLAIN template of a callable it uses (same entry in
    # the effect table, ordinary arguments): whatever the unusual option / container / size / live object left behind - a
    # remembered option, a default, a module-level block - meets the call that is sensitive to it
    plain = {}
    for n in names:
        if not ts[n].get('audit') and not n.endswith('_raises'):
            for e in ts[n]['entries']:
                plain.setdefault(e, []).append(n)
    aud = [n for n in names if ts[n].get('audit') and not n.startswith('au_ref_')]
    rng.shuffle(aud)
    nprobe = 6 if ctx.quick else 12
    pairs = 0
    for g in range(nprobe):
        h = []
        for a in aud[g::nprobe]:
            cands = sorted({p for e in ts[a]['entries'] for p in plain.get(e, [])})
            h.append(a)
            if cands:
                h.append(rng.choice(cands))
                pairs += 1
        if h:
            H.append([[n, seeds.get(n)] for n in h])
            S.append(H[-1])
    ctx.extra['audit_probes'] = dict(audit_templates=len(aud), followed_by_a_plain_call_of_the_same_callable=pairs, sessions=nprobe)
    # ---- shared-data sessions: the same sequences / tables, other arguments
    #  (a) whole-family orders: a random permutation of the family and its reverse put every ordered pair of shared
    #      templates into one interpreter, earlier -> later (state that PERSISTS, e.g. a memo keyed by sequence);
    #  (b) grid walks: consecutive calls differ in exactly one coordinate (state of the LAST call reused by the next:
    #      same data with another radius / another reference / seqs2 given or not / another entry point).
    nb = grid_neighbours(ts, shared)
    nperm, nwalk, wlen = (2, 6, 180) if ctx.quick else (24, 120, 240)
    for _ in range(nperm):
        perm = shared[:]
        rng.shuffle(perm)
        for h in (perm, perm[::-1]):
            H.append([[n, seeds.get(n)] for n in h])
            S.append(H[-1])
    todo = {(a, b) for a in shared for b in nb[a]}
    for _ in range(nwalk):
        cur = rng.choice(shared)
        h = [cur]
        while len(h) < wlen:
            fresh_steps = [b for b in nb[cur] if (cur, b) in todo]
            nxt = rng.choice(fresh_steps or nb[cur] or shared)          # prefer an adjacency not executed yet
            todo.discard((cur, nxt))
            h.append(nxt)
            cur = nxt
        H.append([[n, seeds.get(n)] for n in h])
        S.append(H[-1])
    ctx.extra['shared_data'] = dict(templates=len(shared), grid_adjacencies=sum(len(v) for v in nb.values()),
                                    adjacencies_not_walked=len(todo), family_orders=2 * nperm, walks=nwalk)
    if not ctx.quick:
        # exhaustive small domain: every ordered pair of the regular base templates executed back to back (a,b and b,a), one
        # session per a; and every (raising template, boundary template) pair in both orders, one session per raising template
        # (the late-raising and boundary templates of round 3 among themselves would double the cost for pairs of cheap calls)
        late = set(t['name'] for t in edge_templates())
        regular = [n for n in base if n not in late and not ts[n].get('audit')]
        for a in regular:
            S.append([[n, seeds.get(n)] for b in regular for n in (a, b)])
        audit = [n for n in base if ts[n].get('audit')]
        for a in audit:                                  # every audit template next to 24 sampled base templates, both orders
            S.append([[n, seeds.get(n)] for b in rng.sample(regular + audit, 24) for n in (a, b, a)])
        for r in raising:
            S.append([[n, seeds.get(n)] for b in boundary for n in (r, b)])
        ctx.exhaustive = True
        ctx.note('thorough tier: all %d ordered pairs of the %d regular base call templates and all %d (raising, boundary) pairs in both '
                 'orders were executed adjacently; the %d shared-data templates in %d whole-family orders and %d grid walks (%d of %d '
                 'one-coordinate adjacencies not executed)'
                 % (len(regular) ** 2, len(regular), len(raising) * len(boundary), len(shared), 2 * nperm, nwalk, len(todo),
                    sum(len(v) for v in nb.values())))
    return H, S


def cross_validate(ctx, names, seeds, fresh):
    """The single-call references come from children of a fork server.  A sample of them (all, in the thorough tier) is
    recomputed in real fresh interpreters; any difference switches the whole run back to real fresh interpreters."""
    pick = list(names) if not ctx.quick else ctx.rng.sample(list(names), min(len(names), NPROC - 2))
    recs = spawn_many([[[n, seeds.get(n)]] for n in pick])
    bad = [n for n, r in zip(pick, recs)
           if any(r[0][k] != fresh[n][k] for k in ('result', 'arg_changes', 'world_changes'))]
    ctx.extra['fork_reference_cross_validated'] = dict(templates=len(pick), different=bad)
    if bad:
        ctx.note('fork-server references differ from fresh interpreters for %s: all references recomputed in fresh interpreters' % bad)
        rest = [n for n in names if n not in pick]
        for n, r in zip(pick, recs):
            fresh[n] = r[0]
        for n, r in zip(rest, spawn_many([[[n, seeds.get(n)]] for n in rest])):
            fresh[n] = r[0]


def run(ctx):
    import pyrepseq  # noqa: F401  (the tree under PV_REPO / /repo)
    sys.path.insert(0, os.path.join(ROOT, 'standin'))
    ctx.rule = ('a case is one executed call template: alone in a fresh interpreter, or at some position of a history run in '
                'another fresh interpreter, bracketed by snapshots of its arguments, of all default objects, module/class '
                'data and the NumPy generator; non-trivial := executed after at least one other call, keyed by '
                '(template, the calls before it)')
    AMBIENT_REPORTED.clear()
    tab = table_rows(ctx)
    pure, offenders, conflicts = ctx.oracle.run([('api_c20_table_pure', [True]), ('api_c20_offenders', [True]),
                                                 ('api_c20_conflicts', [True])])
    ctx.add_vm('api_c20_table_pure', [True], pure)
    ctx.add_vm('api_c20_offenders', [True], offenders)
    ts = templates()
    ctx.extra['templates'] = len(ts)
    ctx.extra['table_entries'] = dict(total=len(tab), public=sum(1 for v in tab.values() if v['public']),
                                      randomised=sorted(k for k, v in tab.items() if v['rng'] and v['public']))
    notes = {}
    p = os.path.join(ROOT, 'build', 'c20_effects.json')
    if os.path.exists(p):
        notes = json.load(open(p))

    # ---- (2a) the generated table against the modules as imported
    live = introspect_public()
    for q, (params, withdef) in sorted(live.items()):
        e = tab.get(q)
        if e is None:
            ctx.violation('correspondence', 'callable %s exists in the imported package but has no effect summary' % q,
                          dict(callable=q), site=q + '[table]')
        elif e['params'] != params or not set(e['defaults']) <= set(withdef):
            ctx.violation('correspondence', 'effect summary of %s lists parameters %s / defaults %s, the live signature has %s / %s'
                          % (q, e['params'], e['defaults'], params, withdef), dict(callable=q), site=q + '[table]')
    covered = {e for t in ts.values() for e in t['entries']}
    unc = sorted(q for q, e in tab.items() if e['public'] and q in live and q not in covered
                 and not q.endswith('.__init__') and '.Metric.' not in q and '.TcrMetric.' not in q)
    ctx.extra['public_entries_without_template'] = unc
    for t in ts.values():
        for e in t['entries']:
            if e not in tab:
                ctx.note('template %s refers to %s, which is no longer in the table' % (t['name'], e))

    # ---- the obligation of C20_pure_table, itemised (the driver reports the failed proof itself)
    if not pure:
        for q in offenders:
            e = tab[q]
            ctx.violation('proof', 'C20_pure_table fails: %s mutates parameters %s (default objects %s), module objects / '
                          'unclassified %s. %s' % (q, e['mut_params'], e['mut_defaults'], e['other'], ' | '.join(notes.get(q, {}).get('notes', []))[:600]),
                          dict(theorem='C20_pure_table', entry=q, mut_params=e['mut_params'], mut_defaults=e['mut_defaults'], other=e['other']),
                          site=q + '[table]')
        for g in sorted(set(conflicts)):
            who = sorted(q for q, e in tab.items() if e['public'] and g in e['rbw'])
            ctx.violation('proof', 'C20_pure_table fails: module global %s is read before being written by %s and written by another call'
                          % (g, who), dict(theorem='C20_pure_table', global_name=g, readers=who), site=g + '[global]')

    # ---- (2b) every template alone in a fresh interpreter
    names = sorted(ts)
    seeds = {n: ctx.rng.randrange(2 ** 31) for n in names if ts[n]['random']}
    t0 = time.time()
    fresh_recs = fresh_many([[[n, seeds.get(n)]] for n in names])
    fresh = {n: recs[0] for n, recs in zip(names, fresh_recs)}
    cross_validate(ctx, names, seeds, fresh)
    for n in names:
        rec = fresh[n]
        ctx.case(sample=dict(template=n, entries=ts[n]['entries'], alone=True, result=json.dumps(rec['result'])[:160]) if len(ctx.samples) < 3 else None)
        ctx.count('fresh:' + ('raises' if rec['result'][0] == 'exc' else 'returns'))
        if rec['result'][0] == 'exc' and not n.endswith('_raises'):
            ctx.note('template %s raises %s: %s' % (n, rec['result'][1], rec['result'][2]))
        judge_effects(ctx, tab, ts, rec, [[n, seeds.get(n)]], 0)
        rngs = [tab[e]['rng'] for e in ts[n]['entries'] if e in tab]
        if ts[n]['random'] and rngs and not any(rngs):
            ctx.note('template %s is seeded but its summary says it does not draw random numbers' % n)
    ctx.extra['fresh_wall_s'] = round(time.time() - t0, 1)
    judge_live(ctx, ts, fresh, seeds)
    for n in names:
        if ts[n].get('audit'):
            ctx.count('audit_family:' + audit_family(n))

    # ---- histories
    H0, H = make_histories(ctx, ts, seeds)
    t0 = time.time()
    H.sort(key=len, reverse=True)           # longest sessions first: the pool of interpreters stays busy to the end
    out = spawn_many(H)
    ctx.extra['histories'] = dict(generated=len(H0), lengths='2..12; shared-data family orders and grid walks %d..%d' % (
        min([len(h) for h in H0 if len(h) > 12] or [0]), max(len(h) for h in H0)), sessions=len(H), calls=sum(len(h) for h in H))
    for h in H0:
        ctx.count('history_len=%d' % len(h))
    ctx.extra['history_wall_s'] = round(time.time() - t0, 1)
    failing = []
    for h, recs in zip(H, out):
        for pos, rec in enumerate(recs):
            n = rec['template']
            before = tuple(x[0] for x in h[max(0, pos - 11):pos])
            ctx.case(sample=dict(template=n, after=list(before)[-4:], result=json.dumps(rec['result'])[:120]) if pos >= 2 and len(ctx.samples) < 6 else None,
                     nontrivial_key=(n, before) if pos > 0 else None)
            ctx.count('in_history:' + ('raises' if rec['result'][0] == 'exc' else 'returns'))
            if pos > 0 and any(r['result'][0] == 'exc' for r in recs[:pos]):
                ctx.count('after_a_raising_call')
            if ts[n]['random']:
                ctx.count('seeded_random_call')
            judge_effects(ctx, tab, ts, rec, h, pos)
            if rec['result'] != fresh[n]['result']:
                failing.append((h, pos, rec))
    seen = set()
    failing.sort(key=lambda x: x[1])                  # short prefixes first
    for h, pos, rec in failing:
        n = rec['template']
        if ts[n]['entries'][-1] in seen:              # one shrunk report per callable
            continue
        seen.add(ts[n]['entries'][-1])
        small, srec = shrink(h, pos, fresh)
        if srec is None:        # still a failure of the property: the result is not a function of the call
            ctx.note('template %s differed at position %d of a session but not when the same prefix was replayed in another '
                     'fresh interpreter: the difference below is the one observed in the session' % (n, pos))
            srec = rec
        kind = 'randomised (same NumPy seed)' if ts[n]['random'] else 'deterministic'
        ctx.violation('property', '%s call template %s (%s) returns something else after the history %s than alone in a fresh '
                      'interpreter: %s' % (kind, n, ts[n]['entries'][-1], [x[0] for x in small[:-1]],
                                           first_difference(srec['result'], fresh[n]['result'])),
                      dict(history=small, position=len(small) - 1, kind='result'), site='%s[history%s]' % (ts[n]['entries'][-1], ts[n].get('site_tag', '')))
        if len(ctx.violations) > 12 or len(seen) >= 6:
            break
    if failing:
        ctx.extra['calls_differing_from_fresh_reference'] = dict(
            calls=len(failing), templates=sorted({r['template'] for _, _, r in failing})[:60])
    if os.environ.get('C20_DUMP'):          # debugging aid: all violations of this run as JSON
        with open(os.environ['C20_DUMP'], 'w') as fh:
            json.dump(ctx.violations, fh, indent=1, default=str)
    ctx.assumptions += [
        'the effect analysis is a conservative SYNTACTIC summary: library functions outside its lists neither mutate nor return their '
        'arguments, callables buried in containers are not followed, lazily evaluated results are evaluated before the call returns; '
        'validated dynamically by snapshots around %d call templates' % len(ts),
        'effects inside third-party code (pyplot figure registry - figures are closed after every call -, pandas caches, igraph, '
        'tidytcells) are outside the model and observed only through canonicalised results',
        'pwseqdist is absent: nearest_neighbor_tcrdist runs against the vendored stand-in; mafft-linsi is absent: align_seqs is a raising call',
    ]


def first_difference(a, b, path=''):
    if type(a) != type(b) or not isinstance(a, list):
        return '%s: %s / alone: %s' % (path or 'result', json.dumps(a)[:120], json.dumps(b)[:120]) if a != b else ''
    if len(a) != len(b):
        return '%s: length %d / alone: %d (%s / %s)' % (path or 'result', len(a), len(b), json.dumps(a)[:100], json.dumps(b)[:100])
    for i, (x, y) in enumerate(zip(a, b)):
        if x != y:
            return first_difference(x, y, '%s[%d]' % (path, i))
    return ''


def shrink(h, pos, fresh):
    """Smallest history that still shows the difference: one predecessor, else two, else the prefix.  Candidates run in
    pristine forked processes; what is reported has been confirmed in a real fresh interpreter."""
    target = h[pos]
    ref = fresh[target[0]]['result']
    preds = []
    for x in reversed(h[:pos]):
        if x not in preds:
            preds.append(x)
    cands = [[x, target] for x in preds[:400]]
    cands += [[x, y, target] for i, x in enumerate(preds[:12]) for y in preds[:12] if x != y]
    hits = [c for c, recs in zip(cands, fresh_many(cands)) if recs[-1]['result'] != ref]
    for c in hits[:3] + [h[:pos + 1]]:
        recs = spawn(c)
        if recs[-1]['result'] != ref:
            return c, recs[-1]
    return h[:pos + 1], None


def replay(ctx, obj):
    rp = obj.get('replay') or {}
    h = rp.get('history')
    if not h:
        return run(ctx)
    tab = table_rows(ctx)
    ts = templates()
    if rp.get('kind') == 'live' and rp.get('same_as') in ts:
        fresh = {n: spawn([[n, h[0][1]]])[0] for n in (h[0][0], rp['same_as'])}
        ctx.case(sample=dict(history=h), nontrivial_key=('replay', json.dumps(h)))
        judge_live(ctx, {h[0][0]: ts[h[0][0]]}, fresh, {h[0][0]: h[0][1]})
        return
    recs = spawn([list(x) for x in h])
    pos = len(recs) - 1
    rec = recs[pos]
    alone = spawn([list(h[pos])])[0]
    ctx.case(sample=dict(history=h), nontrivial_key=('replay', json.dumps(h)))
    judge_effects(ctx, tab, ts, rec, h, pos)
    if rec['result'] != alone['result']:
        ctx.violation('property', 'replayed history %s: %s differs from the same call alone: %s' %
                      ([x[0] for x in h], rec['template'], first_difference(rec['result'], alone['result'])),
                      dict(history=h, position=pos, kind='result'), site='%s[history%s]' % (ts[rec['template']]['entries'][-1], ts[rec['template']].get('site_tag', '')))


if __name__ == '__main__' and len(sys.argv) > 1 and sys.argv[1] == 'worker':
    worker_main()
