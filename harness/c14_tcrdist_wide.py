"""C14, TCRdist part, widened input space (coverage audit): arguments left at their defaults / by position, kinds of tables (index
labels, extra columns, column order, one-chain tables, string dtype), partial tcrdist_kwargs and the caller's dict afterwards, neutral
**kwargs handed on to the search, radii on and next to attained TCRdist values (int and float), sizes (1, 2, all rows equal, > 255
rows), max_edits = 3, several calls on one table.
Expected values: the model (oracle) for small tables; for large tables an independent computation of the specification, which is
also compared with the model on small tables."""
import os
import numpy as np
import pandas as pd
from core import call_impl
from gens import mutate, AA
from rapidfuzz.distance import Levenshtein as RL

DEFAULTS = dict(ntrim=3, ctrim=2, dist_weight=3, gap_penalty=12)
CHAINCODE = dict(alpha=0, beta=1, both=2)


def pure_lev(a, b):
    prev = list(range(len(b) + 1))
    for i, x in enumerate(a, 1):
        cur = [i]
        for j, y in enumerate(b, 1):
            cur.append(min(prev[j] + 1, cur[j - 1] + 1, prev[j - 1] + (x != y)))
        prev = cur
    return prev[-1]


def trim(s, ntrim, ctrim):
    return s[ntrim:len(s) - ctrim] if len(s) - ctrim > ntrim else ''


def cdr3_dist(a, b, f):
    ta, tb = trim(a, f['ntrim'], f['ctrim']), trim(b, f['ntrim'], f['ctrim'])
    m = min(len(ta), len(tb))
    return f['dist_weight'] * sum(1 for x, y in zip(ta[:m], tb[:m]) if x != y) + f['gap_penalty'] * abs(len(ta) - len(tb))


def spec(rows, chain, k, trimmed, maxt, f, tables, fast=False):
    """The statement, computed pair by pair: (trimmed) CDR3 edit distance of the search chain <= k and
    sum over the requested chains of (V table entry + CDR3 distance) <= maxt."""
    col = 1 if chain == 'alpha' else 3
    ss = [trim(r[col], f['ntrim'], f['ctrim']) if trimmed else r[col] for r in rows]
    out = []
    for i in range(len(rows)):
        for j in range(len(rows)):
            if i == j or abs(len(ss[i]) - len(ss[j])) > k:
                continue
            if (RL.distance(ss[i], ss[j], score_cutoff=k) if fast else pure_lev(ss[i], ss[j])) > k:
                continue
            d = 0
            if chain in ('alpha', 'both'):
                d += int(tables['alpha'].at[rows[i][0], rows[j][0]]) + cdr3_dist(rows[i][1], rows[j][1], f)
            if chain in ('beta', 'both'):
                d += int(tables['beta'].at[rows[i][2], rows[j][2]]) + cdr3_dist(rows[i][3], rows[j][3], f)
            if d <= maxt:
                out.append((i, j, d))
    return sorted(out)


def gen_rows(rng, la, lb, n, nroots=3, whole_tables=False):
    roots = ['CASS' + ''.join(rng.choice(AA) for _ in range(rng.randint(3, 8))) + 'EQYF' for _ in range(nroots)]
    pa, pb = (la, lb) if whole_tables else (la[:12], lb[:12])
    rows = []
    for _ in range(n):
        rows.append((rng.choice(pa), mutate(rng, rng.choice(roots), AA, rng.randint(0, 2)),
                     rng.choice(pb), mutate(rng, rng.choice(roots), AA, rng.randint(0, 2))))
    return rows


def designed_rows(rng, la, lb, tables, n, f=DEFAULTS):
    """A clonotype and relatives placed ON the corners the options decide: 1 / 2 / 3 substitutions in the part of the CDR3 that
    survives trimming, changes in the trimmed-off ends only, one insertion / deletion, V alleles at a table distance that
    brings the sum next to 20 (the default max_tcrdist) - in the alpha chain, the beta chain or both."""
    nt, ct = f['ntrim'], f['ctrim']

    def cdr3(head):
        return head + ''.join(rng.choice(AA) for _ in range(max(nt - len(head), 0))) + ''.join(rng.choice(AA) for _ in range(rng.randint(5, 8))) + \
            ''.join(rng.choice('FWYL') for _ in range(ct))

    def other(c):
        return rng.choice([x for x in AA if x != c])

    def edit(s, op):
        s = list(s)
        lo, hi = nt, len(s) - ct                       # the part kept by trimming
        if op.startswith('sub'):
            for p_ in rng.sample(range(lo, hi), min(int(op[3:]), hi - lo)):
                s[p_] = other(s[p_])
        elif op == 'ends':
            ends = list(range(0, min(nt, len(s)))) + list(range(max(hi, 0), len(s)))
            for p_ in rng.sample(ends, min(rng.randint(1, 3), len(ends))):
                s[p_] = other(s[p_])
        elif op == 'ins':
            s.insert(rng.randint(lo, hi), rng.choice(AA))
        elif op == 'del' and hi - lo > 1:
            del s[rng.randrange(lo, hi)]
        return ''.join(s)

    def vnear(chain, v, target):
        row = tables[chain].loc[v]
        labels = la if chain == 'alpha' else lb
        cands = [x for x in labels if x in row.index]
        best = min(abs(int(row[x]) - target) for x in cands)
        return rng.choice([x for x in cands if abs(int(row[x]) - target) == best])

    root = (rng.choice(la), cdr3('CA'), rng.choice(lb), cdr3('CAS'))
    rows = [root]
    ops = ['sub1', 'sub2', 'sub2', 'sub3', 'ends', 'ends', 'ins', 'del']
    while len(rows) < n:
        va, ca, vb, cb = rng.choice(rows[:3])
        which = rng.choice(['alpha', 'beta', 'beta', 'both'])
        form = rng.choice(['cdr3', 'cdr3', 'v', 'v+cdr3', 'copy'])
        if form in ('cdr3', 'v+cdr3'):
            if which in ('alpha', 'both'):
                ca = edit(ca, rng.choice(ops))
            if which in ('beta', 'both'):
                cb = edit(cb, rng.choice(ops))
        if form in ('v', 'v+cdr3'):
            target = rng.choice([8, 11, 14, 17, 18, 19, 20, 21, 22, 23, 26])
            if which in ('alpha', 'both'):
                va = vnear('alpha', va, target if which == 'alpha' else target // 2)
            if which in ('beta', 'both'):
                vb = vnear('beta', vb, target if which == 'beta' else target - target // 2)
        rows.append((va, ca, vb, cb))
    rng.shuffle(rows)
    return rows


def frames(rng, rows, chain):
    """name -> DataFrame holding `rows` in this row order."""
    n = len(rows)
    cols = ['TRAV', 'CDR3A', 'TRBV', 'CDR3B']
    perm = list(range(n))
    rng.shuffle(perm)

    def base(index=None):
        return pd.DataFrame(list(rows), columns=cols, index=index)

    def extra():
        df = base(index=perm)
        df.insert(0, 'clone', ['c%d' % i for i in range(n)])
        df.insert(3, 'count', list(range(n, 0, -1)))
        df['CDR3'] = 'CAF'
        df['TRBJ'] = 'TRBJ2-7*01'
        order = list(df.columns)
        rng.shuffle(order)
        return df[order]

    def one_chain():
        return base(index=np.arange(n) + 3)[['TRAV', 'CDR3A'] if chain == 'alpha' else ['CDR3B', 'TRBV']]

    out = {
        'range_index': lambda: base(),
        'permuted_int_index': lambda: base(index=perm),
        'string_index': lambda: base(index=['tcr%d' % i for i in range(n)]),
        'repeated_labels': lambda: base(index=[i // 2 for i in range(n)]),
        'negative_index': lambda: base(index=[-(i + 1) for i in range(n)]),
        'extra_columns_shuffled': extra,
        'string_dtype': lambda: base(index=np.arange(n) + 7).astype('string'),
    }
    if chain != 'both':
        out['one_chain_columns_only'] = one_chain
    return out


def run(ctx, la, lb):
    import pyrepseq
    import pyrepseq.nn as nn
    rng, q = ctx.rng, ctx.quick
    tables = {}
    for c in ('alpha', 'beta'):
        tables[c] = pd.read_csv(os.path.join(os.path.dirname(pyrepseq.__file__), 'data', 'vdists_%s.csv' % c), index_col=0)
    plain_rows = gen_rows

    def mixed_rows(rng_, la_, lb_, n, nroots=3, whole_tables=False, f=DEFAULTS):
        """two tables in three are designed around the corners the options decide, the third is a random one as before"""
        if rng_.random() < 0.67 and n >= 2:
            ctx.count('tcrdist_wide_designed_table')
            return designed_rows(rng_, la_, lb_, tables, n, f)
        return plain_rows(rng_, la_, lb_, n, nroots=nroots, whole_tables=whole_tables)
    jobs = []          # dict(family, rows, chain, k, trimmed, maxt, full, call=(df -> result), frame=name, desc, use_spec)

    def add(family, rows, chain, k, trimmed, maxt, full, call, frame='shifted_index', desc='', use_spec=False, check_model=False):
        # the model's deletion-variant search is slow at max_edits = 3 (tens of seconds for a dozen rows): the specification is computed independently there
        jobs.append(dict(family=family, rows=list(rows), chain=chain, k=k, trimmed=trimmed, maxt=maxt, full=dict(full), call=call, frame=frame,
                         desc=desc, use_spec=use_spec or k >= 3, check_model=check_model and k < 3))

    def radius():
        return rng.choice([0, 6, 12, 20, 40, 90, 140, 500])

    # ---- (a) arguments left at their defaults (chain='beta', max_edits=2, edit_on_trimmed=True, max_tcrdist=20, tcrdist_kwargs={}) / by position
    for t in range(12 if q else 160):
        rows = mixed_rows(rng, la, lb, rng.randint(2, 9 if q else 12), whole_tables=t % 3 == 0)
        given = dict(chain=rng.choice(['alpha', 'beta', 'both']), max_edits=rng.choice([1, 2, 3]), edit_on_trimmed=rng.random() < 0.5,
                     max_tcrdist=radius())
        kw = dict(ntrim=rng.choice([2, 3, 4]), ctrim=rng.choice([1, 2, 3])) if rng.random() < 0.3 else None
        if t % 7 == 6:
            eff = dict(given)
            f = dict(DEFAULTS)
            if kw is not None:
                f.update(kw)
                call = lambda df, g=given, kw=kw: nn.nearest_neighbor_tcrdist(df, g['chain'], g['max_edits'], g['edit_on_trimmed'], g['max_tcrdist'], dict(kw))
            else:
                call = lambda df, g=given: nn.nearest_neighbor_tcrdist(df, g['chain'], g['max_edits'], g['edit_on_trimmed'], g['max_tcrdist'])
            desc = 'positional %s %s' % (given, kw)
        else:
            left = set(rng.sample(sorted(given), rng.randint(1, 4))) if t % 7 else set(given)
            passed = {a: v for a, v in given.items() if a not in left}
            eff = dict(chain='beta', max_edits=2, edit_on_trimmed=True, max_tcrdist=20)
            eff.update(passed)
            f = dict(DEFAULTS)
            if kw is not None and t % 2:
                f.update(kw)
                passed['tcrdist_kwargs'] = dict(kw)
            call = lambda df, p=passed: nn.nearest_neighbor_tcrdist(df, **{a: (dict(v) if isinstance(v, dict) else v) for a, v in p.items()})
            desc = 'only %s given' % (passed,)
        add('defaults', rows, eff['chain'], eff['max_edits'], eff['edit_on_trimmed'], eff['max_tcrdist'], f, call, desc=desc)

    # ---- (b) kinds of tables
    for t in range(16 if q else 200):
        rows = mixed_rows(rng, la, lb, rng.randint(2, 9 if q else 12), whole_tables=t % 3 == 0)
        chain, k, trimmed, maxt = rng.choice(['alpha', 'beta', 'both']), rng.choice([1, 2]), rng.random() < 0.6, radius()
        names = sorted(frames(rng, rows, chain))
        name = names[t % len(names)]
        add('table_kind_' + name, rows, chain, k, trimmed, maxt, DEFAULTS,
            lambda df, c=chain, k=k, tr=trimmed, mt=maxt: nn.nearest_neighbor_tcrdist(df, chain=c, max_edits=k, edit_on_trimmed=tr, max_tcrdist=mt),
            frame=name, desc='table %s' % name)

    # ---- (c) tcrdist_kwargs: any subset of the four parameters, ntrim = 0, large weights
    for t in range(10 if q else 160):
        rows = mixed_rows(rng, la, lb, rng.randint(2, 9 if q else 12))
        chain, k, trimmed = rng.choice(['alpha', 'beta', 'both']), rng.choice([1, 2]), rng.random() < 0.6
        pool = dict(ntrim=rng.choice([0, 1, 2, 4, 5]), ctrim=rng.choice([1, 3, 4]), dist_weight=rng.choice([1, 2, 5, 7, 1000, 70000]),
                    gap_penalty=rng.choice([0, 1, 4, 9, 40000, 3 * 10 ** 9]))
        kw = {a: pool[a] for a in rng.sample(sorted(pool), rng.randint(1, 3))}
        f = dict(DEFAULTS)
        f.update(kw)
        big = max(f['dist_weight'], f['gap_penalty'])
        maxt = rng.choice([0, 12, 20, 40, 90, 500] + ([big, 2 * big + 50, 10 ** 12] if big > 100 else []))
        add('partial_tcrdist_kwargs', rows, chain, k, trimmed, maxt, f,
            lambda df, c=chain, k=k, tr=trimmed, mt=maxt, kw=kw: nn.nearest_neighbor_tcrdist(df, chain=c, max_edits=k, edit_on_trimmed=tr, max_tcrdist=mt, tcrdist_kwargs=dict(kw)),
            desc='tcrdist_kwargs=%s' % kw, check_model=t % 4 == 0 and big <= 5000, use_spec=big > 5000)

    # ---- (d) **kwargs handed on to the candidate search that do not change what it finds
    for t in range(6 if q else 80):
        rows = mixed_rows(rng, la, lb, rng.randint(2, 9 if q else 12))
        chain, k, trimmed, maxt = rng.choice(['alpha', 'beta', 'both']), rng.choice([1, 2]), rng.random() < 0.6, radius()
        pool = dict(n_cpu=rng.choice([1, 2, 5]), max_returns=None, output_type='triplets', custom_distance=None, max_custom_distance=rng.choice([0, 1, 5.5]))
        extra = {a: pool[a] for a in rng.sample(sorted(pool), rng.randint(1, 4))}
        add('search_kwargs', rows, chain, k, trimmed, maxt, DEFAULTS,
            lambda df, c=chain, k=k, tr=trimmed, mt=maxt, extra=extra: nn.nearest_neighbor_tcrdist(df, chain=c, max_edits=k, edit_on_trimmed=tr, max_tcrdist=mt, **extra),
            desc='**kwargs=%s' % extra)

    # ---- (f) sizes: one row, two rows, all rows equal, max_edits = 3, many rows (positions above 255; specification computed independently)
    for t in range(10 if q else 100):
        chain, k, trimmed, maxt = rng.choice(['alpha', 'beta', 'both']), rng.choice([1, 2, 3]), rng.random() < 0.6, radius()
        form = ['one_row', 'two_rows', 'all_rows_equal', 'max_edits_3', 'two_rows'][t % 5]
        if form == 'one_row':
            rows = gen_rows(rng, la, lb, 1)
        elif form == 'two_rows':
            rows = mixed_rows(rng, la, lb, 2, nroots=1)
        elif form == 'all_rows_equal':
            rows = gen_rows(rng, la, lb, 1) * rng.randint(2, 7)
        else:
            rows, k = mixed_rows(rng, la, lb, rng.randint(4, 12), nroots=2), 3
        add('size_' + form, rows, chain, k, trimmed, maxt, DEFAULTS,
            lambda df, c=chain, k=k, tr=trimmed, mt=maxt: nn.nearest_neighbor_tcrdist(df, chain=c, max_edits=k, edit_on_trimmed=tr, max_tcrdist=mt),
            desc=form, check_model=True)
    for t in range(2 if q else 10):
        n = rng.choice([260, 300, 330])
        rows = gen_rows(rng, la, lb, n, nroots=n // 6, whole_tables=True)
        # the pairs of interest sit at high positions
        rows[-1] = rows[-2][:1] + rows[-2][1:]
        chain, k, trimmed, maxt = ['both', 'alpha', 'beta'][t % 3], rng.choice([1, 2]), t % 2 == 0, rng.choice([40, 90, 140, 300])
        add('many_rows', rows, chain, k, trimmed, maxt, DEFAULTS,
            lambda df, c=chain, k=k, tr=trimmed, mt=maxt: nn.nearest_neighbor_tcrdist(df, chain=c, max_edits=k, edit_on_trimmed=tr, max_tcrdist=mt),
            desc='%d rows' % n, use_spec=True)

    # ---- expected values
    def request(j, maxt=None):
        f = j['full']
        mt = j['maxt'] if maxt is None else maxt
        return ('api_tcrdist_nn', [CHAINCODE[j['chain']], j['k'], j['trimmed'], int(np.floor(mt)), f['ntrim'], f['ctrim'], f['dist_weight'], f['gap_penalty'], j['rows']])

    # ---- (e) radii on and next to attained TCRdist values, as int and as float
    pre = []
    for t in range(8 if q else 120):
        rows = mixed_rows(rng, la, lb, rng.randint(3, 8 if q else 12), nroots=2, whole_tables=t % 2 == 0)
        pre.append(dict(rows=rows, chain=rng.choice(['alpha', 'beta', 'both']), k=rng.choice([1, 2]), trimmed=rng.random() < 0.6, maxt=10 ** 9, full=dict(DEFAULTS)))
    for j, allp in zip(pre, ctx.oracle.run_parallel([request(j) for j in pre])):
        att = sorted({int(d) for _, _, d in allp})
        if not att:
            att = [20]
        d = rng.choice(att)
        maxt = rng.choice([d, d - 1, d + 1, float(d), d - 0.5, d + 0.5, d - 1e-9, np.int64(d), np.float64(d)])
        add('radius_at_attained_value', j['rows'], j['chain'], j['k'], j['trimmed'], maxt, DEFAULTS,
            lambda df, c=j['chain'], k=j['k'], tr=j['trimmed'], mt=maxt: nn.nearest_neighbor_tcrdist(df, chain=c, max_edits=k, edit_on_trimmed=tr, max_tcrdist=mt),
            desc='max_tcrdist=%r (%s), attained %s' % (maxt, type(maxt).__name__, att[:8]))

    model_jobs = [j for j in jobs if not j['use_spec']]
    for j, e in zip(model_jobs, ctx.oracle.run_parallel([request(j) for j in model_jobs])):
        if isinstance(e, Exception):
            raise e
        j['expected'] = sorted((int(a), int(b), int(d)) for a, b, d in e)
    for j in jobs:
        if j['use_spec'] or j['check_model']:
            s = spec(j['rows'], j['chain'], j['k'], j['trimmed'], j['maxt'], j['full'], tables, fast=len(j['rows']) > 40)
            if j['use_spec']:
                j['expected'] = s
            elif s != j['expected']:
                ctx.violation('correspondence', 'harness: independent specification and model disagree on %s: %s vs %s' % (j['desc'], s[:6], j['expected'][:6]),
                              dict(rows=j['rows'], chain=j['chain']), site='harness.c14_tcrdist_wide.spec_vs_model')
            else:
                ctx.count('tcrdist_wide_spec_vs_model_agree')

    bad = {}
    for j in jobs:
        rows, chain = j['rows'], j['chain']
        fr = frames(rng, rows, chain)
        df = fr[j['frame']]() if j['frame'] in fr else pd.DataFrame(rows, columns=['TRAV', 'CDR3A', 'TRBV', 'CDR3B'], index=np.arange(len(rows)) + 7)
        before = df.copy()
        g = call_impl(lambda: j['call'](df))
        expected = j['expected']
        ctx.count('tcrdist_wide_' + j['family'])
        ctx.case(nontrivial_key=('tcrdist-wide', j['family'], j['desc'], tuple(rows[:20])) if expected else None)
        got = None
        if g[0] == 'ok':
            try:
                a = np.asarray(g[1])
                got = sorted((int(r[0]), int(r[1]), int(r[2])) for r in a.reshape(-1, 3))
                if a.ndim != 2 or a.shape[1] != 3:
                    got = 'array of shape %s' % (a.shape,)
            except Exception as e_:
                got = repr(e_)
        if got != expected:
            bad[j['family']] = bad.get(j['family'], 0) + 1
            if bad[j['family']] <= 2:
                ctx.violation('property', 'nearest_neighbor_tcrdist [%s; %s; effective chain=%s, max_edits=%d, edit_on_trimmed=%s, max_tcrdist=%r, tcrdist parameters %s; table %s] '
                              'returned %s, expected %s' % (j['family'], j['desc'], chain, j['k'], j['trimmed'], j['maxt'], j['full'], j['frame'],
                                                           g if got is None else (got if isinstance(got, str) else got[:6]), expected[:6]),
                              dict(family=j['family'], call=j['desc'], rows=rows if len(rows) <= 40 else rows[-40:], chain=chain, k=j['k'], edit_on_trimmed=j['trimmed'],
                                   max_tcrdist=repr(j['maxt']), tcrdist_parameters=j['full'], table=j['frame']),
                              site='nn.nearest_neighbor_tcrdist[%s]' % j['family'])
        try:
            same = df.equals(before)
        except Exception:
            same = True
        if not same:
            ctx.violation('property', 'nearest_neighbor_tcrdist modified its input table (%s)' % j['desc'], dict(rows=rows[:40], table=j['frame']),
                          site='nn.nearest_neighbor_tcrdist')
    histories(ctx, nn, la, lb, request, mixed_rows)
    pending_ctrim0(ctx, nn, la, lb, tables)


def histories(ctx, nn, la, lb, request, mixed_rows):
    """Several calls on ONE table / with ONE tcrdist_kwargs dict: every answer is that of its own arguments, and a later call
    without tcrdist_kwargs uses the documented defaults (the dict handed over is the caller's own object, reused as a caller would)."""
    rng, q = ctx.rng, ctx.quick
    for t in range(5 if q else 60):
        rows = mixed_rows(rng, la, lb, rng.randint(3, 8 if q else 12), nroots=2)
        df = pd.DataFrame(rows, columns=['TRAV', 'CDR3A', 'TRBV', 'CDR3B'], index=np.arange(len(rows)) + 7)
        steps = []
        for _ in range(rng.randint(3, 5)):
            kw = None
            if rng.random() < 0.6:
                pool = dict(ntrim=rng.choice([2, 4]), ctrim=rng.choice([1, 3]), dist_weight=rng.choice([1, 5]), gap_penalty=rng.choice([4, 9]))
                kw = {a: pool[a] for a in rng.sample(sorted(pool), rng.randint(1, 4))}
            f = dict(DEFAULTS)
            f.update(kw or {})
            steps.append(dict(rows=rows, chain=rng.choice(['alpha', 'beta', 'both']), k=rng.choice([1, 2]), trimmed=rng.random() < 0.6,
                              maxt=rng.choice([6, 20, 40, 90, 500]), full=f, kw=kw))
        outs = ctx.oracle.run([request(s) for s in steps])
        shared = None
        for n, (s, e) in enumerate(zip(steps, outs)):
            expected = sorted((int(a), int(b), int(d)) for a, b, d in e)
            args = dict(chain=s['chain'], max_edits=s['k'], edit_on_trimmed=s['trimmed'], max_tcrdist=s['maxt'])
            if s['kw'] is not None:
                shared = dict(s['kw'])
                args['tcrdist_kwargs'] = shared
            g = call_impl(lambda: nn.nearest_neighbor_tcrdist(df, **args))
            ctx.count('tcrdist_wide_history_call')
            ctx.case(nontrivial_key=('tcrdist-wide-history', t, n) if expected and n else None)
            got = sorted((int(r[0]), int(r[1]), int(r[2])) for r in np.asarray(g[1]).reshape(-1, 3)) if g[0] == 'ok' else None
            hist = [(x['chain'], x['k'], x['trimmed'], x['maxt'], x['kw']) for x in steps[:n]]
            if got != expected:
                ctx.violation('property', 'nearest_neighbor_tcrdist call %d on one table (chain=%s, max_edits=%d, edit_on_trimmed=%s, max_tcrdist=%s, tcrdist_kwargs=%s) returned %s, '
                              'expected %s; earlier calls (chain, max_edits, edit_on_trimmed, max_tcrdist, tcrdist_kwargs): %s' % (
                                  n, s['chain'], s['k'], s['trimmed'], s['maxt'], 'not given' if s['kw'] is None else s['kw'], g if got is None else got[:6], expected[:6], hist),
                              dict(rows=rows, steps=[dict(chain=x['chain'], k=x['k'], edit_on_trimmed=x['trimmed'], max_tcrdist=x['maxt'], tcrdist_kwargs=x['kw']) for x in steps[:n + 1]]),
                              site='nn.nearest_neighbor_tcrdist[history]')
                break


def pending_ctrim0(ctx, nn, la, lb, tables):
    """ctrim = 0 with edit_on_trimmed=True: nothing is trimmed at the C-terminal end (D22: the search strings were s[ntrim:-0] = '',
    every pair a candidate; repaired in /repo by bf1f6eb)."""
    rng = ctx.rng
    for t in range(6 if ctx.quick else 40):
        rows = gen_rows(rng, la, lb, rng.randint(3, 10), nroots=2)
        chain, k, maxt = rng.choice(['alpha', 'beta', 'both']), rng.choice([1, 2]), rng.choice([40, 90, 500])
        f = dict(DEFAULTS, ctrim=0)
        f['ntrim'] = rng.choice([0, 3])
        df = pd.DataFrame(rows, columns=['TRAV', 'CDR3A', 'TRBV', 'CDR3B'])
        expected = spec(rows, chain, k, True, maxt, f, tables)
        g = call_impl(lambda: nn.nearest_neighbor_tcrdist(df, chain=chain, max_edits=k, max_tcrdist=maxt, tcrdist_kwargs=dict(ntrim=f['ntrim'], ctrim=0)))
        got = sorted((int(r[0]), int(r[1]), int(r[2])) for r in np.asarray(g[1]).reshape(-1, 3)) if g[0] == 'ok' else None
        ctx.count('tcrdist_wide_pending_ctrim0')
        ctx.case(nontrivial_key=('tcrdist-ctrim0', t) if expected else None)
        if got != expected:
            ctx.violation('property', 'nearest_neighbor_tcrdist(chain=%s, max_edits=%d, edit_on_trimmed=True, max_tcrdist=%s, tcrdist_kwargs=dict(ntrim=%d, ctrim=0)) returned %s, '
                          'expected %s: with ctrim=0 the search strings are s[ntrim:-0] = "" for every row, so every pair is a candidate whatever its trimmed edit distance'
                          % (chain, k, maxt, f['ntrim'], g if got is None else got[:8], expected[:8]),
                          dict(rows=rows, chain=chain, k=k, max_tcrdist=maxt, tcrdist_kwargs=dict(ntrim=f['ntrim'], ctrim=0)), site='nn.nearest_neighbor_tcrdist[ctrim=0]')
            break
