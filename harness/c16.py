"""C16 - richness and overlap estimators follow their closed forms."""
import itertools, math
from fractions import Fraction
import numpy as np
import pandas as pd
from core import call_impl, close


def _cmp_val(impl, wire):
    """impl: ('ok', float) / ('exc', cls); wire: (tag, q)."""
    tag, q = wire
    if impl[0] == 'exc':
        return tag == 2
    x = impl[1]
    x = float(x)
    if tag == 1:
        return math.isnan(x)
    if tag == 2:
        return False
    return close(x, q)


def run(ctx):
    import pyrepseq as prs
    rng = ctx.rng
    ctx.rule = ('count vectors: every vector of length 1..L with entries 0..M (list and ndarray), plus random long '
                'vectors; non-trivial := f1 > 0 and the value differs from S_obs; set measures: all pairs of small '
                'collections over a 5-token pool as list/tuple/set/Series with duplicates and missing values, the tokens realised '
                'as numbers, strings, tuples (paired chains) and mixed str/int/float/tuple items (one token = one class under '
                'Python ==/hash); '
                'non-trivial := intersection non-empty and the two element sets differ')
    L, M = (4, 4) if ctx.quick else (5, 6)
    vecs = [list(v) for n in range(1, L + 1) for v in itertools.product(range(M + 1), repeat=n)]
    for _ in range(200 if ctx.quick else 3000):
        n = rng.randint(1, 30)
        vecs.append([rng.choice([0, 0, 1, 2, 3, 7, 50, 1000, rng.randint(0, 10 ** 6)]) for _ in range(n)])
    ctx.exhaustive = True
    reqs = []
    for v in vecs:
        m = 5
        reqs += [('api_gen_chao1', [v]), ('api_gen_var_chao1', [v]), ('api_gen_chao2', [v, m]),
                 ('api_gen_var_chao2', [v, m]), ('api_spec_chao1', [v]), ('api_spec_chao2', [v]),
                 ('api_spec_var_chao', [v])]
    outs = ctx.oracle.run_parallel(reqs)
    for k, v in enumerate(vecs):
        g1, gv1, g2, gv2, s1, s2, sv = outs[7 * k:7 * k + 7]
        ctx.count('len=%d' % min(len(v), 5))
        ctx.count('f2=0' if (len(v) < 2 or v[1] == 0) else 'f2>0')
        for cont in ('list', 'ndarray'):
            arg = list(v) if cont == 'list' else np.array(v)
            for name, f, gen, spec, extra in [
                    ('chao1', prs.chao1, g1, s1, ()), ('var_chao1', prs.var_chao1, gv1, sv, ()),
                    ('chao2', prs.chao2, g2, s2, (5,)), ('var_chao2', prs.var_chao2, gv2, sv, (5,))]:
                impl = call_impl(f, arg, *extra)
                nontriv = (v[0] > 0 and spec[0] == 0 and spec[1] != sum(v))
                ctx.case(sample=dict(func=name, counts=v, container=cont, impl=str(impl), spec=str(spec)) if nontriv else None,
                         nontrivial_key=(name, tuple(v)) if nontriv else None)
                if not _cmp_val(impl, spec):
                    ctx.violation('property', '%s(%s as %s) = %s but the closed form gives %s' %
                                  (name, v, cont, impl, 'NaN' if spec[0] == 1 else spec[1]),
                                  dict(func=name, counts=v, container=cont, impl=str(impl), expected=str(spec)),
                                  site='stats.' + name)
                    break
                if not _cmp_val(impl, gen):
                    ctx.violation('correspondence', 'generated model of %s disagrees with the implementation on %s: %s vs %s'
                                  % (name, v, gen, impl), dict(func=name, counts=v, impl=str(impl), model=str(gen)),
                                  site='stats.' + name)
        if k < 40:
            ctx.add_vm('api_gen_chao1', [v], g1)
            ctx.add_vm('api_spec_var_chao', [v], sv)
        if ctx.nprop() > 8:
            break

    # ---- set measures
    pool = [1, 2, 3, 4, 5]
    # Element kinds.  The model works on tokens; a token stands for one class of Python objects under ==/hash (the
    # elements of the collections are arbitrary hashable items compared by Python equality), so every kind maps a
    # token to the list of its interchangeable Python spellings and different tokens to unequal objects:
    #   num    plain numbers;   str  plain strings;
    #   tuple  paired-chain clonotypes (alpha, beta): all tokens are built from the same few chains, so two element
    #          sets can consist of exactly the same chains and still share no element;
    #   mixed  heterogeneous items: the integer 1 (== 1.0) is not the string '1', nor the tuple ('1',).
    reps = {'num': {t: [t] for t in pool},
            'str': {1: ['a'], 2: ['b'], 3: ['c'], 4: ['d'], 5: ['e']},
            'tuple': {1: [('a', 'b')], 2: [('b', 'a')], 3: [('a', 'a')], 4: [('b', 'b')], 5: [('a', 'c')]},
            'mixed': {1: [1, 1.0], 2: ['1'], 3: [2, 2.0], 4: ['2'], 5: [('1',)]}}
    for kd, table in reps.items():          # self-check of the tokenisation: same token <=> equal and equal hash
        flat = [(t, x) for t, xs in table.items() for x in xs]
        for (t1, x1), (t2, x2) in itertools.product(flat, flat):
            assert (t1 == t2) == (x1 == x2 and hash(x1) == hash(x2)), (kd, x1, x2)
    small = [list(c) for n in range(0, 4) for c in itertools.product([None] + pool[:3], repeat=n)]
    pairs = list(itertools.product(small, small))
    if ctx.quick:
        pairs = rng.sample(pairs, 900)
    for _ in range(100 if ctx.quick else 1500):
        pairs.append(([rng.choice([None] + pool) for _ in range(rng.randint(0, 9))],
                      [rng.choice([None] + pool) for _ in range(rng.randint(0, 9))]))
    reqs = []
    for A, B in pairs:
        reqs += [('api_jaccard', [A, B]), ('api_overlap', [A, B]), ('api_overlap_coefficient', [A, B])]
    outs = ctx.oracle.run_parallel(reqs)

    def realise(tokens, cont, kind, na=None):
        # the missing-value marker of string-like data varies: None, float nan, pd.NA (what .tolist() of a nullable column holds)
        vals = [(np.nan if kind == 'num' else na) if t is None else
                (reps[kind][t][0] if len(reps[kind][t]) == 1 else rng.choice(reps[kind][t])) for t in tokens]
        if cont == 'list':
            return vals
        if cont == 'tuple':
            return tuple(vals)
        if cont == 'set':
            return set(vals)
        if cont == 'series':
            return pd.Series(vals, dtype=float if kind == 'num' else object)
        raise ValueError(cont)

    def show(x):
        return repr(x.tolist()) + ' as Series' if isinstance(x, pd.Series) else repr(x)

    conts = [('list', 'list'), ('series', 'series'), ('tuple', 'list'), ('set', 'set'), ('list', 'series')]
    for k, (A, B) in enumerate(pairs):
        mj, mo, mc = outs[3 * k:3 * k + 3]
        hasna = (None in A) or (None in B)
        sa, sb = set(A) - {None}, set(B) - {None}
        nontriv = bool(sa & sb) and sa != sb
        ca, cb = conts[k % len(conts)]
        ctx.count('containers=%s/%s' % (ca, cb))
        ctx.count('with_missing' if hasna else 'no_missing')
        # overlap / overlap_coefficient: missing values anywhere (a Python set cannot hold two NaN objects reliably,
        # so missing values are given to sets as None)
        na = None if 'set' in (ca, cb) else [None, np.nan, pd.NA][(k // 7) % 3]
        ctx.count('missing_marker=%s' % ('None' if na is None else ('nan' if na is not pd.NA else 'pd.NA')))
        # every pair is run with a plain scalar kind and with a structured / heterogeneous kind
        for kind in ('str' if k % 2 else 'num', ('tuple', 'mixed')[(k // 5) % 2]):
            plain = kind in ('num', 'str')
            if kind == 'num' and 'set' in (ca, cb):
                kind = 'str'
            ctx.count('elements=%s' % kind)
            tag = () if plain else (kind,)
            a = realise(A, ca, kind, na)
            b = realise(B, cb, kind, na)
            for name, f, model in [('overlap', prs.overlap, mo), ('overlap_coefficient', prs.overlap_coefficient, mc)]:
                impl = call_impl(f, a, b)
                ctx.case(sample=dict(func=name, A=A, B=B, containers=[ca, cb], elements=kind, impl=str(impl), model=str(model))
                         if nontriv and k % 50 == 0 else None,
                         nontrivial_key=(name, tuple(A), tuple(B)) + tag if nontriv else None)
                ok = (impl[0] == 'ok' and ((name == 'overlap' and int(impl[1]) == model) or
                                           (name != 'overlap' and _cmp_val(impl, model))))
                if not ok:
                    ctx.violation('property', '%s(%s, %s) = %s, expected %s  [tokens %s as %s, %s as %s, %s elements]' %
                                  (name, show(a), show(b), impl, model, A, ca, B, cb, kind),
                                  dict(func=name, A=A, B=B, containers=[ca, cb], elements=kind, a=show(a), b=show(b),
                                       impl=str(impl), expected=str(model)),
                                  site='stats.%s[%s]' % (name, 'set' if 'set' in (ca, cb) else 'other'))
                # symmetry on the implementation
                impl2 = call_impl(f, b, a)
                if impl[0] == 'ok' and impl2[0] == 'ok' and not (impl[1] == impl2[1] or (impl[1] != impl[1] and impl2[1] != impl2[1])):
                    ctx.violation('property', '%s not symmetric on %s, %s' % (name, show(a), show(b)),
                                  dict(func=name, A=A, B=B, elements=kind, a=show(a), b=show(b)), site='stats.' + name)
            # jaccard: missing values only inside Series
            ja = realise(A, ca if (None not in A) else 'series', kind, na)
            jb = realise(B, cb if (None not in B) else 'series', kind, na)
            impl = call_impl(prs.jaccard_index, ja, jb)
            ctx.case(nontrivial_key=('jaccard', tuple(A), tuple(B)) + tag if nontriv else None)
            if mj is None:
                ok = impl[0] == 'exc' or (impl[0] == 'ok' and math.isnan(impl[1]))
            else:
                ok = impl[0] == 'ok' and close(impl[1], mj)
            if not ok:
                ctx.violation('property', 'jaccard_index(%s, %s) = %s, expected %s  [tokens %s, %s, %s elements]' %
                              (show(ja), show(jb), impl, mj, A, B, kind),
                              dict(func='jaccard_index', A=A, B=B, elements=kind, a=show(ja), b=show(jb),
                                   impl=str(impl), expected=str(mj)), site='stats.jaccard_index')
            elif mj is not None:
                impl2 = call_impl(prs.jaccard_index, jb, ja)
                if not (impl2[0] == 'ok' and impl2[1] == impl[1]):
                    ctx.violation('property', 'jaccard_index not symmetric on %s, %s: %s vs %s' % (show(ja), show(jb), impl, impl2),
                                  dict(func='jaccard_index', A=A, B=B, elements=kind, a=show(ja), b=show(jb)),
                                  site='stats.jaccard_index')
        if k < 30:
            ctx.add_vm('api_overlap', [A, B], mo)
            ctx.add_vm('api_jaccard', [A, B], mj)
        if ctx.nprop() > 8:
            break
    ctx.assumptions += ['numpy sum / float64 division within 1e-9 of the exact rational',
                        'pandas Series.dropna and Python set semantics (modelled: set of non-missing values; elements are hashable '
                        'items identified by Python ==/hash)']


def replay(ctx, obj):
    import pyrepseq as prs
    r = obj['replay']
    if 'counts' in r:
        f = getattr(prs, r['func'])
        extra = (5,) if r['func'].endswith('2') else ()
        impl = call_impl(f, r['counts'], *extra)
        spec = ctx.oracle.run([('api_spec_chao1' if r['func'] == 'chao1' else 'api_spec_chao2' if r['func'] == 'chao2'
                                else 'api_spec_var_chao', [r['counts']])])[0]
        ctx.case(sample=r)
        if not _cmp_val(impl, spec):
            ctx.violation('property', 'replay still fails: %s(%s) = %s, closed form %s' % (r['func'], r['counts'], impl, spec), r)
    else:
        ctx.note('replay of set-measure cases: run the quick tier')
