"""C16 - richness and overlap estimators follow their closed forms."""
import itertools, math, os, random
from fractions import Fraction
import numpy as np
import pandas as pd
from core import call_impl, close


def _cmp_val(impl, wire):
    """impl: ('ok', float) / ('exc', cls); wire: (tag, q)."""
    tag, q = wire
    if impl[0] == 'exc':
        return tag == 2
    x = impl[1]
    try:
        x = float(x)
    except Exception:       # not a number at all (None, a string, an array)
        return False
    if tag == 1:
        return math.isnan(x)
    if tag == 2:
        return False
    return close(x, q)


def _is_count(x, n):
    """overlap returns the number |A n B| itself (2.7 is not 2)."""
    try:
        return not isinstance(x, (str, bytes)) and bool(x == n)
    except Exception:
        return False


# =====================================================================================================================
# Wide families (coverage audit).  Everything below realises inputs DETERMINISTICALLY from a small record (tokens /
# counts + a spec dict), so that a failing case is replayed from the record alone.
# =====================================================================================================================

# ---- count vectors: containers / dtypes ------------------------------------------------------------------------------
_COUNT_CONTS = ['tuple', 'list_float', 'list_np64', 'list_np32', 'nd_int32', 'nd_int16', 'nd_uint8', 'nd_uint64',
                'nd_float64', 'nd_object', 'nd_strided', 'nd_readonly', 'series_int', 'series_float']
_COUNT_INT = {'list_np64': np.int64, 'list_np32': np.int32, 'nd_int64': np.int64, 'nd_int32': np.int32,
              'nd_int16': np.int16, 'nd_uint8': np.uint8, 'nd_uint64': np.uint64, 'nd_strided': np.int64,
              'nd_readonly': np.int64, 'series_int': np.int64}


def _mk_counts(v, cont):
    v = list(v)
    if cont == 'list':
        return v
    if cont == 'tuple':
        return tuple(v)
    if cont == 'list_float':
        return [float(x) for x in v]
    if cont == 'list_np64':
        return [np.int64(x) for x in v]
    if cont == 'list_np32':
        return [np.int32(x) for x in v]
    if cont == 'nd_object':
        a = np.empty(len(v), dtype=object)
        a[:] = v
        return a
    if cont == 'nd_strided':                      # a non-contiguous view
        big = np.full(2 * len(v), 999, dtype=np.int64)
        big[::2] = v
        return big[::2]
    if cont == 'nd_readonly':
        a = np.array(v, dtype=np.int64)
        a.setflags(write=False)
        return a
    if cont.startswith('nd_'):
        return np.array(v, dtype=getattr(np, cont[3:]))
    if cont == 'series_int':                      # default RangeIndex: label = position
        return pd.Series(v, dtype='int64')
    if cont == 'series_float':
        return pd.Series(v, dtype='float64')
    raise ValueError(cont)


def _count_fit(v, cont):
    """'no' - the vector is not representable in the container's integer type; 'exact' - every intermediate of the
    closed forms (f1^2, f1(f1-1), 2 f2) is representable too; 'wraps' - representable, but an intermediate is not."""
    dt = _COUNT_INT.get(cont)
    if dt is None and cont in ('list_float', 'nd_float64', 'series_float'):
        return 'exact' if max(v) < 2 ** 53 else 'no'
    # Python ints (list, tuple, object array) are exact at any size: entries are held to the int64 range, but the intermediates
    # f1^2, f1(f1-1), 2 f2 may leave it - the closed form is still what comes back (seeded C16-r5m1: a conversion to an int64 array
    # at the top of chao1 / chao2 made them wrap)
    hi = int(np.iinfo(dt or np.int64).max)
    if max(v) > hi:
        return 'no'
    if dt is None:
        return 'exact'
    f1, f2 = v[0], (v[1] if len(v) > 1 else 0)
    return 'exact' if max(f1 * f1, f1 * (f1 - 1), 2 * f2) <= hi else 'wraps'


_COUNT_FUNCS = {'chao1': ('api_spec_chao1', False), 'var_chao1': ('api_spec_var_chao', False),
                'chao2': ('api_spec_chao2', True), 'var_chao2': ('api_spec_var_chao', True)}


def _m_value(m):
    """m as handed to the implementation: [kind, value]."""
    kind, val = m
    return {'int': int, 'float': float, 'np64': np.int64}[kind](val)


def _call_count(prs, name, arg, m, style):
    f = getattr(prs, name)
    if _COUNT_FUNCS[name][1]:
        mv = _m_value(m)
        if style == 'kw':
            return call_impl(f, counts=arg, m=mv)
        if style == 'kwm':
            return call_impl(f, arg, m=mv)
        return call_impl(f, arg, mv)
    if style == 'kw':
        return call_impl(f, counts=arg)
    return call_impl(f, arg)


def _check_count(ctx, prs, name, v, cont, m, style, spec, family, arg=None, gen=None):
    """One call of one Chao function against the closed form (spec from the oracle).  Returns True when it agrees."""
    if arg is None:
        arg = _mk_counts(v, cont)
    impl = _call_count(prs, name, arg, m, style)
    nontriv = (v[0] > 0 and spec[0] == 0 and spec[1] != sum(v))
    short = v if len(v) <= 12 else v[:12] + ['... (%d entries)' % len(v)]
    ctx.case(nontrivial_key=(name, tuple(v), cont, tuple(m), style) if nontriv else None)
    if not _cmp_val(impl, spec):
        ctx.violation('property', '%s(%s as %s%s) = %s but the closed form gives %s  [family %s]' %
                      (name, short, cont, (', m=%r %s' % (_m_value(m), style)) if _COUNT_FUNCS[name][1] else
                       (' by keyword' if style == 'kw' else ''), impl, 'NaN' if spec[0] == 1 else spec[1], family),
                      dict(family='counts', func=name, counts=v, container=cont, m=list(m), style=style, impl=str(impl),
                           expected=str(spec), case_family=family),
                      site='stats.%s[%s]' % (name, family))
        return False
    if gen is not None and not _cmp_val(impl, gen):
        ctx.violation('correspondence', 'generated model of %s disagrees with the implementation on %s, m=%s: %s vs %s'
                      % (name, short, m, gen, impl), dict(func=name, counts=v, m=list(m), impl=str(impl), model=str(gen)),
                      site='stats.' + name)
    return True


def _wide_counts(ctx, prs, base_vecs):
    rng = ctx.rng
    pending = bool(os.environ.get('PV_PENDING_C16'))
    M_VALUES = [('int', 1), ('int', 2), ('int', 3), ('int', 10), ('int', 1000), ('int', 10 ** 6), ('float', 2), ('float', 7),
                ('np64', 4)]
    # -- vectors: a sample of the exhaustive grid, typical magnitudes, magnitudes around the integer-type limits
    vecs = rng.sample(base_vecs, 40 if ctx.quick else 400)
    for _ in range(60 if ctx.quick else 1500):
        n = rng.randint(1, 8)
        top = rng.choice([15, 15, 127, 181, 255, 46340, 65535, 10 ** 6, 2 ** 31 - 1, 3 * 10 ** 9])
        vecs.append([rng.randint(0, top) if rng.random() < .8 else 0 for _ in range(n)])
    # boundary vectors: the largest f1 / f2 for which every intermediate still fits the integer type, and one more
    for hi in (255, 2 ** 15 - 1, 2 ** 31 - 1, 2 ** 63 - 1):
        r = math.isqrt(hi)
        for f1 in (r, r + 1):
            for f2 in (0, 1, 3, hi // 2, min(hi, hi // 2 + 1)):
                vecs.append([f1, f2, 2])
                vecs.append([f1])
    vecs += [[0], [1], [2], [7], [0, 0], [1, 0], [0, 1], [2, 1], [3, 2, 1]]
    reqs = []
    for v in vecs:
        reqs += [('api_spec_chao1', [v]), ('api_spec_chao2', [v]), ('api_spec_var_chao', [v])]
    outs = ctx.oracle.run_parallel(reqs)
    nskip = 0
    for k, v in enumerate(vecs):
        specs = dict(zip(('api_spec_chao1', 'api_spec_chao2', 'api_spec_var_chao'), outs[3 * k:3 * k + 3]))
        conts = _COUNT_CONTS if (k % 4 == 0 or len(v) < 4 or not ctx.quick) else rng.sample(_COUNT_CONTS, 4)
        for cont in conts:
            fit = _count_fit(v, cont)
            if fit == 'no':
                nskip += 1
                continue
            if fit == 'wraps':
                # POSSIBLE DEFECT (NOTES.md): narrow / huge integer counts make f1**2, f1*(f1-1) or 2*f2 wrap around
                ctx.count('counts:wraps-in-%s%s' % (cont, '' if pending else ' (not run: PV_PENDING_C16)'))
                if not pending:
                    continue
            else:
                ctx.count('counts:container=%s' % cont)
            m = M_VALUES[(k + len(cont)) % len(M_VALUES)]
            for name, (sp, _) in _COUNT_FUNCS.items():
                if not _check_count(ctx, prs, name, v, cont, m, 'pos', specs[sp],
                                    'integer-wraparound' if fit == 'wraps' else 'containers'):
                    break
        if ctx.nprop() > 8:
            return
    ctx.count('counts:container cannot hold the vector (skipped)', nskip)

    # -- m: the closed forms of chao2 / var_chao2 do not depend on the number of replicates; positional and keyword
    mv = rng.sample(base_vecs, 25 if ctx.quick else 250) + [[3, 2, 1], [5, 0, 2], [4], [0, 3], [7, 1]]
    reqs = []
    for v in mv:
        reqs += [('api_spec_chao2', [v]), ('api_spec_var_chao', [v]), ('api_spec_chao1', [v])]
        for m in M_VALUES:
            reqs += [('api_gen_chao2', [v, Fraction(m[1])]), ('api_gen_var_chao2', [v, Fraction(m[1])])]
    outs = ctx.oracle.run_parallel(reqs)
    step = 3 + 2 * len(M_VALUES)
    for k, v in enumerate(mv):
        s2, sv, s1 = outs[step * k:step * k + 3]
        for j, m in enumerate(M_VALUES):
            g2, gv = outs[step * k + 3 + 2 * j:step * k + 5 + 2 * j]
            style = ('pos', 'kw', 'kwm')[(k + j) % 3]
            ctx.count('counts:m=%s' % (m[1] if m[0] == 'int' else '%s(%s)' % m))
            ctx.count('counts:call-style=%s' % style)
            cont = ('list', 'nd_int64', 'tuple')[(k + j) % 3]
            _check_count(ctx, prs, 'chao2', v, cont, m, style, s2, 'replicates', gen=g2)
            _check_count(ctx, prs, 'var_chao2', v, cont, m, style, sv, 'replicates', gen=gv)
        _check_count(ctx, prs, 'chao1', v, 'list', M_VALUES[0], 'kw', s1, 'keyword')
        _check_count(ctx, prs, 'var_chao1', v, 'nd_int64', M_VALUES[0], 'kw', sv, 'keyword')
        if ctx.nprop() > 8:
            return

    # -- long vectors (lengths around 127/128, 255/256, 1000, 2**15)
    lens = [127, 128, 255, 256, 1000, 2 ** 15] if ctx.quick else [127, 128, 129, 255, 256, 257, 1000, 4096, 2 ** 15, 2 ** 15 + 1, 10 ** 5]
    lv = []
    for n in lens:
        lv.append([rng.randint(0, 9) for _ in range(n)])
        lv.append([rng.randint(1, 50), 0] + [rng.randint(0, 1000) for _ in range(n - 2)])
    reqs = []
    for v in lv:
        reqs += [('api_spec_chao1', [v]), ('api_spec_chao2', [v]), ('api_spec_var_chao', [v])]
    outs = ctx.oracle.run_parallel(reqs)
    for k, v in enumerate(lv):
        specs = dict(zip(('api_spec_chao1', 'api_spec_chao2', 'api_spec_var_chao'), outs[3 * k:3 * k + 3]))
        ctx.count('counts:len=%d' % len(v))
        for cont in ('list', 'nd_int64', 'nd_int32', 'series_int'):
            for name, (sp, _) in _COUNT_FUNCS.items():
                _check_count(ctx, prs, name, v, cont, ('int', 5), 'pos', specs[sp], 'long')

    # -- one preallocated array refilled in place between calls; the same object passed again
    buf = np.zeros(4, dtype=np.int64)
    seq = [rng.choice(base_vecs) for _ in range(30 if ctx.quick else 300)]
    seq = [v for v in seq if len(v) == 4] + [[3, 2, 1, 0], [3, 0, 1, 0], [0, 0, 0, 0], [6, 2, 0, 1], [6, 2, 0, 1]]
    reqs = []
    for v in seq:
        reqs += [('api_spec_chao1', [v]), ('api_spec_chao2', [v]), ('api_spec_var_chao', [v])]
    outs = ctx.oracle.run_parallel(reqs)
    for k, v in enumerate(seq):
        specs = dict(zip(('api_spec_chao1', 'api_spec_chao2', 'api_spec_var_chao'), outs[3 * k:3 * k + 3]))
        buf[:] = v
        ctx.count('counts:refilled-in-place')
        for rep in range(2):
            for name, (sp, _) in _COUNT_FUNCS.items():
                _check_count(ctx, prs, name, v, 'nd_int64 (one buffer refilled in place, call %d)' % (rep + 1), ('int', 5), 'pos',
                             specs[sp], 'refill', arg=buf)
        if buf.tolist() != list(v):
            ctx.note('count buffer changed by a call (C20 territory): %s -> %s' % (v, buf.tolist()))
            buf = np.zeros(4, dtype=np.int64)


# ---- set measures: element kinds, missing-value markers, containers --------------------------------------------------
# token -> interchangeable Python spellings (one token = one class under ==/hash; checked at start-up)
_WK = {
    'num': {t: [t] for t in range(1, 9)},
    'str': {t: ['abcdefgh'[t - 1]] for t in range(1, 9)},
    'tuple': {1: [('a', 'b')], 2: [('b', 'a')], 3: [('a', 'a')], 4: [('b', 'b')], 5: [('a', 'c')], 6: [('a',)], 7: [('a', 'b', 'a')],
              8: [('ab',)]},
    'mixed': {1: [1, 1.0], 2: ['1'], 3: [2, 2.0], 4: ['2'], 5: [('1',)], 6: [b'1'], 7: ['1.0'], 8: [(1,)]},
    # empty / falsy / look-alike strings: '' and 'nan' are elements, not missing values; case and blanks matter
    'strx': {1: [''], 2: ['a'], 3: ['A'], 4: ['a '], 5: ['nan'], 6: ['None'], 7: [' a'], 8: ['<NA>']},
    # falsy elements: 0 == 0.0 == False == -0.0 is one element; '', (), b'', frozenset() are four more
    'falsy': {1: [0, 0.0, False, -0.0], 2: [''], 3: [()], 4: [1, True, 1.0], 5: [b''], 6: [frozenset()], 7: ['0'], 8: [(0,)]},
    # CDR3-like strings that differ in one end, in length by one, or in case only
    'cdr3': {1: ['CASSLGQAYEQYF'], 2: ['CASSLGQAYEQYV'], 3: ['AASSLGQAYEQYF'], 4: ['CASSLGQAYEQY'], 5: ['CASSLGQAYEQYFF'],
             6: ['casslgqayeqyf'], 7: ['CASSLGQAYEQYF '], 8: ['CASSLGAQYEQYF']},
    # numpy scalars next to the equal Python objects
    'npscalar': {1: [1, np.int64(1), np.float64(1.0), np.int8(1)], 2: ['a', np.str_('a')], 3: [2, np.int32(2), np.uint8(2)],
                 4: ['b', np.str_('b')], 5: [0.5, np.float64(0.5), np.float32(0.5)], 6: [np.str_('ab'), 'ab'], 7: [300, np.int16(300)],
                 8: [-1, np.int64(-1), -1.0]},
}
_STRLIKE = ('str', 'strx', 'cdr3')
_NA = {'None': lambda: None, 'nan': lambda: np.nan, 'pdNA': lambda: pd.NA, 'fnan': lambda: float('nan'),
       'npnan': lambda: np.float64('nan'), 'NaT': lambda: pd.NaT}
_NA_MIX = ['None', 'nan', 'pdNA', 'fnan', 'npnan', 'NaT']
_NA_KINDS = list(_NA) + ['mix']


def _selfcheck_kinds():
    for kd, table in _WK.items():
        flat = [(t, x) for t, xs in table.items() for x in xs]
        for (t1, x1), (t2, x2) in itertools.product(flat, flat):
            assert (t1 == t2) == (x1 == x2 and hash(x1) == hash(x2)), (kd, x1, x2)


def _vals(tokens, spec):
    kind, na, salt = spec['kind'], spec.get('na', 'None'), spec.get('salt', 0)
    out = []
    for i, t in enumerate(tokens):
        if t is None:
            out.append(_NA[_NA_MIX[(i + salt) % len(_NA_MIX)] if na == 'mix' else na]())
        else:
            sp = _WK[kind][t]
            out.append(sp[(i + salt) % len(sp)])
    return out


def _obj_array(vals):
    a = np.empty(len(vals), dtype=object)
    for i, x in enumerate(vals):
        a[i] = x
    return a


def _mk(tokens, spec):
    """A NEW collection object for the token list, fully determined by (tokens, spec)."""
    cont, kind = spec['cont'], spec['kind']
    vals = _vals(tokens, spec)
    if cont == 'list':
        return vals
    if cont == 'tuple':
        return tuple(vals)
    if cont == 'set':
        return set(vals)
    if cont == 'frozenset':
        return frozenset(vals)
    if cont == 'gen':
        return (x for x in vals)
    if cont == 'iter':
        return iter(vals)
    if cont == 'dict':
        return dict.fromkeys(vals, 0)
    if cont == 'dictkeys':
        return dict.fromkeys(vals, 0).keys()
    if cont == 'ndarray_obj':
        return _obj_array(vals)
    if cont == 'ndarray':                   # native dtype: int64 / float64 (NaN = missing) for numbers, <U for strings
        if kind == 'num':
            return (np.array([np.nan if t is None else float(t) for t in tokens], dtype=float) if None in tokens
                    else np.array(vals, dtype=np.int64))
        assert kind in _STRLIKE and None not in tokens
        return np.array(vals, dtype=str)
    if cont == 'index':
        return pd.Index(_obj_array(vals), dtype=object, tupleize_cols=False)
    if cont == 'chars':                     # a string is an iterable of its characters
        assert kind == 'str' and None not in tokens
        return ''.join(vals)
    if cont == 'series':
        dt, n = spec.get('dtype', 'object'), len(vals)
        if dt == 'object':
            s = pd.Series(_obj_array(vals), dtype=object)
        elif dt == 'infer':                 # what pd.Series(list) makes of it (pandas 3: str dtype for strings)
            s = pd.Series(vals) if vals else pd.Series(vals, dtype=object)
        elif dt == 'float':
            s = pd.Series([np.nan if t is None else float(t) for t in tokens], dtype='float64')
        elif dt == 'int64':
            s = pd.Series([int(t) for t in tokens], dtype='int64')
        elif dt == 'Int64':
            s = pd.Series([pd.NA if t is None else int(t) for t in tokens], dtype='Int64')
        elif dt == 'string':
            s = pd.Series([pd.NA if t is None else v for t, v in zip(tokens, vals)], dtype='string')
        elif dt == 'category':
            s = pd.Series([np.nan if t is None else v for t, v in zip(tokens, vals)], dtype='category')
        elif dt == 'category_unused':
            # a categorical column cut out of a larger table: its categories list values that no row of THIS collection holds (every
            # spelling of every token of the kind) - they are not elements of the collection (seeded change C16-r6m2)
            wk = _WK[kind]
            universe = [sp_ for t_ in (wk if not isinstance(wk, dict) else sorted(wk)) for sp_ in (wk[t_] if isinstance(wk, dict) else t_)]
            cats = list(dict.fromkeys([v for t, v in zip(tokens, vals) if t is not None] + list(universe)))
            s = pd.Series(pd.Categorical([np.nan if t is None else v for t, v in zip(tokens, vals)], categories=cats))
        else:
            raise ValueError(dt)
        ix = spec.get('idx', 'default')
        if ix == 'shift':
            s.index = range(10, 10 + n)
        elif ix == 'rev':
            s.index = range(n - 1, -1, -1)
        elif ix == 'str':
            s.index = ['r%d' % i for i in range(n)]
        elif ix == 'dup':
            s.index = [0] * n
        elif ix == 'multi':
            s.index = pd.MultiIndex.from_arrays([[0] * n, list(range(n))])
        elif ix == 'named':
            s.name = 'CDR3B'
            s.index.name = 'clone'
        return s
    raise ValueError(cont)


def _kinds_of(v):
    """Element kinds a container variant can hold."""
    c, dt = v['cont'], v.get('dtype')
    if c == 'chars':
        return ['str']
    if c == 'ndarray':
        return ['num'] + list(_STRLIKE)
    if c == 'series' and dt in ('float', 'int64', 'Int64'):
        return ['num']
    if c == 'series' and dt == 'string':
        return list(_STRLIKE)
    if c == 'series' and dt in ('category', 'category_unused'):
        return ['num'] + list(_STRLIKE)
    return list(_WK)


def _holds_na(v, kind):
    c, dt = v['cont'], v.get('dtype')
    return not (c == 'chars' or (c == 'ndarray' and kind != 'num') or (c == 'series' and dt == 'int64'))


_ONE_SHOT = ('gen', 'iter')
_VARIANTS = ([dict(cont=c) for c in ('list', 'tuple', 'set', 'frozenset', 'gen', 'iter', 'dict', 'dictkeys', 'ndarray_obj',
                                     'ndarray', 'index', 'chars')] +
             [dict(cont='series', dtype=d, idx=i) for d, i in
              [('object', 'default'), ('object', 'shift'), ('infer', 'rev'), ('infer', 'str'), ('object', 'dup'), ('float', 'shift'),
               ('Int64', 'default'), ('string', 'rev'), ('category', 'default'), ('int64', 'str'), ('infer', 'named'),
               ('object', 'multi'), ('float', 'default'), ('string', 'dup'), ('category', 'shift'), ('category_unused', 'default'),
               ('category_unused', 'str')]])


def _vname(v):
    return v['cont'] if v['cont'] != 'series' else 'series[%s,%s index]' % (v.get('dtype', 'object'), v.get('idx', 'default'))


def _show(x):
    if isinstance(x, pd.Series):
        return 'Series(%r, dtype=%s, index=%r)' % (x.tolist(), x.dtype, x.index.tolist())
    if isinstance(x, np.ndarray):
        return 'array(%r, dtype=%s)' % (x.tolist(), x.dtype)
    if isinstance(x, pd.Index):
        return 'Index(%r)' % (x.tolist(),)
    if type(x).__name__ in ('generator', 'list_iterator'):
        return '<%s>' % type(x).__name__
    r = repr(x)
    return r if len(r) < 400 else r[:400] + '...'


_SET_FUNCS = {'jaccard_index': 'api_jaccard', 'overlap': 'api_overlap', 'overlap_coefficient': 'api_overlap_coefficient'}


def _set_ok(name, impl, model):
    if name == 'jaccard_index':
        if model is None:                   # empty union: an error or NaN, the ratio is undefined
            return impl[0] == 'exc' or (impl[0] == 'ok' and _isnan(impl[1]))
        return impl[0] == 'ok' and _isnum(impl[1]) and close(float(impl[1]), model)
    if name == 'overlap':
        return impl[0] == 'ok' and _is_count(impl[1], model)
    return impl[0] == 'ok' and _cmp_val(impl, model)


def _isnum(x):
    return isinstance(x, (int, float, np.integer, np.floating, Fraction)) and not isinstance(x, bool)


def _isnan(x):
    try:
        return math.isnan(float(x))
    except Exception:
        return False


def _same(i1, i2):
    if i1[0] != i2[0]:
        return False
    if i1[0] == 'exc':
        return True
    return _isnum(i1[1]) and _isnum(i2[1]) and (i1[1] == i2[1] or (_isnan(i1[1]) and _isnan(i2[1])))


def _jtokens(tokens, spec):
    """jaccard_index documents the removal of missing values for Series only: other containers get the tokens without them."""
    return tokens if spec['cont'] == 'series' else [t for t in tokens if t is not None]


def _call_set(prs, name, A, sa, B, sb, style='pos'):
    f = getattr(prs, name)
    if name == 'jaccard_index':
        A, B = _jtokens(A, sa), _jtokens(B, sb)
    a, b = _mk(A, sa), _mk(B, sb)
    sh = (_show(a), _show(b))
    if style == 'kw':
        return call_impl(f, A=a, B=b), sh
    if style == 'kwB':
        return call_impl(f, a, B=b), sh
    return call_impl(f, a, b), sh


def _check_sets(ctx, prs, A, sa, B, sb, models, family, style='pos', nontriv=None):
    """All three measures on (A, B) realised by the specs sa / sb, and on (B, A).  models = (jaccard, overlap, coefficient)."""
    if nontriv is None:
        xa, xb = set(A) - {None}, set(B) - {None}
        nontriv = bool(xa & xb) and xa != xb
    ok = True
    for name, model in zip(_SET_FUNCS, models):
        impl, sh = _call_set(prs, name, A, sa, B, sb, style)
        ctx.case(nontrivial_key=(name, family, tuple(A), tuple(B), repr(sorted(sa.items())), repr(sorted(sb.items()))) if nontriv else None)
        rec = dict(family='sets', func=name, A=A, B=B, spec_a=sa, spec_b=sb, style=style, a=sh[0], b=sh[1], case_family=family)
        if not _set_ok(name, impl, model):
            ctx.violation('property', '%s(%s, %s) = %s, expected %s  [tokens %s as %s, %s as %s, %s elements, family %s]' %
                          (name, sh[0], sh[1], impl, model, A, _vname(sa), B, _vname(sb), sa['kind'], family),
                          dict(rec, impl=str(impl), expected=str(model)), site='stats.%s[%s]' % (name, family))
            ok = False
            continue
        impl2, _ = _call_set(prs, name, B, sb, A, sa, style)
        if not _same(impl, impl2):
            ctx.violation('property', '%s not symmetric on %s, %s: %s vs %s  [family %s]' % (name, sh[0], sh[1], impl, impl2, family),
                          dict(rec, symmetric=True, impl=str(impl), swapped=str(impl2)), site='stats.%s[%s]' % (name, family))
            ok = False
    return ok


def _rand_tokens(rng, nmax, na_ok, pool=8, p_na=.25):
    n = rng.choice([0, 1, 1, 2, 3, 4, 5, nmax])
    lo = rng.randint(1, max(1, pool - 3))
    sub = list(range(lo, min(pool, lo + rng.randint(1, 4)) + 1))
    return [None if (na_ok and rng.random() < p_na) else rng.choice(sub) for _ in range(n)]


def _models(ctx, pairs):
    reqs = []
    for A, B in pairs:
        reqs += [('api_jaccard', [A, B]), ('api_overlap', [A, B]), ('api_overlap_coefficient', [A, B])]
    outs = ctx.oracle.run_parallel(reqs)
    return [tuple(outs[3 * k:3 * k + 3]) for k in range(len(pairs))]


def _wide_sets(ctx, prs):
    rng = ctx.rng
    _selfcheck_kinds()
    jobs = []          # (A, sa, B, sb, family, style)

    # -- 1. every ordered pair of container variants
    reps = 1 if ctx.quick else 6
    for va, vb in itertools.product(_VARIANTS, _VARIANTS):
        common = [k for k in _kinds_of(va) if k in _kinds_of(vb)]
        if not common:
            ctx.count('sets:container pair without a common element kind (skipped)')
            continue
        for _ in range(reps):
            kind = rng.choice(common)
            sa = dict(va, kind=kind, na=rng.choice(_NA_KINDS), salt=rng.randint(0, 5))
            sb = dict(vb, kind=kind, na=rng.choice(_NA_KINDS), salt=rng.randint(0, 5))
            A = _rand_tokens(rng, 7, _holds_na(va, kind))
            B = _rand_tokens(rng, 7, _holds_na(vb, kind))
            jobs.append((A, sa, B, sb, 'container-pairs', 'pos'))

    # -- 2. every element kind with every missing-value marker, in lists / sets / Series / object arrays
    for kind, na in itertools.product(_WK, _NA_KINDS):
        for ca, cb in [('list', 'list'), ('series', 'list'), ('set', 'series'), ('ndarray_obj', 'tuple')][:(2 if ctx.quick else 4)]:
            for _ in range(1 if ctx.quick else 4):
                sa = dict(cont=ca, kind=kind, na=na, salt=rng.randint(0, 5), dtype=rng.choice(['object', 'infer']), idx='default')
                sb = dict(cont=cb, kind=kind, na=na, salt=rng.randint(0, 5), dtype=rng.choice(['object', 'infer']), idx='rev')
                jobs.append((_rand_tokens(rng, 8, True, p_na=.35), sa, _rand_tokens(rng, 8, True, p_na=.35), sb, 'kinds-x-markers', 'pos'))

    # -- 3. keyword calls
    for _ in range(12 if ctx.quick else 100):
        kind = rng.choice(list(_WK))
        sa = dict(cont=rng.choice(['list', 'series', 'set']), kind=kind, na='None', salt=0, dtype='object', idx='default')
        sb = dict(cont=rng.choice(['list', 'series', 'tuple']), kind=kind, na='nan', salt=1, dtype='object', idx='shift')
        jobs.append((_rand_tokens(rng, 6, True), sa, _rand_tokens(rng, 6, True), sb, 'keywords', rng.choice(['kw', 'kwB'])))

    mods = _models(ctx, [(j[0], j[2]) for j in jobs])
    for (A, sa, B, sb, family, style), m in zip(jobs, mods):
        ctx.count('sets:%s' % family)
        if family == 'container-pairs':
            ctx.count('sets:container=%s' % _vname(sa))
        if family != 'keywords':
            ctx.count('sets:elements=%s' % sa['kind'])
            if None in A:
                ctx.count('sets:missing_marker=%s' % sa['na'])
        else:
            ctx.count('sets:call-style=%s' % style)
        _check_sets(ctx, prs, A, sa, B, sb, m, family, style)
        if ctx.nprop() > 8:
            return

    # -- 4. one object as both arguments; the same objects again; a collection changed in place between two calls
    jobs = []
    for v in _VARIANTS:
        if v['cont'] in _ONE_SHOT:
            continue
        for _ in range(2 if ctx.quick else 10):
            kind = rng.choice(_kinds_of(v))
            s = dict(v, kind=kind, na=rng.choice(_NA_KINDS), salt=rng.randint(0, 5))
            A = _rand_tokens(rng, 6, _holds_na(v, kind))
            B = _rand_tokens(rng, 6, _holds_na(v, kind))
            jobs.append((A, B, s))
    mods = _models(ctx, [p for A, B, s in jobs for p in ((A, A), (A, B), (B, B))])
    for k, (A, B, s) in enumerate(jobs):
        _sameobj_case(ctx, prs, A, B, s, mods[3 * k:3 * k + 3])
        if ctx.nprop() > 8:
            return

    # in place: a list / set / object array / Series receives other content between two calls
    jobs = []
    for cont in ('list', 'set', 'ndarray_obj', 'series', 'dict'):
        for _ in range(4 if ctx.quick else 30):
            kind = rng.choice(list(_WK))
            s = dict(cont=cont, kind=kind, na=rng.choice(_NA_KINDS), salt=rng.randint(0, 5), dtype='object', idx='shift')
            n = rng.randint(1, 6)
            A1 = [rng.choice([None, 1, 2, 3, 4]) for _ in range(n)]
            A2 = [rng.choice([None, 3, 4, 5, 6]) for _ in range(n)]
            B = _rand_tokens(rng, 6, True)
            jobs.append((A1, A2, B, s))
    mods = _models(ctx, [p for A1, A2, B, s in jobs for p in ((A1, B), (A2, B))])
    for k, (A1, A2, B, s) in enumerate(jobs):
        _inplace_case(ctx, prs, A1, A2, B, s, mods[2 * k:2 * k + 2])
        if ctx.nprop() > 8:
            return

    # -- 5. large collections: expected sizes known by construction (c common elements, a only in A, b only in B)
    sizes = [(1, 0, 0), (0, 1, 1), (127, 1, 2), (128, 3, 0), (255, 0, 9), (256, 256, 256), (1000, 500, 0), (0, 1000, 1000),
             (700, 300, 1300), (2 ** 15, 10, 3), (3, 2 ** 15, 2 ** 15 + 1)]
    if not ctx.quick:
        sizes += [(2 ** 16 + 1, 2 ** 16, 7), (10 ** 5, 10 ** 5, 10 ** 5), (1, 2 ** 17, 0), (999, 1, 10 ** 5)]
    for (c, na_, nb_), elem, cont in itertools.product(sizes, ('int', 'str', 'pair'), ('list', 'series', 'set', 'ndarray', 'gen')):
        if ctx.quick and (c + na_ + nb_) > 5000 and rng.random() < .5:
            continue
        seed = rng.randint(0, 10 ** 9)
        _large_case(ctx, prs, dict(c=c, a=na_, b=nb_, elem=elem, cont=cont, seed=seed, dups=rng.choice([0, 1, 2]),
                                   nas=rng.choice([0, 0, 3, 50])))
        if ctx.nprop() > 8:
            return


def _sameobj_case(ctx, prs, A, B, s, mods=None):
    """One object as both arguments, then f(a, b) twice on the same objects, then f(b, b)."""
    maa, mab, mbb = mods or _models(ctx, [(A, A), (A, B), (B, B)])
    for name, m_aa, m_ab, m_bb in zip(_SET_FUNCS, maa, mab, mbb):
        f = getattr(prs, name)
        TA, TB = (_jtokens(A, s), _jtokens(B, s)) if name == 'jaccard_index' else (A, B)
        a, b = _mk(TA, s), _mk(TB, s)
        rec = dict(family='sets-sameobj', func=name, A=A, B=B, spec=s, a=_show(a), b=_show(b))
        for what, x, y, model in [('f(a, a) with one object as both arguments', a, a, m_aa), ('f(a, b)', a, b, m_ab),
                                  ('f(a, b) again on the same objects', a, b, m_ab), ('f(b, b) after f(a, b)', b, b, m_bb)]:
            impl = call_impl(f, x, y)
            ctx.case(nontrivial_key=(name, 'sameobj', what, tuple(A), tuple(B), _vname(s), s['kind']) if (set(A) - {None}) else None)
            ctx.count('sets:same-object / repeated call')
            if not _set_ok(name, impl, model):
                ctx.violation('property', '%s: %s = %s, expected %s  [a = %s, b = %s]' % (name, what, impl, model, _show(a), _show(b)),
                              dict(rec, step=what, impl=str(impl), expected=str(model)), site='stats.%s[same-object]' % name)
                break


def _inplace_case(ctx, prs, A1, A2, B, s, mods=None):
    """f(a, b); the content of a is replaced in place (tokens A1 -> A2, same length); f(a, b) again."""
    mm1, mm2 = mods or _models(ctx, [(A1, B), (A2, B)])
    sb = dict(s, cont='list')
    for name, x1, x2 in zip(_SET_FUNCS, mm1, mm2):
        f = getattr(prs, name)
        if name == 'jaccard_index' and s['cont'] != 'series' and (None in A1 or None in A2 or None in B):
            continue                    # jaccard_index: missing values only where their removal is documented (Series)
        a, b = _mk(A1, s), _mk(B, sb if name != 'jaccard_index' or None not in B else dict(sb, cont='series'))
        if s['cont'] == 'series':       # a Series over a preallocated object buffer that the caller refills in place
            buf = _obj_array(_vals(A1, s))
            a = pd.Series(buf, dtype=object, copy=False)
            a.index = range(10, 10 + len(buf))
        first = call_impl(f, a, b)
        new = _vals(A2, s)
        if s['cont'] == 'list':
            a[:] = new
        elif s['cont'] == 'set':
            a.clear()
            a.update(new)
        elif s['cont'] == 'dict':
            a.clear()
            a.update(dict.fromkeys(new, 1))
        elif s['cont'] == 'ndarray_obj':
            for i, x in enumerate(new):
                a[i] = x
        else:
            for i, x in enumerate(new):
                buf[i] = x
            if [type(x) for x in a.tolist()] != [type(x) for x in new]:      # the Series does not share the buffer: nothing to test
                ctx.count('sets:changed-in-place(series) buffer not shared (skipped)')
                continue
        second = call_impl(f, a, b)
        ctx.count('sets:changed-in-place(%s)' % s['cont'])
        for what, impl, model, T in (('first call', first, x1, A1), ('call after the first argument was changed in place', second, x2, A2)):
            ctx.case(nontrivial_key=(name, 'inplace', what, tuple(T), tuple(B), s['cont'], s['kind']))
            if not _set_ok(name, impl, model):
                ctx.violation('property', '%s, %s: %s, expected %s  [first argument %s (tokens %s then %s, %s elements as %s), second %s]' %
                              (name, what, impl, model, _show(a), A1, A2, s['kind'], s['cont'], _show(b)),
                              dict(family='sets-inplace', func=name, A1=A1, A2=A2, B=B, spec=s, impl=str(impl), expected=str(model), step=what),
                              site='stats.%s[in-place]' % name)


def _large_build(r):
    """Two collections with exactly c common elements, a elements only in A and b only in B (so |A n B| = c,
    |A u B| = a + b + c), realised with duplicates, shuffled, optionally with missing values; the objects of A and
    of B are built separately (equal, never identical).  Returns for each side a maker of the collection handed to
    overlap / overlap_coefficient and one for jaccard_index (missing values only where their removal is documented)."""
    rnd = random.Random(r['seed'])
    c, a, b, elem, cont = r['c'], r['a'], r['b'], r['elem'], r['cont']

    def el(i):
        if elem == 'int':
            return int(str(i * 7 + 1000))
        if elem == 'str':
            return 'CASS%dF' % i
        return ('CAV%d' % (i % 97), 'CASS%dF' % i)       # paired chains; the alpha chain alone repeats

    def side(ids):
        ids = list(ids)
        ids += [rnd.choice(ids) for _ in range(r['dups'] * len(ids) // 2)] if ids else []
        rnd.shuffle(ids)
        jac = [el(i) for i in ids]
        vals = list(jac)
        for _ in range(r['nas']):
            vals.insert(rnd.randint(0, len(vals)), None if elem != 'int' else np.nan)
        if cont == 'list':
            return (lambda: vals), (lambda: jac)
        if cont == 'set':
            sv, sj = set(vals), set(jac)
            return (lambda: sv), (lambda: sj)
        if cont == 'gen':                                   # one-shot: a new generator for every call
            return (lambda: (x for x in vals)), (lambda: (x for x in jac))
        if cont == 'ndarray':
            if elem == 'int':
                av, aj = np.array(vals, dtype=float if r['nas'] else np.int64), np.array(jac, dtype=np.int64)
            else:
                av, aj = _obj_array(vals), _obj_array(jac)
            return (lambda: av), (lambda: aj)
        ser = pd.Series(_obj_array(vals), dtype=object) if elem != 'int' else pd.Series(vals, dtype=float if r['nas'] else 'int64')
        ser.index = range(5, 5 + len(vals))
        return (lambda: ser), (lambda: ser)
    A = side(list(range(c)) + list(range(c, c + a)))
    B = side(list(range(c)) + list(range(c + a, c + a + b)))
    return A, B


def _large_case(ctx, prs, r):
    c, a, b = r['c'], r['a'], r['b']
    exp = {'jaccard_index': Fraction(c, a + b + c), 'overlap': c,
           'overlap_coefficient': (0, Fraction(c, min(a + c, b + c))) if min(a + c, b + c) else (1, None)}
    ctx.count('sets:large(%s,%s)' % (r['elem'], r['cont']))
    ctx.count('sets:large size>=%d' % (10 ** (len(str(a + b + c)) - 1)))
    (A, Aj), (B, Bj) = _large_build(r)       # the same objects go through all six calls (generators are made anew)
    for name in _SET_FUNCS:
        for swap in (False, True):
            x, y = (Aj, Bj) if name == 'jaccard_index' else (A, B)
            if swap:
                x, y = y, x
            impl = call_impl(getattr(prs, name), x(), y())
            ctx.case(nontrivial_key=(name, 'large', c, a, b, r['elem'], r['cont'], swap) if c and (a or b) else None)
            if not _set_ok(name, impl, exp[name]):
                ctx.violation('property', '%s on collections built with %d common, %d + %d own elements (%s elements as %s, %s duplicates, '
                              '%d missing values%s) = %s, expected %s' % (name, c, a, b, r['elem'], r['cont'], r['dups'], r['nas'],
                                                                         ', arguments swapped' if swap else '', impl, exp[name]),
                              dict(r, family='sets-large', func=name, swapped=swap, impl=str(impl), expected=str(exp[name])),
                              site='stats.%s[large]' % name)
                return


def run(ctx):
    import pyrepseq as prs
    rng = ctx.rng
    ctx.rule = ('count vectors: every vector of length 1..L with entries 0..M (list and ndarray), plus random long '
                'vectors; non-trivial := f1 > 0 and the value differs from S_obs; set measures: all pairs of small '
                'collections over a 5-token pool as list/tuple/set/Series with duplicates and missing values, the tokens realised '
                'as numbers, strings, tuples (paired chains) and mixed str/int/float/tuple items (one token = one class under '
                'Python ==/hash); '
                'non-trivial := intersection non-empty and the two element sets differ.  Wide families: count vectors as tuple / '
                'float list / lists of NumPy scalars / int16..uint64, float64, object, strided, read-only arrays / Series, '
                'magnitudes up to the limit of each integer type, m in {1..10**6, float, np.int64} positional and by keyword, lengths '
                '127..2**15, one buffer refilled in place; set measures over every ordered pair of 27 container variants (frozenset, '
                'generator, iterator, dict, dict keys, native and object arrays, Index, a string of characters, Series of seven '
                'dtypes with shifted / reversed / string / duplicated / multi index), eight element kinds (empty, falsy and '
                'look-alike strings, CDR3-like strings, NumPy scalars, bytes, frozensets), seven missing-value markers, keyword '
                'calls, one object as both arguments, repeated calls, a collection changed in place between calls, and collections '
                'of up to 2**15 (thorough: 10**5) elements with sizes known by construction')
    L, M = (4, 4) if ctx.quick else (5, 6)
    vecs = [list(v) for n in range(1, L + 1) for v in itertools.product(range(M + 1), repeat=n)]
    nbase = len(vecs)
    for _ in range(200 if ctx.quick else 3000):
        n = rng.randint(1, 30)
        vecs.append([rng.choice([0, 0, 1, 2, 3, 7, 50, 1000, rng.randint(0, 10 ** 6)]) for _ in range(n)])
    ctx.exhaustive = True
    reqs = []
    for v in vecs:
        m = 5
        reqs += [('api_gen_chao1', [v]), ('api_gen_var_chao1', [v]), ('api_gen_chao2', [v, m]),
                 ('api_gen_var_chao2', [v, m]), ('api_spec_chao1', [v]), ('api_spec_chao2', [v]),
                 ('api_spec_var_chao', [v])]
    outs = ctx.oracle.run_parallel(reqs)
    for k, v in enumerate(vecs):
        g1, gv1, g2, gv2, s1, s2, sv = outs[7 * k:7 * k + 7]
        ctx.count('len=%d' % min(len(v), 5))
        ctx.count('f2=0' if (len(v) < 2 or v[1] == 0) else 'f2>0')
        for cont in ('list', 'ndarray'):
            arg = list(v) if cont == 'list' else np.array(v)
            for name, f, gen, spec, extra in [
                    ('chao1', prs.chao1, g1, s1, ()), ('var_chao1', prs.var_chao1, gv1, sv, ()),
                    ('chao2', prs.chao2, g2, s2, (5,)), ('var_chao2', prs.var_chao2, gv2, sv, (5,))]:
                impl = call_impl(f, arg, *extra)
                nontriv = (v[0] > 0 and spec[0] == 0 and spec[1] != sum(v))
                ctx.case(sample=dict(func=name, counts=v, container=cont, impl=str(impl), spec=str(spec)) if nontriv else None,
                         nontrivial_key=(name, tuple(v)) if nontriv else None)
                if not _cmp_val(impl, spec):
                    ctx.violation('property', '%s(%s as %s) = %s but the closed form gives %s' %
                                  (name, v, cont, impl, 'NaN' if spec[0] == 1 else spec[1]),
                                  dict(func=name, counts=v, container=cont, impl=str(impl), expected=str(spec)),
                                  site='stats.' + name)
                    break
                if not _cmp_val(impl, gen):
                    ctx.violation('correspondence', 'generated model of %s disagrees with the implementation on %s: %s vs %s'
                                  % (name, v, gen, impl), dict(func=name, counts=v, impl=str(impl), model=str(gen)),
                                  site='stats.' + name)
        if k < 40:
            ctx.add_vm('api_gen_chao1', [v], g1)
            ctx.add_vm('api_spec_var_chao', [v], sv)
        if ctx.nprop() > 8:
            break

    # ---- set measures
    pool = [1, 2, 3, 4, 5]
    # Element kinds.  The model works on tokens; a token stands for one class of Python objects under ==/hash (the
    # elements of the collections are arbitrary hashable items compared by Python equality), so every kind maps a
    # token to the list of its interchangeable Python spellings and different tokens to unequal objects:
    #   num    plain numbers;   str  plain strings;
    #   tuple  paired-chain clonotypes (alpha, beta): all tokens are built from the same few chains, so two element
    #          sets can consist of exactly the same chains and still share no element;
    #   mixed  heterogeneous items: the integer 1 (== 1.0) is not the string '1', nor the tuple ('1',).
    reps = {'num': {t: [t] for t in pool},
            'str': {1: ['a'], 2: ['b'], 3: ['c'], 4: ['d'], 5: ['e']},
            'tuple': {1: [('a', 'b')], 2: [('b', 'a')], 3: [('a', 'a')], 4: [('b', 'b')], 5: [('a', 'c')]},
            'mixed': {1: [1, 1.0], 2: ['1'], 3: [2, 2.0], 4: ['2'], 5: [('1',)]}}
    for kd, table in reps.items():          # self-check of the tokenisation: same token <=> equal and equal hash
        flat = [(t, x) for t, xs in table.items() for x in xs]
        for (t1, x1), (t2, x2) in itertools.product(flat, flat):
            assert (t1 == t2) == (x1 == x2 and hash(x1) == hash(x2)), (kd, x1, x2)
    small = [list(c) for n in range(0, 4) for c in itertools.product([None] + pool[:3], repeat=n)]
    pairs = list(itertools.product(small, small))
    if ctx.quick:
        pairs = rng.sample(pairs, 900)
    for _ in range(100 if ctx.quick else 1500):
        pairs.append(([rng.choice([None] + pool) for _ in range(rng.randint(0, 9))],
                      [rng.choice([None] + pool) for _ in range(rng.randint(0, 9))]))
    reqs = []
    for A, B in pairs:
        reqs += [('api_jaccard', [A, B]), ('api_overlap', [A, B]), ('api_overlap_coefficient', [A, B])]
    outs = ctx.oracle.run_parallel(reqs)

    def realise(tokens, cont, kind, na=None):
        # the missing-value marker of string-like data varies: None, float nan, pd.NA (what .tolist() of a nullable column holds)
        vals = [(np.nan if kind == 'num' else na) if t is None else
                (reps[kind][t][0] if len(reps[kind][t]) == 1 else rng.choice(reps[kind][t])) for t in tokens]
        if cont == 'list':
            return vals
        if cont == 'tuple':
            return tuple(vals)
        if cont == 'set':
            return set(vals)
        if cont == 'series':
            return pd.Series(vals, dtype=float if kind == 'num' else object)
        raise ValueError(cont)

    def show(x):
        return repr(x.tolist()) + ' as Series' if isinstance(x, pd.Series) else repr(x)

    conts = [('list', 'list'), ('series', 'series'), ('tuple', 'list'), ('set', 'set'), ('list', 'series')]
    for k, (A, B) in enumerate(pairs):
        mj, mo, mc = outs[3 * k:3 * k + 3]
        hasna = (None in A) or (None in B)
        sa, sb = set(A) - {None}, set(B) - {None}
        nontriv = bool(sa & sb) and sa != sb
        ca, cb = conts[k % len(conts)]
        ctx.count('containers=%s/%s' % (ca, cb))
        ctx.count('with_missing' if hasna else 'no_missing')
        # overlap / overlap_coefficient: missing values anywhere (a Python set cannot hold two NaN objects reliably,
        # so missing values are given to sets as None)
        na = None if 'set' in (ca, cb) else [None, np.nan, pd.NA][(k // 7) % 3]
        ctx.count('missing_marker=%s' % ('None' if na is None else ('nan' if na is not pd.NA else 'pd.NA')))
        # every pair is run with a plain scalar kind and with a structured / heterogeneous kind
        for kind in ('str' if k % 2 else 'num', ('tuple', 'mixed')[(k // 5) % 2]):
            plain = kind in ('num', 'str')
            if kind == 'num' and 'set' in (ca, cb):
                kind = 'str'
            ctx.count('elements=%s' % kind)
            tag = () if plain else (kind,)
            a = realise(A, ca, kind, na)
            b = realise(B, cb, kind, na)
            for name, f, model in [('overlap', prs.overlap, mo), ('overlap_coefficient', prs.overlap_coefficient, mc)]:
                impl = call_impl(f, a, b)
                ctx.case(sample=dict(func=name, A=A, B=B, containers=[ca, cb], elements=kind, impl=str(impl), model=str(model))
                         if nontriv and k % 50 == 0 else None,
                         nontrivial_key=(name, tuple(A), tuple(B)) + tag if nontriv else None)
                ok = (impl[0] == 'ok' and ((name == 'overlap' and _is_count(impl[1], model)) or
                                           (name != 'overlap' and _cmp_val(impl, model))))
                if not ok:
                    ctx.violation('property', '%s(%s, %s) = %s, expected %s  [tokens %s as %s, %s as %s, %s elements]' %
                                  (name, show(a), show(b), impl, model, A, ca, B, cb, kind),
                                  dict(func=name, A=A, B=B, containers=[ca, cb], elements=kind, a=show(a), b=show(b),
                                       impl=str(impl), expected=str(model)),
                                  site='stats.%s[%s]' % (name, 'set' if 'set' in (ca, cb) else 'other'))
                # symmetry on the implementation
                impl2 = call_impl(f, b, a)
                if impl[0] == 'ok' and impl2[0] == 'ok' and not (impl[1] == impl2[1] or (impl[1] != impl[1] and impl2[1] != impl2[1])):
                    ctx.violation('property', '%s not symmetric on %s, %s' % (name, show(a), show(b)),
                                  dict(func=name, A=A, B=B, elements=kind, a=show(a), b=show(b)), site='stats.' + name)
            # jaccard: missing values only inside Series
            ja = realise(A, ca if (None not in A) else 'series', kind, na)
            jb = realise(B, cb if (None not in B) else 'series', kind, na)
            impl = call_impl(prs.jaccard_index, ja, jb)
            ctx.case(nontrivial_key=('jaccard', tuple(A), tuple(B)) + tag if nontriv else None)
            if mj is None:
                ok = impl[0] == 'exc' or (impl[0] == 'ok' and math.isnan(impl[1]))
            else:
                ok = impl[0] == 'ok' and close(impl[1], mj)
            if not ok:
                ctx.violation('property', 'jaccard_index(%s, %s) = %s, expected %s  [tokens %s, %s, %s elements]' %
                              (show(ja), show(jb), impl, mj, A, B, kind),
                              dict(func='jaccard_index', A=A, B=B, elements=kind, a=show(ja), b=show(jb),
                                   impl=str(impl), expected=str(mj)), site='stats.jaccard_index')
            elif mj is not None:
                impl2 = call_impl(prs.jaccard_index, jb, ja)
                if not (impl2[0] == 'ok' and impl2[1] == impl[1]):
                    ctx.violation('property', 'jaccard_index not symmetric on %s, %s: %s vs %s' % (show(ja), show(jb), impl, impl2),
                                  dict(func='jaccard_index', A=A, B=B, elements=kind, a=show(ja), b=show(jb)),
                                  site='stats.jaccard_index')
        if k < 30:
            ctx.add_vm('api_overlap', [A, B], mo)
            ctx.add_vm('api_jaccard', [A, B], mj)
        if ctx.nprop() > 8:
            break
    # ---- wide families (coverage audit): containers / dtypes / m / long vectors / refilled buffers for the Chao functions,
    # container variants / element kinds / missing-value markers / same object / in-place change / large sets for the set measures
    import time
    t0 = time.time()
    if ctx.nprop() <= 8:
        _wide_counts(ctx, prs, vecs[:nbase])
    t1 = time.time()
    if ctx.nprop() <= 8:
        _wide_sets(ctx, prs)
    ctx.note('wide families: count vectors %.1f s, set measures %.1f s' % (t1 - t0, time.time() - t1))
    ctx.assumptions += ['numpy sum / float64 division within 1e-9 of the exact rational',
                        'pandas Series.dropna and Python set semantics (modelled: set of non-missing values; elements are hashable '
                        'items identified by Python ==/hash)']


def replay(ctx, obj):
    import pyrepseq as prs
    r = obj['replay']
    fam = r.get('family')
    if fam == 'counts':                 # wide count-vector families: container, m and call style are in the record
        v, name = r['counts'], r['func']
        spec = ctx.oracle.run([(_COUNT_FUNCS[name][0], [v])])[0]
        cont = r['container']
        arg = None
        if cont.startswith('nd_int64 (one buffer'):
            arg = np.zeros(len(v), dtype=np.int64)
            arg[:] = v
        _check_count(ctx, prs, name, v, cont, tuple(r['m']), r['style'], spec, r.get('case_family', 'replay'), arg=arg)
    elif fam == 'sets':
        A, B = r['A'], r['B']
        _selfcheck_kinds()
        _check_sets(ctx, prs, A, r['spec_a'], B, r['spec_b'], _models(ctx, [(A, B)])[0], r.get('case_family', 'replay'), r.get('style', 'pos'))
    elif fam == 'sets-sameobj':
        _sameobj_case(ctx, prs, r['A'], r['B'], r['spec'])
    elif fam == 'sets-inplace':
        _inplace_case(ctx, prs, r['A1'], r['A2'], r['B'], r['spec'])
    elif fam == 'sets-large':
        _large_case(ctx, prs, {k: r[k] for k in ('c', 'a', 'b', 'elem', 'cont', 'seed', 'dups', 'nas')})
    elif 'counts' in r:
        f = getattr(prs, r['func'])
        extra = (5,) if r['func'].endswith('2') else ()
        arg = np.array(r['counts']) if r.get('container') == 'ndarray' else r['counts']
        impl = call_impl(f, arg, *extra)
        spec = ctx.oracle.run([('api_spec_chao1' if r['func'] == 'chao1' else 'api_spec_chao2' if r['func'] == 'chao2'
                                else 'api_spec_var_chao', [r['counts']])])[0]
        ctx.case(sample=r)
        if not _cmp_val(impl, spec):
            ctx.violation('property', 'replay still fails: %s(%s) = %s, closed form %s' % (r['func'], r['counts'], impl, spec), r)
    else:
        ctx.note('replay of set-measure cases: run the quick tier')
