"""C05 - pcDelta is the exact histogram of all pairwise distances.

Oracle = the extracted Coq model (coq/model/PcDelta.v through coq/extract/Api_c05.v):
  api_c05_counts      raw histogram (proved: bin t = number of unordered / cross pairs with distance in bin t)
  api_c05_spec_norm   the statement's normalisation formulas counts/total, (count+c)/(total+2c)
  api_c05_pcdelta     the whole function with the tail REGENERATED from distance.py (proved equal to the two above)
A difference between the implementation and the first two is a failing input of the property; a difference with
the third alone is a correspondence break."""
import itertools, math
from fractions import Fraction
import numpy as np
import pandas as pd
from core import call_impl, close

PCS = [Fraction(0), Fraction(1, 2), Fraction(1), Fraction(3)]
DEFAULT_EDGES = [Fraction(k) for k in range(25)]            # docstring: "Default: range(0, 25)"
KIND = {'alpha': 0, 'beta': 2, 'cdr3': 3}


# ---------------------------------------------------------------------------------------------- cases
def fr(x):
    return Fraction(x)


def case_rows(case):
    """Model elements (alpha, beta) of both collections."""
    def conv(c):
        if c is None:
            return None
        if case['kind'] == 'str':
            return [(s, '') for s in c]
        return [(a or '', b or '') for a, b in c]
    return conv(case['xs']), conv(case['ys'])


def model_metric(case):
    """(kind, wi, wd, ws) of the SPECIFIED metric: for metric=None the property names the default."""
    m = case['metric']
    if case['kind'] == 'str':
        return (0,) + tuple(m[1:]) if m[0] in ('wlev', 'custom') else (0, 1, 1, 1)
    if m[0] == 'default':
        cols = case['cols']
        return (3 if ('A' in cols and 'B' in cols) else 0 if 'A' in cols else 2, 1, 1, 1)
    return (KIND[m[0]],) + tuple(m[1:])


class _Custom:
    pass


def make_custom(wi, wd, ws, dtype='int64'):
    """A user-defined Metric: weighted edit distance by plain Python loops (exercises 'all Metric objects'); the arrays it returns
    may be of any numeric dtype that holds the (natural-number) distances."""
    from pyrepseq.metric import Metric
    from rapidfuzz.distance import Levenshtein as RL

    class LoopMetric(Metric):
        name = 'harness loop metric'

        def calc_cdist_matrix(self, anchors, comparisons):
            a, b = list(anchors), list(comparisons)
            return np.array([[RL.distance(x, y, weights=(wi, wd, ws)) for y in b] for x in a], dtype=np.dtype(dtype)).reshape(len(a), len(b))

        def calc_pdist_vector(self, instances):
            a = list(instances)
            return np.array([RL.distance(a[i], a[j], weights=(wi, wd, ws)) for i in range(len(a)) for j in range(i + 1, len(a))], dtype=np.dtype(dtype))
    return LoopMetric()


def make_metric(m, case=None):
    """case (optional) carries the spelling options: metric_kw (weights by keyword), custom_dtype"""
    case = case or {}
    from pyrepseq.metric import Levenshtein, WeightedLevenshtein
    from pyrepseq.metric.tcr_metric import AlphaCdr3Levenshtein, BetaCdr3Levenshtein, Cdr3Levenshtein
    if m[0] == 'default':
        return None
    if m[0] == 'lev':
        return Levenshtein()
    if m[0] == 'wlev':
        if case.get('metric_kw'):
            return WeightedLevenshtein(substitution_weight=m[3], deletion_weight=m[2], insertion_weight=m[1])
        return WeightedLevenshtein(*m[1:])
    if m[0] == 'custom':
        return make_custom(*m[1:], dtype=case.get('custom_dtype') or 'int64')
    cls = dict(alpha=AlphaCdr3Levenshtein, beta=BetaCdr3Levenshtein, cdr3=Cdr3Levenshtein)[m[0]]
    return cls(insertion_weight=m[1], deletion_weight=m[2], substitution_weight=m[3])


def str_container(c, cont, idx):
    """a collection of strings in one of the admissible container kinds"""
    if cont == 'ndarray':
        return np.array(c, dtype=object)
    if cont == 'ustr':                                  # numpy unicode array
        return np.array(c, dtype='<U%d' % max([1] + [len(x) for x in c]))
    if cont == 'tuple' and len(c) != 2:                 # (a tuple of exactly two items is the legacy paired-chain form)
        return tuple(c)
    if cont == 'index':
        return pd.Index(c, dtype=object)
    if cont in ('series', 'series_string', 'series_cat'):
        sr = pd.Series(c, index=idx or range(len(c)), dtype=object)
        return sr.astype('string') if cont == 'series_string' else sr.astype('category') if cont == 'series_cat' else sr
    if cont == 'set':                                   # generators give distinct elements and a symmetric metric here
        return set(c)
    return list(c)


def make_coll(case, which):
    c = case[which]
    if c is None:
        return None
    cont = (case.get('container_ys') if which == 'ys' else None) or case.get('container', 'list')
    if case['kind'] == 'str':
        return str_container(c, cont, case.get('index_' + which))
    if case['kind'] == 'tuple':
        a, b = [a for a, b in c], [b for a, b in c]
        parts = case.get('tuple_parts', 'list')
        if parts == 'series':                           # two Series whose indexes differ: rows pair up by POSITION
            n = len(c)
            return (pd.Series(a, index=list(range(n))[::-1], dtype=object), pd.Series(b, index=['r%d' % i for i in range(n)], dtype=object))
        if parts == 'mixed':
            return (np.array(a, dtype=object), pd.Series(b, index=list(range(5, 5 + len(c))), dtype=object))
        if parts == 'ndarray':
            return (np.array(a, dtype=object), np.array(b, dtype=object))
        return (a, b)
    cols = (case.get('cols_ys') if which == 'ys' else None) or case['cols']
    d = {}
    for k, name in enumerate((case.get('extra_ys') if which == 'ys' and case.get('extra_ys') is not None else case.get('extra', []))):
        d[name] = ['TRXV%d' % (i % 3) for i in range(len(c))]
    if 'A' in cols:
        d['CDR3A'] = [a for a, b in c]
    if 'B' in cols:
        d['CDR3B'] = [b for a, b in c]
    order = list(d)
    if case.get('colperm') is not None:
        # the metric is chosen from the columns PRESENT, not from their order: beta left of alpha, metadata in between
        order = order[::-1] if case['colperm'] == 'reverse' else order[1:] + order[:1]
    df = pd.DataFrame(d, columns=order)
    if case.get('df_dtype'):
        df = df.astype(case['df_dtype'])
    idx = case.get('index_' + which)
    if idx is not None:
        df.index = idx
    return df


def make_bins(case):
    b = case['bins']
    if b is None:
        return None
    vals = [fr(x) for x in b]
    allint = all(v.denominator == 1 for v in vals)
    cont = case.get('bins_container', 'list')
    py = [int(v) if allint else float(v) for v in vals]
    if cont == 'range' and allint and all(vals[i + 1] - vals[i] == 1 for i in range(len(vals) - 1)):
        return range(int(vals[0]), int(vals[-1]) + 1)
    if cont == 'ndarray':
        return np.array(py)
    if cont == 'tuple':
        return tuple(py)
    if cont == 'series':
        return pd.Series(py)
    if cont == 'index':
        return pd.Index(py)
    if cont in ('u8', 'i16', 'i32') and allint and 0 <= min(vals) and max(vals) < dict(u8=256, i16=2 ** 15, i32=2 ** 31)[cont]:
        return np.array(py, dtype=dict(u8=np.uint8, i16=np.int16, i32=np.int32)[cont])
    if cont == 'f32' and all(v.denominator in (1, 2) and abs(v) < 2 ** 20 for v in vals):
        return np.array([float(v) for v in vals], dtype=np.float32)
    if cont == 'f64':
        return np.array([float(v) for v in vals], dtype=np.float64)
    if cont == 'floats':
        return [float(v) for v in vals]
    if cont == 'npscalars':
        return [np.int64(int(v)) if v.denominator == 1 else np.float64(float(v)) for v in vals]
    return py


PARAMS = ['seqs2', 'metric', 'bins', 'normalize', 'pseudocount', 'maxseqs']                                      # signature order after seqs
SIG_DEFAULTS = dict(seqs2=None, metric=None, bins=None, normalize=True, pseudocount=0.0, maxseqs=None)       # as documented


def pseudo_value(case):
    q = fr(case['pseudocount'])
    kind = case.get('pseudo_kind', 'float')
    if kind == 'int' and q.denominator == 1:
        return int(q)
    if kind == 'f64':
        return np.float64(float(q))
    if kind == 'f32' and Fraction(float(np.float32(float(q)))) == q:
        return np.float32(float(q))
    return float(q)


def call_args(case, **over):
    """(args, kwargs) of the pcDelta call this case stands for"""
    kw = {}
    xs = make_coll(case, 'xs')
    ys = xs if (case.get('same') == 'object' and case['ys'] is not None) else make_coll(case, 'ys')
    m = make_metric(case['metric'], case)
    if m is not None:
        kw['metric'] = m
    b = make_bins(case)
    if b is not None:
        kw['bins'] = b
    if case['normalize'] is not None:
        kw['normalize'] = np.bool_(case['normalize']) if case.get('normalize_kind') == 'npbool' else case['normalize']
    if case['pseudocount'] is not None:
        kw['pseudocount'] = pseudo_value(case)
    if case.get('maxseqs') is not None:
        kw['maxseqs'] = np.int64(case['maxseqs']) if case.get('maxseqs_kind') == 'np' else case['maxseqs']
    kw.update(over)
    sp = case.get('spelling', 'kw')
    if sp == 'positional':                  # every argument by position, the documented defaults for those in between
        given = dict(kw)
        if ys is not None:
            given['seqs2'] = ys
        last = max([PARAMS.index(k) for k in given] + [-1])
        return [xs] + [given.get(k, SIG_DEFAULTS[k]) for k in PARAMS[:last + 1]], {}
    if sp == 'allkw':
        kw['seqs'] = xs
        if ys is not None:
            kw['seqs2'] = ys
        return [], kw
    if sp == 'seqs2kw' and ys is not None:
        kw['seqs2'] = ys
        return [xs], kw
    return ([xs, ys] if ys is not None else [xs]), kw


def call_pcdelta(case, **over):
    import pyrepseq as prs
    args, kw = call_args(case, **over)
    return call_impl(prs.pcDelta, *args, **kw)


def oracle_requests(case):
    rows, rows2 = case_rows(case)
    kind, wi, wd, ws = model_metric(case)
    edges = DEFAULT_EDGES if case['bins'] is None else [fr(x) for x in case['bins']]
    norm = True if case['normalize'] is None else case['normalize']
    c = Fraction(0) if case['pseudocount'] is None else fr(case['pseudocount'])
    return [('api_c05_counts', [kind, wi, wd, ws, rows, rows2, edges]),
            ('api_c05_pcdelta', [kind, wi, wd, ws, rows, rows2, None if case['bins'] is None else edges, norm, c])]


def expected_from(case, counts, ctx):
    """The statement's value for this input, from the proved raw counts."""
    norm = True if case['normalize'] is None else case['normalize']
    c = Fraction(0) if case['pseudocount'] is None else fr(case['pseudocount'])
    if not norm:
        return [Fraction(x) for x in counts]
    if c == 0 and sum(counts) == 0:
        return [None] * len(counts)
    return ctx.oracle.run([('api_c05_spec_norm', [c, counts])])[0]


def vec_ok(impl, exp, integral=False):
    if impl[0] != 'ok':
        return False
    v = impl[1]
    if not isinstance(v, np.ndarray) or v.ndim != 1 or len(v) != len(exp):
        return False
    if integral and not np.issubdtype(v.dtype, np.integer):
        return False
    for x, q in zip(v.tolist(), exp):
        if q is None:
            if isinstance(x, int) or math.isfinite(x):
                return False
        elif isinstance(x, int):
            if Fraction(x) != q:
                return False
        elif not close(x, q):
            return False
    return True


def show(impl):
    if impl[0] == 'ok' and isinstance(impl[1], np.ndarray):
        return [round(float(x), 6) if not float(x).is_integer() else int(x) for x in impl[1].tolist()[:30]]
    return impl


def trim(v):
    v = list(v)
    while v and v[-1] == 0:
        v.pop()
    return v


def describe(case):
    s = 'pcDelta(%s' % (case['xs'] if len(repr(case['xs'])) < 300 else repr(case['xs'])[:300] + '...')
    if case['ys'] is not None:
        s += ', %s' % (case['ys'],)
    if case['kind'] != 'str':
        s += ' [%s%s]' % (case['kind'], ' columns ' + case['cols'] if case['kind'] == 'tcr' else '')
    for k in ('metric', 'bins', 'normalize', 'pseudocount', 'maxseqs'):
        if case.get(k) is not None and not (k == 'metric' and case[k][0] == 'default'):
            v = case[k]
            if k == 'bins' and len(v) > 3 and all('/' not in x for x in v) and all(int(v[i + 1]) - int(v[i]) == 1 for i in range(len(v) - 1)):
                v = 'range(%s, %d)' % (v[0], int(v[-1]) + 1)
            s += ', %s=%s' % (k, v)
    s += ')'
    opts = ['%s=%s' % (k, case[k]) for k in OPTION_KEYS if case.get(k) not in (None, [], 'list', 'kw', 'float')]
    return s + (' {%s}' % ', '.join(opts) if opts else '')


# how the arguments are spelled / what they are made of (none of it may matter for the result)
OPTION_KEYS = ['container', 'container_ys', 'index_xs', 'index_ys', 'same', 'spelling', 'bins_container', 'normalize_kind', 'pseudo_kind', 'maxseqs_kind',
               'metric_kw', 'custom_dtype', 'tuple_parts', 'cols_ys', 'df_dtype', 'extra', 'extra_ys', 'colperm']


def eval_case(ctx, case, outs=None):
    """-> None if the implementation agrees with the specification on this input, else (kind, message)."""
    if outs is None:
        outs = ctx.oracle.run(oracle_requests(case))
    counts, model = outs
    if isinstance(counts, Exception) or isinstance(model, Exception):
        return ('correspondence', 'oracle rejected %s: %s' % (describe(case), counts))
    exp = expected_from(case, counts, ctx)
    impl = call_pcdelta(case)
    norm = True if case['normalize'] is None else case['normalize']
    if not vec_ok(impl, exp, integral=not norm):
        what = 'raw counts' if not norm else 'normalised histogram'
        return ('property', '%s = %s but the %s of all %s pairs is %s (raw counts %s)' % (
            describe(case), show(impl), what, 'cross' if case['ys'] is not None else 'unordered',
            ['nan' if q is None else str(q) for q in exp], counts))
    if not vec_ok(impl, model):
        return ('correspondence', '%s = %s, specification satisfied, but the regenerated model gives %s' % (
            describe(case), show(impl), [str(q) for q in model]))
    return None


def shrink(ctx, case):
    """Greedy: drop elements, then simplify parameters, while the property still fails."""
    def fails(c):
        try:
            r = eval_case(ctx, c)
        except Exception:
            return False
        return r is not None and r[0] == 'property'
    cur = dict(case)
    for _ in range(4):
        changed = False
        for which in ('xs', 'ys'):
            if cur[which] is None or (which == 'ys' and cur.get('same') == 'object'):
                continue
            i = 0
            while i < len(cur[which]) and len(cur[which]) > (2 if which == 'xs' else 1):
                cand = dict(cur)
                cand[which] = cur[which][:i] + cur[which][i + 1:]
                for k in ('index_' + which,):
                    if cand.get(k) is not None:
                        cand[k] = None
                if which == 'xs' and cur.get('same') == 'object' and cur['ys'] is not None:
                    cand['ys'] = list(cand['xs'])
                if fails(cand):
                    cur, changed = cand, True
                else:
                    i += 1
        for k, v in (('container', 'list'), ('container_ys', None), ('bins_container', 'list'), ('index_xs', None), ('index_ys', None), ('extra', []),
                     ('extra_ys', None), ('spelling', 'kw'), ('normalize_kind', None), ('pseudo_kind', 'float'), ('metric_kw', None), ('custom_dtype', None),
                     ('tuple_parts', 'list'), ('df_dtype', None), ('cols_ys', None), ('same', None)):
            if cur.get(k) not in (None, v, []):
                cand = dict(cur)
                cand[k] = v
                if fails(cand):
                    cur, changed = cand, True
        if not changed:
            break
    return cur


# ---------------------------------------------------------------------------------------------- generators
def rand_strings(rng, n, alphabet, maxlen, dup=0.3):
    out = []
    for _ in range(n):
        if out and rng.random() < dup:
            s = rng.choice(out)
            if rng.random() < 0.5 and s:        # near-duplicate
                i = rng.randrange(len(s))
                s = s[:i] + rng.choice(alphabet) + s[i + rng.choice([0, 1]):]
            out.append(s)
        else:
            out.append(''.join(rng.choice(alphabet) for _ in range(rng.randint(0, maxlen))))
    return out


def rand_edges(rng, maxd):
    """increasing edge vectors: consecutive integers, random integers, half-integers, mixed; first edge above 0 and
    last edge below the largest distance with positive probability"""
    style = rng.choice(['range', 'range', 'ints', 'halves', 'mixed', 'range_from', 'far'])
    hi = max(2, maxd + rng.choice([-3, -2, -1, 0, 1, 2]))
    if style == 'far':          # every distance outside the edges: total 0
        lo = 2 * maxd + 40
        return [str(lo + k) for k in range(rng.randint(2, 4))], rng.choice(['list', 'ndarray'])
    if style == 'range':
        return [str(k) for k in range(0, rng.randint(2, max(3, hi)) + 1)], rng.choice(['range', 'list', 'ndarray', 'tuple'])
    if style == 'range_from':
        lo = rng.randint(1, 3)
        return [str(k) for k in range(lo, lo + rng.randint(1, max(2, hi)) + 1)], rng.choice(['range', 'list', 'ndarray'])
    k = rng.randint(2, 7)
    if style == 'ints':
        vals = sorted(rng.sample(range(0, hi + 4), min(k, hi + 4)))
    elif style == 'halves':
        vals = sorted(Fraction(2 * v + 1, 2) for v in rng.sample(range(-1, hi + 3), min(k, hi + 4)))
    else:
        vals = sorted(set(Fraction(v, 2) for v in rng.sample(range(-1, 2 * hi + 6), min(k, 2 * hi + 7))))
    if len(vals) < 2:
        vals = [Fraction(0), Fraction(1)]
    return [str(Fraction(v)) for v in vals], rng.choice(['list', 'ndarray', 'tuple'])


def rand_params(rng, case, maxd):
    case['normalize'] = rng.choice([True, False, None])
    case['pseudocount'] = str(rng.choice(PCS)) if rng.random() < 0.7 else None
    r = rng.random()
    if r < 0.12:
        case['bins'], case['bins_container'] = None, 'list'
    else:
        case['bins'], case['bins_container'] = rand_edges(rng, maxd)
    return case


def gen_string_case(rng, big=False):
    alphabet = rng.choice(['AB', 'ACD', 'ACDEFGHIKLMNPQRSTVWY', 'Cé中'])
    n = rng.randint(2, 40 if big else 9)
    maxlen = rng.choice([1, 3, 6, 12 if big else 7])
    case = dict(kind='str', xs=rand_strings(rng, n, alphabet, maxlen), ys=None, cols=None)
    if rng.random() < 0.4:
        case['ys'] = rand_strings(rng, rng.randint(1, 12 if big else 6), alphabet, maxlen) + rng.sample(case['xs'], 1)
    m = rng.random()
    if m < 0.3:
        case['metric'] = ['default']
    elif m < 0.5:
        case['metric'] = ['lev']
    elif m < 0.85:
        case['metric'] = ['wlev'] + [rng.choice([1, 1, 2, 3, 5]) for _ in range(3)]
    else:
        case['metric'] = ['custom'] + [rng.choice([1, 2, 3]) for _ in range(3)]
    case['container'] = rng.choice(['list', 'list', 'ndarray', 'series'])
    if case['container'] == 'series' and rng.random() < 0.5:
        idx = list(range(100, 100 + len(case['xs'])))
        rng.shuffle(idx)
        case['index_xs'] = idx
    w = case['metric'][1:] or [1, 1, 1]
    return rand_params(rng, case, maxlen * max(w))


def gen_tcr_case(rng, big=False):
    n = rng.randint(2, 25 if big else 8)
    a = rand_strings(rng, n, 'ACS', 5)
    b = rand_strings(rng, n, 'ACS', 5)
    form = rng.random()
    case = dict(kind='tcr', xs=[list(p) for p in zip(a, b)], ys=None, cols=rng.choice(['A', 'B', 'AB', 'AB']))
    if rng.random() < 0.4:
        case['colperm'] = rng.choice(['reverse', 'rotate'])
    if form < 0.2:
        case['kind'], case['cols'] = 'tuple', 'AB'
    if rng.random() < 0.4:
        n2 = rng.randint(1, 6)
        case['ys'] = [list(p) for p in zip(rand_strings(rng, n2, 'ACS', 5), rand_strings(rng, n2, 'ACS', 5))] + [list(case['xs'][0])]
    m = rng.random()
    if m < 0.5:
        case['metric'] = ['default']
    else:
        ok = [k for k, need in (('alpha', 'A'), ('beta', 'B')) if need in case['cols']] + (['cdr3'] if case['cols'] == 'AB' else [])
        case['metric'] = [rng.choice(ok)] + ([1, 1, 1] if rng.random() < 0.5 else [rng.choice([1, 2, 3]) for _ in range(3)])
    if case['kind'] == 'tcr':
        if rng.random() < 0.5:
            idx = list(range(len(case['xs'])))
            rng.shuffle(idx)
            case['index_xs'] = idx if rng.random() < 0.5 else ['r%d' % i for i in idx]
        if rng.random() < 0.4:
            case['extra'] = rng.choice([['TRBV'], ['TRAV', 'TRBJ']])
    w = case['metric'][1:] or [1, 1, 1]
    return rand_params(rng, case, 5 * max(w) * (2 if 'AB' == case['cols'] else 1))


# ---------------------------------------------------------------------------------------------- wider inputs (coverage audit)
# Input kinds the generators above never produce: further containers (numpy unicode array, tuple, pandas Index, Series with string / duplicated
# labels, 'string' and 'category' dtype, a set), a different container / index for the second collection, the SAME object as both collections,
# arguments by position / all by keyword, bin edges as Series / Index / uint8 / int16 / int32 / float32 / float64 arrays / NumPy scalars,
# numpy.bool_ for normalize, further pseudocounts (tiny, large, non-dyadic, int / numpy scalar typed), weights that push distances beyond
# 255 and 65535, strings that differ by case / blanks / symbols only, strings longer than 64 / 127 / 255 residues, distances exactly
# on the last default edge, tables whose second argument has more columns / its own index / extra columns, the legacy tuple made of Series.
WIDE_ALPHABETS = ['AB', 'ACDEFGHIKLMNPQRSTVWY', 'aAbB', 'A a', 'Cé中', 'AC-*', 'O0', 'ac']
STR_CONTAINERS = ['list', 'ndarray', 'ustr', 'tuple', 'index', 'series', 'series', 'series_string', 'series_cat']
BINS_CONTAINERS = ['list', 'ndarray', 'tuple', 'range', 'series', 'index', 'u8', 'i16', 'i32', 'f32', 'f64', 'floats', 'npscalars']
WIDE_PCS = ['0', '1/2', '1', '3', '1/10', '1/1000', '1/1000000', '7/3', '250', '100000', '2']
THRESHOLDS = [0, 1, 2, 24, 25, 63, 64, 65, 127, 128, 129, 254, 255, 256, 257, 511, 512, 32767, 32768, 65535, 65536, 65537]


def rand_index(rng, n):
    r = rng.random()
    if r < 0.3:
        idx = list(range(100, 100 + n))
        rng.shuffle(idx)
        return idx
    if r < 0.6:
        idx = ['r%d' % i for i in range(n)]
        rng.shuffle(idx)
        return idx
    if r < 0.85:
        return [rng.randrange(2) for _ in range(n)]             # duplicated labels (e.g. after pandas.concat)
    return list(range(1, n + 1))                                # shifted by one: label i is position i - 1


def big_edges(rng, weights, maxlen):
    """increasing edges around the sizes where a narrow integer type wraps and around the attainable distances"""
    wi, wd, ws = weights
    att = sorted({a * wi + b * wd + c * ws for a in range(maxlen + 1) for b in range(maxlen + 1) for c in range(maxlen + 1) if a + b + c <= maxlen and max(a, b) + c <= maxlen})
    pool = set(THRESHOLDS)
    for v in rng.sample(att, min(len(att), 6)):
        pool |= {v, v + 1, max(0, v - 1)}
    vals = sorted(rng.sample(sorted(pool), rng.randint(2, min(9, len(pool)))))
    if rng.random() < 0.6:
        vals = sorted(set(vals) | {0, att[-1] + 1})              # covering: every pair is counted
    return [str(v) for v in vals]


def rand_params_wide(rng, case, maxd, edges=None):
    case['normalize'] = rng.choice([True, False, None])
    if case['normalize'] is not None and rng.random() < 0.3:
        case['normalize_kind'] = 'npbool'
    if rng.random() < 0.75:
        case['pseudocount'] = rng.choice(WIDE_PCS)
        case['pseudo_kind'] = rng.choice(['float', 'float', 'int', 'f64', 'f32'])
    else:
        case['pseudocount'] = None
    if edges is not None:
        case['bins'] = edges
    elif rng.random() < 0.12:
        case['bins'] = None
    else:
        case['bins'], _ = rand_edges(rng, maxd)
    case['bins_container'] = rng.choice(BINS_CONTAINERS)
    case['spelling'] = rng.choice(['kw', 'kw', 'positional', 'positional', 'allkw', 'seqs2kw'])
    return case


def gen_wide_string_case(rng):
    alphabet = rng.choice(WIDE_ALPHABETS)
    n = rng.randint(2, 10)
    maxlen = rng.choice([1, 3, 6])
    case = dict(kind='str', xs=rand_strings(rng, n, alphabet, maxlen), ys=None, cols=None)
    case['container'] = rng.choice(STR_CONTAINERS)
    r = rng.random()
    if r < 0.15:                                # the same object as both collections: N * N cross pairs, the diagonal included
        case['ys'], case['same'] = list(case['xs']), 'object'
    elif r < 0.25:                              # an equal copy
        case['ys'] = list(case['xs'])
    elif r < 0.55:
        case['ys'] = rand_strings(rng, rng.randint(1, 6), alphabet, maxlen) + (rng.sample(case['xs'], 1) if rng.random() < 0.7 else [])
    if case['ys'] is not None and case.get('same') is None:
        case['container_ys'] = rng.choice(STR_CONTAINERS)
    m = rng.random()
    edges = None
    if m < 0.25:
        case['metric'] = ['default']
    elif m < 0.35:
        case['metric'] = ['lev']
    elif m < 0.6:
        case['metric'] = ['wlev'] + [rng.choice([1, 1, 2, 3, 5]) for _ in range(3)]
        case['metric_kw'] = rng.random() < 0.5
    elif m < 0.8:                               # distances beyond 255 (and, rarely, beyond 65535) from short strings
        huge = rng.random() < 0.12
        base = rng.choice([30000, 40000]) if huge else rng.choice([100, 128, 255, 256, 300, 1000])
        w = [base + rng.choice([0, 0, 1, 7]) for _ in range(3)]
        if rng.random() < 0.5:
            w[rng.randrange(3)] = rng.choice([1, 2])
        case['metric'] = [rng.choice(['wlev', 'wlev', 'custom'])] + w
        ml = 2 if huge else 3
        case['xs'] = rand_strings(rng, 3 if huge else rng.randint(2, 5), alphabet, ml)
        if case['ys'] is not None:
            case['ys'] = list(case['xs']) if case.get('same') or rng.random() < 0.3 else rand_strings(rng, rng.randint(1, 3), alphabet, ml)
        edges = big_edges(rng, w, ml)
    else:
        case['metric'] = ['custom'] + [rng.choice([1, 2, 3]) for _ in range(3)]
        case['custom_dtype'] = rng.choice(['int64', 'float64', 'uint8', 'int32', 'uint16'])
    if rng.random() < 0.12 and case.get('same') is None:
        # a set: its elements are the positions (symmetric metric: no order is defined)
        case['xs'] = sorted(set(case['xs']) | {'A', 'B'})
        case['container'] = 'set'
        if case['metric'][0] in ('wlev', 'custom'):
            case['metric'][2] = case['metric'][1]
        if case['ys'] is not None and rng.random() < 0.5:
            case['ys'] = sorted(set(case['ys']))
            case['container_ys'] = 'set'
    for which in ('xs', 'ys'):
        cont = case.get('container_ys') if which == 'ys' and case.get('container_ys') else case['container']
        if case[which] is not None and cont.startswith('series') and rng.random() < 0.7 and not (which == 'ys' and case.get('same')):
            case['index_' + which] = rand_index(rng, len(case[which]))
    w = case['metric'][1:] or [1, 1, 1]
    return rand_params_wide(rng, case, maxlen * max(w), edges)


def gen_wide_tcr_case(rng):
    case = gen_tcr_case(rng)
    if case['kind'] == 'tuple':
        case['tuple_parts'] = rng.choice(['series', 'mixed', 'ndarray', 'list'])
    else:
        if case['ys'] is not None:
            r = rng.random()
            if r < 0.5:
                case['index_ys'] = rand_index(rng, len(case['ys']))
            if case['cols'] in ('A', 'B') and rng.random() < 0.5:
                # the second table has both chains, the first one only one: only that chain's metric is defined on both
                case['cols_ys'] = 'AB'
            if rng.random() < 0.4:
                case['extra_ys'] = rng.choice([[], ['TRBJ'], ['TRAV', 'TRAJ', 'TRBV']])
        elif rng.random() < 0.25:
            case['ys'], case['same'] = [list(r) for r in case['xs']], 'object'
        if rng.random() < 0.4:
            case['index_xs'] = rand_index(rng, len(case['xs']))
        if rng.random() < 0.3:
            case['df_dtype'] = rng.choice(['string', 'category'])
    w = case['metric'][1:] or [1, 1, 1]
    rand_params_wide(rng, case, 5 * max(w) * (2 if 'AB' == case['cols'] else 1))
    return case


def mutate_long(rng, s, alphabet):
    s = list(s)
    for _ in range(rng.randint(1, 4)):
        op = rng.choice('ids')
        i = rng.randrange(len(s) + 1)
        if op == 'i':
            s.insert(i, rng.choice(alphabet))
        elif s and op == 'd':
            del s[min(i, len(s) - 1)]
        elif s:
            s[min(i, len(s) - 1)] = rng.choice(alphabet)
    return ''.join(s)


def gen_long_case(rng, lengths):
    """strings longer than 64 / 127 / 255 residues (other code paths of the edit-distance engine, distances that do not fit a byte)"""
    alphabet = rng.choice(['AC', 'ACDEFGHIKLMNPQRSTVWY', 'Cé'])
    L = rng.choice(lengths)
    base = ''.join(rng.choice(alphabet) for _ in range(L))
    xs = [base, mutate_long(rng, base, alphabet)]
    r = rng.random()
    if r < 0.5:
        xs.append(''.join(rng.choice(alphabet) for _ in range(rng.choice(lengths))))       # unrelated: a large distance
    if r > 0.25:
        xs.append(rng.choice(['', base[:L // 2], base[::-1], alphabet[0] * L]))
    rng.shuffle(xs)
    tcr = rng.random() < 0.25
    if tcr:
        cols = rng.choice(['A', 'B', 'AB'])
        short = rand_strings(rng, len(xs), 'ACS', 4)
        rows = [[x, t] if cols != 'B' else [t, x] for x, t in zip(xs, short)]
        case = dict(kind='tcr', xs=rows, ys=None, cols=cols, metric=['default'] if rng.random() < 0.6 else [dict(A='alpha', B='beta', AB='cdr3')[cols], 1, 1, 1])
        if rng.random() < 0.3:
            case['ys'] = [list(rng.choice(rows))] + [['AC', 'CA']]
    else:
        case = dict(kind='str', xs=xs, ys=None, cols=None, container=rng.choice(['list', 'ndarray', 'ustr', 'series']))
        if rng.random() < 0.3:
            case['ys'] = [rng.choice(xs), mutate_long(rng, base, alphabet)][:rng.randint(1, 2)]
        case['metric'] = rng.choice([['default'], ['default'], ['lev'], ['wlev', 1, 1, 2], ['wlev', 2, 1, 1], ['wlev', 1, 3, 2]])
    wmax = max(case['metric'][1:] or [1])
    maxd = (max(len(x) for x in xs) + 4) * wmax
    r = rng.random()
    if r < 0.2:
        edges = None
    elif r < 0.5:
        edges = [str(k) for k in range(0, maxd + 2)]                                   # one bin per distance
    else:
        pool = sorted({v for v in THRESHOLDS + [3, 4, 5, L - 1, L, L + 1, L // 2, 2 * L, maxd, maxd + 1] if 0 <= v <= maxd + 1})
        edges = [str(v) for v in sorted(rng.sample(pool, rng.randint(2, min(8, len(pool)))))]
    rand_params_wide(rng, case, maxd, edges)
    if edges is None:
        case['bins'] = None
    return case


def gen_default_edge_case(rng):
    """distances exactly on and next to the last default edge (24 belongs to the last bin, 25 is outside), default bins and the background bins"""
    lens = rng.sample([0, 0, 1, 2, 22, 23, 24, 25, 26, 47, 48, 49, 50], rng.randint(2, 6))
    ch = rng.choice('AC')
    xs = [ch * k for k in lens]
    if rng.random() < 0.5:
        xs.append(ch * 24)
        xs.append('')
    rng.shuffle(xs)
    if rng.random() < 0.3:
        half = [[x[:len(x) // 2], x[len(x) // 2:]] for x in xs]                        # summed alpha + beta distances reach 24 / 25
        case = dict(kind='tcr', xs=half, ys=None, cols='AB', metric=['default'])
    else:
        case = dict(kind='str', xs=xs, ys=None, cols=None, metric=rng.choice([['default'], ['lev']]), container=rng.choice(['list', 'ndarray', 'series']))
    if rng.random() < 0.4:
        case['ys'] = [rng.choice(case['xs']), case['xs'][0]][:rng.randint(1, 2)] + ([['', '']] if case['kind'] == 'tcr' else [''])
    rand_params_wide(rng, case, 50, edges=None)
    case['bins'] = None if rng.random() < 0.7 else [str(k) for k in range(25)]
    return case


# ---------------------------------------------------------------------------------------------- the check
def report(ctx, case, res, site):
    kind, msg = res
    if kind == 'property':
        small = shrink(ctx, case)
        r2 = eval_case(ctx, small)
        if r2 is not None and r2[0] == 'property':
            case, msg = small, r2[1]
    ctx.violation(kind, msg, dict(case=case), site=site)


def count_options(ctx, case):
    """evidence: which spellings / containers / sizes ran"""
    for k in OPTION_KEYS:
        v = case.get(k)
        if v in (None, [], False, 'list', 'kw', 'float'):
            continue
        ctx.count('opt:%s%s' % (k, '' if isinstance(v, list) or v is True else '=%s' % v))
    if case.get('pseudocount') not in (None, '0', '1/2', '1', '3'):
        ctx.count('opt:pseudocount=%s' % case['pseudocount'])
    flat = [x if isinstance(x, str) else x[0] + x[1] for c in (case['xs'], case['ys'] or []) for x in c]
    L = max([len(x) for x in flat] + [0])
    if L > 64:
        ctx.count('opt:longest_string>%d' % (255 if L > 255 else 127 if L > 127 else 64))
    w = max(case['metric'][1:] or [1])
    if w >= 100:
        ctx.count('opt:weights>=%d' % (30000 if w >= 30000 else 100))
    if case.get('maxseqs') is not None:
        ctx.count('opt:maxseqs')


def run_cases(ctx, cases, site, vm_every=0):
    reqs = []
    for c in cases:
        reqs += oracle_requests(c)
    outs = ctx.oracle.run_parallel(reqs)
    for k, case in enumerate(cases):
        o = outs[2 * k:2 * k + 2]
        counts = o[0] if not isinstance(o[0], Exception) else []
        npairs = (len(case['xs']) * (len(case['xs']) - 1) // 2) if case['ys'] is None else len(case['xs']) * len(case['ys'])
        nt = sum(1 for x in counts if x) >= 2 and len(case['xs']) >= 3
        ctx.count('metric=' + case['metric'][0])
        ctx.count('bins=' + ('None' if case['bins'] is None else 'half' if any('/' in x for x in case['bins']) else 'int'))
        ctx.count('normalize=%s' % case['normalize'])
        ctx.count('pseudocount=%s' % case['pseudocount'])
        ctx.count('two_collections' if case['ys'] is not None else 'one_collection')
        ctx.count('input=' + case['kind'] + ('/' + case['cols'] if case['cols'] else ''))
        if sum(counts) < npairs:
            ctx.count('some_distance_outside_edges')
        count_options(ctx, case)
        ctx.case(sample=dict(call=describe(case), counts=counts) if nt and k % 97 == 0 else None,
                 nontrivial_key=(describe(case),) if nt else None)
        res = eval_case(ctx, case, o)
        if res is not None:
            # a correspondence-only break (e.g. the tail translator refused and the model is a stub) must not stop
            # the search for an input on which the PROPERTY fails
            if res[0] == 'property' or sum(1 for v in ctx.violations if v['kind'] == 'correspondence') < 3:
                report(ctx, case, res, site)
            if sum(1 for v in ctx.violations if v['kind'] == 'property') >= 2:
                return False
        elif vm_every and k % vm_every == 0 and len(case['xs']) <= 6:
            r = oracle_requests(case)[1]
            ctx.add_vm(r[0], r[1], o[1])
    return True


def exhaustive_cases(rng, quick):
    pool = ['', 'A', 'B', 'AA', 'AB', 'BA']
    out = []
    for n in ((2, 3) if quick else (2, 3, 4)):
        for xs in itertools.product(pool, repeat=n):
            case = dict(kind='str', xs=list(xs), ys=None, cols=None, metric=[rng.choice(['default', 'lev'])], container='list')
            if rng.random() < 0.25:
                case['ys'] = [rng.choice(pool) for _ in range(rng.randint(1, 3))]
            case['normalize'] = rng.choice([True, False])
            case['pseudocount'] = str(rng.choice(PCS))
            case['bins'], case['bins_container'] = rng.choice([
                (['0', '1', '2', '3'], 'range'), (['0', '1', '2'], 'list'), (['1', '2', '3'], 'ndarray'),
                (['1/2', '3/2', '2'], 'list'), (['-1/2', '1/2', '5/2'], 'ndarray'), (['0', '1'], 'list'), (['0', '2', '3'], 'tuple'), (['7', '8', '9'], 'list')])
            out.append(case)
    # an EMPTY second collection is a second collection: every cross count is 0 (and with a pseudocount c every bin c / 2c), it is not "no second
    # collection" (seeded change C05-r8m2); edge vectors that are equally spaced only ALMOST stay the edges given (seeded change C05-r8m3: an
    # equal-width shortcut taken when np.allclose says so moves integer distances sitting on an edge into the bin below)
    for cont in ('list', 'ndarray', 'series'):
        for norm, pc_ in ((False, None), (True, '1/2'), (None, '1')):
            out.append(dict(kind='str', xs=['A', 'AB', 'A', 'BAB'], ys=[], cols=None, metric=['default'], container=cont, container_ys=cont,
                            normalize=norm, pseudocount=pc_, bins=['0', '1', '2', '3', '4'], bins_container='ndarray'))
    for edges in (['0', '1', '2', '3', '4', '5', '6000001/1000000'], ['0', '3', '6', '900002/100000'], ['0', '1', '2', '3000003/1000000'],
                  ['0', '2', '4', '6', '8000001/1000000']):
        for bc in ('list', 'ndarray'):
            out.append(dict(kind='str', xs=['', 'A', 'AB', 'ABAB', 'BBBBBB', 'A', 'ABABAB', 'BABABABA'], ys=None, cols=None, metric=['lev'], container='list',
                            normalize=False, pseudocount=None, bins=edges, bins_container=bc))
            out.append(dict(kind='str', xs=['', 'A', 'AB', 'ABAB'], ys=['BBBBBB', 'A', 'ABABAB', 'BABABABA', ''], cols=None, metric=['default'], container='list',
                            normalize=True, pseudocount=None, bins=edges, bins_container=bc))
    return out


def check_bins0(ctx, rng, n, wide_opts=False):
    import pyrepseq as prs
    from pyrepseq.metric import WeightedLevenshtein
    for _ in range(n):
        tcr = rng.random() < 0.4
        if wide_opts:
            # further containers / indexes / dtypes / the legacy tuple / the same object twice, bins = 0 as a NumPy integer or by position
            case = gen_wide_tcr_case(rng) if tcr else gen_wide_string_case(rng)
            for k in ('cols_ys', 'extra_ys'):         # pc compares whole rows: both tables get the same columns here
                case.pop(k, None)
            case['extra'] = []
            for k in ('container', 'container_ys'):
                if case.get(k) == 'set':
                    case[k] = 'list'
        else:
            case = gen_tcr_case(rng) if tcr else gen_string_case(rng)
            case['extra'], case['container'] = [], 'list'
            if case['kind'] == 'tuple':
                case['kind'] = 'tcr'
        xs = make_coll(case, 'xs')
        ys = xs if (case.get('same') == 'object' and case['ys'] is not None) else make_coll(case, 'ys')
        rows, rows2 = case_rows(case)
        if tcr:        # pc compares whole rows: only the columns present take part
            keep = (lambda r: (r[0] if 'A' in case['cols'] else '', r[1] if 'B' in case['cols'] else ''))
            rows = [keep(r) for r in rows]
            rows2 = None if rows2 is None else [keep(r) for r in rows2]
        num, den = ctx.oracle.run([('api_c05_bins0', [rows, rows2])])[0]
        kw = rng.choice([{}, dict(normalize=False), dict(pseudocount=0.5), dict(maxseqs=2), dict(metric=WeightedLevenshtein(2, 1, 3)) if not tcr else {}])
        args = (xs,) if ys is None else (xs, ys)
        zero, how = 0, 'bins=0'
        if wide_opts:
            zero = rng.choice([0, np.int64(0), np.int32(0)])
            how = 'bins=%s(0)' % type(zero).__name__
        if wide_opts and rng.random() < 0.4:
            how += ' by position'
            pos = [ys, kw.pop('metric', None), zero] + ([kw.pop('normalize', True), kw.pop('pseudocount', 0.0), kw.pop('maxseqs', None)] if kw else [])
            impl = call_impl(prs.pcDelta, xs, *pos)
        else:
            impl = call_impl(prs.pcDelta, *args, bins=zero, **kw)
        ref = call_impl(prs.pc, *args)
        ctx.count('bins=0' + (' (wide)' if wide_opts else ''))
        if wide_opts:
            count_options(ctx, dict(case, bins_container=None, pseudocount=None, normalize_kind=None, pseudo_kind=None, spelling=None, metric=['default'],
                                    metric_kw=None, custom_dtype=None))
        ctx.case(nontrivial_key=('bins0', repr(rows), repr(rows2)) if 0 < num < den else None)
        ok = impl[0] == 'ok' and np.ndim(impl[1]) == 0 and den > 0 and close(float(impl[1]), Fraction(num, den)) \
            and ref[0] == 'ok' and float(ref[1]) == float(impl[1])
        if not ok:
            ctx.violation('property', 'pcDelta(%s%s, %s, %s) = %s but pc of the same arguments is %s (model: %d/%d coinciding pairs)%s' % (
                case['xs'], '' if ys is None else ', %s' % case['ys'], how, kw, impl, ref, num, den, describe(case)[describe(case).find(' {'):] if ' {' in describe(case) else ''),
                dict(case=dict(case, bins='0'), kw=repr(kw), how=how), site='distance.pcDelta[bins=0]')
            return


def check_zero_bin(ctx, rng, n):
    import pyrepseq as prs
    for _ in range(n):
        xs = rand_strings(rng, rng.randint(2, 30), rng.choice(['AB', 'ACD']), rng.choice([1, 2, 4]), dup=0.5)
        m = rng.randint(2, 8)
        d = {}
        toks = [d.setdefault(v, len(d) + 1) for v in xs]
        zp, (num, den) = ctx.oracle.run([('api_c05_zero_pairs', [xs]), ('api_pc1', [toks])])
        impl = call_impl(prs.pcDelta, xs, bins=range(m + 1), normalize=False)
        full = call_impl(prs.pcDelta, xs, bins=range(60))
        pcv = call_impl(prs.pc, xs)
        ctx.count('zero_bin')
        ctx.case(nontrivial_key=('zero', tuple(xs)) if 0 < zp else None)
        ok = impl[0] == 'ok' and int(impl[1][0]) == zp and 2 * zp == num \
            and full[0] == 'ok' and pcv[0] == 'ok' and close(float(full[1][0]), Fraction(num, den)) and abs(float(full[1][0]) - float(pcv[1])) < 1e-12
        if not ok:
            ctx.violation('property', 'pcDelta(%s, bins=range(%d), normalize=False)[0] = %s but sum n_i(n_i-1)/2 = %s; normalised zero bin %s vs pc = %s' % (
                xs, m + 1, impl, Fraction(num, 2), full[1][0] if full[0] == 'ok' else full, pcv), dict(xs=xs, m=m), site='distance.pcDelta[zero bin]')
            return


def eval_maxseqs(ctx, case, seeds):
    """None, or why the result of case (with maxseqs) is not the histogram of a sub-sample of exactly min(N, maxseqs) elements;
    seeds: NumPy seeds, one call each (the first one also in normalised form)"""
    rows, rows2 = case_rows(case)
    kind, wi, wd, ws = model_metric(case)
    edges = [fr(x) for x in case['bins']]
    m, N = case['maxseqs'], len(case['xs'])
    subs = ctx.oracle.run([('api_c05_sub_counts', [kind, wi, wd, ws, rows, rows2, edges, m])])[0]
    allowed = {tuple(s) for s in subs}
    m1 = min(N, m)
    npairs = m1 * (m1 - 1) // 2 if case['ys'] is None else m1 * min(len(case['ys']), m)
    covering = edges[0] <= 0 and edges[-1] >= 39
    for rep, seed in enumerate(seeds):
        np.random.seed(seed)
        impl = call_pcdelta(case)
        ok = impl[0] == 'ok' and isinstance(impl[1], np.ndarray) and tuple(int(x) for x in impl[1]) in allowed and (not covering or int(sum(impl[1])) == npairs)
        if ok and rep == 0:
            np.random.seed(seed + 1)
            nrm = call_pcdelta(case, normalize=True)     # normalised form of SOME admissible sub-sample
            ok = nrm[0] == 'ok' and any(
                (sum(s) == 0 and all(not math.isfinite(x) for x in nrm[1])) or
                (sum(s) > 0 and all(close(float(x), Fraction(c, sum(s))) for x, c in zip(nrm[1], s))) for s in allowed)
            impl = nrm if not ok else impl
        if not ok:
            return (len(allowed), '%s [numpy.random.seed(%d)] = %s is not the histogram of any sub-sample of exactly min(N, maxseqs) = %d elements '
                    '(admissible histograms, trailing zeros cut: %s%s)' % (describe(case), seed, show(impl), m1, sorted({tuple(trim(a)) for a in allowed})[:6],
                                                                          ', total %d' % npairs if covering else ''))
    return (len(allowed), None)


def check_maxseqs(ctx, rng, n, wide_opts=False):
    wide = [Fraction(k) for k in range(0, 40)]
    for t in range(n):
        tcr = rng.random() < 0.35
        # the first wide cases of every run are fixed combinations (pandas objects whose row labels repeat / are shifted / are strings, with
        # maxseqs below N): a sub-sample taken by LABEL instead of by position shows there and nowhere else (seeded change C05-r6m1)
        forced = t if (wide_opts and t < 4) else None
        if forced is not None:
            tcr = forced % 2 == 1
        N = rng.randint(3, 7)
        if tcr:
            xs = [list(p) for p in zip(rand_strings(rng, N, 'AC', 4, dup=0.1), rand_strings(rng, N, 'AC', 4, dup=0.1))]
            case = dict(kind='tcr', xs=xs, ys=None, cols='AB', metric=['default'])
        else:
            case = dict(kind='str', xs=rand_strings(rng, N, 'ACD', 5, dup=0.1 if t % 2 else 0.4), ys=None, cols=None, metric=['default'],
                        container=rng.choice(['list', 'ndarray']))
        if rng.random() < 0.35:
            M = rng.randint(1, 6)
            case['ys'] = ([list(p) for p in zip(rand_strings(rng, M, 'AC', 4), rand_strings(rng, M, 'AC', 4))] if tcr
                          else rand_strings(rng, M, 'ACD', 5))
        m = rng.randint(1 if wide_opts else 2, N + 2)
        if forced is not None:
            m = rng.randint(1, N - 1)
        if wide_opts and t == 4:
            m = 0                      # maxseqs = 0 is a number, not "no limit": the sub-sample has no element, every count is 0 (seeded change C05-r9m2)
            ctx.count('maxseqs=0')
        narrow = rng.random() < 0.4
        edges = [Fraction(k) for k in range(0, 4)] if narrow else wide
        case.update(bins=[str(e) for e in edges], bins_container='list', normalize=False, pseudocount=None, maxseqs=m)
        if wide_opts:
            # maxseqs = 1, NumPy integer, further containers, explicit metrics, arguments by position, the same object twice (two independent draws)
            case['maxseqs_kind'] = rng.choice(['int', 'np'])
            case['spelling'] = rng.choice(['kw', 'positional', 'allkw'])
            case['bins_container'] = rng.choice(['list', 'range', 'ndarray'])
            cross = case['ys'] is not None
            if tcr:
                r = rng.random()
                if r < 0.3:
                    case['kind'], case['tuple_parts'] = 'tuple', rng.choice(['list', 'series', 'mixed'])
                elif r < 0.7:
                    case['cols'] = rng.choice(['A', 'B', 'AB'])
                    case['index_xs'] = rand_index(rng, N)
                    if rng.random() < 0.5:
                        case['extra'] = ['TRBV']
                if rng.random() < 0.5:
                    ok = [k for k, need in (('alpha', 'A'), ('beta', 'B')) if need in case['cols']] + (['cdr3'] if case['cols'] == 'AB' else [])
                    w = [rng.choice([1, 2, 3]) for _ in range(3)]
                    case['metric'] = [rng.choice(ok), w[0], w[1] if cross else w[0], w[2]]       # one collection: the order of the draw is free, so a symmetric metric
            else:
                case['container'] = rng.choice(['list', 'ndarray', 'ustr', 'tuple', 'index', 'series', 'series'])
                if case['container'] == 'series':
                    case['index_xs'] = rand_index(rng, N)
                if cross:
                    case['container_ys'] = rng.choice(['list', 'ndarray', 'ustr', 'index', 'series'])
                r = rng.random()
                if r < 0.5:
                    w = [rng.choice([1, 2, 3]) for _ in range(3)]
                    case['metric'] = [rng.choice(['wlev', 'custom']), w[0], w[1] if cross else w[0], w[2]]
                elif r < 0.65:
                    case['metric'] = ['lev']
            if not cross and rng.random() < 0.2 and forced is None:
                case['ys'], case['same'] = [x if isinstance(x, str) else list(x) for x in case['xs']], 'object'
            if forced is not None:
                labels = ([rng.randrange(2) for _ in range(N)] if forced < 2 else
                          list(range(1, N + 1)) if forced == 2 else ['r%d' % (i % 2) for i in range(N)])
                case['index_xs'] = labels
                if tcr:
                    case['kind'] = 'tcr'
                    case.pop('tuple_parts', None)
                    if case['cols'] not in ('A', 'B', 'AB'):
                        case['cols'] = 'AB'
                else:
                    case['container'] = 'series'
                ctx.count('maxseqs:forced pandas labels %d' % forced)
        seeds = [rng.randrange(2 ** 31) for _ in range(6)]
        nallowed, why = eval_maxseqs(ctx, case, seeds)
        ctx.count('maxseqs<N' if m < N else 'maxseqs>=N')
        if wide_opts:
            count_options(ctx, case)
            if m == 1:
                ctx.count('maxseqs=1')
        ctx.case(nontrivial_key=('maxseqs', describe(case)) if nallowed > 1 else None)
        if why is not None:
            ctx.violation('property', why, dict(case=case, seeds=seeds), site='distance.pcDelta[maxseqs]')
            return


# ---------------------------------------------------------------------------------------------- maxseqs: large inputs, randomness
def compositions(total, caps):
    """all (c_1..c_k) with sum = total and 0 <= c_i <= caps[i]"""
    if len(caps) == 1:
        return [(total,)] if 0 <= total <= caps[0] else []
    return [(c,) + rest for c in range(0, min(total, caps[0]) + 1) for rest in compositions(total - c, caps[1:])]


def sub_multiset_hists(ctx, lc):
    """raw histograms of ALL sub-collections of exactly min(N, maxseqs) elements (both collections) of collections given as multisets of a few
    distinct elements: a sub-collection is determined by how many copies c_u <= m_u of each distinct element it holds, and its histogram follows
    from the model's proved counts on the distinct elements (as in multiset_counts)"""
    small = dict(lc, xs=[e for e, _ in lc['mx']], ys=None if lc['my'] is None else [e for e, _ in lc['my']])
    dx, dy = case_rows(small)
    kind, wi, wd, ws = model_metric(small)
    edges = [fr(x) for x in lc['bins']]
    m = lc['maxseqs']
    capx = [c for _, c in lc['mx']]
    reqs = []
    if dy is None:
        for i, u in enumerate(dx):
            for j in range(i, len(dx)):
                reqs.append(('api_c05_counts', [kind, wi, wd, ws, [u, dx[j]], None, edges]))
    else:
        for u in dx:
            for v in dy:
                reqs.append(('api_c05_counts', [kind, wi, wd, ws, [u], [v], edges]))
    outs = ctx.oracle.run(reqs)
    for o in outs:
        if isinstance(o, Exception):
            raise o
    H = np.array(outs, dtype=np.int64)
    allowed = set()
    cxs = compositions(min(m, sum(capx)), capx)
    if dy is None:
        for c in cxs:
            wts = []
            for i in range(len(dx)):
                for j in range(i, len(dx)):
                    wts.append(c[i] * (c[i] - 1) // 2 if i == j else c[i] * c[j])
            allowed.add(tuple(int(x) for x in np.array(wts, dtype=np.int64) @ H))
    else:
        capy = [c for _, c in lc['my']]
        cys = compositions(min(m, sum(capy)), capy)
        for c in cxs:
            for d in cys:
                wts = [a * b for a in c for b in d]
                allowed.add(tuple(int(x) for x in np.array(wts, dtype=np.int64) @ H))
    return allowed


def eval_maxseqs_large(ctx, lc, seeds):
    allowed = sub_multiset_hists(ctx, lc)
    case = large_full(lc)
    N, m = len(case['xs']), lc['maxseqs']
    m1 = min(N, m)
    npairs = m1 * (m1 - 1) // 2 if case['ys'] is None else m1 * min(len(case['ys']), m)
    for seed in seeds:
        np.random.seed(seed)
        impl = call_pcdelta(case)
        ok = impl[0] == 'ok' and isinstance(impl[1], np.ndarray) and np.issubdtype(impl[1].dtype, np.integer) and tuple(int(x) for x in impl[1]) in allowed \
            and int(sum(impl[1])) == npairs
        if not ok:
            return (len(allowed), '%s [numpy.random.seed(%d)] = %s is not the histogram of any sub-sample of exactly min(N, maxseqs) = %d elements of the first'
                    '%s collection (total %d pairs; %d admissible histograms, e.g. %s)' % (
                        describe_large(lc), seed, show(impl), m1, '' if case['ys'] is None else ' and min(%d, maxseqs) of the second' % len(case['ys']),
                        npairs, len(allowed), sorted(allowed)[:3]))
    return (len(allowed), None)


def gen_maxseqs_large(rng, sizes):
    tcr = rng.random() < 0.3
    N = rng.choice(sizes)
    # should the library fail to cut the collections down, the call costs N * N (resp. N * M) distances: keep that below about 1e9
    cross = rng.random() < 0.5 or N > 40000
    m = rng.choice([1, 2, 3, 5, 10, 25, 40])
    kx = rng.randint(2, 3)
    if tcr:
        def elems(k):
            return [[''.join(rng.choice('AC') for _ in range(rng.randint(0, 3))), ''.join(rng.choice('AC') for _ in range(rng.randint(0, 3)))] for _ in range(k)]
        lc = dict(kind='tcr', cols=rng.choice(['A', 'B', 'AB']), metric=['default'])
        maxd = 6
    else:
        def elems(k):
            return [''.join(rng.choice('ACD') for _ in range(rng.randint(0, 3))) for _ in range(k)]
        w = rng.choice([1, 1, 2, 3])
        lc = dict(kind='str', cols=None, metric=rng.choice([['default'], ['lev'], ['wlev', w, w, rng.choice([1, 2, 3])]]),
                  container=rng.choice(['list', 'ndarray', 'ustr', 'series', 'index']))
        maxd = 3 * max(lc['metric'][1:] or [1])

    def split(el, n):
        cuts = sorted(rng.sample(range(1, n), len(el) - 1)) if len(el) > 1 else []
        return [[e, b - a] for e, a, b in zip(el, [0] + cuts, cuts + [n])]
    lc['mx'] = split(elems(kx), N)
    lc['my'] = None
    if cross:
        M = rng.choice([1, 2, max(1, m - 1), m, m + 1, 3 * m + 1, 500] + ([rng.choice([x for x in sizes if x <= 40000])] if N <= 40000 else []))
        ky = 1 if M < 2 else rng.randint(1, 2)
        lc['my'] = split(elems(ky), M)
    lc['seed'] = rng.randrange(2 ** 30)
    lc.update(bins=[str(v) for v in range(0, maxd + 2)], bins_container=rng.choice(['range', 'list', 'ndarray']), normalize=False, pseudocount=None,
              maxseqs=m, maxseqs_kind=rng.choice(['int', 'np']), spelling=rng.choice(['kw', 'positional']))
    return lc


def check_maxseqs_large(ctx, rng, n, sizes):
    """collections of 50 .. 66000 elements (2-3 distinct ones) cut down to 1 .. 40: the result must be the histogram of one of the sub-multisets of
    exactly min(N, maxseqs) elements; the enumeration of sub-multisets is first compared with the model's own enumeration of sub-collections on a
    scaled-down copy"""
    plan = []
    for t in range(n):
        if t % 4 == 3:
            alphabet = rng.choice(['ACDE', 'ACDEFGHIKLMNPQRSTVWY'])
            dc = dict(N=rng.choice([s for s in sizes if 5000 <= s <= 40000]), L=rng.choice([9, 10] if len(alphabet) == 4 else [7, 8]), alphabet=alphabet, seed=rng.randrange(2 ** 30),
                      m=rng.choice([700, 1000]), container=rng.choice(['list', 'ndarray', 'ustr', 'series']), cross=rng.random() < 0.25)
            plan.append((dc['N'], t, 'distinct', dc, [rng.randrange(2 ** 31) for _ in range(2)]))
        else:
            lc = gen_maxseqs_large(rng, sizes)
            plan.append((sum(c for _, c in lc['mx']), t, 'multiset', lc, [rng.randrange(2 ** 31) for _ in range(3)]))
    # smallest first: a library that does not cut the collections down at all is reported before the largest ones are tried
    for _, _, what, lc, seeds in sorted(plan, key=lambda x: x[:2]):
        if what == 'distinct':
            dc = lc
            why = eval_maxseqs_distinct(ctx, dc, seeds)
            ctx.count('maxseqs_large:all distinct N>%d' % max(x for x in (999, 4999, 2 ** 15, 2 ** 16) if dc['N'] > x))
            ctx.case(nontrivial_key=('maxseqs-distinct', repr(dc)))
            if why is not None:
                ctx.violation('property', why, dict(distinct=dc, seeds=seeds), site='distance.pcDelta[maxseqs, large collections]')
                return
            continue
        mini = dict(lc, mx=rescale(lc['mx'], 2 * len(lc['mx']) + 1), my=None if lc['my'] is None else rescale(lc['my'], min(4, sum(c for _, c in lc['my']))),
                    maxseqs=min(lc['maxseqs'], 3))
        mc = large_full(mini)
        rows, rows2 = case_rows(mc)
        kind, wi, wd, ws = model_metric(mc)
        subs = ctx.oracle.run([('api_c05_sub_counts', [kind, wi, wd, ws, rows, rows2, [fr(x) for x in lc['bins']], mini['maxseqs']])])[0]
        if isinstance(subs, Exception) or {tuple(x) for x in subs} != sub_multiset_hists(ctx, mini):
            ctx.violation('correspondence', 'harness: sub-multiset histograms differ from the model\'s sub-collection histograms on %s' % describe_large(mini),
                          dict(large=mini), site='harness.c05[sub-multisets]')
            return
        nallowed, why = eval_maxseqs_large(ctx, lc, seeds)
        n1 = sum(c for _, c in lc['mx'])
        ctx.count('maxseqs_large:N>%d' % max(t for t in (0, 127, 255, 999, 4999, 2 ** 15, 2 ** 16) if n1 > t))
        ctx.case(nontrivial_key=('maxseqs-large', describe_large(lc)) if nallowed > 1 else None)
        if why is not None:
            ctx.violation('property', why, dict(large=lc, seeds=seeds), site='distance.pcDelta[maxseqs, large collections]')
            return


def distinct_strings(dc):
    """N pairwise different strings of length L (deterministic in dc['seed'])"""
    import random
    k, L = len(dc['alphabet']), dc['L']
    out = []
    for v in random.Random(dc['seed']).sample(range(k ** L), dc['N']):
        s = ''
        for _ in range(L):
            s += dc['alphabet'][v % k]
            v //= k
        out.append(s)
    return out


def eval_maxseqs_distinct(ctx, dc, seeds):
    """thousands of pairwise DIFFERENT strings cut down to hundreds: whatever is drawn, m distinct positions hold m different strings, so no pair is at
    distance 0 (Levenshtein distance 0 iff equal: C05_zero_bin) and edges covering 0 .. L count all m(m-1)/2 pairs (C05_total, C05_maxseqs); against
    one of the strings as second collection: m cross pairs, at most one of them at distance 0"""
    import pyrepseq as prs
    xs = str_container(distinct_strings(dc), dc['container'], None)
    m, L = dc['m'], dc['L']
    for seed in seeds:
        np.random.seed(seed)
        if dc['cross']:
            r = call_impl(prs.pcDelta, xs, [distinct_strings(dc)[seed % dc['N']]], bins=range(L + 2), normalize=False, maxseqs=m)
            want, zmax = m, 1
        else:
            r = call_impl(prs.pcDelta, xs, bins=range(L + 2), normalize=False, maxseqs=m)
            want, zmax = m * (m - 1) // 2, 0
        if not (r[0] == 'ok' and isinstance(r[1], np.ndarray) and len(r[1]) == L + 1 and int(r[1].sum()) == want and int(r[1][0]) <= zmax):
            return ('pcDelta(<%d pairwise different strings of length %d over %r as %s>%s, bins=range(%d), normalize=False, maxseqs=%d) [numpy.random.seed(%d)] = %s: a sub-sample '
                    'of exactly %d elements has %d pairs, at most %d of them at distance 0' % (dc['N'], L, dc['alphabet'], dc['container'], ', [one of them]' if dc['cross'] else '',
                                                                                              L + 2, m, seed, show(r), m, want, zmax))
    return None


GOLOMB = [0, 1, 4, 9, 15, 22, 32, 34]       # all differences distinct: the distances among 'A' * k name the elements that were drawn


def random_config(rng):
    N = rng.randint(5, 8)
    role = rng.choice(['first', 'second', 'only'])
    lens = GOLOMB[:N] if role == 'only' else list(range(1, N + 1))
    rng.shuffle(lens)
    return dict(N=N, m=rng.randint(N // 2 + 1, N - 1), role=role, lens=lens, form=rng.choice(['list', 'ndarray', 'ustr', 'series', 'tcrA', 'tcrB', 'tcrAB', 'tuple']))


def eval_random(ctx, cfg, seeds):
    """'a random sub-sample': over many calls (one NumPy seed each) the elements drawn are not always the same, every element is drawn at least once and
    every PAIR of elements is drawn together at least once (a pair never drawn together in R calls has probability (1 - m(m-1)/(N(N-1)))**R for a
    uniform draw; R = 80, 5 <= N <= 8, N/2 < m < N: below 1e-10 for all pairs together) - a fixed, contiguous, strided or blockwise choice fails this.
    The elements drawn are read off the histogram: strings 'A' * k of distinct lengths against '' (distance k), or with lengths on a Golomb ruler
    among themselves."""
    import pyrepseq as prs
    N, m, role, lens, form = cfg['N'], cfg['m'], cfg['role'], cfg['lens'], cfg['form']
    strs = ['A' * k for k in lens]

    def coll(items):
        if form in ('tcrA', 'tcrB', 'tcrAB'):
            d = {}
            if form != 'tcrB':
                d['CDR3A'] = list(items)
            if form != 'tcrA':
                d['CDR3B'] = list(items) if form == 'tcrB' else ['CS'] * len(items)
            return pd.DataFrame(d)
        if form == 'tuple':
            return (list(items), ['CS'] * len(items))
        return str_container(list(items), form, None)
    big, other = coll(strs), coll(['', ''])
    nb = max(lens) + 2
    seen, drawn, together = set(), set(), set()
    for seed in seeds:
        np.random.seed(seed)
        if role == 'only':
            r = call_impl(prs.pcDelta, big, bins=range(nb), normalize=False, maxseqs=m)
        elif role == 'first':
            r = call_impl(prs.pcDelta, big, other, bins=range(nb), normalize=False, maxseqs=m)
        else:
            r = call_impl(prs.pcDelta, other, big, bins=range(nb), normalize=False, maxseqs=m)
        if r[0] != 'ok' or not isinstance(r[1], np.ndarray) or len(r[1]) != nb - 1:
            return 'pcDelta(%s) with maxseqs=%d gave %s' % (cfg, m, show(r))
        h = [int(x) for x in r[1]]
        if role == 'only':          # each distance occurs between exactly one pair of elements
            pair = {abs(a - b): (a, b) for a in lens for b in lens if a < b}
            sub = {k for d, c in enumerate(h) if c and d in pair for k in pair[d]}
            okh = all(c in (0, 1) for c in h) and len(sub) == m and sorted(abs(a - b) for a in sub for b in sub if a < b) == [d for d, c in enumerate(h) if c]
        else:
            sub = {k for k in lens if h[k]}
            okh = len(sub) == m and all(h[k] == 2 for k in sub) and sum(h) == 2 * m
        if not okh:
            return ('pcDelta(%s, maxseqs=%d) [numpy.random.seed(%d), %s collection = strings \'A\' * k for k in %s as %s] = %s is not the histogram of a sub-sample of exactly %d elements'
                    % ('seqs' if role == 'only' else "seqs, ['', '']" if role == 'first' else "['', ''], seqs", m, seed, role, lens, form, h, m))
        seen.add(frozenset(sub))
        drawn |= sub
        together |= {(a, b) for a in sub for b in sub if a < b}
    if len(seen) < 2:
        return ("maxseqs=%d, %s collection = strings 'A' * k for k in %s as %s: %d calls with different NumPy seeds ALWAYS drew the same elements (lengths %s) - "
                "not a random sub-sample" % (m, role, lens, form, len(seeds), sorted(next(iter(seen)))))
    if drawn != set(lens):
        return ("maxseqs=%d, %s collection = strings 'A' * k for k in %s as %s: in %d calls with different NumPy seeds the elements at positions %s were NEVER drawn "
                "(probability below 1e-9 for a random sub-sample)" % (m, role, lens, form, len(seeds), [i for i, k in enumerate(lens) if k not in drawn]))
    missing = [(lens.index(a), lens.index(b)) for a in lens for b in lens if a < b and (a, b) not in together]
    if missing:
        return ("maxseqs=%d, %s collection = strings 'A' * k for k in %s as %s: in %d calls with different NumPy seeds the elements at positions %s were NEVER drawn "
                "together, only the combinations %s occurred (probability below 1e-10 for a random sub-sample of %d out of %d)" % (
                    m, role, lens, form, len(seeds), [tuple(sorted(p)) for p in missing][:6], sorted(sorted(lens.index(k) for k in sb) for sb in seen)[:8], m, len(lens)))
    return None


def check_maxseqs_random(ctx, rng, n, R=80):
    for _ in range(n):
        cfg = random_config(rng)
        seeds = [rng.randrange(2 ** 31) for _ in range(R)]
        why = eval_random(ctx, cfg, seeds)
        ctx.count('maxseqs_random:%s/%s' % (cfg['role'], cfg['form']))
        ctx.case(nontrivial_key=('maxseqs-random', repr(cfg)))
        if why is not None:
            ctx.violation('property', why, dict(random=cfg, seeds=seeds), site='distance.pcDelta[maxseqs, random draw]')
            return


# ---------------------------------------------------------------------------------------------- call histories on shared objects
# One Metric object, one preallocated array / table REFILLED IN PLACE, one bins array shifted in place, results of earlier calls overwritten by the
# caller - each call must still return the histogram of the CURRENT contents (a result remembered per object identity, a buffer shared between
# calls, state kept in the Metric object or in the module would show here), and arrays returned earlier must not change afterwards.
def gen_history(rng, steps):
    tcr = rng.random() < 0.4
    N, M = rng.randint(3, 7), rng.randint(1, 4)
    if tcr:
        cols = rng.choice(['A', 'B', 'AB', 'AB'])
        ok = [k for k, need in (('alpha', 'A'), ('beta', 'B')) if need in cols] + (['cdr3'] if cols == 'AB' else [])
        metric = ['default'] if rng.random() < 0.5 else [rng.choice(ok)] + [rng.choice([1, 1, 2]) for _ in range(3)]
        hist = dict(kind='tcr', cols=cols, metric=metric, fill=rng.choice(['column', 'cells', 'loc']))
    else:
        metric = rng.choice([['default'], ['lev'], ['wlev'] + [rng.choice([1, 2, 3]) for _ in range(3)], ['custom'] + [rng.choice([1, 2]) for _ in range(3)]])
        hist = dict(kind='str', cols=None, metric=metric, container=rng.choice(['ndarray', 'ndarray', 'list', 'series']))
    nb = rng.randint(3, 8)
    hist['bins0'] = list(range(nb))
    hist['steps'] = []
    for k in range(steps):
        if tcr:
            xs = [list(p) for p in zip(rand_strings(rng, N, 'ACS', 4), rand_strings(rng, N, 'ACS', 4))]
            ys = [list(p) for p in zip(rand_strings(rng, M, 'ACS', 4), rand_strings(rng, M, 'ACS', 4))]
        else:
            xs, ys = rand_strings(rng, N, 'ACD', 5), rand_strings(rng, M, 'ACD', 5)
        if k and rng.random() < 0.25:
            xs = hist['steps'][-1]['xs']                  # the same contents again
        hist['steps'].append(dict(xs=xs, ys=ys, two=rng.random() < 0.4, shift=rng.choice([0, 0, 1, 2]) if k else 0,
                                  normalize=rng.choice([True, False, False, None]), pseudocount=rng.choice([None, None, '1/2', '3']),
                                  bins_default=rng.random() < 0.15, twice=rng.random() < 0.3,
                                  spoil=rng.choice(['', '', 'zero', 'scale']), between=rng.choice(['', '', 'pc', 'background', 'bins0', 'other'])))
    return hist


def eval_history(ctx, hist):
    """None or (kind, message): the first call of the history whose result is not the histogram of the current contents"""
    import pyrepseq as prs
    metric = make_metric(hist['metric'], hist)           # ONE object for the whole history (None: the default is looked up in every call)
    s0 = hist['steps'][0]
    N, M = len(s0['xs']), len(s0['ys'])
    if hist['kind'] == 'tcr':
        def table(rows):
            d = {}
            if 'A' in hist['cols']:
                d['CDR3A'] = [a for a, b in rows]
            if 'B' in hist['cols']:
                d['CDR3B'] = [b for a, b in rows]
            return pd.DataFrame(d)
        bx, by = table(s0['xs']), table(s0['ys'])

        def fill(df, rows):
            for ci, name in enumerate(('CDR3A', 'CDR3B')):
                if name not in df:
                    continue
                vals = [r[ci] for r in rows]
                if hist['fill'] == 'column':
                    df[name] = vals
                elif hist['fill'] == 'loc':
                    df.loc[:, name] = vals
                else:
                    for i, v in enumerate(vals):
                        df.iat[i, list(df.columns).index(name)] = v
    else:
        cont = hist.get('container', 'ndarray')
        bx, by = str_container(s0['xs'], cont, None), str_container(s0['ys'], cont, None)

        def fill(buf, items):
            if isinstance(buf, pd.Series):
                buf.iloc[:] = items
            else:
                buf[:] = items
    bins = np.array(hist['bins0'])
    cases = []
    cur = list(hist['bins0'])
    for st in hist['steps']:
        cur = [v + st['shift'] for v in cur]
        cases.append(dict(kind=hist['kind'], cols=hist['cols'], metric=hist['metric'], xs=st['xs'], ys=st['ys'] if st['two'] else None,
                          bins=None if st['bins_default'] else [str(v) for v in cur], normalize=st['normalize'], pseudocount=st['pseudocount']))
    reqs = []
    for c in cases:
        reqs += oracle_requests(c)
    outs = ctx.oracle.run(reqs)
    earlier = []
    done = []
    for k, (st, case) in enumerate(zip(hist['steps'], cases)):
        fill(bx, st['xs'])
        fill(by, st['ys'])
        if st['shift']:
            bins += st['shift']
        counts = outs[2 * k]
        if isinstance(counts, Exception):
            return ('correspondence', 'oracle rejected step %d of the history: %s' % (k, counts))
        exp = expected_from(case, counts, ctx)
        kw = {}
        if metric is not None:
            kw['metric'] = metric
        if not st['bins_default']:
            kw['bins'] = bins
        if st['normalize'] is not None:
            kw['normalize'] = st['normalize']
        if st['pseudocount'] is not None:
            kw['pseudocount'] = float(fr(st['pseudocount']))
        args = (bx, by) if st['two'] else (bx,)
        norm = True if st['normalize'] is None else st['normalize']
        for rep in range(2 if st['twice'] else 1):
            impl = call_impl(prs.pcDelta, *args, **kw)
            done.append('%d%s: %s' % (k, 'ab'[rep] if st['twice'] else '', describe(case)))
            if not vec_ok(impl, exp, integral=not norm):
                return ('property', 'call %s of a history on shared objects (one %s refilled in place, one bins array shifted in place, one Metric object %s) returned %s but the '
                        '%s of the current contents is %s (raw counts %s). Calls so far: %s' % (
                            done[-1].split(':')[0], 'table' if hist['kind'] == 'tcr' else hist.get('container', 'ndarray'), hist['metric'], show(impl),
                            'raw counts' if not norm else 'normalised histogram', ['nan' if q is None else str(q) for q in exp], counts, ' | '.join(done)))
            if [int(v) for v in bins] != cur_bins(hist, k):
                return ('property', 'call %s of the history changed the caller\'s bins array to %s' % (done[-1].split(':')[0], bins.tolist()))
            earlier.append((impl[1], impl[1].copy(), done[-1].split(':')[0]))
            if st['spoil'] and rep == 0:
                # the caller overwrites the array the call returned (e.g. accumulating in place) - the next call must not hand it out again
                r = impl[1]
                if st['spoil'] == 'zero':
                    r[:] = 0
                else:
                    r *= 2
                earlier[-1] = (r, r.copy(), done[-1].split(':')[0])
        b = st['between']
        if b == 'pc':
            call_impl(prs.pc, bx)
        elif b == 'background':
            call_impl(prs.load_pcDelta_background)
        elif b == 'bins0':
            call_impl(prs.pcDelta, bx, by, bins=0)
        elif b == 'other':
            call_impl(prs.pcDelta, ['AAAA', 'CC', 'C'], ['A'], bins=range(6), normalize=False, pseudocount=1.0)
        for arr, copy, name in earlier:
            if not np.array_equal(arr, copy, equal_nan=True):
                return ('property', 'the array returned by call %s of the history changed afterwards (now %s, was %s): results of different calls share storage. Calls so far: %s' % (
                    name, arr.tolist(), copy.tolist(), ' | '.join(done)))
    return None


def cur_bins(hist, k):
    sh = sum(st['shift'] for st in hist['steps'][:k + 1])
    return [v + sh for v in hist['bins0']]


def check_history(ctx, rng, n, steps):
    for _ in range(n):
        hist = gen_history(rng, steps)
        res = eval_history(ctx, hist)
        ctx.count('history:%s/%s' % (hist['kind'], hist.get('container') or hist.get('fill')))
        ctx.case(nontrivial_key=('history', repr(hist['steps'][0]['xs']), hist['metric'][0]))
        if res is not None:
            # shortest failing prefix
            lo = hist
            for cut in range(1, len(hist['steps'])):
                cand = dict(hist, steps=hist['steps'][:cut])
                r2 = eval_history(ctx, cand)
                if r2 is not None and r2[0] == res[0]:
                    lo, res = cand, r2
                    break
            ctx.violation(res[0], res[1], dict(history=lo), site='distance.pcDelta[call history on shared objects]')
            return


# ---------------------------------------------------------------------------------------------- large collections
# Counts depend only on the multisets of elements (theorem C05_order_invariant; one collection: symmetric metric), so the
# histogram of a collection of thousands of elements drawn from a handful of distinct ones follows from the proved counts
# of the model on the DISTINCT elements, weighted by multiplicities:
#   cross:  sum_{u in X, v in Y} m_u m'_v [d(u,v) in bin t]
#   one:    sum_{u<v} m_u m_v [d(u,v) in bin t] + sum_u m_u(m_u-1)/2 [d(u,u) in bin t]
SLOW_US = 3.0e-6        # seconds per pair of the Python-scorer metrics (non-unit weights, user-defined Metric)


def expand(multi, seed):
    import random
    out = []
    for e, m in multi:
        out += [e] * m
    random.Random(seed).shuffle(out)
    return out


def large_full(lc):
    case = {k: v for k, v in lc.items() if k not in ('mx', 'my', 'seed')}
    case['xs'] = expand(lc['mx'], lc['seed'])
    case['ys'] = None if lc['my'] is None else expand(lc['my'], lc['seed'] + 1)
    return case


def npairs_large(lc):
    n = sum(m for _, m in lc['mx'])
    return n * (n - 1) // 2 if lc['my'] is None else n * sum(m for _, m in lc['my'])


def multiset_counts(ctx, lc):
    small = dict(lc, xs=[e for e, _ in lc['mx']], ys=None if lc['my'] is None else [e for e, _ in lc['my']])
    dx, dy = case_rows(small)
    kind, wi, wd, ws = model_metric(small)
    edges = DEFAULT_EDGES if lc['bins'] is None else [fr(x) for x in lc['bins']]
    mx = [m for _, m in lc['mx']]
    reqs, wts = [], []
    if dy is None:
        for i, u in enumerate(dx):
            reqs.append(('api_c05_counts', [kind, wi, wd, ws, [u, u], None, edges]))
            wts.append(mx[i] * (mx[i] - 1) // 2)
            for j in range(i + 1, len(dx)):
                reqs.append(('api_c05_counts', [kind, wi, wd, ws, [u, dx[j]], None, edges]))
                wts.append(mx[i] * mx[j])
    else:
        my = [m for _, m in lc['my']]
        for i, u in enumerate(dx):
            for j, v in enumerate(dy):
                reqs.append(('api_c05_counts', [kind, wi, wd, ws, [u], [v], edges]))
                wts.append(mx[i] * my[j])
    outs = ctx.oracle.run(reqs)
    counts = [0] * (len(edges) - 1)
    for o, w in zip(outs, wts):
        if isinstance(o, Exception):
            raise o
        for t, c in enumerate(o):
            counts[t] += w * c
    return counts


def describe_large(lc):
    def coll(multi, seed):
        n = sum(m for _, m in multi)
        if len(multi) == 1:
            return '[%r] * %d' % (multi[0][0], n)
        return '<%d elements: %s, order random.Random(%d).shuffle>' % (n, ' + '.join('[%r] * %d' % (e, m) for e, m in multi), seed)
    small = dict(lc, xs='X', ys=None)
    tail = describe(small)[len("pcDelta(X"):]
    return 'pcDelta(%s%s%s' % (coll(lc['mx'], lc['seed']), '' if lc['my'] is None else ', ' + coll(lc['my'], lc['seed'] + 1), tail)


def norm_exact(lc, counts):
    """the statement's counts/total resp. (count + c)/(total + 2c) on counts too large for the oracle's unary naturals; check_large compares this
    with api_c05_spec_norm on a scaled-down expansion of the same multisets in every case"""
    norm = True if lc['normalize'] is None else lc['normalize']
    c = Fraction(0) if lc['pseudocount'] is None else fr(lc['pseudocount'])
    total = sum(counts)
    if not norm:
        return [Fraction(x) for x in counts]
    if c == 0 and total == 0:
        return [None] * len(counts)
    return [(x + c) / (total + 2 * c) for x in counts]


def eval_large(ctx, lc):
    try:
        counts = multiset_counts(ctx, lc)
    except Exception as e:
        return ('correspondence', 'oracle rejected %s: %s' % (describe_large(lc), e))
    case = large_full(lc)
    exp = norm_exact(lc, counts)
    impl = call_pcdelta(case)
    norm = True if lc['normalize'] is None else lc['normalize']
    if not vec_ok(impl, exp, integral=not norm):
        return ('property', '%s = %s but the %s of all %d %s pairs is %s (raw counts %s, from the proved counts on the distinct elements '
                'weighted by multiplicities)' % (describe_large(lc), show(impl), 'raw counts' if not norm else 'normalised histogram', npairs_large(lc),
                                                 'cross' if lc['my'] is not None else 'unordered', ['nan' if q is None else str(q) for q in exp][:30], counts[:30]))
    return None


def rescale(multi, n):
    tot = sum(m for _, m in multi)
    out = [[e, max(1, m * n // tot)] for e, m in multi]
    out[0][1] += max(0, n - sum(m for _, m in out))
    return out


def shrink_large(ctx, lc, budget=25.0):
    """simplify parameters, collapse to one distinct element, bisect the sizes - while the property still fails, within a time budget"""
    import time
    t0 = time.time()

    def fails(c):
        if time.time() - t0 > budget:
            return False
        try:
            r = eval_large(ctx, c)
        except Exception:
            return False
        return r is not None and r[0] == 'property'
    cur = dict(lc)
    for k, v in (('normalize', False), ('pseudocount', None), ('container', 'list'), ('bins_container', 'list')):
        if cur.get(k) != v:
            cand = dict(cur)
            cand[k] = v
            if fails(cand):
                cur = cand
    cand = dict(cur, mx=[[cur['mx'][0][0], sum(m for _, m in cur['mx'])]],
                my=None if cur['my'] is None else [[cur['my'][0][0], sum(m for _, m in cur['my'])]])
    if fails(cand):
        cur = cand
    for which in ('mx', 'my'):
        if cur[which] is None:
            continue
        hi = sum(m for _, m in cur[which])
        lo = max(2 if which == 'mx' else 1, len(cur[which])) - 1
        while hi - lo > 1 and time.time() - t0 < budget:
            mid = (lo + hi) // 2
            cand = dict(cur)
            cand[which] = rescale(cur[which], mid)
            if sum(m for _, m in cand[which]) == mid and fails(cand):
                cur, hi = cand, mid
            else:
                lo = mid
    return cur


def gen_large_case(rng, P, tcr=False, one=False, slow_budget=0.5, dims=None):
    """a collection (pair of collections) with slightly MORE than P pairs, lengths not multiples of one another, drawn from 3-5 distinct short elements;
    dims = (n1, n2): these lengths instead (long and thin: more than 2**15 / 2**16 elements against a handful)"""
    root = math.isqrt(P)
    if dims is not None:
        n1, n2 = dims
    elif one:
        n1 = math.isqrt(2 * P) + 2
        n1 += rng.randint(0, max(1, n1 // 16))
        n2 = None
    else:
        if rng.random() < 0.3:
            n2 = root                                # e.g. 4097 x 4096
            n1 = P // n2 + rng.randint(1, 3)
        else:
            n2 = rng.randint(max(2, root // 3), root)
            n1 = P // n2 + rng.randint(1, max(1, (P // n2) // 8))
        if rng.random() < 0.5:
            n1, n2 = n2, n1
    k = rng.randint(3, 5)
    slow_ok = (n1 * (n1 - 1) // 2 if one else n1 * n2) * SLOW_US <= slow_budget

    def weights(sym):
        if not slow_ok or rng.random() < 0.4:
            return [1, 1, 1]
        w = [rng.choice([1, 1, 2, 3]) for _ in range(3)]
        if sym:
            w[1] = w[0]
        return w
    if tcr:
        def elems(kk):
            return [[''.join(rng.choice('ACS') for _ in range(rng.randint(0, 4))), ''.join(rng.choice('ACS') for _ in range(rng.randint(0, 4)))] for _ in range(kk)]
        lc = dict(kind='tcr', cols=rng.choice(['A', 'B', 'AB', 'AB']))
        if rng.random() < 0.5:
            lc['metric'] = ['default']
        else:
            ok = [m for m, need in (('alpha', 'A'), ('beta', 'B')) if need in lc['cols']] + (['cdr3'] if lc['cols'] == 'AB' else [])
            lc['metric'] = [rng.choice(ok)] + weights(one)
        maxd = 4 * max(lc['metric'][1:] or [1]) * (2 if lc['cols'] == 'AB' else 1)
    else:
        alphabet = rng.choice(['AB', 'ACD', 'ACDEFGHIKLMNPQRSTVWY', 'Cé中'])
        maxlen = rng.choice([1, 2, 3, 5])

        def elems(kk):          # the groups need not be distinct for the multiplicity formula to hold
            return [''.join(rng.choice(alphabet) for _ in range(rng.randint(0, maxlen))) for _ in range(kk)]
        lc = dict(kind='str', cols=None)
        m = rng.random()
        if m < 0.35:
            lc['metric'] = ['default']
        elif m < 0.55:
            lc['metric'] = ['lev']
        elif m < 0.85 or not slow_ok:
            lc['metric'] = ['wlev'] + weights(one)
        else:
            lc['metric'] = ['custom'] + weights(one)
        lc['container'] = rng.choice(['list', 'list', 'ndarray', 'series'])
        maxd = maxlen * max(lc['metric'][1:] or [1])

    def split(elems, n):
        cuts = sorted(rng.sample(range(1, n), len(elems) - 1)) if len(elems) > 1 else []
        return [[e, b - a] for e, a, b in zip(elems, [0] + cuts, cuts + [n])]
    lc['mx'] = split(elems(min(k, n1)), n1)
    lc['my'] = None if one else split(elems(min(rng.randint(3, 5), n2)), n2)
    lc['seed'] = rng.randrange(2 ** 30)
    rand_params(rng, lc, maxd)
    if rng.random() < 0.6:          # raw counts over edges covering every distance: every missing / doubled pair shows
        lc['normalize'] = False
        lc['bins'], lc['bins_container'] = [str(v) for v in range(0, maxd + 2)], rng.choice(['range', 'list', 'ndarray'])
    return lc


def check_large(ctx, rng, plan):
    """plan: list of (P, tcr, one, slow_budget[, dims])"""
    for P, tcr, one, slow_budget, *rest in plan:
        dims = rest[0] if rest else None
        lc = gen_large_case(rng, P, tcr, one, slow_budget, dims)
        if dims is None:
            ctx.count('large:%s pairs>2^%d' % ('one' if one else 'cross', P.bit_length() - 1))
        else:
            ctx.count('large:thin %s>2^%d elements x %d' % ('first' if dims[0] > dims[1] else 'second', max(dims).bit_length() - 1, min(dims)))
        # the multiplicity formula itself, against the model on a scaled-down expansion of the same multisets
        mini = dict(lc, mx=rescale(lc['mx'], 3 * len(lc['mx'])), my=None if lc['my'] is None else rescale(lc['my'], 2 * len(lc['my'])))
        mc = large_full(mini)
        rows, rows2 = case_rows(mc)
        kind, wi, wd, ws = model_metric(mc)
        edges = DEFAULT_EDGES if lc['bins'] is None else [fr(x) for x in lc['bins']]
        direct = ctx.oracle.run([('api_c05_counts', [kind, wi, wd, ws, rows, rows2, edges])])[0]
        if direct != multiset_counts(ctx, mini) or norm_exact(mini, direct) != expected_from(mc, direct, ctx):
            ctx.violation('correspondence', 'harness: multiplicity-weighted counts %s / their normalisation differ from the model counts %s on %s' % (
                multiset_counts(ctx, mini), direct, describe_large(mini)), dict(large=mini), site='harness.c05[multiset]')
            return
        counts = multiset_counts(ctx, lc)
        ctx.case(nontrivial_key=('large', describe_large(lc)) if sum(1 for x in counts if x) >= 2 else None)
        res = eval_large(ctx, lc)
        if res is not None:
            if res[0] == 'property':
                small = shrink_large(ctx, lc)
                r2 = eval_large(ctx, small)
                if r2 is not None and r2[0] == 'property':
                    lc, res = small, r2
            ctx.violation(res[0], res[1], dict(large=lc), site='distance.pcDelta[large collections]')
            return


def thin_plan(rng, n):
    """long and thin: more than 2**15 / 2**16 (thorough also 2**17) elements in one collection, 1 - 5 in the other (either argument)"""
    out = []
    for k in range(n):
        big = rng.choice([2 ** 15, 2 ** 16] + ([2 ** 16, 2 ** 17] if n > 8 else [])) + rng.randint(1, 40)
        small = rng.randint(1, 5)
        dims = (big, small) if k % 2 == 0 else (max(2, small), big)
        out.append((big * small, rng.random() < 0.3, False, 0.3, dims))
    return out


def large_plan(rng, quick):
    H = 2 ** 24
    if quick:
        # more than 2**24 pairs: cross form only (0.3 - 1.5 s each); the one-collection form of that size (4 - 6 s) is in the thorough tier
        plan = [(H, False, False, 0.3), (H, False, False, 0.3), (H, True, False, 0.3), (2 ** 22, False, True, 0.3)]
        plan += [(2 ** e, rng.random() < 0.3, rng.random() < 0.3, 0.3) for e in (12, 14, 16, 16, 18, 18, 20, 20, 22)]
        plan += thin_plan(rng, 4)
    else:
        plan = [(H, rng.random() < 0.3, rng.random() < 0.3, 0.4) for _ in range(14)] + [(H, False, False, 80.0), (2 ** 25, False, False, 0.4), (2 ** 25, True, False, 0.4)]
        plan += [(2 ** rng.randint(10, 23), rng.random() < 0.3, rng.random() < 0.3, 2.0) for _ in range(100)]
        plan += thin_plan(rng, 16)
    rng.shuffle(plan)
    return plan


BG_SPELLINGS = [((), {}), ((), dict(return_bins=True)), ((True,), {}), ((), dict(return_bins=False)), ((False,), {})]


def bundled_table():
    """the bundled CSV read independently of pandas: (column names, index values, rows of floats)"""
    import csv, os
    import pyrepseq as prs
    with open(os.path.join(os.path.dirname(prs.__file__), 'data', 'pcdelta_pbmc_minervina.csv'), newline='') as f:
        rows = list(csv.reader(f))
    return rows[0][1:], [int(r[0]) for r in rows[1:]], [[float(x) for x in r[1:]] for r in rows[1:]]


def bg_mutations(rng):
    """in-place modifications a caller may apply to the objects an earlier call returned (label, function(table, bins))"""
    def last_catch_all(t, b):
        if b is not None:
            b[-1] = 1000

    def shift_bins(t, b):
        if b is not None:
            b += rng.randint(1, 3)

    def scale_bins(t, b):
        if b is not None:
            b *= 2

    def zero_bins(t, b):
        if b is not None:
            b[:] = 0

    def renormalise(t, b):
        t /= t.sum() * rng.choice([1, 2])

    def zero_table(t, b):
        t.iloc[:, :] = 0.0

    def one_cell(t, b):
        t.iloc[rng.randrange(len(t)), rng.randrange(t.shape[1])] = 7.0

    def drop_rows(t, b):
        t.drop(index=t.index[rng.randint(1, len(t) - 1):], inplace=True)

    def drop_first(t, b):
        t.drop(index=t.index[0], inplace=True)

    def reindex(t, b):
        t.index = [int(i) + 1 for i in t.index]

    def rename(t, b):
        t.rename(columns={t.columns[0]: 'x'}, inplace=True)

    def add_column(t, b):
        t['extra'] = 1.0

    def drop_column(t, b):
        t.drop(columns=t.columns[-1], inplace=True)
    return [last_catch_all, shift_bins, scale_bins, zero_bins, renormalise, zero_table, one_cell, drop_rows, drop_first, reindex, rename, add_column, drop_column]


def check_background(ctx, rng):
    import pyrepseq as prs
    bins_m, rows = ctx.oracle.run([('api_c05_background', [0])])[0]
    dn, dp, dedges = ctx.oracle.run([('api_c05_defaults', [0])])[0]
    cols_f, index_f, vals_f = bundled_table()

    def spell(sp):
        return 'load_pcDelta_background(%s)' % ', '.join([repr(a) for a in sp[0]] + ['%s=%r' % kv for kv in sp[1].items()])

    def pristine(sp, res):
        """None if the call returned the bundled table (and bins 0..rows), else what is wrong"""
        want_bins = not ((sp[0] and sp[0][0] is False) or sp[1].get('return_bins') is False)
        if res[0] != 'ok':
            return 'raised %s' % (res,)
        if want_bins:
            if not (isinstance(res[1], tuple) and len(res[1]) == 2):
                return 'did not return (table, bins): %r' % (type(res[1]),)
            back, bins = res[1]
            if not (isinstance(bins, np.ndarray) and bins.ndim == 1 and np.issubdtype(bins.dtype, np.integer) and [int(x) for x in bins] == bins_m == list(range(rows + 1))):
                return 'bins = %s are not the consecutive integers 0..%d' % (list(np.asarray(bins).tolist()), rows)
        else:
            back = res[1]
        if not isinstance(back, pd.DataFrame):
            return 'table is a %r' % (type(back),)
        if len(back) != rows or (want_bins and len(bins) != len(back) + 1):
            return 'table has %d rows, the bundled one %d' % (len(back), rows)
        if [int(i) for i in back.index] != bins_m[:-1] or [int(i) for i in back.index] != index_f:
            return 'table index = %s, not 0..%d' % (list(back.index), rows - 1)
        if [str(c) for c in back.columns] != cols_f:
            return 'table columns = %s, bundled %s' % (list(back.columns), cols_f)
        got = back.to_numpy(dtype=float)
        if got.shape != (rows, len(cols_f)) or not np.allclose(got, np.array(vals_f), rtol=1e-12, atol=0.0, equal_nan=True):
            bad = [(i, c) for i in range(rows) for c in range(len(cols_f)) if not np.isclose(got[i, c], vals_f[i][c], rtol=1e-12, atol=0.0, equal_nan=True)]
            return 'table values differ from the bundled file at (row, column) %s' % (bad[:5],)
        return None

    impl = call_impl(prs.load_pcDelta_background)
    ctx.case(nontrivial_key=('background',))
    why = pristine(BG_SPELLINGS[0], impl)
    if why is None and [Fraction(e) for e in dedges] != [Fraction(b) for b in bins_m]:
        why = 'bins differ from the default edges of pcDelta'
    if why is not None:
        ctx.violation('property', 'load_pcDelta_background(): %s (model: bins %s, %d rows)' % (why, bins_m, rows), dict(func='load_pcDelta_background'),
                      site='distance.load_pcDelta_background')
        return
    # every call returns the bundled table and bins 0..rows - whatever the caller did IN PLACE with the objects an earlier call
    # returned (a catch-all last bin, renormalised columns, dropped rows ...)
    muts = bg_mutations(rng)
    order = BG_SPELLINGS * 3
    rng.shuffle(order)
    history = []
    for step, sp in enumerate(order + BG_SPELLINGS):
        res = call_impl(prs.load_pcDelta_background, *sp[0], **sp[1])
        why = pristine(sp, res)
        ctx.count('background_after_inplace_edit')
        ctx.case(nontrivial_key=('background-again', step, spell(sp)) if history else None)
        if why is not None:
            ctx.violation('property', '%s: %s - after the caller had modified in place the objects returned by earlier calls: %s' % (
                spell(sp), why, '; '.join(history) if history else '(nothing)'), dict(func='load_pcDelta_background', steps=history + [spell(sp)]),
                site='distance.load_pcDelta_background[repeated call]')
            return
        t, b = res[1] if isinstance(res[1], tuple) else (res[1], None)
        for f in rng.sample(muts, rng.randint(1, 3)):
            if b is None and f.__name__.endswith('bins') or (b is None and f.__name__ == 'last_catch_all'):
                continue
            if len(t) < 3 and f.__name__.startswith('drop'):
                continue
            try:
                f(t, b)
                history.append('%s -> %s' % (spell(sp), f.__name__))
            except Exception:
                pass
    back, bins = call_impl(prs.load_pcDelta_background)[1]
    for _ in range(8):
        xs = rand_strings(rng, rng.randint(3, 12), 'ACDEFGHIKLMNPQRSTVWY', rng.choice([3, 15, 30]))
        a = call_impl(prs.pcDelta, xs, bins=bins, normalize=False)
        b = call_impl(prs.pcDelta, xs, normalize=False)
        rows_m = [(s, '') for s in xs]
        cnt = ctx.oracle.run([('api_c05_counts', [0, 1, 1, 1, rows_m, None, [Fraction(v) for v in bins_m]])])[0]
        ctx.case(nontrivial_key=('bgalign', tuple(xs)))
        if not (a[0] == 'ok' and b[0] == 'ok' and len(a[1]) == len(back) and [int(x) for x in a[1]] == cnt == [int(x) for x in b[1]]):
            ctx.violation('property', 'pcDelta(%s, bins=<background bins>) = %s does not align with the %d table rows / default bins give %s (model %s)' % (
                xs, show(a), len(back), show(b), cnt), dict(xs=xs), site='distance.pcDelta[background bins]')
            return
        if [int(x) for x in bins] != bins_m:
            ctx.violation('property', 'pcDelta(%s, bins=<background bins>) modified the caller\'s bins to %s' % (xs, bins.tolist()), dict(xs=xs),
                          site='distance.pcDelta[background bins]')
            return
    # the same alignment for tables, a second collection, the normalised forms (the table holds normalised values) and distances on / beyond the last edge
    for _ in range(10):
        case = gen_default_edge_case(rng) if rng.random() < 0.5 else gen_wide_tcr_case(rng) if rng.random() < 0.5 else gen_string_case(rng, big=True)
        case['bins'], case['bins_container'] = [str(v) for v in bins_m], 'ndarray'
        outs = ctx.oracle.run(oracle_requests(case))
        if isinstance(outs[0], Exception):
            continue
        exp = expected_from(case, outs[0], ctx)
        a = call_pcdelta(case, bins=bins)
        norm = True if case['normalize'] is None else case['normalize']
        ctx.count('background_bins_alignment')
        ctx.case(nontrivial_key=('bgalign2', describe(case)))
        if not (vec_ok(a, exp, integral=not norm) and len(a[1]) == len(back)) or [int(x) for x in bins] != bins_m:
            ctx.violation('property', '%s with bins = the array returned by load_pcDelta_background() = %s does not align with the %d table rows: expected %s (raw counts %s); bins afterwards %s' % (
                describe(case), show(a), len(back), ['nan' if q is None else str(q) for q in exp], outs[0], bins.tolist()), dict(case=case), site='distance.pcDelta[background bins]')
            return


def check_default_metric(ctx):
    """auxiliary localisation only: the end-to-end comparison of pcDelta(table) decides"""
    import pyrepseq.distance as dist
    if not hasattr(dist, 'get_default_metric_for_input_data'):
        return
    names = {0: 'Levenshtein', 1: 'AlphaCdr3Levenshtein', 2: 'BetaCdr3Levenshtein', 3: 'Cdr3Levenshtein'}
    for isdf, a, b in itertools.product([True, False], repeat=3):
        if not isdf and (a or b):
            continue
        code = ctx.oracle.run([('api_c05_default_metric', [isdf, a, b])])[0]
        arg = ['CA', 'CB'] if not isdf else pd.DataFrame(dict(TRBV=['x', 'y'], **({'CDR3A': ['CA', 'CB']} if a else {}), **({'CDR3B': ['CA', 'CB']} if b else {})))
        r = call_impl(dist.get_default_metric_for_input_data, arg)
        if not (r[0] == 'ok' and type(r[1]).__name__ == names.get(code)):
            ctx.note('default metric table: generated model says %s, helper returns %s for table=%s CDR3A=%s CDR3B=%s' % (names.get(code), r, isdf, a, b))


def run(ctx):
    rng = ctx.rng
    ctx.rule = ('(a) every list of 2-3 (thorough: 2-4) strings over {"", A, B, AA, AB, BA}, one or two collections, normalize in {True, False}, '
                'pseudocount in {0, 1/2, 1, 3}, integer / half-integer / shifted edges; (b) random string collections (2-4-20-letter and non-ASCII alphabets, '
                'duplicates and near-duplicates) x metric in {default, Levenshtein(), WeightedLevenshtein(wi,wd,ws), user-defined Metric} x containers x '
                'bins in {None, range, random increasing integer / half-integer / mixed edges as list, tuple, ndarray} with distances below the first and beyond '
                'the last edge and on edges; (c) TCR tables with CDR3A / CDR3B / both columns, extra columns, permuted and relabelled index, legacy tuple, default '
                'and explicit TCR metrics; (d) bins=0 vs pc; (e) zero bin vs sum n_i(n_i-1)/2; (f) maxseqs: result must be the histogram of one of the '
                'sub-collections of exactly min(N, maxseqs) elements enumerated by the model; (g) load_pcDelta_background bins vs table rows vs default bins vs the bundled file, '
                'again after the caller modified the returned table / bins in place, every call spelling; (h) large collections (2**12 .. more than 2**24 pairs, '
                'lengths not multiples of one another, 3-5 distinct elements; more than 2**15 / 2**16 elements against 1-5): expected counts from the model on the '
                'distinct elements weighted by multiplicities; (i) wider inputs: numpy unicode array / tuple / pandas Index / Series with string, duplicated, shifted labels / '
                'string and category dtype / set, a different container for the second collection, the same object as both collections, arguments by position / all by '
                'keyword, bins as Series / Index / uint8 / int16 / int32 / float32 / float64 / NumPy scalars, numpy.bool_ normalize, pseudocounts 1e-6 .. 1e5 typed int / '
                'float64 / float32, weights 100 .. 40000 (distances beyond 255 / 65535), case / blank / symbol alphabets, strings of 65 .. 300 residues, distances on the last '
                'default edge, second table with more columns / own index, legacy tuple of Series; (j) maxseqs = 1, NumPy integer, further containers and explicit metrics, '
                'collections of 50 .. 66000 elements (admissible histograms enumerated as sub-multisets), the draw varies and reaches every element over 80 NumPy seeds; '
                '(k) histories of calls on one array / table refilled in place, one bins array shifted in place, one Metric object, results overwritten by the caller. '
                'non-trivial := N >= 3 and at least two non-empty bins (for d-g: the quantity is not degenerate)')
    ctx.exhaustive = True
    q = ctx.quick
    if not run_cases(ctx, exhaustive_cases(rng, q), 'distance.pcDelta[small strings]', vm_every=40):
        return
    if not run_cases(ctx, [gen_string_case(rng) for _ in range(500 if q else 8000)], 'distance.pcDelta[strings]', vm_every=25):
        return
    if not run_cases(ctx, [gen_string_case(rng, big=True) for _ in range(40 if q else 600)], 'distance.pcDelta[strings]'):
        return
    if not run_cases(ctx, [gen_tcr_case(rng) for _ in range(300 if q else 5000)], 'distance.pcDelta[tcr]', vm_every=30):
        return
    if not run_cases(ctx, [gen_tcr_case(rng, big=True) for _ in range(20 if q else 300)], 'distance.pcDelta[tcr]'):
        return
    # coverage audit: further containers / spellings / dtypes / sizes (see the comment above WIDE_ALPHABETS)
    if not run_cases(ctx, [gen_wide_string_case(rng) for _ in range(150 if q else 2500)], 'distance.pcDelta[strings, wider inputs]', vm_every=50):
        return
    if not run_cases(ctx, [gen_wide_tcr_case(rng) for _ in range(90 if q else 1500)], 'distance.pcDelta[tcr, wider inputs]', vm_every=60):
        return
    if not run_cases(ctx, [gen_default_edge_case(rng) for _ in range(20 if q else 400)], 'distance.pcDelta[last default edge]'):
        return
    if not run_cases(ctx, [gen_long_case(rng, [65, 100, 127, 128, 129]) for _ in range(6 if q else 80)] +
                     [gen_long_case(rng, [255, 256, 257, 300]) for _ in range(1 if q else 20)], 'distance.pcDelta[long strings]'):
        return
    check_bins0(ctx, rng, 120 if q else 2000)
    check_bins0(ctx, rng, 60 if q else 800, wide_opts=True)
    check_zero_bin(ctx, rng, 80 if q else 1500)
    check_maxseqs(ctx, rng, 100 if q else 1500)
    check_maxseqs(ctx, rng, 40 if q else 700, wide_opts=True)
    if not any((v.get('site') or '').startswith('distance.pcDelta[maxseqs') for v in ctx.violations):     # (an uncut collection of 66000 would cost 4e9 distances)
        check_maxseqs_large(ctx, rng, 16 if q else 200, [50, 127, 128, 300, 1000, 1001, 5000, 33000, 66000])
    check_maxseqs_random(ctx, rng, 6 if q else 60)
    check_history(ctx, rng, 15 if q else 250, 6 if q else 8)
    check_large(ctx, rng, large_plan(rng, q))
    check_background(ctx, rng)
    check_default_metric(ctx)
    ctx.assumptions += ['numpy.histogram bin convention (half-open bins, last bin closed, values outside dropped): modelled, exercised with values on every edge',
                        'rapidfuzz process.cdist / Levenshtein.distance(weights=...) values and scipy squareform(checks=False) taking the upper triangle: modelled (C08), exercised',
                        'numpy.random.choice(replace=False) / DataFrame.sample(n) draw duplicate-free positions: modelled as an arbitrary duplicate-free draw',
                        'metrics take natural-number values (all bundled Metric classes do); alpha/beta/CDR weights other than 1 belong to C09']


def replay(ctx, obj):
    rp = obj.get('replay') or {}
    case = rp.get('case')
    site = obj.get('site')
    if isinstance(rp.get('history'), dict):
        res = eval_history(ctx, rp['history'])
        ctx.case(nontrivial_key=('replay', 'history'))
        if res is not None:
            ctx.violation(res[0], res[1], dict(history=rp['history']), site=site)
        return
    if isinstance(rp.get('distinct'), dict) and rp.get('seeds'):
        why = eval_maxseqs_distinct(ctx, rp['distinct'], rp['seeds'])
        ctx.case(nontrivial_key=('replay', 'distinct'))
        if why is not None:
            ctx.violation('property', why, dict(distinct=rp['distinct'], seeds=rp['seeds']), site=site)
        return
    if isinstance(rp.get('random'), dict) and rp.get('seeds'):
        why = eval_random(ctx, rp['random'], rp['seeds'])
        ctx.case(nontrivial_key=('replay', 'random'))
        if why is not None:
            ctx.violation('property', why, dict(random=rp['random'], seeds=rp['seeds']), site=site)
        return
    if isinstance(rp.get('large'), dict) and 'mx' in rp['large']:
        lc = rp['large']
        if lc.get('maxseqs') is not None and rp.get('seeds'):
            res = eval_maxseqs_large(ctx, lc, rp['seeds'])[1]
            res = None if res is None else ('property', res)
        else:
            res = eval_large(ctx, lc)
        ctx.case(nontrivial_key=('replay', describe_large(lc)))
        if res is not None:
            ctx.violation(res[0], res[1], dict(large=lc), site=site)
        return
    if isinstance(case, dict) and case.get('bins') != '0' and 'xs' in case and case.get('maxseqs') is not None and rp.get('seeds'):
        why = eval_maxseqs(ctx, case, rp['seeds'])[1]
        ctx.case(nontrivial_key=('replay', describe(case)))
        if why is not None:
            ctx.violation('property', why, dict(case=case, seeds=rp['seeds']), site=site)
        return
    if isinstance(case, dict) and case.get('bins') != '0' and 'xs' in case and case.get('maxseqs') is None:
        res = eval_case(ctx, case)
        ctx.case(nontrivial_key=('replay', describe(case)))
        if res is not None:
            ctx.violation(res[0], res[1], dict(case=case), site=site)
        return
    run(ctx)
