"""C05 - pcDelta is the exact histogram of all pairwise distances.

Oracle = the extracted Coq model (coq/model/PcDelta.v through coq/extract/Api_c05.v):
  api_c05_counts      raw histogram (proved: bin t = number of unordered / cross pairs with distance in bin t)
  api_c05_spec_norm   the statement's normalisation formulas counts/total, (count+c)/(total+2c)
  api_c05_pcdelta     the whole function with the tail REGENERATED from distance.py (proved equal to the two above)
A difference between the implementation and the first two is a failing input of the property; a difference with
the third alone is a correspondence break."""
import itertools, math
from fractions import Fraction
import numpy as np
import pandas as pd
from core import call_impl, close

PCS = [Fraction(0), Fraction(1, 2), Fraction(1), Fraction(3)]
DEFAULT_EDGES = [Fraction(k) for k in range(25)]            # docstring: "Default: range(0, 25)"
KIND = {'alpha': 0, 'beta': 2, 'cdr3': 3}


# ---------------------------------------------------------------------------------------------- cases
def fr(x):
    return Fraction(x)


def case_rows(case):
    """Model elements (alpha, beta) of both collections."""
    def conv(c):
        if c is None:
            return None
        if case['kind'] == 'str':
            return [(s, '') for s in c]
        return [(a or '', b or '') for a, b in c]
    return conv(case['xs']), conv(case['ys'])


def model_metric(case):
    """(kind, wi, wd, ws) of the SPECIFIED metric: for metric=None the property names the default."""
    m = case['metric']
    if case['kind'] == 'str':
        return (0,) + tuple(m[1:]) if m[0] in ('wlev', 'custom') else (0, 1, 1, 1)
    if m[0] == 'default':
        cols = case['cols']
        return (3 if ('A' in cols and 'B' in cols) else 0 if 'A' in cols else 2, 1, 1, 1)
    return (KIND[m[0]],) + tuple(m[1:])


class _Custom:
    pass


def make_custom(wi, wd, ws):
    """A user-defined Metric: weighted edit distance by plain Python loops (exercises 'all Metric objects')."""
    from pyrepseq.metric import Metric
    from rapidfuzz.distance import Levenshtein as RL

    class LoopMetric(Metric):
        name = 'harness loop metric'

        def calc_cdist_matrix(self, anchors, comparisons):
            a, b = list(anchors), list(comparisons)
            return np.array([[RL.distance(x, y, weights=(wi, wd, ws)) for y in b] for x in a], dtype=np.int64).reshape(len(a), len(b))

        def calc_pdist_vector(self, instances):
            a = list(instances)
            return np.array([RL.distance(a[i], a[j], weights=(wi, wd, ws)) for i in range(len(a)) for j in range(i + 1, len(a))], dtype=np.int64)
    return LoopMetric()


def make_metric(m):
    from pyrepseq.metric import Levenshtein, WeightedLevenshtein
    from pyrepseq.metric.tcr_metric import AlphaCdr3Levenshtein, BetaCdr3Levenshtein, Cdr3Levenshtein
    if m[0] == 'default':
        return None
    if m[0] == 'lev':
        return Levenshtein()
    if m[0] == 'wlev':
        return WeightedLevenshtein(*m[1:])
    if m[0] == 'custom':
        return make_custom(*m[1:])
    cls = dict(alpha=AlphaCdr3Levenshtein, beta=BetaCdr3Levenshtein, cdr3=Cdr3Levenshtein)[m[0]]
    return cls(insertion_weight=m[1], deletion_weight=m[2], substitution_weight=m[3])


def make_coll(case, which):
    c = case[which]
    if c is None:
        return None
    cont = case.get('container', 'list')
    if case['kind'] == 'str':
        if cont == 'ndarray':
            return np.array(c, dtype=object)
        if cont == 'series':
            return pd.Series(c, index=case.get('index_' + which) or range(len(c)))
        return list(c)
    if case['kind'] == 'tuple':
        return ([a for a, b in c], [b for a, b in c])
    cols = case['cols']
    d = {}
    for k, name in enumerate(case.get('extra', [])):
        d[name] = ['TRXV%d' % (i % 3) for i in range(len(c))]
    if 'A' in cols:
        d['CDR3A'] = [a for a, b in c]
    if 'B' in cols:
        d['CDR3B'] = [b for a, b in c]
    order = list(d)
    if case.get('colperm') is not None:
        # the metric is chosen from the columns PRESENT, not from their order: beta left of alpha, metadata in between
        order = order[::-1] if case['colperm'] == 'reverse' else order[1:] + order[:1]
    df = pd.DataFrame(d, columns=order)
    idx = case.get('index_' + which)
    if idx is not None:
        df.index = idx
    return df


def make_bins(case):
    b = case['bins']
    if b is None:
        return None
    vals = [fr(x) for x in b]
    allint = all(v.denominator == 1 for v in vals)
    cont = case.get('bins_container', 'list')
    py = [int(v) if allint else float(v) for v in vals]
    if cont == 'range' and allint and all(vals[i + 1] - vals[i] == 1 for i in range(len(vals) - 1)):
        return range(int(vals[0]), int(vals[-1]) + 1)
    if cont == 'ndarray':
        return np.array(py)
    if cont == 'tuple':
        return tuple(py)
    return py


def call_pcdelta(case, **over):
    import pyrepseq as prs
    kw = {}
    ys = make_coll(case, 'ys')
    m = make_metric(case['metric'])
    if m is not None:
        kw['metric'] = m
    b = make_bins(case)
    if b is not None:
        kw['bins'] = b
    if case['normalize'] is not None:
        kw['normalize'] = case['normalize']
    if case['pseudocount'] is not None:
        kw['pseudocount'] = float(fr(case['pseudocount']))
    if case.get('maxseqs') is not None:
        kw['maxseqs'] = case['maxseqs']
    kw.update(over)
    xs = make_coll(case, 'xs')
    if ys is not None:
        return call_impl(prs.pcDelta, xs, ys, **kw)
    return call_impl(prs.pcDelta, xs, **kw)


def oracle_requests(case):
    rows, rows2 = case_rows(case)
    kind, wi, wd, ws = model_metric(case)
    edges = DEFAULT_EDGES if case['bins'] is None else [fr(x) for x in case['bins']]
    norm = True if case['normalize'] is None else case['normalize']
    c = Fraction(0) if case['pseudocount'] is None else fr(case['pseudocount'])
    return [('api_c05_counts', [kind, wi, wd, ws, rows, rows2, edges]),
            ('api_c05_pcdelta', [kind, wi, wd, ws, rows, rows2, None if case['bins'] is None else edges, norm, c])]


def expected_from(case, counts, ctx):
    """The statement's value for this input, from the proved raw counts."""
    norm = True if case['normalize'] is None else case['normalize']
    c = Fraction(0) if case['pseudocount'] is None else fr(case['pseudocount'])
    if not norm:
        return [Fraction(x) for x in counts]
    if c == 0 and sum(counts) == 0:
        return [None] * len(counts)
    return ctx.oracle.run([('api_c05_spec_norm', [c, counts])])[0]


def vec_ok(impl, exp, integral=False):
    if impl[0] != 'ok':
        return False
    v = impl[1]
    if not isinstance(v, np.ndarray) or v.ndim != 1 or len(v) != len(exp):
        return False
    if integral and not np.issubdtype(v.dtype, np.integer):
        return False
    for x, q in zip(v.tolist(), exp):
        if q is None:
            if isinstance(x, int) or math.isfinite(x):
                return False
        elif isinstance(x, int):
            if Fraction(x) != q:
                return False
        elif not close(x, q):
            return False
    return True


def show(impl):
    if impl[0] == 'ok' and isinstance(impl[1], np.ndarray):
        return [round(float(x), 6) if not float(x).is_integer() else int(x) for x in impl[1].tolist()[:30]]
    return impl


def trim(v):
    v = list(v)
    while v and v[-1] == 0:
        v.pop()
    return v


def describe(case):
    s = 'pcDelta(%s' % (case['xs'] if len(repr(case['xs'])) < 300 else repr(case['xs'])[:300] + '...')
    if case['ys'] is not None:
        s += ', %s' % (case['ys'],)
    if case['kind'] != 'str':
        s += ' [%s%s]' % (case['kind'], ' columns ' + case['cols'] if case['kind'] == 'tcr' else '')
    for k in ('metric', 'bins', 'normalize', 'pseudocount', 'maxseqs'):
        if case.get(k) is not None and not (k == 'metric' and case[k][0] == 'default'):
            v = case[k]
            if k == 'bins' and len(v) > 3 and all('/' not in x for x in v) and all(int(v[i + 1]) - int(v[i]) == 1 for i in range(len(v) - 1)):
                v = 'range(%s, %d)' % (v[0], int(v[-1]) + 1)
            s += ', %s=%s' % (k, v)
    return s + ')'


def eval_case(ctx, case, outs=None):
    """-> None if the implementation agrees with the specification on this input, else (kind, message)."""
    if outs is None:
        outs = ctx.oracle.run(oracle_requests(case))
    counts, model = outs
    if isinstance(counts, Exception) or isinstance(model, Exception):
        return ('correspondence', 'oracle rejected %s: %s' % (describe(case), counts))
    exp = expected_from(case, counts, ctx)
    impl = call_pcdelta(case)
    norm = True if case['normalize'] is None else case['normalize']
    if not vec_ok(impl, exp, integral=not norm):
        what = 'raw counts' if not norm else 'normalised histogram'
        return ('property', '%s = %s but the %s of all %s pairs is %s (raw counts %s)' % (
            describe(case), show(impl), what, 'cross' if case['ys'] is not None else 'unordered',
            ['nan' if q is None else str(q) for q in exp], counts))
    if not vec_ok(impl, model):
        return ('correspondence', '%s = %s, specification satisfied, but the regenerated model gives %s' % (
            describe(case), show(impl), [str(q) for q in model]))
    return None


def shrink(ctx, case):
    """Greedy: drop elements, then simplify parameters, while the property still fails."""
    def fails(c):
        try:
            r = eval_case(ctx, c)
        except Exception:
            return False
        return r is not None and r[0] == 'property'
    cur = dict(case)
    for _ in range(4):
        changed = False
        for which in ('xs', 'ys'):
            if cur[which] is None:
                continue
            i = 0
            while i < len(cur[which]) and len(cur[which]) > (2 if which == 'xs' else 1):
                cand = dict(cur)
                cand[which] = cur[which][:i] + cur[which][i + 1:]
                for k in ('index_' + which,):
                    if cand.get(k) is not None:
                        cand[k] = None
                if fails(cand):
                    cur, changed = cand, True
                else:
                    i += 1
        for k, v in (('container', 'list'), ('bins_container', 'list'), ('index_xs', None), ('index_ys', None), ('extra', [])):
            if cur.get(k) not in (None, v, []):
                cand = dict(cur)
                cand[k] = v
                if fails(cand):
                    cur, changed = cand, True
        if not changed:
            break
    return cur


# ---------------------------------------------------------------------------------------------- generators
def rand_strings(rng, n, alphabet, maxlen, dup=0.3):
    out = []
    for _ in range(n):
        if out and rng.random() < dup:
            s = rng.choice(out)
            if rng.random() < 0.5 and s:        # near-duplicate
                i = rng.randrange(len(s))
                s = s[:i] + rng.choice(alphabet) + s[i + rng.choice([0, 1]):]
            out.append(s)
        else:
            out.append(''.join(rng.choice(alphabet) for _ in range(rng.randint(0, maxlen))))
    return out


def rand_edges(rng, maxd):
    """increasing edge vectors: consecutive integers, random integers, half-integers, mixed; first edge above 0 and
    last edge below the largest distance with positive probability"""
    style = rng.choice(['range', 'range', 'ints', 'halves', 'mixed', 'range_from', 'far'])
    hi = max(2, maxd + rng.choice([-3, -2, -1, 0, 1, 2]))
    if style == 'far':          # every distance outside the edges: total 0
        lo = 2 * maxd + 40
        return [str(lo + k) for k in range(rng.randint(2, 4))], rng.choice(['list', 'ndarray'])
    if style == 'range':
        return [str(k) for k in range(0, rng.randint(2, max(3, hi)) + 1)], rng.choice(['range', 'list', 'ndarray', 'tuple'])
    if style == 'range_from':
        lo = rng.randint(1, 3)
        return [str(k) for k in range(lo, lo + rng.randint(1, max(2, hi)) + 1)], rng.choice(['range', 'list', 'ndarray'])
    k = rng.randint(2, 7)
    if style == 'ints':
        vals = sorted(rng.sample(range(0, hi + 4), min(k, hi + 4)))
    elif style == 'halves':
        vals = sorted(Fraction(2 * v + 1, 2) for v in rng.sample(range(-1, hi + 3), min(k, hi + 4)))
    else:
        vals = sorted(set(Fraction(v, 2) for v in rng.sample(range(-1, 2 * hi + 6), min(k, 2 * hi + 7))))
    if len(vals) < 2:
        vals = [Fraction(0), Fraction(1)]
    return [str(Fraction(v)) for v in vals], rng.choice(['list', 'ndarray', 'tuple'])


def rand_params(rng, case, maxd):
    case['normalize'] = rng.choice([True, False, None])
    case['pseudocount'] = str(rng.choice(PCS)) if rng.random() < 0.7 else None
    r = rng.random()
    if r < 0.12:
        case['bins'], case['bins_container'] = None, 'list'
    else:
        case['bins'], case['bins_container'] = rand_edges(rng, maxd)
    return case


def gen_string_case(rng, big=False):
    alphabet = rng.choice(['AB', 'ACD', 'ACDEFGHIKLMNPQRSTVWY', 'Cé中'])
    n = rng.randint(2, 40 if big else 9)
    maxlen = rng.choice([1, 3, 6, 12 if big else 7])
    case = dict(kind='str', xs=rand_strings(rng, n, alphabet, maxlen), ys=None, cols=None)
    if rng.random() < 0.4:
        case['ys'] = rand_strings(rng, rng.randint(1, 12 if big else 6), alphabet, maxlen) + rng.sample(case['xs'], 1)
    m = rng.random()
    if m < 0.3:
        case['metric'] = ['default']
    elif m < 0.5:
        case['metric'] = ['lev']
    elif m < 0.85:
        case['metric'] = ['wlev'] + [rng.choice([1, 1, 2, 3, 5]) for _ in range(3)]
    else:
        case['metric'] = ['custom'] + [rng.choice([1, 2, 3]) for _ in range(3)]
    case['container'] = rng.choice(['list', 'list', 'ndarray', 'series'])
    if case['container'] == 'series' and rng.random() < 0.5:
        idx = list(range(100, 100 + len(case['xs'])))
        rng.shuffle(idx)
        case['index_xs'] = idx
    w = case['metric'][1:] or [1, 1, 1]
    return rand_params(rng, case, maxlen * max(w))


def gen_tcr_case(rng, big=False):
    n = rng.randint(2, 25 if big else 8)
    a = rand_strings(rng, n, 'ACS', 5)
    b = rand_strings(rng, n, 'ACS', 5)
    form = rng.random()
    case = dict(kind='tcr', xs=[list(p) for p in zip(a, b)], ys=None, cols=rng.choice(['A', 'B', 'AB', 'AB']))
    if rng.random() < 0.4:
        case['colperm'] = rng.choice(['reverse', 'rotate'])
    if form < 0.2:
        case['kind'], case['cols'] = 'tuple', 'AB'
    if rng.random() < 0.4:
        n2 = rng.randint(1, 6)
        case['ys'] = [list(p) for p in zip(rand_strings(rng, n2, 'ACS', 5), rand_strings(rng, n2, 'ACS', 5))] + [list(case['xs'][0])]
    m = rng.random()
    if m < 0.5:
        case['metric'] = ['default']
    else:
        ok = [k for k, need in (('alpha', 'A'), ('beta', 'B')) if need in case['cols']] + (['cdr3'] if case['cols'] == 'AB' else [])
        case['metric'] = [rng.choice(ok)] + ([1, 1, 1] if rng.random() < 0.5 else [rng.choice([1, 2, 3]) for _ in range(3)])
    if case['kind'] == 'tcr':
        if rng.random() < 0.5:
            idx = list(range(len(case['xs'])))
            rng.shuffle(idx)
            case['index_xs'] = idx if rng.random() < 0.5 else ['r%d' % i for i in idx]
        if rng.random() < 0.4:
            case['extra'] = rng.choice([['TRBV'], ['TRAV', 'TRBJ']])
    w = case['metric'][1:] or [1, 1, 1]
    return rand_params(rng, case, 5 * max(w) * (2 if 'AB' == case['cols'] else 1))


# ---------------------------------------------------------------------------------------------- the check
def report(ctx, case, res, site):
    kind, msg = res
    if kind == 'property':
        small = shrink(ctx, case)
        r2 = eval_case(ctx, small)
        if r2 is not None and r2[0] == 'property':
            case, msg = small, r2[1]
    ctx.violation(kind, msg, dict(case=case), site=site)


def run_cases(ctx, cases, site, vm_every=0):
    reqs = []
    for c in cases:
        reqs += oracle_requests(c)
    outs = ctx.oracle.run_parallel(reqs)
    for k, case in enumerate(cases):
        o = outs[2 * k:2 * k + 2]
        counts = o[0] if not isinstance(o[0], Exception) else []
        npairs = (len(case['xs']) * (len(case['xs']) - 1) // 2) if case['ys'] is None else len(case['xs']) * len(case['ys'])
        nt = sum(1 for x in counts if x) >= 2 and len(case['xs']) >= 3
        ctx.count('metric=' + case['metric'][0])
        ctx.count('bins=' + ('None' if case['bins'] is None else 'half' if any('/' in x for x in case['bins']) else 'int'))
        ctx.count('normalize=%s' % case['normalize'])
        ctx.count('pseudocount=%s' % case['pseudocount'])
        ctx.count('two_collections' if case['ys'] is not None else 'one_collection')
        ctx.count('input=' + case['kind'] + ('/' + case['cols'] if case['cols'] else ''))
        if sum(counts) < npairs:
            ctx.count('some_distance_outside_edges')
        ctx.case(sample=dict(call=describe(case), counts=counts) if nt and k % 97 == 0 else None,
                 nontrivial_key=(describe(case),) if nt else None)
        res = eval_case(ctx, case, o)
        if res is not None:
            # a correspondence-only break (e.g. the tail translator refused and the model is a stub) must not stop
            # the search for an input on which the PROPERTY fails
            if res[0] == 'property' or sum(1 for v in ctx.violations if v['kind'] == 'correspondence') < 3:
                report(ctx, case, res, site)
            if sum(1 for v in ctx.violations if v['kind'] == 'property') >= 2:
                return False
        elif vm_every and k % vm_every == 0 and len(case['xs']) <= 6:
            r = oracle_requests(case)[1]
            ctx.add_vm(r[0], r[1], o[1])
    return True


def exhaustive_cases(rng, quick):
    pool = ['', 'A', 'B', 'AA', 'AB', 'BA']
    out = []
    for n in ((2, 3) if quick else (2, 3, 4)):
        for xs in itertools.product(pool, repeat=n):
            case = dict(kind='str', xs=list(xs), ys=None, cols=None, metric=[rng.choice(['default', 'lev'])], container='list')
            if rng.random() < 0.25:
                case['ys'] = [rng.choice(pool) for _ in range(rng.randint(1, 3))]
            case['normalize'] = rng.choice([True, False])
            case['pseudocount'] = str(rng.choice(PCS))
            case['bins'], case['bins_container'] = rng.choice([
                (['0', '1', '2', '3'], 'range'), (['0', '1', '2'], 'list'), (['1', '2', '3'], 'ndarray'),
                (['1/2', '3/2', '2'], 'list'), (['-1/2', '1/2', '5/2'], 'ndarray'), (['0', '1'], 'list'), (['0', '2', '3'], 'tuple'), (['7', '8', '9'], 'list')])
            out.append(case)
    return out


def check_bins0(ctx, rng, n):
    import pyrepseq as prs
    from pyrepseq.metric import WeightedLevenshtein
    for _ in range(n):
        tcr = rng.random() < 0.4
        case = gen_tcr_case(rng) if tcr else gen_string_case(rng)
        case['extra'], case['container'] = [], 'list'
        if case['kind'] == 'tuple':
            case['kind'] = 'tcr'
        xs, ys = make_coll(case, 'xs'), make_coll(case, 'ys')
        rows, rows2 = case_rows(case)
        if tcr:        # pc compares whole rows: only the columns present take part
            keep = (lambda r: (r[0] if 'A' in case['cols'] else '', r[1] if 'B' in case['cols'] else ''))
            rows = [keep(r) for r in rows]
            rows2 = None if rows2 is None else [keep(r) for r in rows2]
        num, den = ctx.oracle.run([('api_c05_bins0', [rows, rows2])])[0]
        kw = rng.choice([{}, dict(normalize=False), dict(pseudocount=0.5), dict(maxseqs=2), dict(metric=WeightedLevenshtein(2, 1, 3)) if not tcr else {}])
        args = (xs,) if ys is None else (xs, ys)
        impl = call_impl(prs.pcDelta, *args, bins=0, **kw)
        ref = call_impl(prs.pc, *args)
        ctx.count('bins=0')
        ctx.case(nontrivial_key=('bins0', repr(rows), repr(rows2)) if 0 < num < den else None)
        ok = impl[0] == 'ok' and np.ndim(impl[1]) == 0 and den > 0 and close(float(impl[1]), Fraction(num, den)) \
            and ref[0] == 'ok' and float(ref[1]) == float(impl[1])
        if not ok:
            ctx.violation('property', 'pcDelta(%s%s, bins=0, %s) = %s but pc of the same arguments is %s (model: %d/%d coinciding pairs)' % (
                case['xs'], '' if ys is None else ', %s' % case['ys'], kw, impl, ref, num, den),
                dict(case=dict(case, bins='0'), kw=repr(kw)), site='distance.pcDelta[bins=0]')
            return


def check_zero_bin(ctx, rng, n):
    import pyrepseq as prs
    for _ in range(n):
        xs = rand_strings(rng, rng.randint(2, 30), rng.choice(['AB', 'ACD']), rng.choice([1, 2, 4]), dup=0.5)
        m = rng.randint(2, 8)
        d = {}
        toks = [d.setdefault(v, len(d) + 1) for v in xs]
        zp, (num, den) = ctx.oracle.run([('api_c05_zero_pairs', [xs]), ('api_pc1', [toks])])
        impl = call_impl(prs.pcDelta, xs, bins=range(m + 1), normalize=False)
        full = call_impl(prs.pcDelta, xs, bins=range(60))
        pcv = call_impl(prs.pc, xs)
        ctx.count('zero_bin')
        ctx.case(nontrivial_key=('zero', tuple(xs)) if 0 < zp else None)
        ok = impl[0] == 'ok' and int(impl[1][0]) == zp and 2 * zp == num \
            and full[0] == 'ok' and pcv[0] == 'ok' and close(float(full[1][0]), Fraction(num, den)) and abs(float(full[1][0]) - float(pcv[1])) < 1e-12
        if not ok:
            ctx.violation('property', 'pcDelta(%s, bins=range(%d), normalize=False)[0] = %s but sum n_i(n_i-1)/2 = %s; normalised zero bin %s vs pc = %s' % (
                xs, m + 1, impl, Fraction(num, 2), full[1][0] if full[0] == 'ok' else full, pcv), dict(xs=xs, m=m), site='distance.pcDelta[zero bin]')
            return


def check_maxseqs(ctx, rng, n):
    import pyrepseq as prs
    wide = [Fraction(k) for k in range(0, 40)]
    for t in range(n):
        tcr = rng.random() < 0.35
        N = rng.randint(3, 7)
        if tcr:
            xs = [list(p) for p in zip(rand_strings(rng, N, 'AC', 4, dup=0.1), rand_strings(rng, N, 'AC', 4, dup=0.1))]
            case = dict(kind='tcr', xs=xs, ys=None, cols='AB', metric=['default'])
        else:
            case = dict(kind='str', xs=rand_strings(rng, N, 'ACD', 5, dup=0.1 if t % 2 else 0.4), ys=None, cols=None, metric=['default'],
                        container=rng.choice(['list', 'ndarray']))
        if rng.random() < 0.35:
            M = rng.randint(1, 6)
            case['ys'] = ([list(p) for p in zip(rand_strings(rng, M, 'AC', 4), rand_strings(rng, M, 'AC', 4))] if tcr
                          else rand_strings(rng, M, 'ACD', 5))
        m = rng.randint(2, N + 2)
        narrow = rng.random() < 0.4
        edges = [Fraction(k) for k in range(0, 4)] if narrow else wide
        case.update(bins=[str(e) for e in edges], bins_container='list', normalize=False, pseudocount=None, maxseqs=m)
        rows, rows2 = case_rows(case)
        kind, wi, wd, ws = model_metric(case)
        subs = ctx.oracle.run([('api_c05_sub_counts', [kind, wi, wd, ws, rows, rows2, edges, m])])[0]
        allowed = {tuple(s) for s in subs}
        m1 = min(N, m)
        npairs = m1 * (m1 - 1) // 2 if case['ys'] is None else m1 * min(len(case['ys']), m)
        ctx.count('maxseqs<N' if m < N else 'maxseqs>=N')
        ctx.case(nontrivial_key=('maxseqs', describe(case)) if len(allowed) > 1 else None)
        for rep in range(6):
            np.random.seed(rng.randrange(2 ** 31))
            impl = call_pcdelta(case)
            ok = impl[0] == 'ok' and tuple(int(x) for x in impl[1]) in allowed and (narrow or int(sum(impl[1])) == npairs)
            if ok and rep == 0:
                np.random.seed(rng.randrange(2 ** 31))
                nrm = call_pcdelta(case, normalize=True)     # normalised form of SOME admissible sub-sample
                ok = nrm[0] == 'ok' and any(
                    (sum(s) == 0 and all(not math.isfinite(x) for x in nrm[1])) or
                    (sum(s) > 0 and all(close(float(x), Fraction(c, sum(s))) for x, c in zip(nrm[1], s))) for s in allowed)
                impl = nrm if not ok else impl
            if not ok:
                ctx.violation('property', '%s = %s is not the histogram of any sub-sample of exactly min(N, maxseqs) = %d elements '
                              '(admissible histograms, trailing zeros cut: %s%s)' % (describe(case), show(impl), m1, sorted({tuple(trim(a)) for a in allowed})[:6], '' if narrow else ', total %d' % npairs),
                              dict(case=case), site='distance.pcDelta[maxseqs]')
                return


# ---------------------------------------------------------------------------------------------- large collections
# Counts depend only on the multisets of elements (theorem C05_order_invariant; one collection: symmetric metric), so the
# histogram of a collection of thousands of elements drawn from a handful of distinct ones follows from the proved counts
# of the model on the DISTINCT elements, weighted by multiplicities:
#   cross:  sum_{u in X, v in Y} m_u m'_v [d(u,v) in bin t]
#   one:    sum_{u<v} m_u m_v [d(u,v) in bin t] + sum_u m_u(m_u-1)/2 [d(u,u) in bin t]
SLOW_US = 3.0e-6        # seconds per pair of the Python-scorer metrics (non-unit weights, user-defined Metric)


def expand(multi, seed):
    import random
    out = []
    for e, m in multi:
        out += [e] * m
    random.Random(seed).shuffle(out)
    return out


def large_full(lc):
    case = {k: v for k, v in lc.items() if k not in ('mx', 'my', 'seed')}
    case['xs'] = expand(lc['mx'], lc['seed'])
    case['ys'] = None if lc['my'] is None else expand(lc['my'], lc['seed'] + 1)
    return case


def npairs_large(lc):
    n = sum(m for _, m in lc['mx'])
    return n * (n - 1) // 2 if lc['my'] is None else n * sum(m for _, m in lc['my'])


def multiset_counts(ctx, lc):
    small = dict(lc, xs=[e for e, _ in lc['mx']], ys=None if lc['my'] is None else [e for e, _ in lc['my']])
    dx, dy = case_rows(small)
    kind, wi, wd, ws = model_metric(small)
    edges = DEFAULT_EDGES if lc['bins'] is None else [fr(x) for x in lc['bins']]
    mx = [m for _, m in lc['mx']]
    reqs, wts = [], []
    if dy is None:
        for i, u in enumerate(dx):
            reqs.append(('api_c05_counts', [kind, wi, wd, ws, [u, u], None, edges]))
            wts.append(mx[i] * (mx[i] - 1) // 2)
            for j in range(i + 1, len(dx)):
                reqs.append(('api_c05_counts', [kind, wi, wd, ws, [u, dx[j]], None, edges]))
                wts.append(mx[i] * mx[j])
    else:
        my = [m for _, m in lc['my']]
        for i, u in enumerate(dx):
            for j, v in enumerate(dy):
                reqs.append(('api_c05_counts', [kind, wi, wd, ws, [u], [v], edges]))
                wts.append(mx[i] * my[j])
    outs = ctx.oracle.run(reqs)
    counts = [0] * (len(edges) - 1)
    for o, w in zip(outs, wts):
        if isinstance(o, Exception):
            raise o
        for t, c in enumerate(o):
            counts[t] += w * c
    return counts


def describe_large(lc):
    def coll(multi, seed):
        n = sum(m for _, m in multi)
        if len(multi) == 1:
            return '[%r] * %d' % (multi[0][0], n)
        return '<%d elements: %s, order random.Random(%d).shuffle>' % (n, ' + '.join('[%r] * %d' % (e, m) for e, m in multi), seed)
    small = dict(lc, xs='X', ys=None)
    tail = describe(small)[len("pcDelta(X"):]
    return 'pcDelta(%s%s%s' % (coll(lc['mx'], lc['seed']), '' if lc['my'] is None else ', ' + coll(lc['my'], lc['seed'] + 1), tail)


def norm_exact(lc, counts):
    """the statement's counts/total resp. (count + c)/(total + 2c) on counts too large for the oracle's unary naturals; check_large compares this
    with api_c05_spec_norm on a scaled-down expansion of the same multisets in every case"""
    norm = True if lc['normalize'] is None else lc['normalize']
    c = Fraction(0) if lc['pseudocount'] is None else fr(lc['pseudocount'])
    total = sum(counts)
    if not norm:
        return [Fraction(x) for x in counts]
    if c == 0 and total == 0:
        return [None] * len(counts)
    return [(x + c) / (total + 2 * c) for x in counts]


def eval_large(ctx, lc):
    try:
        counts = multiset_counts(ctx, lc)
    except Exception as e:
        return ('correspondence', 'oracle rejected %s: %s' % (describe_large(lc), e))
    case = large_full(lc)
    exp = norm_exact(lc, counts)
    impl = call_pcdelta(case)
    norm = True if lc['normalize'] is None else lc['normalize']
    if not vec_ok(impl, exp, integral=not norm):
        return ('property', '%s = %s but the %s of all %d %s pairs is %s (raw counts %s, from the proved counts on the distinct elements '
                'weighted by multiplicities)' % (describe_large(lc), show(impl), 'raw counts' if not norm else 'normalised histogram', npairs_large(lc),
                                                 'cross' if lc['my'] is not None else 'unordered', ['nan' if q is None else str(q) for q in exp][:30], counts[:30]))
    return None


def rescale(multi, n):
    tot = sum(m for _, m in multi)
    out = [[e, max(1, m * n // tot)] for e, m in multi]
    out[0][1] += max(0, n - sum(m for _, m in out))
    return out


def shrink_large(ctx, lc, budget=25.0):
    """simplify parameters, collapse to one distinct element, bisect the sizes - while the property still fails, within a time budget"""
    import time
    t0 = time.time()

    def fails(c):
        if time.time() - t0 > budget:
            return False
        try:
            r = eval_large(ctx, c)
        except Exception:
            return False
        return r is not None and r[0] == 'property'
    cur = dict(lc)
    for k, v in (('normalize', False), ('pseudocount', None), ('container', 'list'), ('bins_container', 'list')):
        if cur.get(k) != v:
            cand = dict(cur)
            cand[k] = v
            if fails(cand):
                cur = cand
    cand = dict(cur, mx=[[cur['mx'][0][0], sum(m for _, m in cur['mx'])]],
                my=None if cur['my'] is None else [[cur['my'][0][0], sum(m for _, m in cur['my'])]])
    if fails(cand):
        cur = cand
    for which in ('mx', 'my'):
        if cur[which] is None:
            continue
        hi = sum(m for _, m in cur[which])
        lo = max(2 if which == 'mx' else 1, len(cur[which])) - 1
        while hi - lo > 1 and time.time() - t0 < budget:
            mid = (lo + hi) // 2
            cand = dict(cur)
            cand[which] = rescale(cur[which], mid)
            if sum(m for _, m in cand[which]) == mid and fails(cand):
                cur, hi = cand, mid
            else:
                lo = mid
    return cur


def gen_large_case(rng, P, tcr=False, one=False, slow_budget=0.5):
    """a collection (pair of collections) with slightly MORE than P pairs, lengths not multiples of one another, drawn from 3-5 distinct short elements"""
    root = math.isqrt(P)
    if one:
        n1 = math.isqrt(2 * P) + 2
        n1 += rng.randint(0, max(1, n1 // 16))
        n2 = None
    else:
        if rng.random() < 0.3:
            n2 = root                                # e.g. 4097 x 4096
            n1 = P // n2 + rng.randint(1, 3)
        else:
            n2 = rng.randint(max(2, root // 3), root)
            n1 = P // n2 + rng.randint(1, max(1, (P // n2) // 8))
        if rng.random() < 0.5:
            n1, n2 = n2, n1
    k = rng.randint(3, 5)
    slow_ok = (n1 * (n1 - 1) // 2 if one else n1 * n2) * SLOW_US <= slow_budget

    def weights(sym):
        if not slow_ok or rng.random() < 0.4:
            return [1, 1, 1]
        w = [rng.choice([1, 1, 2, 3]) for _ in range(3)]
        if sym:
            w[1] = w[0]
        return w
    if tcr:
        def elems(kk):
            return [[''.join(rng.choice('ACS') for _ in range(rng.randint(0, 4))), ''.join(rng.choice('ACS') for _ in range(rng.randint(0, 4)))] for _ in range(kk)]
        lc = dict(kind='tcr', cols=rng.choice(['A', 'B', 'AB', 'AB']))
        if rng.random() < 0.5:
            lc['metric'] = ['default']
        else:
            ok = [m for m, need in (('alpha', 'A'), ('beta', 'B')) if need in lc['cols']] + (['cdr3'] if lc['cols'] == 'AB' else [])
            lc['metric'] = [rng.choice(ok)] + weights(one)
        maxd = 4 * max(lc['metric'][1:] or [1]) * (2 if lc['cols'] == 'AB' else 1)
    else:
        alphabet = rng.choice(['AB', 'ACD', 'ACDEFGHIKLMNPQRSTVWY', 'Cé中'])
        maxlen = rng.choice([1, 2, 3, 5])

        def elems(kk):          # the groups need not be distinct for the multiplicity formula to hold
            return [''.join(rng.choice(alphabet) for _ in range(rng.randint(0, maxlen))) for _ in range(kk)]
        lc = dict(kind='str', cols=None)
        m = rng.random()
        if m < 0.35:
            lc['metric'] = ['default']
        elif m < 0.55:
            lc['metric'] = ['lev']
        elif m < 0.85 or not slow_ok:
            lc['metric'] = ['wlev'] + weights(one)
        else:
            lc['metric'] = ['custom'] + weights(one)
        lc['container'] = rng.choice(['list', 'list', 'ndarray', 'series'])
        maxd = maxlen * max(lc['metric'][1:] or [1])

    def split(elems, n):
        cuts = sorted(rng.sample(range(1, n), len(elems) - 1)) if len(elems) > 1 else []
        return [[e, b - a] for e, a, b in zip(elems, [0] + cuts, cuts + [n])]
    lc['mx'] = split(elems(k), n1)
    lc['my'] = None if one else split(elems(rng.randint(3, 5)), n2)
    lc['seed'] = rng.randrange(2 ** 30)
    rand_params(rng, lc, maxd)
    if rng.random() < 0.6:          # raw counts over edges covering every distance: every missing / doubled pair shows
        lc['normalize'] = False
        lc['bins'], lc['bins_container'] = [str(v) for v in range(0, maxd + 2)], rng.choice(['range', 'list', 'ndarray'])
    return lc


def check_large(ctx, rng, plan):
    """plan: list of (P, tcr, one, slow_budget)"""
    for P, tcr, one, slow_budget in plan:
        lc = gen_large_case(rng, P, tcr, one, slow_budget)
        ctx.count('large:%s pairs>2^%d' % ('one' if one else 'cross', P.bit_length() - 1))
        # the multiplicity formula itself, against the model on a scaled-down expansion of the same multisets
        mini = dict(lc, mx=rescale(lc['mx'], 3 * len(lc['mx'])), my=None if lc['my'] is None else rescale(lc['my'], 2 * len(lc['my'])))
        mc = large_full(mini)
        rows, rows2 = case_rows(mc)
        kind, wi, wd, ws = model_metric(mc)
        edges = DEFAULT_EDGES if lc['bins'] is None else [fr(x) for x in lc['bins']]
        direct = ctx.oracle.run([('api_c05_counts', [kind, wi, wd, ws, rows, rows2, edges])])[0]
        if direct != multiset_counts(ctx, mini) or norm_exact(mini, direct) != expected_from(mc, direct, ctx):
            ctx.violation('correspondence', 'harness: multiplicity-weighted counts %s / their normalisation differ from the model counts %s on %s' % (
                multiset_counts(ctx, mini), direct, describe_large(mini)), dict(large=mini), site='harness.c05[multiset]')
            return
        counts = multiset_counts(ctx, lc)
        ctx.case(nontrivial_key=('large', describe_large(lc)) if sum(1 for x in counts if x) >= 2 else None)
        res = eval_large(ctx, lc)
        if res is not None:
            if res[0] == 'property':
                small = shrink_large(ctx, lc)
                r2 = eval_large(ctx, small)
                if r2 is not None and r2[0] == 'property':
                    lc, res = small, r2
            ctx.violation(res[0], res[1], dict(large=lc), site='distance.pcDelta[large collections]')
            return


def large_plan(rng, quick):
    H = 2 ** 24
    if quick:
        # more than 2**24 pairs: cross form only (0.3 - 1.5 s each); the one-collection form of that size (4 - 6 s) is in the thorough tier
        plan = [(H, False, False, 0.3), (H, False, False, 0.3), (H, True, False, 0.3), (2 ** 22, False, True, 0.3)]
        plan += [(2 ** e, rng.random() < 0.3, rng.random() < 0.3, 0.3) for e in (12, 14, 16, 16, 18, 18, 20, 20, 22)]
    else:
        plan = [(H, rng.random() < 0.3, rng.random() < 0.3, 0.4) for _ in range(14)] + [(H, False, False, 80.0), (2 ** 25, False, False, 0.4), (2 ** 25, True, False, 0.4)]
        plan += [(2 ** rng.randint(10, 23), rng.random() < 0.3, rng.random() < 0.3, 2.0) for _ in range(100)]
    rng.shuffle(plan)
    return plan


BG_SPELLINGS = [((), {}), ((), dict(return_bins=True)), ((True,), {}), ((), dict(return_bins=False)), ((False,), {})]


def bundled_table():
    """the bundled CSV read independently of pandas: (column names, index values, rows of floats)"""
    import csv, os
    import pyrepseq as prs
    with open(os.path.join(os.path.dirname(prs.__file__), 'data', 'pcdelta_pbmc_minervina.csv'), newline='') as f:
        rows = list(csv.reader(f))
    return rows[0][1:], [int(r[0]) for r in rows[1:]], [[float(x) for x in r[1:]] for r in rows[1:]]


def bg_mutations(rng):
    """in-place modifications a caller may apply to the objects an earlier call returned (label, function(table, bins))"""
    def last_catch_all(t, b):
        if b is not None:
            b[-1] = 1000

    def shift_bins(t, b):
        if b is not None:
            b += rng.randint(1, 3)

    def scale_bins(t, b):
        if b is not None:
            b *= 2

    def zero_bins(t, b):
        if b is not None:
            b[:] = 0

    def renormalise(t, b):
        t /= t.sum() * rng.choice([1, 2])

    def zero_table(t, b):
        t.iloc[:, :] = 0.0

    def one_cell(t, b):
        t.iloc[rng.randrange(len(t)), rng.randrange(t.shape[1])] = 7.0

    def drop_rows(t, b):
        t.drop(index=t.index[rng.randint(1, len(t) - 1):], inplace=True)

    def drop_first(t, b):
        t.drop(index=t.index[0], inplace=True)

    def reindex(t, b):
        t.index = [int(i) + 1 for i in t.index]

    def rename(t, b):
        t.rename(columns={t.columns[0]: 'x'}, inplace=True)

    def add_column(t, b):
        t['extra'] = 1.0

    def drop_column(t, b):
        t.drop(columns=t.columns[-1], inplace=True)
    return [last_catch_all, shift_bins, scale_bins, zero_bins, renormalise, zero_table, one_cell, drop_rows, drop_first, reindex, rename, add_column, drop_column]


def check_background(ctx, rng):
    import pyrepseq as prs
    bins_m, rows = ctx.oracle.run([('api_c05_background', [0])])[0]
    dn, dp, dedges = ctx.oracle.run([('api_c05_defaults', [0])])[0]
    cols_f, index_f, vals_f = bundled_table()

    def spell(sp):
        return 'load_pcDelta_background(%s)' % ', '.join([repr(a) for a in sp[0]] + ['%s=%r' % kv for kv in sp[1].items()])

    def pristine(sp, res):
        """None if the call returned the bundled table (and bins 0..rows), else what is wrong"""
        want_bins = not ((sp[0] and sp[0][0] is False) or sp[1].get('return_bins') is False)
        if res[0] != 'ok':
            return 'raised %s' % (res,)
        if want_bins:
            if not (isinstance(res[1], tuple) and len(res[1]) == 2):
                return 'did not return (table, bins): %r' % (type(res[1]),)
            back, bins = res[1]
            if not (isinstance(bins, np.ndarray) and bins.ndim == 1 and np.issubdtype(bins.dtype, np.integer) and [int(x) for x in bins] == bins_m == list(range(rows + 1))):
                return 'bins = %s are not the consecutive integers 0..%d' % (list(np.asarray(bins).tolist()), rows)
        else:
            back = res[1]
        if not isinstance(back, pd.DataFrame):
            return 'table is a %r' % (type(back),)
        if len(back) != rows or (want_bins and len(bins) != len(back) + 1):
            return 'table has %d rows, the bundled one %d' % (len(back), rows)
        if [int(i) for i in back.index] != bins_m[:-1] or [int(i) for i in back.index] != index_f:
            return 'table index = %s, not 0..%d' % (list(back.index), rows - 1)
        if [str(c) for c in back.columns] != cols_f:
            return 'table columns = %s, bundled %s' % (list(back.columns), cols_f)
        got = back.to_numpy(dtype=float)
        if got.shape != (rows, len(cols_f)) or not np.allclose(got, np.array(vals_f), rtol=1e-12, atol=0.0, equal_nan=True):
            bad = [(i, c) for i in range(rows) for c in range(len(cols_f)) if not np.isclose(got[i, c], vals_f[i][c], rtol=1e-12, atol=0.0, equal_nan=True)]
            return 'table values differ from the bundled file at (row, column) %s' % (bad[:5],)
        return None

    impl = call_impl(prs.load_pcDelta_background)
    ctx.case(nontrivial_key=('background',))
    why = pristine(BG_SPELLINGS[0], impl)
    if why is None and [Fraction(e) for e in dedges] != [Fraction(b) for b in bins_m]:
        why = 'bins differ from the default edges of pcDelta'
    if why is not None:
        ctx.violation('property', 'load_pcDelta_background(): %s (model: bins %s, %d rows)' % (why, bins_m, rows), dict(func='load_pcDelta_background'),
                      site='distance.load_pcDelta_background')
        return
    # every call returns the bundled table and bins 0..rows - whatever the caller did IN PLACE with the objects an earlier call
    # returned (a catch-all last bin, renormalised columns, dropped rows ...)
    muts = bg_mutations(rng)
    order = BG_SPELLINGS * 3
    rng.shuffle(order)
    history = []
    for step, sp in enumerate(order + BG_SPELLINGS):
        res = call_impl(prs.load_pcDelta_background, *sp[0], **sp[1])
        why = pristine(sp, res)
        ctx.count('background_after_inplace_edit')
        ctx.case(nontrivial_key=('background-again', step, spell(sp)) if history else None)
        if why is not None:
            ctx.violation('property', '%s: %s - after the caller had modified in place the objects returned by earlier calls: %s' % (
                spell(sp), why, '; '.join(history) if history else '(nothing)'), dict(func='load_pcDelta_background', steps=history + [spell(sp)]),
                site='distance.load_pcDelta_background[repeated call]')
            return
        t, b = res[1] if isinstance(res[1], tuple) else (res[1], None)
        for f in rng.sample(muts, rng.randint(1, 3)):
            if b is None and f.__name__.endswith('bins') or (b is None and f.__name__ == 'last_catch_all'):
                continue
            if len(t) < 3 and f.__name__.startswith('drop'):
                continue
            try:
                f(t, b)
                history.append('%s -> %s' % (spell(sp), f.__name__))
            except Exception:
                pass
    back, bins = call_impl(prs.load_pcDelta_background)[1]
    for _ in range(8):
        xs = rand_strings(rng, rng.randint(3, 12), 'ACDEFGHIKLMNPQRSTVWY', rng.choice([3, 15, 30]))
        a = call_impl(prs.pcDelta, xs, bins=bins, normalize=False)
        b = call_impl(prs.pcDelta, xs, normalize=False)
        rows_m = [(s, '') for s in xs]
        cnt = ctx.oracle.run([('api_c05_counts', [0, 1, 1, 1, rows_m, None, [Fraction(v) for v in bins_m]])])[0]
        ctx.case(nontrivial_key=('bgalign', tuple(xs)))
        if not (a[0] == 'ok' and b[0] == 'ok' and len(a[1]) == len(back) and [int(x) for x in a[1]] == cnt == [int(x) for x in b[1]]):
            ctx.violation('property', 'pcDelta(%s, bins=<background bins>) = %s does not align with the %d table rows / default bins give %s (model %s)' % (
                xs, show(a), len(back), show(b), cnt), dict(xs=xs), site='distance.pcDelta[background bins]')
            return
        if [int(x) for x in bins] != bins_m:
            ctx.violation('property', 'pcDelta(%s, bins=<background bins>) modified the caller\'s bins to %s' % (xs, bins.tolist()), dict(xs=xs),
                          site='distance.pcDelta[background bins]')
            return


def check_default_metric(ctx):
    """auxiliary localisation only: the end-to-end comparison of pcDelta(table) decides"""
    import pyrepseq.distance as dist
    if not hasattr(dist, 'get_default_metric_for_input_data'):
        return
    names = {0: 'Levenshtein', 1: 'AlphaCdr3Levenshtein', 2: 'BetaCdr3Levenshtein', 3: 'Cdr3Levenshtein'}
    for isdf, a, b in itertools.product([True, False], repeat=3):
        if not isdf and (a or b):
            continue
        code = ctx.oracle.run([('api_c05_default_metric', [isdf, a, b])])[0]
        arg = ['CA', 'CB'] if not isdf else pd.DataFrame(dict(TRBV=['x', 'y'], **({'CDR3A': ['CA', 'CB']} if a else {}), **({'CDR3B': ['CA', 'CB']} if b else {})))
        r = call_impl(dist.get_default_metric_for_input_data, arg)
        if not (r[0] == 'ok' and type(r[1]).__name__ == names.get(code)):
            ctx.note('default metric table: generated model says %s, helper returns %s for table=%s CDR3A=%s CDR3B=%s' % (names.get(code), r, isdf, a, b))


def run(ctx):
    rng = ctx.rng
    ctx.rule = ('(a) every list of 2-3 (thorough: 2-4) strings over {"", A, B, AA, AB, BA}, one or two collections, normalize in {True, False}, '
                'pseudocount in {0, 1/2, 1, 3}, integer / half-integer / shifted edges; (b) random string collections (2-4-20-letter and non-ASCII alphabets, '
                'duplicates and near-duplicates) x metric in {default, Levenshtein(), WeightedLevenshtein(wi,wd,ws), user-defined Metric} x containers x '
                'bins in {None, range, random increasing integer / half-integer / mixed edges as list, tuple, ndarray} with distances below the first and beyond '
                'the last edge and on edges; (c) TCR tables with CDR3A / CDR3B / both columns, extra columns, permuted and relabelled index, legacy tuple, default '
                'and explicit TCR metrics; (d) bins=0 vs pc; (e) zero bin vs sum n_i(n_i-1)/2; (f) maxseqs: result must be the histogram of one of the '
                'sub-collections of exactly min(N, maxseqs) elements enumerated by the model; (g) load_pcDelta_background bins vs table rows vs default bins vs the bundled file, '
                'again after the caller modified the returned table / bins in place, every call spelling; (h) large collections (2**12 .. more than 2**24 pairs, '
                'lengths not multiples of one another, 3-5 distinct elements): expected counts from the model on the distinct elements weighted by multiplicities. '
                'non-trivial := N >= 3 and at least two non-empty bins (for d-g: the quantity is not degenerate)')
    ctx.exhaustive = True
    q = ctx.quick
    if not run_cases(ctx, exhaustive_cases(rng, q), 'distance.pcDelta[small strings]', vm_every=40):
        return
    if not run_cases(ctx, [gen_string_case(rng) for _ in range(500 if q else 8000)], 'distance.pcDelta[strings]', vm_every=25):
        return
    if not run_cases(ctx, [gen_string_case(rng, big=True) for _ in range(40 if q else 600)], 'distance.pcDelta[strings]'):
        return
    if not run_cases(ctx, [gen_tcr_case(rng) for _ in range(300 if q else 5000)], 'distance.pcDelta[tcr]', vm_every=30):
        return
    if not run_cases(ctx, [gen_tcr_case(rng, big=True) for _ in range(20 if q else 300)], 'distance.pcDelta[tcr]'):
        return
    check_bins0(ctx, rng, 120 if q else 2000)
    check_zero_bin(ctx, rng, 80 if q else 1500)
    check_maxseqs(ctx, rng, 100 if q else 1500)
    check_large(ctx, rng, large_plan(rng, q))
    check_background(ctx, rng)
    check_default_metric(ctx)
    ctx.assumptions += ['numpy.histogram bin convention (half-open bins, last bin closed, values outside dropped): modelled, exercised with values on every edge',
                        'rapidfuzz process.cdist / Levenshtein.distance(weights=...) values and scipy squareform(checks=False) taking the upper triangle: modelled (C08), exercised',
                        'numpy.random.choice(replace=False) / DataFrame.sample(n) draw duplicate-free positions: modelled as an arbitrary duplicate-free draw',
                        'metrics take natural-number values (all bundled Metric classes do); alpha/beta/CDR weights other than 1 belong to C09']


def replay(ctx, obj):
    rp = obj.get('replay') or {}
    case = rp.get('case')
    if isinstance(rp.get('large'), dict) and 'mx' in rp['large']:
        lc = rp['large']
        res = eval_large(ctx, lc)
        ctx.case(nontrivial_key=('replay', describe_large(lc)))
        if res is not None:
            ctx.violation(res[0], res[1], dict(large=lc), site=obj.get('site'))
        return
    if isinstance(case, dict) and case.get('bins') != '0' and 'xs' in case and case.get('maxseqs') is None:
        res = eval_case(ctx, case)
        ctx.case(nontrivial_key=('replay', describe(case)))
        if res is not None:
            ctx.violation(res[0], res[1], dict(case=case), site=obj.get('site'))
        return
    run(ctx)
