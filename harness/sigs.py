"""Signatures of the oracle entry points (coq/extract/Api.v).
name -> (argument types, result type).  gen_driver.py turns this table into
coq/extract/Extract.v and build/driver.ml."""
from proto import L, O, T, STRS, TRIP, TRIPS
QTRIPS = L(T('nat', 'nat', 'Q'))

SIGS = {
    'api_types': (['nat', 'N', 'Z', 'Q'], T('nat', 'N', 'Z', 'Q')),
    'api_lev': (['str', 'str'], 'nat'),
    'api_wlev': (['nat', 'nat', 'nat', 'str', 'str'], 'nat'),
    'api_ham': (['str', 'str'], O('nat')),
    'api_dels': (['nat', 'str'], STRS),
    # C16
    'api_gen_chao1': ([L('Q')], T('nat', 'Q')),
    'api_gen_var_chao1': ([L('Q')], T('nat', 'Q')),
    'api_gen_chao2': ([L('Q'), 'Q'], T('nat', 'Q')),
    'api_gen_var_chao2': ([L('Q'), 'Q'], T('nat', 'Q')),
    'api_spec_chao1': ([L('Q')], T('nat', 'Q')),
    'api_spec_chao2': ([L('Q')], T('nat', 'Q')),
    'api_spec_var_chao': ([L('Q')], T('nat', 'Q')),
    'api_jaccard': ([L(O('N')), L(O('N'))], O('Q')),
    'api_overlap': ([L(O('N')), L(O('N'))], 'nat'),
    'api_overlap_coefficient': ([L(O('N')), L(O('N'))], T('nat', 'Q')),
    # symmetric-delete search
    'api_comb_gen': (['nat', 'str'], STRS),
    'api_symdel_self_lev': (['nat', STRS], TRIPS),
    'api_symdel_self_ham': (['nat', STRS], TRIPS),
    'api_symdel_self_custom': (['nat', 'nat', O('Q'), STRS], QTRIPS),
    'api_symdel_lookup_lev': (['nat', STRS, STRS], TRIPS),
    'api_symdel_lookup_ham': (['nat', STRS, STRS], TRIPS),
    'api_symdel_lookup_custom': (['nat', 'nat', O('Q'), STRS, STRS], QTRIPS),
    'api_brute_self_lev': (['nat', STRS], TRIPS),
    'api_brute_self_ham': (['nat', STRS], TRIPS),
    'api_brute_self_custom': (['nat', 'nat', O('Q'), STRS], QTRIPS),
    'api_brute_cross_lev': (['nat', STRS, STRS], TRIPS),
    'api_brute_cross_ham': (['nat', STRS, STRS], TRIPS),
    'api_brute_cross_custom': (['nat', 'nat', O('Q'), STRS, STRS], QTRIPS),
    'api_custom_dist': (['nat', 'str', 'str'], 'Q'),
    'api_gen_pc_n': ([L('Q')], T('bool', 'Q')),
    'api_gen_varpc_n': ([L('Q')], T('bool', 'Q')),
    # engines
    'api_kdtree_lev': (['nat', 'nat', O('nat'), STRS], TRIPS),
    'api_kdtree_ham': (['nat', 'nat', O('nat'), STRS], TRIPS),
    'api_kdtree_custom': (['nat', 'nat', O('Q'), 'nat', O('nat'), STRS], QTRIPS),
    'api_hash_lev': (['nat', STRS], TRIPS),
    'api_hash_ham': (['nat', STRS], TRIPS),
    'api_hash_custom': (['nat', 'nat', O('Q'), STRS], QTRIPS),
    'api_lookupdb_lev': (['nat', STRS, STRS], TRIPS),
    'api_lookupdb_ham': (['nat', STRS, STRS], TRIPS),
    'api_encode': (['nat', 'str'], L('Z')),
    # C12
    'api_lev_nbrs': (['str', 'str'], STRS),
    'api_ham_nbrs_pos': (['str', L('nat'), 'str'], STRS),
    'api_next_nearest': (['bool', 'str', 'nat', 'str'], STRS),
    'api_find_pairs': (['bool', 'str', STRS], L(T('str', 'str'))),
    'api_neighbor_numbers': (['bool', 'str', STRS, STRS], L('nat')),
    'api_isdist1': (['bool', 'str', 'str', STRS], 'bool'),
    'api_ball': (['bool', 'str', 'nat', 'str'], STRS),
    'api_nndist_ham': (['nat', 'str', STRS], 'nat'),
    'api_tcrdist_nn': (['nat', 'nat', 'bool', 'Z', 'nat', 'nat', 'nat', 'nat', L(T('str', 'str', 'str', 'str'))], L(T('nat', 'nat', 'Z'))),
    'api_vtable_labels': (['bool'], STRS),
    'api_coo_dense': (['nat', 'nat', L(T('nat', 'nat', 'Z'))], L(L('Z'))),
    'api_pc1': ([L('N')], T('nat', 'nat')),
    'api_pc2': ([L('N'), L('N')], T('nat', 'nat')),
    'api_mults': ([L('N')], L('nat')),
    'api_cdist_wlev': (['nat', 'nat', 'nat', STRS, STRS], L(L('nat'))),
    'api_pdist_wlev': (['nat', 'nat', 'nat', STRS], L('nat')),
    'api_cidx': (['nat', 'nat', 'nat'], 'nat'),
    'api_components': (['nat', L(T('nat', 'nat'))], L('nat')),
    'api_graph_cc': (['nat', L(T('nat', 'nat'))], L(T('nat', 'nat'))),
    'api_refines': ([L('nat'), L('nat')], 'bool'),
}


# plug-in signature tables: harness/sigs_c??.py each define SIGS (name -> (arg types, result type)); names are api_cNN_*
import glob as _glob, importlib as _importlib, os as _os
for _f in sorted(_glob.glob(_os.path.join(_os.path.dirname(_os.path.abspath(__file__)), 'sigs_c[0-9][0-9].py'))):
    _m = _importlib.import_module(_os.path.basename(_f)[:-3])
    for _k, _v in _m.SIGS.items():
        assert _k not in SIGS, 'duplicate oracle entry point ' + _k
        SIGS[_k] = _v
