"""C14, TCRdist part: nearest_neighbor_tcrdist against the model, with the vendored pwseqdist stand-in."""
import os, sys, importlib
import numpy as np
import pandas as pd
from core import call_impl, ROOT
from gens import mutate, AA


def scan_tables(ctx):
    """Search step behind C14_vtables: the theorem is vm_compute on the literals regenerated from the CSV files; when it no
    longer checks this scan names the concrete entry (read the way the implementation reads the table)."""
    import pyrepseq
    d = os.path.join(os.path.dirname(pyrepseq.__file__), 'data')
    for chain in ('alpha', 'beta'):
        path = os.path.join(d, 'vdists_%s.csv' % chain)
        try:
            t = pd.read_csv(path, index_col=0)
        except Exception as e:
            ctx.violation('property', 'bundled table vdists_%s.csv cannot be read: %r' % (chain, e), dict(table=chain), site='data.vdists_' + chain)
            continue
        rows, cols = list(t.index), list(t.columns)
        ctx.case(nontrivial_key=('vtable', chain))
        if rows != cols or len(set(rows)) != len(rows):
            ctx.violation('property', 'vdists_%s.csv: row labels and column labels differ or repeat' % chain,
                          dict(table=chain, rows=rows[:5], cols=cols[:5]), site='data.vdists_' + chain)
            continue
        m = t.to_numpy()
        for i in range(len(rows)):
            if m[i, i] != 0:
                ctx.violation('property', 'vdists_%s.csv: distance of %s to itself is %s, not 0' % (chain, rows[i], m[i, i]),
                              dict(table=chain, allele=rows[i], value=float(m[i, i])), site='data.vdists_' + chain)
                break
        bad = np.argwhere(m != m.T)
        if len(bad):
            i, j = map(int, bad[0])
            ctx.violation('property', 'vdists_%s.csv is not symmetric: d(%s, %s) = %s but d(%s, %s) = %s' %
                          (chain, rows[i], cols[j], m[i, j], rows[j], cols[i], m[j, i]),
                          dict(table=chain, a=rows[i], b=cols[j], d_ab=float(m[i, j]), d_ba=float(m[j, i])), site='data.vdists_' + chain)


def run(ctx):
    sys.path.insert(0, os.path.join(ROOT, 'standin'))
    import pwseqdist                       # the stand-in
    import pyrepseq.nn as nn
    nn.pwseqdist = pwseqdist               # pyrepseq.nn imports it in a try block at import time
    rng = ctx.rng
    scan_tables(ctx)
    la, lb = ctx.oracle.run([('api_vtable_labels', [True]), ('api_vtable_labels', [False])])
    far = {}
    try:
        # allele pairs far apart in each bundled table (read like the implementation reads them): the V term of such a pair is large in
        # BOTH chains, the sum lies well above 127
        import pyrepseq
        for chain, labels in (('alpha', la), ('beta', lb)):
            t = pd.read_csv(os.path.join(os.path.dirname(pyrepseq.__file__), 'data', 'vdists_%s.csv' % chain), index_col=0)
            m = t.to_numpy()
            order = np.dstack(np.unravel_index(np.argsort(-m, axis=None), m.shape))[0][:40]
            far[chain] = [(t.index[i], t.columns[j]) for i, j in order if t.index[i] in labels and t.columns[j] in labels]
    except Exception:
        far = {}
    cases = []
    for t in range(40 if ctx.quick else 600):
        n = rng.randint(2, 14)
        roots = ['CASS' + ''.join(rng.choice(AA) for _ in range(rng.randint(3, 8))) + 'EQYF' for _ in range(3)]
        rows = []
        for _ in range(n):
            cb = mutate(rng, rng.choice(roots), AA, rng.randint(0, 2))
            ca = mutate(rng, rng.choice(roots), AA, rng.randint(0, 2))
            if t % 6 == 5:
                cb = rng.choice(AA) * 4 + ''.join(rng.choice(AA) for _ in range(6)) + rng.choice(AA) * 3   # nothing close
            # alleles: the head of each table, or (every third table) any allele of it
            pa, pb = (la, lb) if t % 3 == 2 else (la[:12], lb[:12])
            rows.append((rng.choice(pa), ca, rng.choice(pb), cb))
        chain = rng.choice(['alpha', 'beta', 'both'])
        if t % 4 == 1 and far.get('alpha') and far.get('beta'):
            # the same clonotype sequence with V alleles far apart in both chains (and with one far, one equal): every pair is a candidate
            # by its CDR3s, the V terms decide
            (a1, a2), (b1, b2) = rng.choice(far['alpha']), rng.choice(far['beta'])
            ca, cb = rows[0][1], rows[0][3]
            extra = [(a1, ca, b1, cb), (a2, ca, b2, cb), (a1, ca, b2, cb), (a2, mutate(rng, ca, AA, 1), b1, mutate(rng, cb, AA, 1))]
            for row in extra:
                rows.insert(rng.randint(0, len(rows)), row)
            chain = rng.choice(['both', 'both', 'alpha', 'beta'])
            ctx.count('far_apart_v_alleles')
        k = rng.choice([1, 2])
        trimmed = rng.random() < 0.6
        kw = {}
        if rng.random() < 0.4:
            kw = dict(ntrim=rng.choice([2, 3, 4]), ctrim=rng.choice([1, 2, 3]), dist_weight=rng.choice([1, 3, 5]),
                      gap_penalty=rng.choice([4, 12]))
        full = dict(ntrim=3, ctrim=2, dist_weight=3, gap_penalty=12)
        full.update(kw)
        if t % 2 == 1:
            # short CDR3s: length <= ntrim + ctrim (nothing is left after trimming; the search string is '') and lengths just above
            # (a 1..3 letter core, within max_edits of '' and of each other).  They stay rows of the table like any other: the
            # reported (i, j) are row positions of the WHOLE table.  Placed first / in the middle / last, alone or several.
            flank = full['ntrim'] + full['ctrim']
            nshort = rng.choice([1, 1, 2, 3])
            places = rng.choice([['first'], ['middle'], ['last'], ['first', 'middle', 'last'], ['any']])
            for s in range(nshort):
                def short():
                    L = rng.choice([rng.randint(1, flank), flank, flank, rng.randint(flank + 1, flank + 3)])
                    return ('CAS' + ''.join(rng.choice(AA) for _ in range(L)))[:max(L - 1, 0)] + 'F'
                # which chain gets the short CDR3: the candidate chain, the other one, or both
                w = rng.choice(['a', 'b', 'ab', 'ab'])
                ra = rng.choice(rows)
                row = (ra[0], short() if 'a' in w else ra[1], ra[2], short() if 'b' in w else ra[3])
                where = places[s % len(places)]
                pos = dict(first=0, last=len(rows), middle=len(rows) // 2).get(where, rng.randint(0, len(rows)))
                rows.insert(pos, row)
                ctx.count('short_cdr3_' + where)
        maxt = rng.choice([0, 6, 12, 20, 40, 90, 500])
        if t % 4 == 1:
            maxt = rng.choice([90, 140, 200, 500])
        cases.append((rows, chain, k, trimmed, kw, full, maxt))
    reqs = [('api_tcrdist_nn', [dict(alpha=0, beta=1, both=2)[c], k, tr, mt, f['ntrim'], f['ctrim'], f['dist_weight'], f['gap_penalty'],
                                list(rows)]) for rows, c, k, tr, kw, f, mt in cases]
    outs = ctx.oracle.run_parallel(reqs)
    for (rows, chain, k, trimmed, kw, full, maxt), exp in zip(cases, outs):
        df = pd.DataFrame(rows, columns=['TRAV', 'CDR3A', 'TRBV', 'CDR3B'], index=np.arange(len(rows)) + 7)
        before = df.copy()
        g = call_impl(lambda: nn.nearest_neighbor_tcrdist(df, chain=chain, max_edits=k, edit_on_trimmed=trimmed,
                                                          max_tcrdist=maxt, tcrdist_kwargs=dict(kw)))
        expected = sorted((int(a), int(b), int(d)) for a, b, d in exp)
        cands = len(exp)
        ctx.count('chain=' + chain)
        ctx.count('result_empty' if not expected else 'result_nonempty')
        ctx.case(sample=dict(rows=rows[:4], chain=chain, k=k, edit_on_trimmed=trimmed, max_tcrdist=maxt, kwargs=kw,
                             expected=expected[:6]) if expected and len(ctx.samples) < 8 else None,
                 nontrivial_key=('tcrdist', tuple(rows), chain, k, trimmed, maxt) if expected else None)
        if g[0] == 'ok':
            got = sorted((int(r[0]), int(r[1]), int(r[2])) for r in np.asarray(g[1]).reshape(-1, 3))
        if g[0] != 'ok' or got != expected:
            ctx.violation('property', 'nearest_neighbor_tcrdist(chain=%s, max_edits=%d, edit_on_trimmed=%s, max_tcrdist=%s, %s) '
                          'returned %s, expected %s' % (chain, k, trimmed, maxt, kw, g if g[0] != 'ok' else got[:6], expected[:6]),
                          dict(rows=rows, chain=chain, k=k, edit_on_trimmed=trimmed, max_tcrdist=maxt, kwargs=kw),
                          site='nn.nearest_neighbor_tcrdist[%s]' % ('no-candidate' if g[0] != 'ok' and not expected else 'value'))
        if not df.equals(before):
            ctx.violation('property', 'nearest_neighbor_tcrdist modified its input table', dict(rows=rows), site='nn.nearest_neighbor_tcrdist')
    # coverage audit: defaults, kinds of tables, partial tcrdist_kwargs, **kwargs, radii at attained values, sizes, histories
    import c14_tcrdist_wide
    c14_tcrdist_wide.run(ctx, la, lb)
