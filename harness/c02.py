"""C02 - coincidence probability pc is the exact fraction of coinciding pairs."""
import itertools, math
from fractions import Fraction
import numpy as np
import pandas as pd
from core import call_impl, close


def partitions(n, maxpart=None):
    maxpart = maxpart or n
    if n == 0:
        yield []
        return
    for k in range(min(n, maxpart), 0, -1):
        for rest in partitions(n - k, k):
            yield [k] + rest


def tokens(values):
    """Injective relabelling of arbitrary hashable values by small integers (C02_relabel_invariant)."""
    d = {}
    return [d.setdefault(v, len(d) + 1) for v in values]


def realise(rng, pattern, kind):
    """A sample with the given multiplicity pattern, values of the given kind, random order."""
    vals = []
    for i, c in enumerate(pattern):
        if kind == 'str':
            v = 'CAS%sF' % ('A' * i)
        elif kind == 'int':
            v = 10 + 3 * i
        elif kind == 'float':
            v = 0.5 + i
        else:
            v = ['x%d' % i, 10 + i, 0.25 + i][i % 3]
        vals += [v] * c
    rng.shuffle(vals)
    return vals


def frac_ok(impl, num, den):
    if den == 0:
        return impl[0] == 'exc' or not np.isfinite(impl[1])
    return impl[0] == 'ok' and close(impl[1], Fraction(num, den))


def run(ctx):
    import pyrepseq.stats as st
    rng = ctx.rng
    ctx.rule = ('(a) every multiplicity pattern (integer partition) of N <= Nmax realised as string / int / float / mixed samples in '
                'random order: pc, pc_n(multiplicities); (b) all pairs of patterns with N1, N2 <= 5 over a shared value pool: pc(a, b); '
                '(c) tables of 1-4 columns x 2-8 rows with string / int / float / missing cells, rows agreeing in all, all-but-one column, '
                'or only after concatenation without separator: pc(table), pc_joint(table, columns), legacy (alpha, beta) tuple; (d) random '
                'samples up to N = 2000. non-trivial := at least two values repeat and pc is strictly between 0 and 1')
    Nmax = 8 if ctx.quick else 12
    cases = []
    for N in range(2, Nmax + 1):
        for pat in partitions(N):
            for kind in ('str', 'int', 'float', 'mixed'):
                if kind == 'mixed' and len(pat) < 2:
                    continue
                cases.append(realise(rng, pat, kind))
    for _ in range(40 if ctx.quick else 400):
        n = rng.randint(2, 2000)
        cases.append([rng.randint(0, max(1, n // rng.randint(1, 20))) for _ in range(n)])
    ctx.exhaustive = True
    outs = ctx.oracle.run_parallel([('api_pc1', [tokens(s)]) for s in cases] + [('api_mults', [tokens(s)]) for s in cases])
    for n, s in enumerate(cases):
        num, den = outs[n]
        mults = outs[len(cases) + n]
        nt = sum(1 for m in mults if m > 1) >= 2 and 0 < num < den
        ctx.case(sample=dict(func='pc', sample=[str(x) for x in s[:12]], expected='%d/%d' % (num, den)) if nt and n % 150 == 0 else None,
                 nontrivial_key=('pc1', tuple(map(str, s))) if nt else None)
        arg = s
        mixed = len({type(x) for x in s}) > 1      # a plain mixed list is coerced to strings by numpy (injective on this pool)
        for name, impl in (('pc', call_impl(st.pc, arg)), ('pc[Series]', call_impl(st.pc, arg if mixed else pd.Series(arg))),
                           ('pc_n', call_impl(st.pc_n, np.array(mults))), ('pc_n[list]', call_impl(st.pc_n, list(mults)))):
            if not frac_ok(impl, num, den):
                ctx.violation('property', '%s(%s) = %s, but %d of the %d ordered pairs of distinct positions coincide' %
                              (name, [str(x) for x in s[:20]], impl, num, den),
                              dict(func=name, sample=[str(x) for x in s], expected='%d/%d' % (num, den)), site='stats.' + name.split('[')[0])
        if n < 25:
            ctx.add_vm('api_pc1', [tokens(s)], outs[n])
        if len(ctx.violations) > 8:
            return
    # (b) two-sample form
    pats = [p for N in range(1, 6) for p in partitions(N)]
    pairs = list(itertools.product(pats, pats))
    if ctx.quick:
        pairs = rng.sample(pairs, 120)
    two = []
    for p1, p2 in pairs:
        pool = ['v%d' % i for i in range(max(len(p1), len(p2)) + 2)]
        a = [x for v, c in zip(rng.sample(pool, len(p1)), p1) for x in [v] * c]
        b = [x for v, c in zip(rng.sample(pool, len(p2)), p2) for x in [v] * c]
        rng.shuffle(a)
        rng.shuffle(b)
        two.append((a, b))
    reqs = []
    for a, b in two:
        t = tokens(a + b)
        reqs.append(('api_pc2', [t[:len(a)], t[len(a):]]))
    outs = ctx.oracle.run_parallel(reqs)
    for (a, b), (num, den) in zip(two, outs):
        nt = 0 < num < den
        ctx.case(sample=dict(func='pc(a,b)', a=a, b=b, expected='%d/%d' % (num, den)) if nt and len(ctx.samples) < 5 else None,
                 nontrivial_key=('pc2', tuple(a), tuple(b)) if nt else None)
        impl = call_impl(st.pc, a, b)
        impl_sym = call_impl(st.pc, b, a)
        if not frac_ok(impl, num, den) or not frac_ok(impl_sym, num, den):
            ctx.violation('property', 'pc(%s, %s) = %s / swapped %s, but %d of the %d cross pairs coincide' % (a, b, impl, impl_sym, num, den),
                          dict(func='pc2', a=a, b=b, expected='%d/%d' % (num, den)), site='stats.pc[two]')
    # (c) tables
    for t in range(60 if ctx.quick else 3000):
        ncol, nrow = rng.randint(1, 4), rng.randint(2, 8)
        cols = ['TRAV', 'CDR3A', 'TRBV', 'CDR3B'][:ncol]
        with_missing = rng.random() < 0.4
        cellpool = [['AB', 'A', 'B', 'ABC', 'BC', 'C', ''], ['C', 'BC', 'CB', 'B', 'x'], [1, 2, 12, 3], [0.5, 1.5]]
        rows = []
        for _ in range(nrow):
            c = rng.random()
            if rows and c < 0.3:
                rows.append(tuple(rng.choice(rows)))                     # agrees in all columns
            elif rows and c < 0.5 and ncol > 1:
                r = list(rng.choice(rows))
                j = rng.randrange(ncol)
                r[j] = rng.choice([x for x in cellpool[j % 4] if x != r[j]] or [r[j]])
                rows.append(tuple(r))                                    # all but one column
            else:
                rows.append(tuple(rng.choice(cellpool[j % 4]) for j in range(ncol)))
        if ncol >= 2:
            rows += [('AB', 'C') + rows[0][2:], ('A', 'BC') + rows[0][2:]]   # equal only after concatenation without separator
        if with_missing:
            rows = [tuple((None if (rng.random() < 0.2 and isinstance(x, str)) else x) for x in r) for r in rows]
        # string columns must stay strings: cells of one column share a type in a real table
        df = pd.DataFrame(rows, columns=cols)
        for j, c in enumerate(cols):
            if j < 2:
                df[c] = df[c].astype(object)
        keyrows = [tuple('' if (x is None or (isinstance(x, float) and math.isnan(x))) else str(x) for x in r) for r in df.itertuples(index=False)]
        num, den = ctx.oracle.run([('api_pc1', [tokens(keyrows)])])[0]
        nt = 0 < num < den
        ctx.count('table_with_missing' if with_missing else 'table_no_missing')
        ctx.case(sample=dict(func='pc(table)', rows=[list(map(str, r)) for r in rows[:5]], expected='%d/%d' % (num, den)) if nt and len(ctx.samples) < 6 else None,
                 nontrivial_key=('table', tuple(keyrows)) if nt else None)
        before = df.copy()
        for name, impl in (('pc[table]', call_impl(st.pc, df)), ('pc_joint', call_impl(st.pc_joint, df, list(cols)))):
            if not frac_ok(impl, num, den):
                ctx.violation('property', '%s on rows %s = %s, but %d/%d row pairs agree in every column' % (name, rows, impl, num, den),
                              dict(func=name, rows=[list(map(repr, r)) for r in rows], columns=cols, expected='%d/%d' % (num, den)),
                              site='stats.%s[%s]' % (name.split('[')[0], 'missing' if with_missing else 'plain'))
        if not df.equals(before):
            ctx.violation('property', 'pc / pc_joint modified the caller\'s table', dict(rows=[list(map(repr, r)) for r in rows]), site='stats.pc[mutation]')
        if ncol == 2 and not with_missing and t % 4 == 0:
            a, b = [r[0] for r in rows], [r[1] for r in rows]
            dfab = pd.DataFrame(dict(CDR3A=a, CDR3B=b))
            impl = call_impl(st.pc, (list(map(str, a)), list(map(str, b))))
            k2 = [(str(x), str(y)) for x, y in zip(a, b)]
            n2, d2 = ctx.oracle.run([('api_pc1', [tokens(k2)])])[0]
            if not frac_ok(impl, n2, d2):
                ctx.violation('property', 'pc((alpha, beta) tuple) = %s, expected %d/%d' % (impl, n2, d2), dict(a=a, b=b), site='stats.pc[tuple]')
        if len(ctx.violations) > 8:
            return
    ctx.assumptions += ['str() of a cell is injective on the generated cell domain; cells contain neither "." nor "_" (stated domain)',
                        'numpy.unique / intersect1d group equal values (exercised, incl. object arrays of mixed type)']


def replay(ctx, obj):
    run(ctx)
