"""C02 - coincidence probability pc is the exact fraction of coinciding pairs."""
import collections, copy, itertools, math, os, time
from fractions import Fraction
import numpy as np
import pandas as pd
from core import call_impl, close


def partitions(n, maxpart=None):
    maxpart = maxpart or n
    if n == 0:
        yield []
        return
    for k in range(min(n, maxpart), 0, -1):
        for rest in partitions(n - k, k):
            yield [k] + rest


def tokens(values):
    """Injective relabelling of arbitrary hashable values by small integers (C02_relabel_invariant)."""
    d = {}
    return [d.setdefault(v, len(d) + 1) for v in values]


def realise(rng, pattern, kind):
    """A sample with the given multiplicity pattern, values of the given kind, random order."""
    vals = []
    for i, c in enumerate(pattern):
        if kind == 'str':
            v = 'CAS%sF' % ('A' * i)
        elif kind == 'int':
            v = 10 + 3 * i
        elif kind == 'float':
            v = 0.5 + i
        else:
            v = ['x%d' % i, 10 + i, 0.25 + i][i % 3]
        vals += [v] * c
    rng.shuffle(vals)
    return vals


def frac_ok(impl, num, den):
    if den == 0:
        return impl[0] == 'exc' or not np.isfinite(impl[1])
    return impl[0] == 'ok' and close(impl[1], Fraction(num, den))


# ---------------------------------------------------------------- pure evaluation
# pc / pc_n / pc_joint are functions of their arguments: the caller's count vector / sample / table is the same afterwards, and a second
# evaluation on the very same objects returns the same fraction (a count vector is typically used again: pc_n, then stdpc_n, ...).
def snap(x):
    if isinstance(x, (np.ndarray, pd.Series, pd.DataFrame)):
        return x.copy()
    if isinstance(x, tuple):
        return tuple(snap(y) for y in x)
    if isinstance(x, list):
        return list(x)
    return x


def unchanged(x, s):
    if type(x) is not type(s):
        return False
    if isinstance(x, np.ndarray):
        return x.dtype == s.dtype and x.shape == s.shape and x.tolist() == s.tolist()
    if isinstance(x, pd.Series):
        return x.dtype == s.dtype and x.index.equals(s.index) and x.tolist() == s.tolist()
    if isinstance(x, pd.DataFrame):
        return x.equals(s) and list(x.columns) == list(s.columns) and x.index.equals(s.index)
    if isinstance(x, tuple):
        return len(x) == len(s) and all(unchanged(a, b) for a, b in zip(x, s))
    return x == s


def show_arg(x):
    if isinstance(x, np.ndarray):
        return 'ndarray[%s]%s' % (x.dtype, [repr(v) for v in x.tolist()[:30]])
    if isinstance(x, pd.Series):
        return 'Series[%s, index %s]%s' % (x.dtype, [str(i) for i in x.index[:30]], [repr(v) for v in x.tolist()[:30]])
    if isinstance(x, tuple):
        return '(%s)' % ', '.join(show_arg(y) for y in x)
    if isinstance(x, list):
        return 'list%s' % [repr(v) for v in x[:30]]
    return repr(x)


def twice(fn, *args):
    """Evaluate fn on the SAME argument objects two times.  Returns (first, second, description of a modified argument or None)."""
    before = snap(args)
    r1 = call_impl(fn, *args)
    mod = None
    for a, b in zip(args, before):
        if not unchanged(a, b):
            mod = 'argument %s was %s before the call' % (show_arg(a), show_arg(b))
    r2 = call_impl(fn, *args)
    return r1, r2, mod


# ---------------------------------------------------------------- containers
# The value of pc is a function of the sequence of elements only, whatever holds them: a list, an array, or a pandas Series
# with ANY index (the index is bookkeeping of the table the column came from, never part of the sample).
CONTAINERS = ('list', 'ndarray', 'series', 'series_perm', 'series_shift', 'series_label', 'series_dup')


def wrap(rng, vals, how):
    vals = list(vals)
    n = len(vals)
    if how == 'list':
        return vals
    if how == 'tuple':
        return tuple(vals)
    if how == 'ndarray':
        return np.array(vals)
    if how == 'series':
        return pd.Series(vals)
    if how == 'series_perm':                        # e.g. a column of a frame that was sorted before
        idx = list(range(n))
        rng.shuffle(idx)
        return pd.Series(vals, index=idx)
    if how == 'series_shift':                       # e.g. a column of a filtered frame / a later chunk
        k = rng.randint(1, 50)
        return pd.Series(vals, index=range(k, k + n))
    if how == 'series_label':
        idx = ['r%d' % i for i in range(n)]
        rng.shuffle(idx)
        return pd.Series(vals, index=idx)
    if how == 'series_dup':                         # concatenated frames keep their (repeated) labels
        return pd.Series(vals, index=[i % max(1, n // 2) for i in range(n)])
    raise ValueError(how)


# ---------------------------------------------------------------- tables
COLS = ['TRAV', 'CDR3A', 'TRBV', 'CDR3B']
CELLPOOL = [['AB', 'A', 'B', 'ABC', 'BC', 'C', ''], ['C', 'BC', 'CB', 'B', 'x'], [1, 2, 12, 3], [0.5, 1.5]]


def near_numbers(rng, floats):
    """Four different numbers that share their leading d-1 significant digits (d = 1..15) - clone ids / read counts / frequencies that
    differ only in the last place.  Every one is exact in float64 (ints < 2**53; d <= 15 digits determine a double)."""
    d = rng.randint(1, 15)
    m = rng.randint(10 ** (d - 1), 10 ** d - 5)
    sign = -1 if rng.random() < 0.2 else 1
    if not floats:
        return [sign * (m + j) for j in range(4)]
    e = rng.randint(-12, 12) - d + 1
    return [sign * float('%de%d' % (m + j, e)) for j in range(4)]


def cell_pools(rng):
    """Per table: the values each column draws from (two string columns, an int column, a float column)."""
    return [CELLPOOL[0], CELLPOOL[1], CELLPOOL[2] if rng.random() < 0.3 else near_numbers(rng, False),
            CELLPOOL[3] if rng.random() < 0.3 else near_numbers(rng, True)]


def gen_rows(rng, ncol, nrow, seed_rows=(), pools=CELLPOOL):
    """Rows that agree in all columns, in all but one column, or not at all (with earlier rows / the rows of another table)."""
    rows = []
    for _ in range(nrow):
        c = rng.random()
        src = rows + list(seed_rows)
        if src and c < 0.3:
            rows.append(tuple(rng.choice(src)))                      # agrees in all columns
        elif src and c < 0.55 and ncol > 1:
            r = list(rng.choice(src))
            j = rng.randrange(ncol) if rng.random() < 0.5 else ncol - 1
            r[j] = rng.choice([x for x in pools[j % 4] if x != r[j]] or [r[j]])
            rows.append(tuple(r))                                    # all but one column
        else:
            rows.append(tuple(rng.choice(pools[j % 4]) for j in range(ncol)))
    return rows


def blank(rng, rows):
    """Missing cells (string columns only: a missing cell in a numeric column changes the dtype of the whole column)."""
    return [tuple((None if (rng.random() < 0.2 and isinstance(x, str)) else x) for x in r) for r in rows]


def frame(rows, cols, objcols=True, index=None):
    df = pd.DataFrame(rows, columns=cols, index=index)
    if objcols:
        # string columns must stay strings: cells of one column share a type in a real table
        for j, c in enumerate(cols):
            if j < 2:
                df[c] = df[c].astype(object)
    return df


def row_keys(df, on=None):
    """One hashable key per row: the tuple of the cells of the selected columns - strings as they are, NUMBERS BY VALUE (two numeric
    cells agree iff they are the same number, however many digits they share), a missing cell = one distinct empty value."""
    sub = df if on is None else df[list(on)]
    return [tuple('' if (x is None or x is pd.NA or (isinstance(x, float) and math.isnan(x))) else (x if isinstance(x, (int, float)) else x.item() if isinstance(x, np.number) else str(x))
                  for x in r) for r in sub.itertuples(index=False)]


def tok2(k1, k2):
    t = tokens(list(k1) + list(k2))
    return [t[:len(k1)], t[len(k1):]]


def ordered_subset(rng, cols):
    k = rng.randint(1, len(cols))
    on = rng.sample(list(cols), k)
    return on


def show_rows(rows):
    return [list(map(repr, r)) for r in rows]


# ---------------------------------------------------------------- numeric relabellings
I64_MIN, I64_MAX, U64_MAX = -2 ** 63, 2 ** 63 - 1, 2 ** 64 - 1
AFF_A = [1, -1, 3, -7, 2 ** 40, -(2 ** 40), 2 ** 56]
AFF_B = [0, -1, -20, 1000, 2 ** 40, -(2 ** 40), 2 ** 62, -(2 ** 62), 2 ** 63]
INT_POOL = [-(2 ** 63), -(2 ** 62) - 1, -(2 ** 62), -(2 ** 40), -1000, -129, -128, -2, -1, 0, 1, 2, 127, 128, 255, 256, 1000,
            2 ** 40, 2 ** 40 + 1, 2 ** 62, 2 ** 62 + 1, 2 ** 63 - 1]
UINT_POOL = [0, 1, 255, 256, 2 ** 40, 2 ** 62, 2 ** 63 - 1, 2 ** 63, 2 ** 63 + 1, 2 ** 64 - 1]
FLOAT_POOL = [float('-inf'), -1e300, -2.5 * 2 ** 40, -2.5, -0.5, 0.0, 5e-324, 1e-300, 0.5, 1.0, 2.0 ** 40 + 0.5, 1e300, float('inf')]
INT_DTYPES = [('int8', -128, 127), ('int16', -2 ** 15, 2 ** 15 - 1), ('int32', -2 ** 31, 2 ** 31 - 1), ('int64', I64_MIN, I64_MAX),
              ('uint8', 0, 255), ('uint16', 0, 2 ** 16 - 1), ('uint32', 0, 2 ** 32 - 1), ('uint64', 0, U64_MAX)]


def relabelling(rng, K):
    """An injective map on {0..K}: (description, function).  Integer results are either small (|x| <= 10**4) or huge
    (>= 2**40 in magnitude) - nothing in between, so that an implementation that allocates by magnitude fails fast."""
    while True:
        c = rng.random()
        if c < 0.45:
            a, b = rng.choice(AFF_A), rng.choice(AFF_B)
            lo, hi = min(b, a * K + b), max(b, a * K + b)
            if lo < I64_MIN or hi > U64_MAX or (lo < 0 and hi > I64_MAX):
                continue
            return 'v -> %d*v + %d' % (a, b), (lambda v, a=a, b=b: a * v + b)
        if c < 0.7:
            pool = UINT_POOL if rng.random() < 0.3 else INT_POOL
            if K + 1 > len(pool):
                continue
            img = rng.sample(pool, K + 1)
            return 'v -> %s[v]' % img, (lambda v, img=img: img[v])
        if c < 0.85:
            a, b = rng.choice([0.25, -0.125, 2.0 ** 40, -3.0]), rng.choice([0.0, -3.5, 0.5, 2.0 ** 20])
            return 'v -> %r*v + %r' % (a, b), (lambda v, a=a, b=b: a * v + b)      # exact in binary floating point for v <= K
        if K + 1 > len(FLOAT_POOL):
            continue
        img = rng.sample(FLOAT_POOL, K + 1)
        return 'v -> %s[v]' % img, (lambda v, img=img: img[v])


def numeric_holders(rng, vals):
    """The same numbers in every container / dtype that represents each of them exactly: (description, constructor)."""
    out = [('list', list), ('ndarray', np.array), ('Series[permuted index]', lambda x: wrap(rng, x, 'series_perm')),
           ('ndarray[object]', lambda x: np.array(x, dtype=object))]
    if all(isinstance(v, int) for v in vals):
        lo, hi = min(vals), max(vals)
        for name, dlo, dhi in INT_DTYPES:
            if dlo <= lo and hi <= dhi:
                out.append(('ndarray[%s]' % name, lambda x, name=name: np.array(x, dtype=name)))
                out.append(('Series[%s]' % name, lambda x, name=name: pd.Series(np.array(x, dtype=name))))
        m = max(abs(lo), abs(hi))
        if m <= 2 ** 24:
            out.append(('ndarray[float32]', lambda x: np.array(x, dtype='float32')))
        if m <= 2 ** 53:
            out.append(('ndarray[float64]', lambda x: np.array(x, dtype='float64')))
        if m <= 2 ** 11:
            out.append(('ndarray[float16]', lambda x: np.array(x, dtype='float16')))
    else:
        if all(float(np.float32(v)) == v for v in vals):
            out.append(('ndarray[float32]', lambda x: np.array(x, dtype='float32')))
        out.append(('Series[float64]', lambda x: pd.Series(np.array(x, dtype='float64'))))
    return out

# ---------------------------------------------------------------- two samples whose element types differ in width
# The two samples of pc(a, b) are independent collections: one may hold longer strings than the other (numpy gives each list its own
# fixed-width '<Uk' dtype), floats next to the other's ints, or a wider integer / float dtype.  Elements are equal iff they are equal
# as values; the second sample is built from values EQUAL to elements of the first one and values that merely LOOK alike after a
# conversion to the other sample's element type (a longer string with an element as prefix, v + 0.5, v + 2**bits, v + a tiny eps).
LETTERS = 'ACDEFGHIKLMNPQRSTVWY'
WIDTH_KINDS = ('prefix', 'prefix', 'int-float', 'int-width', 'float-width')
NARROW_INT = [('int8', 8), ('uint8', 8), ('int16', 16), ('uint16', 16), ('int32', 32), ('uint32', 32)]
INT_RANGE = {name: (lo, hi) for name, lo, hi in INT_DTYPES}


def typed(name, dtype):
    return [('ndarray[%s]' % dtype, lambda x, d=dtype: np.array(x, dtype=d)), ('Series[%s]' % dtype, lambda x, d=dtype: pd.Series(np.array(x, dtype=d)))]


def plain_holders(rng):
    return [('list', list), ('ndarray', np.array), ('Series', pd.Series), ('Series[permuted index]', lambda x: wrap(rng, x, 'series_perm'))]


def width_pair(rng, kind, p1, p2):
    """Samples a (pattern p1) and b (pattern p2) plus the containers that hold each of them exactly: (a, b, holdersA, holdersB, description)."""
    k1, k2 = len(p1), len(p2)
    if kind == 'prefix':
        stem = ''.join(rng.choice(LETTERS) for _ in range(2))
        chains = []
        while len(chains) < 3:
            c = stem + ''.join(rng.choice(LETTERS) for _ in range(rng.randint(4, 9)))
            if all(c[2] != d[2] for d in chains):
                chains.append(c)
        L = rng.randint(3, 5)
        allp = sorted({c[:i] for c in chains for i in range(1, len(c) + 1)})
        av = rng.sample([x for x in allp if len(x) <= L], k1)
        eq = lambda v: v
        near = lambda v: [x for x in allp if len(x) > L and x.startswith(v)]
        others = allp
        hA = hB = plain_holders(rng)[:2] * 2 + plain_holders(rng)[2:]
        desc = 'strings of width <= %d against prefixes of %s of any width' % (L, chains)
    elif kind == 'int-float':
        sc, off = rng.choice([(1, 0), (1, -3), (-2, 5), (3, 1000), (1, 2 ** 40)])
        ints = [sc * i + off for i in range(k1 + 3)]
        av = rng.sample(ints, k1)
        eq = float
        near = lambda v: [v + 0.5, v + 0.25, v - 0.25, v - 0.5]
        others = [float(i) for i in ints]
        hA = plain_holders(rng) + typed('', 'int64')
        hB = plain_holders(rng) + typed('', 'float64')
        desc = 'ints against floats'
    elif kind == 'int-width':
        nname, bits = rng.choice(NARROW_INT)
        lo, hi = INT_RANGE[nname]
        wides = [w for w, wlo, whi in INT_DTYPES if wlo <= lo and hi <= whi and (wlo, whi) != (lo, hi)]
        wname = rng.choice(wides)
        wlo, whi = INT_RANGE[wname]
        small = sorted({v for v in list(range(-6, 7)) + [lo, lo + 1, hi - 1, hi] if lo <= v <= hi})
        av = rng.sample(small, k1)
        eq = lambda v: v
        near = lambda v: [v + (2 ** bits) * j for j in (-2, -1, 1, 2, 3) if wlo <= v + (2 ** bits) * j <= whi and abs(v + (2 ** bits) * j) <= 2 ** 53]
        others = [v for v in small if wlo <= v <= whi]
        hA, hB = typed('', nname), typed('', wname)
        desc = '%s against %s' % (nname, wname)
    else:
        nname, wname, eps = rng.choice([('float16', 'float32', 2.0 ** -13), ('float16', 'float64', 2.0 ** -13), ('float32', 'float64', 2.0 ** -30)])
        grid = [0.5 * i - 1.0 for i in range(k1 + 4)]
        av = rng.sample(grid, k1)
        eq = lambda v: v
        near = lambda v: [v + eps * j for j in (-1, 1, 2)]
        others = grid
        hA, hB = typed('', nname), typed('', wname)
        desc = '%s against %s' % (nname, wname)
    cand = []
    for v in av:
        nv = near(v)
        cand += [eq(v)] + (rng.sample(nv, min(2, len(nv))))
    extra = list(others)
    rng.shuffle(extra)
    cand = list(dict.fromkeys(cand + extra[:k2]))           # == - distinct (2 and 2.0 are one value)
    while len(cand) < k2:
        cand.append(max(x for x in cand if not isinstance(x, str)) + 1 if kind != 'prefix' else cand[-1] + 'W')
    bv = rng.sample(cand, k2)
    a = [x for v, c in zip(av, p1) for x in [v] * c]
    b = [x for v, c in zip(bv, p2) for x in [v] * c]
    rng.shuffle(a)
    rng.shuffle(b)
    return a, b, hA, hB, desc


# ================================================================ coverage audit: input kinds the sections (a)-(f) never generated
# Expected values: api_pc1 / api_pc2 on injectively tokenised elements (C02_pc_counts, C02_pc_cross_counts), api_gen_pc_n (the pc_n
# generated from the source, tied to the counting form by C02_pc_n_agrees) on multiplicity vectors counted by collections.Counter where
# the sample is too large for the unary-nat counting model, and sum_v c1(v)*c2(v) / (N1*N2) from two Counters for large cross samples
# (the statement of C02_pc_cross_counts read from right to left).
GAP_TOKENS = ['|', ' ', '::', '\t', ';', '#', '/', '$', '^', '*', '\\', '(', '[', ',', '~', '=>', '||']
ALPHABETS = {
    'case': ['cassf', 'CASSF', 'Cassf', 'cASSF', 'CASSf'],
    'space': ['CASSF', 'CASSF ', ' CASSF', 'CASSF  ', 'CAS SF', 'CASSF\t'],
    'non-ascii': ['é', 'é', 'e', '中', '中文', 'ß', 'ss', 'Ω', '\U0001F9EC'],
    'empty': ['', ' ', 'A', '0', '  '],
    'number-like': ['1', '1.0', '01', '1e0', '+1', '1 ', '1,0'],
    'control': ['A\tB', 'A\nB', 'A B', 'AB', 'A\\B'],
    'bool': [True, False],
    'bytes': [b'a', b'A', b'ab', b'a ', b'\xc3\xa9'],
}
BIG_COUNTS = [127, 128, 255, 256, 257, 32767, 32768, 46340, 46341, 46342, 65535, 65536, 65537, 70000]
BIG_DISTINCT = [255, 256, 257, 65535, 65536, 65537]
COUNT_DTYPES = [('int8', 11, int), ('uint8', 16, int), ('int16', 181, int), ('uint16', 256, int), ('int32', 46341, int), ('uint32', 65536, int),
                ('uint64', 2 ** 31, int), ('intp', 2 ** 31, int), ('float64', 2 ** 26, float)]


def pending():
    """Case families that show a POSSIBLE DEFECT of the unchanged library (NOTES.md) run only on request."""
    return bool(os.environ.get('PV_PENDING_C02'))


def content(x):
    """The elements a holder holds, as Python values (for before / after comparisons)."""
    if isinstance(x, pd.DataFrame):
        return [tuple(None if (v is None or v is pd.NA or (isinstance(v, float) and v != v)) else v for v in r)
                for r in x.astype(object).itertuples(index=False)]
    if isinstance(x, (list, tuple, collections.deque)):
        return list(x)
    return np.asarray(x, dtype=object).tolist()


def same_holder(x, s):
    if type(x) is not type(s) or content(x) != content(s):
        return False
    if isinstance(x, (pd.Series, pd.DataFrame)) and not x.index.equals(s.index):
        return False
    if isinstance(x, np.ndarray) and (x.dtype != s.dtype or x.shape != s.shape):
        return False
    return True


def describe(x):
    if isinstance(x, pd.DataFrame):
        return 'DataFrame[columns %s, index %s]%s' % (list(x.columns), [str(i) for i in x.index[:12]], content(x)[:12])
    if isinstance(x, (np.ndarray, pd.Series, list, tuple)):
        return show_arg(x)
    return '%s%s' % (type(x).__name__, [repr(v) for v in content(x)[:30]])


def _readonly(x):
    a = np.array(x)
    a.flags.writeable = False
    return a


def _strided(x):
    return np.array([v for v in x for _ in (0, 1)])[::2]


def ext_holders(rng, vals):
    """Holders of a sample that (a)-(f) never used: (name, constructor)."""
    kinds = {type(v) for v in vals}
    out = [('pd.Index', pd.Index), ('deque', collections.deque), ('pd.Categorical', pd.Categorical),
           ('Series[category]', lambda x: pd.Series(list(x), dtype='category')), ('ndarray[read-only]', _readonly),
           ('ndarray[strided view]', _strided), ('ndarray[object]', lambda x: np.array(x, dtype=object)),
           ('Series[category, permuted index]', lambda x: wrap(rng, x, 'series_perm').astype('category'))]
    if len(vals) != 2:
        out.append(('tuple', tuple))                     # a 2-tuple is the legacy (alpha, beta) input
    if kinds == {str}:
        out += [('Series[string]', lambda x: pd.Series(list(x), dtype='string')), ('Series[str]', lambda x: pd.Series(list(x), dtype='str')),
                ('ndarray[<U60]', lambda x: np.array(x, dtype='<U60')), ('pd.array[string]', lambda x: pd.array(list(x), dtype='string'))]
    if kinds == {int}:
        out += [('Series[Int64]', lambda x: pd.Series(list(x), dtype='Int64')), ('pd.array[Int64]', lambda x: pd.array(list(x), dtype='Int64')),
                ('Series[int32, string index]', lambda x: wrap(rng, x, 'series_label').astype('int32'))]
    if kinds == {float}:
        out += [('Series[Float64]', lambda x: pd.Series(list(x), dtype='Float64')), ('ndarray[float32]', lambda x: np.array(x, dtype='float32'))]
    return out


def qfrac(q):
    return q.numerator, q.denominator


def aud_check(ctx, site, name, impl, frac, told, rep):
    num, den = frac
    if not frac_ok(impl, num, den):
        ctx.violation('property', '%s = %s for %s, but %d/%d of the pairs hold equal elements' % (name, impl, told, num, den),
                      dict(rep, func=name, expected='%d/%d' % (num, den)), site=site)
        return False
    return True


def same_number(ctx, site, name1, r1, name2, r2, told, rep):
    """'return the same number': two library functions on the same data, compared as numbers."""
    if r1[0] == 'ok' and r2[0] == 'ok' and not (r1[1] == r2[1] or (r1[1] != r1[1] and r2[1] != r2[1])):
        ctx.violation('property', '%s = %r but %s = %r on %s: not the same number' % (name1, r1[1], name2, r2[1], told),
                      dict(rep, func='%s vs %s' % (name1, name2), first=repr(r1[1]), second=repr(r2[1])), site=site)


def aud_holders(ctx, st):
    """(h1) one- and two-sample form over further holders (tuple of N != 2 elements, pd.Index, deque, Categorical, Series of category /
    string / nullable dtype, read-only and strided arrays), keyword arguments, and the SAME object as both samples."""
    rng = ctx.rng
    fresh = dict(str='CASQF', int=7, float=0.25)
    cases = []
    for N in range(3, (6 if ctx.quick else 8) + 1):
        for pat in partitions(N):
            for kind in ('str', 'int', 'float'):
                a = realise(rng, pat, kind)
                pool = list(dict.fromkeys(a)) + [fresh[kind]]
                b = [rng.choice(pool) for _ in range(rng.randint(1, 6))]
                cases.append((a, b))
    outs = ctx.oracle.run_parallel([('api_pc1', [tokens(a)]) for a, _ in cases] + [('api_pc2', tok2(a, b)) for a, b in cases] +
                                   [('api_pc2', tok2(a, a)) for a, _ in cases])
    if pending():
        # POSSIBLE DEFECT (NOTES.md, weak: elements that are tuples): numpy turns a list of k-tuples into an N x k array
        aud_check(ctx, 'stats.pc[elements are tuples]', 'pc(sample)', call_impl(st.pc, [(1, 2), (1, 2), (3, 4)]), (2, 6), 'the sample [(1, 2), (1, 2), (3, 4)]',
                  dict(sample=['(1, 2)', '(1, 2)', '(3, 4)']))
    n = len(cases)
    for k, (a, b) in enumerate(cases):
        one, cross, own = outs[k], outs[n + k], outs[2 * n + k]
        ha, hb = ext_holders(rng, a), ext_holders(rng, b)
        chosen = rng.sample(ha, 2 if ctx.quick else 4)
        ctx.case(nontrivial_key=('aud-holder', tuple(map(repr, a)), tuple(map(repr, b))) if 0 < cross[0] < cross[1] else None)
        for hname, mk in chosen:
            hname2, mk2 = rng.choice(hb)
            A, B = mk(a), mk2(b)
            if content(A) != a or content(B) != b:
                ctx.count('aud_holder_skipped_not_exact')
                continue
            ctx.count('aud_holder_' + hname)
            sA, sB = copy.deepcopy(A), copy.deepcopy(B)
            rep = dict(sample=[repr(x) for x in a], sample2=[repr(x) for x in b], held_in=[hname, hname2])
            told = 'sample %s, sample2 %s' % (describe(sA), describe(sB))
            site = 'stats.pc[holder]'
            aud_check(ctx, site, 'pc(sample)', call_impl(st.pc, A), one, told, rep)
            aud_check(ctx, site, 'pc(sample) [second evaluation of the same object]', call_impl(st.pc, A), one, told, rep)
            aud_check(ctx, site, 'pc(sample, sample2)', call_impl(st.pc, A, B), cross, told, rep)
            aud_check(ctx, site, 'pc(sample2, sample)', call_impl(st.pc, B, A), cross, told, rep)
            aud_check(ctx, site, 'pc(array=sample, array2=sample2)', call_impl(st.pc, array=A, array2=B), cross, told, rep)
            aud_check(ctx, site, 'pc(array2=sample2, array=sample)', call_impl(st.pc, array2=B, array=A), cross, told, rep)
            aud_check(ctx, 'stats.pc[same object twice]', 'pc(sample, sample) [one object as both samples]', call_impl(st.pc, A, A), own, told, rep)
            if not (same_holder(A, sA) and same_holder(B, sB)):
                ctx.violation('property', 'pc modified the caller\'s sample: %s before, now %s, %s' % (told, describe(A), describe(B)), rep, site='stats.pc[mutation]')
        # plain holders too: the same list / array / Series object as both samples
        for hname in ('list', 'ndarray', 'series_perm'):
            A = wrap(rng, a, hname)
            ctx.count('aud_same_object_' + hname)
            aud_check(ctx, 'stats.pc[same object twice]', 'pc(sample, sample) [one %s as both samples]' % hname, call_impl(st.pc, A, A), own,
                      'sample %s' % describe(A), dict(sample=[repr(x) for x in a], held_in=hname))
        if len(ctx.violations) > 8:
            return


def aud_alphabets(ctx, st):
    """(h2) elements that differ only in case, surrounding blanks, a combining character, a look-alike number text, the last of >= 130
    characters; the empty string; bools; bytes - any difference makes two elements different (injective relabelling invariance)."""
    rng = ctx.rng
    pools = dict(ALPHABETS)
    for L in (130, 260, 1000):
        base = ''.join(rng.choice(LETTERS) for _ in range(L))
        pools['long%d' % L] = [base + 'A', base + 'C', base, 'A' + base[1:] + 'A', base[:-1], base + 'AA']
    pools['long130'] = list(dict.fromkeys(pools['long130']))
    cases = []
    for pname, pool in sorted(pools.items()):
        pool = list(dict.fromkeys(pool))
        for _ in range(8 if ctx.quick else 40):
            k = rng.randint(2, len(pool))
            sub = rng.sample(pool, k)
            a = [rng.choice(sub) for _ in range(rng.randint(3, 10))]
            b = [rng.choice(pool) for _ in range(rng.randint(1, 8))]
            cases.append((pname, a, b))
    # two-column tables over two string pools (cells without '.' / '_')
    tab = []
    tnames = [p for p in sorted(pools) if p not in ('number-like', 'bool', 'bytes')]
    for _ in range(24 if ctx.quick else 200):
        p1, p2 = rng.choice(tnames), rng.choice(tnames)
        base = [(rng.choice(pools[p1]), rng.choice(pools[p2])) for _ in range(rng.randint(1, 3))]
        rows = [rng.choice(base) if rng.random() < 0.6 else (rng.choice(pools[p1]), rng.choice(pools[p2])) for _ in range(rng.randint(3, 9))]
        rows2 = [rng.choice(base + rows) if rng.random() < 0.6 else (rng.choice(pools[p1]), rng.choice(pools[p2])) for _ in range(rng.randint(1, 6))]
        tab.append((p1, p2, rows, rows2))
    outs = ctx.oracle.run_parallel([('api_pc1', [tokens(a)]) for _, a, _ in cases] + [('api_pc2', tok2(a, b)) for _, a, b in cases] +
                                   [('api_pc1', [tokens(r)]) for _, _, r, _ in tab] + [('api_pc2', tok2(r, r2)) for _, _, r, r2 in tab])
    n = len(cases)
    for k, (pname, a, b) in enumerate(cases):
        one, cross = outs[k], outs[n + k]
        ctx.count('aud_alphabet_' + pname)
        ctx.case(sample=dict(func='pc', alphabet=pname, sample=[repr(x)[:40] for x in a], expected='%d/%d' % one) if k % 9 == 0 and len(ctx.samples) < 6 else None,
                 nontrivial_key=('aud-alpha', pname, tuple(map(repr, a)), tuple(map(repr, b))) if 0 < one[0] < one[1] else None)
        hs = [('list', list), ('ndarray', np.array), ('Series', pd.Series), ('ndarray[object]', lambda x: np.array(x, dtype=object))]
        if pname not in ('bool', 'bytes'):
            hs += [('Series[str]', lambda x: pd.Series(list(x), dtype='str')), ('pd.Index', pd.Index)]
        for (hname, mk), (hname2, mk2) in [(hs[0], hs[0]), (rng.choice(hs), rng.choice(hs))]:
            A, B = mk(a), mk2(b)
            if content(A) != a or content(B) != b:
                ctx.count('aud_alphabet_skipped_not_exact')
                continue
            rep = dict(alphabet=pname, sample=[repr(x) for x in a], sample2=[repr(x) for x in b], held_in=[hname, hname2])
            told = '%s elements %s / %s held in %s / %s' % (pname, [repr(x)[:24] for x in a], [repr(x)[:24] for x in b], hname, hname2)
            site = 'stats.pc[alphabet,%s]' % pname
            aud_check(ctx, site, 'pc(sample)', call_impl(st.pc, A), one, told, rep)
            aud_check(ctx, site, 'pc(sample, sample2)', call_impl(st.pc, A, B), cross, told, rep)
            aud_check(ctx, site, 'pc(sample2, sample)', call_impl(st.pc, B, A), cross, told, rep)
        if pname not in ('number-like', 'bool', 'bytes'):
            df, df2 = pd.DataFrame({'CDR3B': pd.Series(a, dtype=object)}), pd.DataFrame({'CDR3B': pd.Series(b, dtype=object)})
            rep = dict(alphabet=pname, column=[repr(x) for x in a], column2=[repr(x) for x in b])
            told = 'one-column tables of %s cells %s / %s' % (pname, [repr(x)[:24] for x in a], [repr(x)[:24] for x in b])
            site = 'stats.pc[alphabet table,%s]' % pname
            aud_check(ctx, site, 'pc(table)', call_impl(st.pc, df), one, told, rep)
            aud_check(ctx, site.replace('pc[', 'pc_joint['), 'pc_joint(table, [column])', call_impl(st.pc_joint, df, ['CDR3B']), one, told, rep)
            aud_check(ctx, site, 'pc(table, table2)', call_impl(st.pc, df, df2), cross, told, rep)
            aud_check(ctx, site.replace('pc[', 'pc_joint['), 'pc_joint(table, [column], table2)', call_impl(st.pc_joint, df, ['CDR3B'], df2), cross, told, rep)
        if len(ctx.violations) > 8:
            return
    m = len(tab)
    for k, (p1, p2, rows, rows2) in enumerate(tab):
        one, cross = outs[2 * n + k], outs[2 * n + m + k]
        ctx.count('aud_alphabet_table_2col')
        ctx.case(nontrivial_key=('aud-alpha-tab', tuple(rows), tuple(rows2)) if 0 < one[0] < one[1] else None)
        df = pd.DataFrame(rows, columns=['CDR3A', 'CDR3B']).astype(object)
        df2 = pd.DataFrame(rows2, columns=['CDR3A', 'CDR3B']).astype(object)
        rep = dict(alphabets=[p1, p2], rows=show_rows(rows), rows2=show_rows(rows2))
        told = 'rows %s / second table %s' % ([tuple(repr(x)[:24] for x in r) for r in rows], [tuple(repr(x)[:24] for x in r) for r in rows2])
        site = 'stats.pc[alphabet table]'
        aud_check(ctx, site, 'pc(table)', call_impl(st.pc, df), one, told, rep)
        aud_check(ctx, site, 'pc((alpha, beta))', call_impl(st.pc, ([r[0] for r in rows], [r[1] for r in rows])), one, told, rep)
        aud_check(ctx, 'stats.pc_joint[alphabet table]', 'pc_joint(table, both columns)', call_impl(st.pc_joint, df, ['CDR3A', 'CDR3B']), one, told, rep)
        aud_check(ctx, site, 'pc(table, table2)', call_impl(st.pc, df, df2), cross, told, rep)
        aud_check(ctx, 'stats.pc_joint[alphabet table]', 'pc_joint(table, both columns, table2)', call_impl(st.pc_joint, df, ['CDR3A', 'CDR3B'], df2), cross, told, rep)
        if len(ctx.violations) > 8:
            return


def aud_large(ctx, st):
    """(h3) multiplicities and numbers of distinct values on both sides of 2**7, 2**8, 2**15, 2**16 and of sqrt(2**31) (c*(c-1) and c1*c2
    beyond 32 bits).  Multiplicities by collections.Counter, value by api_gen_pc_n (C02_pc_n_agrees) / sum c1*c2 / (N1*N2)."""
    rng = ctx.rng
    plans = []
    for c in BIG_COUNTS:
        if ctx.quick and c not in (255, 256, 257, 46341, 46342, 65536) and rng.random() < 0.3:
            continue
        counts = [c] + [rng.randint(1, 6) for _ in range(rng.randint(1, 4))]
        if rng.random() < 0.35:
            counts.append(rng.randint(c // 2, c))
        counts2 = [rng.choice([0, 1, 2, c // 3 + 1, c, c + 1]) for _ in counts]
        counts2[0] = rng.choice([c, c - 1, c + 1, 46342, 3])
        if sum(counts2) == 0:
            counts2[-1] = 1
        plans.append(('multiplicity %d' % c, counts, counts2, 'str' if (c <= 300 or rng.random() < 0.3) else 'int'))
    for K in BIG_DISTINCT:
        if ctx.quick and K in (65535, 65537):
            continue
        counts = [1] * K
        for i in rng.sample(range(K), 3):
            counts[i] = rng.randint(2, 4)
        counts2 = [rng.choice([0, 0, 1, 2]) for _ in range(K)]
        counts2[rng.randrange(K)] = 3
        plans.append(('%d distinct values' % K, counts, counts2, 'str' if K <= 300 else rng.choice(['int', 'int', 'str'])))
    reqs = []
    built = []
    for what, counts, counts2, kind in plans:
        K = len(counts)
        perm = list(range(K))
        rng.shuffle(perm)                                    # sorted position of a value is unrelated to its multiplicity
        vals = ['CAS%sF' % format(p, 'x') for p in perm] if kind == 'str' else [7 * p - 3 for p in perm]
        nprng = np.random.RandomState(rng.randrange(2 ** 31))
        a = np.repeat(np.array(vals), counts)
        b = np.repeat(np.array(vals), counts2)
        nprng.shuffle(a)
        nprng.shuffle(b)
        ca, cb = collections.Counter(a.tolist()), collections.Counter(b.tolist())
        ma = list(ca.values())
        assert sorted(ma) == sorted(counts) and len(a) == sum(counts)
        reqs.append(('api_gen_pc_n', [[Fraction(m) for m in ma]]))
        built.append((what, kind, a, b, ca, cb, ma))
    outs = ctx.oracle.run_parallel(reqs)
    for (what, kind, a, b, ca, cb, ma), (defined, q) in zip(built, outs):
        assert defined
        one = qfrac(q) if q else (0, len(a) * (len(a) - 1))
        cq = Fraction(sum(c * cb.get(v, 0) for v, c in ca.items()), len(a) * len(b))
        cross = qfrac(cq) if cq else (0, len(a) * len(b))
        ctx.count('aud_large_' + what.replace(' ', '_'))
        ctx.case(sample=dict(func='pc', what=what, N=len(a), multiplicities=sorted(ma, reverse=True)[:6], expected='%d/%d' % one) if len(ctx.samples) < 6 and one[0] else None,
                 nontrivial_key=('aud-large', what, kind, tuple(sorted(ma, reverse=True)[:8])) if 0 < one[0] < one[1] else None)
        top = sorted(ca.items(), key=lambda t: -t[1])[:6]
        top2 = sorted(cb.items(), key=lambda t: -t[1])[:6]
        told = 'a %s sample of %d elements (%s; most frequent %s), second sample of %d elements (most frequent %s)' % (kind, len(a), what, top, len(b), top2)
        rep = dict(what=what, element_kind=kind, multiplicities={str(v): int(c) for v, c in ca.items() if c > 1 or len(ca) < 40},
                   multiplicities2={str(v): int(c) for v, c in cb.items() if c > 1 or len(cb) < 40}, N=len(a), N2=len(b),
                   note='each value repeated by its multiplicity, shuffled')
        holders = [('ndarray', lambda x: x), ('list', lambda x: x.tolist()), ('Series[shifted index]', lambda x: pd.Series(x, index=range(3, 3 + len(x))))]
        site = 'stats.pc[large]'
        for hname, mk in ([holders[0], rng.choice(holders[1:])] if ctx.quick else holders):
            A, B = mk(a), mk(b)
            rep['held_in'] = hname
            aud_check(ctx, site, 'pc(sample) [%s]' % hname, call_impl(st.pc, A), one, told, rep)
            aud_check(ctx, site, 'pc(sample, sample2) [%s]' % hname, call_impl(st.pc, A, B), cross, told, rep)
            aud_check(ctx, site, 'pc(sample2, sample) [%s]' % hname, call_impl(st.pc, B, A), cross, told, rep)
        mv = np.array(ma)
        for name, obj in (('pc_n[list]', list(ma)), ('pc_n[ndarray]', mv), ('pc_n[Series]', pd.Series(ma, index=list(ca.keys())))):
            r1, r2, mod = twice(st.pc_n, obj)
            aud_check(ctx, 'stats.pc_n[large]', name + '(multiplicities)', r1, one, told, rep)
            aud_check(ctx, 'stats.pc_n[large]', name + '(multiplicities) [second evaluation]', r2, one, told, rep)
            if mod:
                ctx.violation('property', 'pc_n modified the caller\'s multiplicity vector (%s): %s' % (told, mod), rep, site='stats.pc_n[mutation]')
        if one[1] < 2 ** 53:
            same_number(ctx, 'stats.pc[same number as pc_n]', 'pc(sample)', call_impl(st.pc, a), 'pc_n(its multiplicities)', call_impl(st.pc_n, mv), told, rep)
        if len(ctx.violations) > 8:
            return


def aud_count_vectors(ctx, st):
    """(h4) pc_n on count vectors as they occur: zero entries (np.bincount, value_counts of a categorical, a subsampled vector), any
    order, counts up to 2**31 (N(N-1) below 2**63), held in list / tuple / ndarray of every dtype that holds every n_i(n_i-1) / Series with
    any index / pd.Index / read-only and strided arrays.  Value: api_gen_pc_n (pc_n generated from the source; zero entries add 0 pairs)."""
    rng = ctx.rng
    vecs = []
    for N in range(2, (7 if ctx.quick else 10) + 1):
        for pat in partitions(N):
            v = list(pat) + [0] * rng.randint(0, 3)
            rng.shuffle(v)
            vecs.append(v)
    for _ in range(80 if ctx.quick else 600):
        c = rng.random()
        if c < 0.4:       # bincount-like: mostly zeros and small counts
            v = [rng.choice([0, 0, 0, 1, 1, 2, 3, rng.randint(0, 40)]) for _ in range(rng.randint(2, 300))]
        elif c < 0.7:     # clone sizes with a heavy tail
            v = [int(rng.paretovariate(1.0)) for _ in range(rng.randint(2, 200))] + [0] * rng.randint(0, 3)
        else:             # read counts up to 2**31
            v = [rng.choice([0, 1, 2, 1000, 46341, 46342, 65536, 10 ** 6, 2 ** 31 - 1, 2 ** 31, rng.randint(1, 2 ** 31)]) for _ in range(rng.randint(1, 4))]
            v = [min(x, 2 ** 31) for x in v]
        rng.shuffle(v)
        if sum(v) >= 2 and sum(v) < 3 * 10 ** 9:
            vecs.append(v)
    if pending():
        # POSSIBLE DEFECT (NOTES.md): products n_i(n_i-1) / N(N-1) evaluated in the dtype of the caller's vector wrap around
        vecs += [('uint8', [20, 3]), ('int16', [200, 3]), ('int32', [70000, 3]), ('int64', [3037000500, 1]), ('list', [2 ** 32, 2 ** 32])]
    plain = [v for v in vecs if not isinstance(v, tuple)]
    outs = ctx.oracle.run_parallel([('api_gen_pc_n', [[Fraction(x) for x in (v[1] if isinstance(v, tuple) else v)]]) for v in vecs])
    for v, (defined, q) in zip(vecs, outs):
        forced = None
        if isinstance(v, tuple):
            forced, v = v
        if not defined:
            continue
        N = sum(v)
        frac = qfrac(q) if q else (0, N * (N - 1))
        mx = max(v)
        zeros = 0 in v
        ctx.count('aud_count_vector_%s' % ('with_zeros' if zeros else 'positive'))
        ctx.case(nontrivial_key=('aud-pcn', tuple(v)) if 0 < frac[0] < frac[1] else None)
        hs = [('list', list), ('tuple', tuple), ('ndarray', np.array), ('ndarray[read-only]', _readonly), ('ndarray[strided view]', _strided),
              ('pd.Index', pd.Index), ('Series[int64, permuted index]', lambda x: wrap(rng, x, 'series_perm')),
              ('Series[int64, repeated index]', lambda x: wrap(rng, x, 'series_dup')), ('Series[Int64]', lambda x: pd.Series(list(x), dtype='Int64'))]
        hs += [('ndarray[%s]' % d, lambda x, d=d: np.array(x, dtype=d)) for d, cmax, _ in COUNT_DTYPES if mx <= cmax]
        hs += [('Series[%s]' % d, lambda x, d=d: pd.Series(np.array(x, dtype=d), index=['k%d' % i for i in range(len(x))])) for d, cmax, _ in COUNT_DTYPES if mx <= cmax]
        if forced:
            hs = [('list', list)] if forced == 'list' else [('ndarray[%s]' % forced, lambda x: np.array(x, dtype=forced))]
        for hname, mk in ([hs[0]] + rng.sample(hs[1:], min(len(hs) - 1, 3 if ctx.quick else 6)) if not forced else hs):
            obj = mk(v)
            if content(obj) != v:
                continue
            ctx.count('aud_count_holder_' + hname)
            told = 'the count vector %s held in %s' % (v[:40], hname)
            rep = dict(counts=[int(x) for x in v], held_in=hname)
            before = copy.deepcopy(obj)
            r1, r2 = call_impl(st.pc_n, obj), call_impl(st.pc_n, n=obj)
            site = 'stats.pc_n[count vector%s]' % (', narrow dtype / beyond int64' if forced else '')
            aud_check(ctx, site, 'pc_n(counts)', r1, frac, told, rep)
            aud_check(ctx, site, 'pc_n(n=counts) [second evaluation of the same object]', r2, frac, told, rep)
            if not same_holder(obj, before):
                ctx.violation('property', 'pc_n modified the caller\'s count vector: %s, afterwards %s' % (told, describe(obj)), rep, site='stats.pc_n[mutation]')
        if len(ctx.violations) > 8:
            return


def aud_refill(ctx, st):
    """(h5) one object evaluated, changed in place by the caller, evaluated again: the value is that of the CURRENT content."""
    rng = ctx.rng
    plans = []
    for _ in range(40 if ctx.quick else 400):
        n = rng.randint(3, 9)
        K = rng.randint(1, 4)
        kind = rng.choice(['int', 'str', 'float'])
        mkv = dict(int=lambda i: 5 * i - 7, str=lambda i: 'CAS%sF' % ('G' * i), float=lambda i: i - 0.5)[kind]
        s1 = [mkv(rng.randint(0, K)) for _ in range(n)]
        s2 = [mkv(rng.randint(0, K)) for _ in range(n)]
        other = [mkv(rng.randint(0, K)) for _ in range(rng.randint(1, 5))]
        plans.append((kind, s1, s2, other))
    outs = ctx.oracle.run_parallel([x for _, s1, s2, o in plans for x in (('api_pc1', [tokens(s1)]), ('api_pc1', [tokens(s2)]), ('api_pc2', tok2(s1, o)),
                                                                           ('api_pc2', tok2(s2, o)), ('api_mults', [tokens(s1)]), ('api_mults', [tokens(s2)]))])
    for k, (kind, s1, s2, other) in enumerate(plans):
        one1, one2, cross1, cross2, m1, m2 = outs[6 * k: 6 * k + 6]
        ctx.case(nontrivial_key=('aud-refill', tuple(map(repr, s1)), tuple(map(repr, s2))) if one1 != one2 else None)
        for hname in ('ndarray', 'list', 'series', 'series_label', 'frame'):
            ctx.count('aud_refill_' + hname)
            if hname == 'frame':
                obj = pd.DataFrame({'CDR3B': pd.Series(s1, dtype=object if kind == 'str' else None), 'n': 1})
                oth = pd.DataFrame({'CDR3B': pd.Series(other, dtype=object if kind == 'str' else None), 'n': 1})
            else:
                obj, oth = wrap(rng, s1, hname), wrap(rng, other, 'list')
            first = call_impl(st.pc, obj), call_impl(st.pc, obj, oth), call_impl(st.pc, oth, obj)
            if hname == 'ndarray':
                obj[:] = s2
            elif hname == 'list':
                obj[:] = s2
            elif hname == 'frame':
                for i, x in enumerate(s2):
                    obj.iat[i, 0] = x
            else:
                for i, x in enumerate(s2):
                    obj.iloc[i] = x
            if content(obj) != ([(x, 1) for x in s2] if hname == 'frame' else s2):
                ctx.count('aud_refill_skipped_not_exact')
                continue
            second = call_impl(st.pc, obj), call_impl(st.pc, obj, oth), call_impl(st.pc, oth, obj)
            told = 'a %s first holding %s, then refilled in place with %s (second sample %s)' % (hname, s1, s2, other)
            rep = dict(holder=hname, first_content=[repr(x) for x in s1], refilled_with=[repr(x) for x in s2], sample2=[repr(x) for x in other])
            site = 'stats.pc[refilled in place]'
            for nm, r, fr in (('pc(x) before the refill', first[0], one1), ('pc(x, y) before the refill', first[1], cross1), ('pc(y, x) before the refill', first[2], cross1),
                              ('pc(x) after the refill', second[0], one2), ('pc(x, y) after the refill', second[1], cross2), ('pc(y, x) after the refill', second[2], cross2)):
                aud_check(ctx, site, nm, r, fr, told, rep)
            if hname == 'frame':
                aud_check(ctx, 'stats.pc_joint[refilled in place]', 'pc_joint(x, columns) after the refill', call_impl(st.pc_joint, obj, ['CDR3B', 'n']), one2, told, rep)
                aud_check(ctx, 'stats.pc_joint[refilled in place]', 'pc_joint(x, columns, y) after the refill', call_impl(st.pc_joint, obj, ['CDR3B', 'n'], oth), cross2, told, rep)
        # the count vector: np.unique's array reused for the next sample
        if len(m1) == len(m2) and sum(m1) >= 2:
            for hname, mk in (('ndarray', np.array), ('Series', lambda x: pd.Series(list(x), index=['k%d' % i for i in range(len(x))]))):
                ctx.count('aud_refill_counts_' + hname)
                cnt = mk(list(m1))
                r1 = call_impl(st.pc_n, cnt)
                if hname == 'ndarray':
                    cnt[:] = list(m2)
                else:
                    cnt.iloc[:] = list(m2)
                r2 = call_impl(st.pc_n, cnt)
                told = 'a count vector (%s) first holding %s, then refilled in place with %s' % (hname, list(m1), list(m2))
                rep = dict(holder=hname, first_counts=[int(x) for x in m1], refilled_with=[int(x) for x in m2])
                aud_check(ctx, 'stats.pc_n[refilled in place]', 'pc_n(counts) before the refill', r1, one1, told, rep)
                aud_check(ctx, 'stats.pc_n[refilled in place]', 'pc_n(counts) after the refill', r2, one2, told, rep)
        if len(ctx.violations) > 8:
            return


# ---------------------------------------------------------------- (h6) wider tables and the options of pc_joint
COLS7 = ['TRAV', 'CDR3A', 'TRBV', 'CDR3B', 'TRAJ', 'TRBJ', 'clone']
INDEX_KINDS = ('default', 'permuted', 'shifted', 'labels', 'repeated', 'multi')


def aud_index(rng, n, kind):
    if kind == 'default':
        return None
    if kind == 'permuted':
        idx = list(range(n))
        rng.shuffle(idx)
        return idx
    if kind == 'shifted':
        k = rng.randint(1, 50)
        return list(range(k, k + n))
    if kind == 'labels':
        idx = ['r%d' % i for i in range(n)]
        rng.shuffle(idx)
        return idx
    if kind == 'repeated':
        return [i % max(1, n // 2) for i in range(n)]
    return pd.MultiIndex.from_tuples([('s%d' % (i % 2), i // 2) for i in range(n)])


def aud_colpools(rng, ncol):
    """Per column: (kind, values).  Columns 0 and 1 are the string columns of (c); at most one float column."""
    base = cell_pools(rng)
    long_base = ''.join(rng.choice(LETTERS) for _ in range(rng.choice([130, 260])))
    extra = [('strlong', [long_base + 'A', long_base + 'C', 'C' + long_base[1:] + 'A', long_base]), ('bool', [True, False]),
             ('cat', ['TRBV1', 'TRBV2', 'TRBV12', 'TRBV']), ('int', near_numbers(rng, False)), ('str', ['AB', 'A', 'B', '', 'CAB'])]
    out = [('str', base[0]), ('str', base[1]), ('int', base[2]), ('float', base[3])]
    while len(out) < ncol:
        out.append(rng.choice(extra))
    out = out[:ncol]
    if ncol >= 3 and rng.random() < 0.5:
        tail = out[2:]
        rng.shuffle(tail)
        out = out[:2] + tail
    return out


def aud_rows(rng, colpools, nrow, seed_rows=()):
    ncol = len(colpools)
    rows = []
    for _ in range(nrow):
        c = rng.random()
        src = (rows[-40:] + rows[:5] + list(seed_rows)[:40])
        if src and c < 0.3:
            rows.append(tuple(rng.choice(src)))
        elif src and c < 0.55 and ncol > 1:
            r = list(rng.choice(src))
            j = rng.randrange(ncol) if rng.random() < 0.5 else ncol - 1
            r[j] = rng.choice([x for x in colpools[j][1] if x != r[j]] or [r[j]])
            rows.append(tuple(r))
        else:
            rows.append(tuple(rng.choice(p) for _, p in colpools))
    return rows


def aud_blank(rng, rows, colpools, numeric):
    """Missing cells: None / nan / pd.NA in string columns; None in the float column; in an int column only when `numeric` (one table:
    the column turns float as a whole, numbers keep their values)."""
    out = []
    for r in rows:
        r = list(r)
        for j, (kind, _) in enumerate(colpools):
            if rng.random() < 0.2:
                if kind in ('str', 'strlong'):
                    r[j] = rng.choice([None, None, float('nan'), pd.NA])
                elif kind == 'float' or (kind == 'int' and numeric):
                    r[j] = None
        out.append(tuple(r))
    return out


def aud_frame(rows, colpools, labels, index, infer):
    cols = []
    for j, (kind, _) in enumerate(colpools):
        vals = [r[j] for r in rows]
        if kind in ('str', 'strlong'):
            s = pd.Series(vals, dtype='str' if infer else object)
        elif kind == 'int':
            s = pd.Series([float('nan') if v is None else v for v in vals]) if any(v is None for v in vals) else pd.Series(vals, dtype='int64')
        elif kind == 'float':
            s = pd.Series([float('nan') if v is None else v for v in vals], dtype='float64')
        elif kind == 'bool':
            s = pd.Series(vals, dtype=bool)
        else:
            s = pd.Series(vals, dtype='category')
        cols.append(s)
    df = pd.concat(cols, axis=1) if cols else pd.DataFrame()
    df.columns = labels
    if index is not None:
        df.index = index
    return df


def aud_keys(rows, sel):
    """One hashable key per row from the GENERATED cells (not read back from the frame): a missing cell is one empty value, numbers by value."""
    miss = lambda x: x is None or x is pd.NA or (isinstance(x, float) and x != x)
    return [tuple('' if miss(r[j]) else r[j] for j in sel) for r in rows]


def aud_token(rng, rows):
    texts = {str(x) for r in rows for x in r}
    while True:
        t = rng.choice(GAP_TOKENS)
        if not any(t in x for x in texts):
            return t


def aud_joint_call(rng, st, df, on_labels, df2, token):
    """pc_joint with the options positionally or by keyword: (description, result).  The selection is a list, as documented (another
    kind of object is a single label for the sister function pc_grouped_cross)."""
    how = 'list'
    on = list(on_labels)
    style = rng.choice(['positional', 'keyword', 'mixed'])
    if token is None:
        if df2 is None:
            r = call_impl(st.pc_joint, df, on) if style != 'keyword' else call_impl(st.pc_joint, df=df, on=on)
        else:
            r = call_impl(st.pc_joint, df, on, df2) if style == 'positional' else call_impl(st.pc_joint, df, on, df_2=df2) if style == 'mixed' else call_impl(st.pc_joint, df_2=df2, on=on, df=df)
    elif style == 'positional':
        r = call_impl(st.pc_joint, df, on, df2, token)
    elif style == 'mixed':
        r = call_impl(st.pc_joint, df, on, gap_token=token) if df2 is None else call_impl(st.pc_joint, df, on, df2, gap_token=token)
    else:
        r = call_impl(st.pc_joint, gap_token=token, df=df, on=on, df_2=df2)
    return 'on as %s, arguments %s, gap_token %s' % (how, style, 'default' if token is None else repr(token)), r


def aud_tables(ctx, st):
    """(h6) tables of 1-7 columns (string, long string, int, float, bool, categorical), 2-10 or some hundred rows, any index (permuted,
    shifted, labels, repeated, MultiIndex), integer or repeated column labels, missing cells None / nan / pd.NA also in numeric columns;
    pc_joint with its options positionally / by keyword and any gap_token that occurs in no cell; one- and two-table form."""
    rng = ctx.rng
    if pending():
        # POSSIBLE DEFECT (NOTES.md), minimal input: row (5, 0.5) occurs in both tables, one of the two rows of t2 -> 1/2
        t1, t2 = pd.DataFrame(dict(n=[5], f=[0.5])), pd.DataFrame(dict(n=[5, 5], f=[0.5, None]))
        for nm, r in (('pc_joint(t1, [n, f], t2)', call_impl(st.pc_joint, t1, ['n', 'f'], t2)), ('pc(t1, t2)', call_impl(st.pc, t1, t2))):
            aud_check(ctx, 'stats.pc[two tables, missing float cell in one of them]', nm, r, (1, 2), 't1 rows [(5, 0.5)], t2 rows [(5, 0.5), (5, missing)]',
                      dict(rows=[['5', '0.5']], rows2=[['5', '0.5'], ['5', 'None']], columns=['n', 'f']))
    ntab = 130 if ctx.quick else 2500
    for t in range(ntab):
        ncol = rng.choice([1, 2, 2, 3, 4, 4, 5, 6, 7])
        big = t >= ntab - (8 if ctx.quick else 80)          # small tables first: the first reported input is a small one
        nrow = rng.randint(130, 420) if big else rng.randint(2, 10)
        colpools = aud_colpools(rng, ncol)
        two = t % 2 == 1
        with_missing = rng.random() < 0.5
        rows = aud_rows(rng, colpools, nrow)
        rows2 = aud_rows(rng, colpools, rng.randint(120, 300) if big else rng.randint(1, 8), seed_rows=rows) if two else []
        if ncol >= 2:
            rows.append(('AB', 'C') + rows[0][2:])
            (rows2 if two else rows).append(('A', 'BC') + rows[0][2:])
        if with_missing:
            rows = aud_blank(rng, rows, colpools, numeric=not two)
            rows2 = aud_blank(rng, rows2, colpools, numeric=False)
            if two and not pending():
                # POSSIBLE DEFECT (NOTES.md): a float column with a missing cell in only ONE of the two tables (its rows then serialise an
                # int cell as '5', the all-numeric rows of the other table as '5.0').  Default run: missing in both tables or in neither.
                for j, (kind, _) in enumerate(colpools):
                    if kind == 'float':
                        m1, m2 = any(r[j] is None for r in rows), any(r[j] is None for r in rows2)
                        if m1 != m2:
                            tgt = rows2 if m1 else rows
                            i = rng.randrange(len(tgt))
                            tgt[i] = tgt[i][:j] + (None,) + tgt[i][j + 1:]
        labkind = rng.choice(['names', 'names', 'ints', 'repeated names'] if not two else ['names', 'names', 'ints'])
        labels = COLS7[:ncol] if labkind != 'ints' else list(range(ncol))
        infer = t % 3 == 2
        ik1, ik2 = rng.choice(INDEX_KINDS), rng.choice(INDEX_KINDS)
        df = aud_frame(rows, colpools, labels, aud_index(rng, len(rows), ik1), infer)
        sel = rng.sample(range(ncol), rng.randint(1, ncol))
        on_labels = [labels[j] for j in sel]
        token = aud_token(rng, rows + rows2) if rng.random() < 0.7 else None
        kinds = [k for k, _ in colpools]
        ctx.count('aud_table_%s' % ('pair' if two else 'single'))
        ctx.count('aud_table_index_' + ik1)
        ctx.count('aud_table_labels_' + labkind.replace(' ', '_'))
        ctx.count('aud_table_gap_token_' + ('default' if token is None else 'other'))
        for kd in set(kinds):
            ctx.count('aud_table_column_' + kd)
        if big:
            ctx.count('aud_table_rows_over_127')
        if with_missing:
            ctx.count('aud_table_missing_cells' + ('_numeric' if any(r[j] is None for r in rows for j in range(ncol) if kinds[j] in ('int', 'float')) else ''))
        shown = show_rows(rows[:12])
        base_rep = dict(rows=show_rows(rows), n_rows=len(rows), column_kinds=kinds, column_labels=[str(x) for x in labels], index=ik1,
                        string_dtype='str' if infer else 'object', on=[str(x) for x in on_labels], gap_token=token)
        if not two:
            kfull, ksel = aud_keys(rows, range(ncol)), aud_keys(rows, sel)
            full, part, smults = ctx.oracle.run([('api_pc1', [tokens(kfull)]), ('api_pc1', [tokens(ksel)]), ('api_mults', [tokens(ksel)])])
            ctx.case(sample=dict(base_rep, func='pc_joint', rows=shown[:4], expected='%d/%d' % part) if 0 < part[0] < part[1] and t % 16 == 0 else None,
                     nontrivial_key=('aud-table', tuple(map(repr, ksel))) if 0 < part[0] < part[1] else None)
            told = 'the table with rows %s%s (column kinds %s, labels %s, %s index, selected %s)' % (
                shown, ' ... %d rows' % len(rows) if len(rows) > 12 else '', kinds, labels, ik1, on_labels)
            if labkind == 'repeated names' and ncol >= 2:
                d2 = df.copy()
                lab2 = list(labels)
                lab2[-1] = lab2[0]
                d2.columns = lab2
                aud_check(ctx, 'stats.pc[table, repeated column label]', 'pc(table) [two columns share the label %r]' % lab2[0], call_impl(st.pc, d2), full, told,
                          dict(base_rep, column_labels=lab2))
            before = df.copy()
            aud_check(ctx, 'stats.pc[table+]', 'pc(table)', call_impl(st.pc, df), full, told, base_rep)
            how, r = aud_joint_call(rng, st, df, labels, None, token)
            aud_check(ctx, 'stats.pc_joint[table+]', 'pc_joint(table, all columns) [%s]' % how, r, full, told, dict(base_rep, call=how))
            how, rsel = aud_joint_call(rng, st, df, on_labels, None, token)
            aud_check(ctx, 'stats.pc_joint[table+]', 'pc_joint(table, on) [%s]' % how, rsel, part, told, dict(base_rep, call=how))
            aud_check(ctx, 'stats.pc[table+]', 'pc(table[on])', call_impl(st.pc, df[[labels[j] for j in sel]]), part, told, base_rep)
            if part[1] and part[1] < 2 ** 53:
                same_number(ctx, 'stats.pc_joint[same number as pc_n]', 'pc_joint(table, on)', rsel, 'pc_n(multiplicities %s of the selected rows)' % list(smults)[:20],
                            call_impl(st.pc_n, np.array(smults)), told, dict(base_rep, multiplicities=[int(m) for m in smults]))
            if not df.equals(before) or list(df.columns) != list(before.columns) or not df.index.equals(before.index):
                ctx.violation('property', 'pc / pc_joint modified the caller\'s table: %s' % told, base_rep, site='stats.pc[mutation]')
        else:
            df2 = aud_frame(rows2, colpools, labels, aud_index(rng, len(rows2), ik2), infer)
            w1 = df.assign(other=range(len(df)))
            w2 = df2.assign(other=range(len(df2)))[['other'] + list(labels)[::-1]]
            k1, k2 = aud_keys(rows, range(ncol)), aud_keys(rows2, range(ncol))
            o1, o2 = aud_keys(rows, sel), aud_keys(rows2, sel)
            full, part, own = ctx.oracle.run([('api_pc2', tok2(k1, k2)), ('api_pc2', tok2(o1, o2)), ('api_pc2', tok2(o1, o1))])
            ctx.case(nontrivial_key=('aud-table2', tuple(map(repr, o1)), tuple(map(repr, o2))) if 0 < part[0] < part[1] else None)
            rep = dict(base_rep, rows2=show_rows(rows2), n_rows2=len(rows2), index2=ik2)
            told = 'the tables with rows %s%s and %s%s (column kinds %s, labels %s, %s / %s index, selected %s)' % (
                shown, ' ... %d rows' % len(rows) if len(rows) > 12 else '', show_rows(rows2[:12]), ' ... %d rows' % len(rows2) if len(rows2) > 12 else '',
                kinds, labels, ik1, ik2, on_labels)
            b1, b2 = w1.copy(), w2.copy()
            aud_check(ctx, 'stats.pc[two tables+]', 'pc(t1, t2)', call_impl(st.pc, df, df2), full, told, rep)
            aud_check(ctx, 'stats.pc[two tables+]', 'pc(array2=t1, array=t2)', call_impl(st.pc, array2=df, array=df2), full, told, rep)
            for nm, x, y, fr in (('pc_joint(t1, on, t2)', w1, w2, part), ('pc_joint(t2, on, t1)', w2, w1, part), ('pc_joint(t1, on, t1)', w1, w1, own)):
                how, r = aud_joint_call(rng, st, x, on_labels, y, token)
                aud_check(ctx, 'stats.pc_joint[two tables+]', '%s [%s]' % (nm, how), r, fr, told, dict(rep, call=how))
            how, r = aud_joint_call(rng, st, w1, labels, w2, token)
            aud_check(ctx, 'stats.pc_joint[two tables+]', 'pc_joint(t1, all columns, t2) [%s]' % how, r, full, told, dict(rep, call=how))
            if not (w1.equals(b1) and w2.equals(b2)):
                ctx.violation('property', 'pc / pc_joint (two tables) modified the caller\'s tables: %s' % told, rep, site='stats.pc[mutation]')
        if len(ctx.violations) > 8:
            return


def aud_tuples(ctx, st):
    """(h7) legacy (alpha, beta) tuple: chains handed over as iterators, chains with missing entries, chains of some hundred entries,
    numeric chains in typed arrays, the tuple by keyword and as both samples."""
    rng = ctx.rng
    alphas, betas = ['CAV', 'CAL', 'CAVS', 'CA'], ['CASS', 'CAST', 'SCASS', 'VCASS', 'CASR']
    plans = []
    for t in range(80 if ctx.quick else 1000):
        big = t % 13 == 5
        kind = rng.choice(['str', 'str', 'missing', 'numeric'])
        if kind == 'numeric':
            av, bv = near_numbers(rng, False), near_numbers(rng, True)
        else:
            av, bv = alphas + ([None] if kind == 'missing' else []), betas + ([None] if kind == 'missing' else [])
        pool = [(rng.choice(av), rng.choice(bv)) for _ in range(rng.randint(1, 4))]
        draw = lambda: rng.choice(pool) if rng.random() < 0.7 else (rng.choice(av), rng.choice(bv))
        r1 = [draw() for _ in range(rng.randint(130, 400) if big else rng.randint(3, 9))]
        r2 = [draw() for _ in range(rng.randint(130, 300) if big else rng.randint(1, 7))]
        plans.append((kind, r1, r2))
    key = lambda rows: [tuple('' if x is None else x for x in r) for r in rows]
    outs = ctx.oracle.run_parallel([x for _, r1, r2 in plans for x in (('api_pc1', [tokens(key(r1))]), ('api_pc2', tok2(key(r1), key(r2))), ('api_pc2', tok2(key(r1), key(r1))))])
    for k, (kind, r1, r2) in enumerate(plans):
        one, cross, own = outs[3 * k: 3 * k + 3]
        ctx.count('aud_tuple_' + kind + ('_long' if len(r1) > 100 else ''))
        ctx.case(nontrivial_key=('aud-tuple', tuple(map(repr, r1)), tuple(map(repr, r2))) if 0 < one[0] < one[1] else None)
        a1, b1, a2, b2 = [r[0] for r in r1], [r[1] for r in r1], [r[0] for r in r2], [r[1] for r in r2]
        if kind == 'numeric':
            mk = rng.choice([lambda a, b: (np.array(a, dtype='int64'), np.array(b, dtype='float64')), lambda a, b: (pd.Series(a), pd.Series(b, index=range(1, len(b) + 1))),
                             lambda a, b: (list(a), np.array(b))])
        elif kind == 'missing':
            mk = rng.choice([lambda a, b: (list(a), list(b)), lambda a, b: (pd.Series(a, dtype=object), list(b)), lambda a, b: (np.array(a, dtype=object), pd.Series(b, dtype=object))])
        else:
            mk = rng.choice([lambda a, b: (list(a), list(b)), lambda a, b: (tuple(a), np.array(b)), lambda a, b: (wrap(rng, a, 'series_label'), wrap(rng, b, 'series_perm'))])
        told = '(alpha, beta) rows %s%s, second sample rows %s%s' % (r1[:12], ' ... %d rows' % len(r1) if len(r1) > 12 else '', r2[:12], ' ... %d rows' % len(r2) if len(r2) > 12 else '')
        rep = dict(kind=kind, alpha=[repr(x) for x in a1], beta=[repr(x) for x in b1], alpha2=[repr(x) for x in a2], beta2=[repr(x) for x in b2])
        site = 'stats.pc[tuple+]'
        t1, t2 = mk(a1, b1), mk(a2, b2)
        aud_check(ctx, site, 'pc((alpha, beta))', call_impl(st.pc, t1), one, told, rep)
        aud_check(ctx, site, 'pc(array=(alpha, beta))', call_impl(st.pc, array=t1), one, told, rep)
        aud_check(ctx, site, 'pc((alpha, beta), array2=(alpha2, beta2))', call_impl(st.pc, t1, array2=t2), cross, told, rep)
        aud_check(ctx, site, 'pc((alpha2, beta2), (alpha, beta))', call_impl(st.pc, t2, t1), cross, told, rep)
        aud_check(ctx, 'stats.pc[same object twice]', 'pc(t, t) [one tuple object as both samples]', call_impl(st.pc, t1, t1), own, told, rep)
        # iterators are consumed by the call: fresh ones each time
        aud_check(ctx, site, 'pc((iter(alpha), iter(beta)))', call_impl(st.pc, (iter(a1), iter(b1))), one, told, dict(rep, members='iterators'))
        aud_check(ctx, site, 'pc((iter(alpha), beta), (alpha2, iter(beta2)))', call_impl(st.pc, (iter(a1), list(b1)), (list(a2), iter(b2))), cross, told, dict(rep, members='iterators'))
        aud_check(ctx, site, 'pc((generator, generator))', call_impl(st.pc, ((x for x in a1), (y for y in b1))), one, told, dict(rep, members='generators'))
        if len(ctx.violations) > 8:
            return


def audit(ctx, st):
    for fam in (aud_holders, aud_alphabets, aud_large, aud_count_vectors, aud_refill, aud_tables, aud_tuples):
        t0 = time.time()
        fam(ctx, st)
        ctx.count('aud_seconds_%s' % fam.__name__, round(time.time() - t0, 1))
        if len(ctx.violations) > 8:
            return


def run(ctx):
    import pyrepseq.stats as st
    rng = ctx.rng
    ctx.rule = ('(a) every multiplicity pattern (integer partition) of N <= Nmax realised as string / int / float / mixed samples in '
                'random order, held in a list / ndarray / Series with default, permuted, shifted, labelled or repeated index: pc, '
                'pc_n(multiplicities); (b) all pairs of patterns with N1, N2 <= 5 over a shared value pool, each sample in its own container: '
                'pc(a, b); (c) tables of 1-4 columns x 2-8 rows with string / int / float / missing cells, rows agreeing in all, all-but-one '
                'column, or only after concatenation without separator: pc(table), pc_joint(table, any ordered subset of the columns), legacy '
                '(alpha, beta) tuple; (c2) the same for PAIRS of tables sharing rows: pc(t1, t2), pc_joint(t1, on, t2) (second table with '
                'its own index / column order), pc_grouped_cross; (d) random samples up to N = 2000; (e) legacy (alpha, beta) tuples whose '
                'members are held in independent containers, one- and two-sample form; (f) numeric samples under injective relabellings '
                '(affine with negative / 2**40 / 2**62 coefficients, arbitrary value tables incl. int64 / uint64 extremes, +-inf, denormals) '
                'in every dtype that holds the values exactly (int8..int64, uint8..uint64, float16/32/64, object), one- and two-sample '
                'form (each sample also in a container / dtype of its own; mixed dtypes whenever their common numpy dtype holds all the numbers): '
                'same value as the unrelabelled sample; (round 3) count vectors / samples held in ndarray or Series are evaluated twice on the same '
                'object and must be unchanged; (b2) two samples of different element width: strings vs longer strings with them as prefix, ints vs '
                'floats (v, v+-0.25, v+-0.5), intN vs wider ints (v + j*2**N), float16/32 vs wider floats (v + eps), both orders; table cells '
                'with numbers sharing their leading 0-14 significant digits, rows keyed by VALUE; pc_n of the row multiplicities; (h, coverage audit) '
                'samples held in tuple (N != 2) / pd.Index / deque / Categorical / Series of category, string, nullable dtype / read-only and strided '
                'arrays, keyword arguments, ONE object as both samples; elements differing only in case, blanks, combining characters, number '
                'spelling, the last of 130-1000 characters, empty string, bools, bytes; multiplicities and numbers of distinct values around 2**7, '
                '2**8, 2**15, 2**16, sqrt(2**31); pc_n on count vectors with zero entries, counts up to 2**31, every dtype / holder that holds the '
                'products; an object evaluated, refilled in place, evaluated again; tables of 1-7 columns (long strings, bool, categorical), up to '
                '420 rows, any index (permuted, labels, repeated, MultiIndex), integer / repeated column labels, missing None / nan / pd.NA also in '
                'numeric columns, pc_joint with any gap_token that occurs in no cell, options positionally / by keyword, one- and two-table form; '
                'legacy tuples of iterators, with missing entries, numeric typed chains, some hundred entries. non-trivial := at least two values repeat and pc is strictly between 0 and 1 '
                '(two-sample forms: strictly between 0 and 1)')
    Nmax = 8 if ctx.quick else 12
    cases = []
    for N in range(2, Nmax + 1):
        for pat in partitions(N):
            for kind in ('str', 'int', 'float', 'mixed'):
                if kind == 'mixed' and len(pat) < 2:
                    continue
                cases.append(realise(rng, pat, kind))
    for _ in range(40 if ctx.quick else 400):
        n = rng.randint(2, 2000)
        cases.append([rng.randint(0, max(1, n // rng.randint(1, 20))) for _ in range(n)])
    ctx.exhaustive = True
    outs = ctx.oracle.run_parallel([('api_pc1', [tokens(s)]) for s in cases] + [('api_mults', [tokens(s)]) for s in cases])
    for n, s in enumerate(cases):
        num, den = outs[n]
        mults = outs[len(cases) + n]
        nt = sum(1 for m in mults if m > 1) >= 2 and 0 < num < den
        ctx.case(sample=dict(func='pc', sample=[str(x) for x in s[:12]], expected='%d/%d' % (num, den)) if nt and n % 150 == 0 else None,
                 nontrivial_key=('pc1', tuple(map(str, s))) if nt else None)
        arg = s
        mixed = len({type(x) for x in s}) > 1      # a plain mixed list is coerced to strings by numpy (injective on this pool)
        how = rng.choice(CONTAINERS[1:]) if not mixed else 'ndarray'
        ctx.count('one_sample_container_' + how)
        for name, impl in (('pc', call_impl(st.pc, arg)), ('pc[Series]', call_impl(st.pc, arg if mixed else pd.Series(arg))),
                           ('pc_n[list]', call_impl(st.pc_n, list(mults))), ('pc_n[tuple]', call_impl(st.pc_n, tuple(mults)))):
            if not frac_ok(impl, num, den):
                ctx.violation('property', '%s(%s) = %s, but %d of the %d ordered pairs of distinct positions coincide' %
                              (name, [str(x) for x in s[:20]], impl, num, den),
                              dict(func=name, sample=[str(x) for x in s], expected='%d/%d' % (num, den)), site='stats.' + name.split('[')[0])
        # 'pc_n applied to the multiplicity vector returns the same number': the two library functions on the same data, compared as
        # numbers (not within a tolerance) - both evaluate one quotient of two integers below 2**53, which has one float64 value
        if den and den < 2 ** 53:
            rs, rn = call_impl(st.pc, arg), call_impl(st.pc_n, np.unique(np.asarray(arg), return_counts=True)[1])
            ctx.count('same_number_pc_vs_pc_n')
            if rs[0] == 'ok' and rn[0] == 'ok' and not (rs[1] == rn[1] or (rs[1] != rs[1] and rn[1] != rn[1])):
                ctx.violation('property', 'pc(%s) = %r but pc_n(its multiplicities %s) = %r: not the same number (%d/%d)' %
                              ([str(x) for x in s[:20]], rs[1], list(mults)[:20], rn[1], num, den),
                              dict(func='pc vs pc_n', sample=[str(x) for x in s], multiplicities=[int(m) for m in mults], pc=repr(rs[1]),
                                   pc_n=repr(rn[1]), expected='%d/%d' % (num, den)), site='stats.pc[same number as pc_n]')
        # the same objects evaluated two times: the count vector as np.unique returns it (an ndarray the caller keeps using), counts
        # held in a Series (value_counts), the sample itself as ndarray / Series
        labels = ['k%d' % i for i in range(len(mults))]
        for name, fn, obj in (('pc_n[ndarray]', st.pc_n, np.array(mults)), ('pc_n[ndarray intp]', st.pc_n, np.array(mults, dtype=np.intp)),
                              ('pc_n[Series]', st.pc_n, pd.Series(list(mults), index=labels)),
                              ('pc[ndarray]', st.pc, np.array(arg)), ('pc[%s]' % how, st.pc, wrap(rng, arg, how))):
            r1, r2, mod = twice(fn, obj)
            if mod or not frac_ok(r1, num, den) or not frac_ok(r2, num, den):
                given = 'multiplicities %s of sample' % list(mults)[:20] if name.startswith('pc_n') else 'sample'
                ctx.violation('property', '%s(%s %s) = %s, evaluated once more on the same object = %s%s, but %d of the %d ordered pairs of '
                              'distinct positions coincide' % (name, given, [str(x) for x in s[:20]], r1, r2,
                                                               ' (the caller\'s %s)' % mod if mod else '', num, den),
                              dict(func=name, sample=[str(x) for x in s], multiplicities=[int(m) for m in mults], first=repr(r1), second=repr(r2),
                                   modified=mod, expected='%d/%d' % (num, den)), site='stats.' + name.split('[')[0])
        if n < 25:
            ctx.add_vm('api_pc1', [tokens(s)], outs[n])
        if len(ctx.violations) > 8:
            return
    # (b) two-sample form
    pats = [p for N in range(1, 6) for p in partitions(N)]
    pairs = list(itertools.product(pats, pats))
    if ctx.quick:
        pairs = rng.sample(pairs, 120)
    two = []
    for p1, p2 in pairs:
        pool = ['v%d' % i for i in range(max(len(p1), len(p2)) + 2)]
        a = [x for v, c in zip(rng.sample(pool, len(p1)), p1) for x in [v] * c]
        b = [x for v, c in zip(rng.sample(pool, len(p2)), p2) for x in [v] * c]
        rng.shuffle(a)
        rng.shuffle(b)
        two.append((a, b))
    reqs = []
    for a, b in two:
        reqs.append(('api_pc2', tok2(a, b)))
    outs = ctx.oracle.run_parallel(reqs)
    for (a, b), (num, den) in zip(two, outs):
        nt = 0 < num < den
        ctx.case(sample=dict(func='pc(a,b)', a=a, b=b, expected='%d/%d' % (num, den)) if nt and len(ctx.samples) < 5 else None,
                 nontrivial_key=('pc2', tuple(a), tuple(b)) if nt else None)
        ha, hb = rng.choice(CONTAINERS), rng.choice(CONTAINERS)
        for name, impl, impl_sym in (('list, list', call_impl(st.pc, a, b), call_impl(st.pc, b, a)),
                                     ('%s, %s' % (ha, hb), call_impl(st.pc, wrap(rng, a, ha), wrap(rng, b, hb)),
                                      call_impl(st.pc, wrap(rng, b, hb), wrap(rng, a, ha)))):
            if not frac_ok(impl, num, den) or not frac_ok(impl_sym, num, den):
                ctx.violation('property', 'pc(%s, %s) [held in %s] = %s / swapped %s, but %d of the %d cross pairs coincide' %
                              (a, b, name, impl, impl_sym, num, den),
                              dict(func='pc2', a=a, b=b, containers=name, expected='%d/%d' % (num, den)), site='stats.pc[two]')
    if len(ctx.violations) > 8:
        return
    # (b2) two samples of different element width / kind, each in a container that holds ITS elements exactly, both orders
    wp = []
    for n, (p1, p2) in enumerate(pairs if ctx.quick else pairs * 4):
        kind = WIDTH_KINDS[n % len(WIDTH_KINDS)]
        wp.append((kind,) + width_pair(rng, kind, p1, p2))
    outs = ctx.oracle.run_parallel([('api_pc2', tok2(a, b)) for _, a, b, _, _, _ in wp])
    for (kind, a, b, hA, hB, desc), (num, den) in zip(wp, outs):
        nt = 0 < num < den
        ctx.case(sample=dict(func='pc(a,b)', kind=desc, a=[repr(x) for x in a], b=[repr(x) for x in b], expected='%d/%d' % (num, den))
                 if nt and len(ctx.samples) < 6 and kind != 'prefix' else None,
                 nontrivial_key=('pc2w', kind, tuple(a), tuple(b)) if nt else None)
        ctx.count('two_sample_' + kind)
        for (na, mka), (nb, mkb) in [(hA[0], hB[0]), (rng.choice(hA), rng.choice(hB))]:
            A, B = mka(a), mkb(b)
            if np.asarray(A).tolist() != a or np.asarray(B).tolist() != b:
                ctx.count('two_sample_skipped_container_not_exact')
                continue
            sA, sB = snap(A), snap(B)
            impl, impl_sym = call_impl(st.pc, A, B), call_impl(st.pc, B, A)
            mod = None if (unchanged(A, sA) and unchanged(B, sB)) else 'the samples were modified: now %s, %s' % (show_arg(A), show_arg(B))
            if mod or not frac_ok(impl, num, den) or not frac_ok(impl_sym, num, den):
                ctx.violation('property', 'pc(a, b) = %s and pc(b, a) = %s for a = %s, b = %s (%s)%s, but %d of the %d cross pairs hold equal elements' %
                              (impl, impl_sym, show_arg(sA), show_arg(sB), desc, '; ' + mod if mod else '', num, den),
                              dict(func='pc2', a=[repr(x) for x in a], b=[repr(x) for x in b], held_in=[na, nb], kind=desc,
                                   expected='%d/%d' % (num, den)), site='stats.pc[two,%s]' % kind)
    if len(ctx.violations) > 8:
        return
    # (c) tables
    for t in range(60 if ctx.quick else 3000):
        ncol, nrow = rng.randint(1, 4), rng.randint(2, 8)
        cols = COLS[:ncol]
        with_missing = rng.random() < 0.4
        pools = cell_pools(rng)
        rows = gen_rows(rng, ncol, nrow, pools=pools)
        if ncol >= 2:
            rows += [('AB', 'C') + rows[0][2:], ('A', 'BC') + rows[0][2:]]   # equal only after concatenation without separator
        if with_missing:
            rows = blank(rng, rows)
        objcols = t % 3 != 2                     # else: the string dtype pandas infers by itself
        df = frame(rows, cols, objcols)
        keyrows = row_keys(df)
        on = ordered_subset(rng, cols)           # pc_joint on any selection of the columns, in any order
        keyon = row_keys(df, on)
        (num, den), (non, don), rmults = ctx.oracle.run([('api_pc1', [tokens(keyrows)]), ('api_pc1', [tokens(keyon)]), ('api_mults', [tokens(keyrows)])])
        nt = 0 < num < den
        if ncol >= 3:
            ctx.count('table_numeric_cells_%s' % ('small' if pools[2] is CELLPOOL[2] else 'sharing_leading_digits'))
        ctx.count('table_with_missing' if with_missing else 'table_no_missing')
        ctx.case(sample=dict(func='pc(table)', rows=[list(map(str, r)) for r in rows[:5]], expected='%d/%d' % (num, den)) if nt and len(ctx.samples) < 6 else None,
                 nontrivial_key=('table', tuple(keyrows)) if nt else None)
        before = df.copy()
        for name, impl, (n_, d_), sel in (('pc[table]', call_impl(st.pc, df), (num, den), cols),
                                          ('pc_joint', call_impl(st.pc_joint, df, list(cols)), (num, den), cols),
                                          ('pc_joint', call_impl(st.pc_joint, df, list(on)), (non, don), on),
                                          ('pc[table]', call_impl(st.pc, df[list(on)]), (non, don), on),
                                          ('pc_n[multiplicities %s of the rows]' % list(rmults), call_impl(st.pc_n, np.array(rmults)), (num, den), cols)):
            if not frac_ok(impl, n_, d_):
                ctx.violation('property', '%s on rows %s (columns %s, selected %s) = %s, but %d/%d row pairs agree in every selected column' %
                              (name, rows, cols, list(sel), impl, n_, d_),
                              dict(func=name, rows=show_rows(rows), columns=cols, on=list(sel), expected='%d/%d' % (n_, d_)),
                              site='stats.%s[%s]' % (name.split('[')[0], 'missing' if with_missing else 'plain'))
        # 'pc_n applied to the multiplicity vector and pc_joint applied to the selected columns return the same number'
        rj, rn = call_impl(st.pc_joint, df, list(cols)), call_impl(st.pc_n, np.array(rmults))
        ctx.count('same_number_pc_joint_vs_pc_n')
        if den and rj[0] == 'ok' and rn[0] == 'ok' and not (rj[1] == rn[1] or (rj[1] != rj[1] and rn[1] != rn[1])):
            ctx.violation('property', 'pc_joint on rows %s = %r but pc_n(multiplicities %s of the rows) = %r: not the same number (%d/%d)' %
                          (rows, rj[1], list(rmults), rn[1], num, den),
                          dict(func='pc_joint vs pc_n', rows=show_rows(rows), columns=cols, multiplicities=[int(m) for m in rmults],
                               pc_joint=repr(rj[1]), pc_n=repr(rn[1]), expected='%d/%d' % (num, den)), site='stats.pc_joint[same number as pc_n]')
        if not df.equals(before):
            ctx.violation('property', 'pc / pc_joint modified the caller\'s table', dict(rows=show_rows(rows)), site='stats.pc[mutation]')
        if ncol == 2 and not with_missing and t % 4 == 0:
            a, b = [r[0] for r in rows], [r[1] for r in rows]
            impl = call_impl(st.pc, (list(map(str, a)), list(map(str, b))))
            k2 = [(str(x), str(y)) for x, y in zip(a, b)]
            n2, d2 = ctx.oracle.run([('api_pc1', [tokens(k2)])])[0]
            if not frac_ok(impl, n2, d2):
                ctx.violation('property', 'pc((alpha, beta) tuple) = %s, expected %d/%d' % (impl, n2, d2), dict(a=a, b=b), site='stats.pc[tuple]')
        if ncol == 2 and not with_missing and t % 4 in (1, 2):
            # the legacy (alpha, beta) tuple pairs the chains by POSITION: the same two chains held in Series with another / a permuted /
            # a partly shared index are the same sample (chains taken from differently indexed tables)
            a, b = [str(r[0]) for r in rows], [str(r[1]) for r in rows]
            k2 = list(zip(a, b))
            n2, d2 = ctx.oracle.run([('api_pc1', [tokens(k2)])])[0]
            perm = list(range(len(a)))
            rng.shuffle(perm)
            for what, ia, ib in (('default index / permuted integer index', None, perm),
                                 ('string labels / default index', ['r%d' % i for i in range(len(a))], None),
                                 ('shifted index / default index', list(range(5, 5 + len(a))), None)):
                sa, sb = pd.Series(a, index=ia), pd.Series(b, index=ib)
                impl = call_impl(st.pc, (sa, sb))
                ctx.count('legacy_tuple_series_indexes')
                if not frac_ok(impl, n2, d2):
                    ctx.violation('property', 'pc((alpha, beta)) with the chains held in Series (%s) = %s, but %d/%d pairs of positions hold '
                                  'equal (alpha, beta) pairs; chains %s / %s' % (what, impl, n2, d2, a, b),
                                  dict(func='pc((Series, Series))', a=a, b=b, index_a=ia, index_b=ib, expected='%d/%d' % (n2, d2)),
                                  site='stats.pc[tuple of Series]')
        if ncol == 4 and t % 2 == 0:
            # a legacy tuple of two numeric chains is a two-column table of numbers
            a, b = [r[2] for r in rows], [r[3] for r in rows]
            impl = call_impl(st.pc, (a, b))
            n2, d2 = ctx.oracle.run([('api_pc1', [tokens(list(zip(a, b)))])])[0]
            if not frac_ok(impl, n2, d2):
                ctx.violation('property', 'pc((%s, %s)) [legacy tuple of numeric chains] = %s, but %d/%d pairs of positions hold equal pairs of numbers' %
                              (a, b, impl, n2, d2), dict(func='pc((a, b))', a=[repr(x) for x in a], b=[repr(x) for x in b],
                                                         expected='%d/%d' % (n2, d2)), site='stats.pc[tuple]')
        if len(ctx.violations) > 8:
            return
    # (c2) pairs of tables: pc(t1, t2), pc_joint(t1, on, t2)
    for t in range(60 if ctx.quick else 2000):
        ncol, n1, n2 = rng.randint(1, 4), rng.randint(1, 7), rng.randint(1, 7)
        cols = COLS[:ncol]
        with_missing = rng.random() < 0.4
        pools = cell_pools(rng)
        rows1 = gen_rows(rng, ncol, n1, pools=pools)
        rows2 = gen_rows(rng, ncol, n2, seed_rows=rows1, pools=pools)
        if ncol >= 2:
            rows1.append(('AB', 'C') + rows1[0][2:])                     # equal only after concatenation without separator
            rows2.append(('A', 'BC') + rows1[0][2:])
        if with_missing:
            rows1, rows2 = blank(rng, rows1), blank(rng, rows2)
        objcols = t % 3 != 2
        df1 = frame(rows1, cols, objcols)
        k = rng.randint(0, 30)
        df2 = frame(rows2, cols, objcols, index=range(k, k + len(rows2)))   # the second table has its own index
        on = ordered_subset(rng, cols)
        # wider tables of which pc_joint sees only the selected columns; the second one with another column order
        w1 = df1.assign(other=range(len(df1)))
        w2 = df2.assign(other=range(len(df2)))[['other'] + cols[::-1]]
        k1, k2, o1, o2 = row_keys(df1), row_keys(df2), row_keys(df1, on), row_keys(df2, on)
        full, sel, own = ctx.oracle.run([('api_pc2', tok2(k1, k2)), ('api_pc2', tok2(o1, o2)), ('api_pc2', tok2(o1, o1))])
        nt = 0 < sel[0] < sel[1]
        ctx.count('table_pair_%dcol_%s' % (len(on), 'missing' if with_missing else 'plain'))
        ctx.case(sample=dict(func='pc_joint(t1, on, t2)', rows1=show_rows(rows1[:4]), rows2=show_rows(rows2[:4]), on=on,
                             expected='%d/%d' % sel) if nt and t % 20 == 0 else None,
                 nontrivial_key=('table2', tuple(o1), tuple(o2)) if nt else None)
        b1, b2 = w1.copy(), w2.copy()
        checks = [('pc(t1, t2)', call_impl(st.pc, df1, df2), full, cols), ('pc(t2, t1)', call_impl(st.pc, df2, df1), full, cols),
                  ('pc_joint(t1, columns, t2)', call_impl(st.pc_joint, w1, list(cols), w2), full, cols),
                  ('pc_joint(t1, on, t2)', call_impl(st.pc_joint, w1, list(on), w2), sel, on),
                  ('pc_joint(t2, on, t1)', call_impl(st.pc_joint, w2, list(on), w1), sel, on),
                  ('pc(t1[on], t2[on])', call_impl(st.pc, w1[list(on)], w2[list(on)]), sel, on),
                  ('pc_joint(t1, on, t1)', call_impl(st.pc_joint, w1, list(on), w1), own, on)]
        for name, impl, (n_, d_), sel_ in checks:
            if not frac_ok(impl, n_, d_):
                ctx.violation('property', '%s with t1 rows %s, t2 rows %s (columns %s, selected %s) = %s, but %d of the %d cross pairs of rows '
                              'agree in every selected column' % (name, rows1, rows2, cols, list(sel_), impl, n_, d_),
                              dict(func=name, rows1=show_rows(rows1), rows2=show_rows(rows2), columns=cols, on=list(sel_),
                                   expected='%d/%d' % (n_, d_)),
                              site='stats.%s[two,%s]' % ('pc_joint' if name.startswith('pc_joint') else 'pc', 'missing' if with_missing else 'plain'))
        if not (w1.equals(b1) and w2.equals(b2)):
            ctx.violation('property', 'pc / pc_joint (two tables) modified the caller\'s tables', dict(rows1=show_rows(rows1), rows2=show_rows(rows2)),
                          site='stats.pc[mutation]')
        # pc_grouped_cross applies the two-sample form to every pair of groups of one table
        if t % 3 == 0:
            rows = rows1 + rows2
            grp = ['g%d' % rng.randrange(3) for _ in rows]
            grp[0], grp[-1] = 'g0', 'g1'
            dfg = frame(rows, cols, objcols).assign(grp=grp)
            onl = list(on) if (with_missing or len(on) > 1 or rng.random() < 0.5) else on[0]     # a plain label selects the raw column
            names = sorted(set(grp))
            parts = {g: row_keys(dfg[dfg['grp'] == g], on) for g in names}
            gp = list(itertools.combinations(names, 2))
            exp = ctx.oracle.run([('api_pc2', tok2(parts[g], parts[h])) for g, h in gp])
            impl = call_impl(st.pc_grouped_cross, dfg, 'grp', onl)
            bad = None
            if impl[0] != 'ok' or list(impl[1].index) != names or list(impl[1].columns) != names:
                bad = 'result %s' % (impl,)
            else:
                for (g, h), (n_, d_) in zip(gp, exp):
                    for x in (impl[1].loc[g, h], impl[1].loc[h, g]):
                        if not close(float(x), Fraction(n_, d_)):
                            bad = 'entry (%s, %s) = %r, but %d of the %d cross pairs of rows coincide' % (g, h, x, n_, d_)
            ctx.case(nontrivial_key=('grouped', tuple(grp), tuple(row_keys(dfg, on))) if any(0 < n_ < d_ for n_, d_ in exp) else None)
            if bad:
                ctx.violation('correspondence', 'pc_grouped_cross(rows %s grouped %s, on=%r): %s' % (rows, grp, onl, bad),
                              dict(func='pc_grouped_cross', rows=show_rows(rows), groups=grp, columns=cols, on=onl), site='stats.pc_grouped_cross')
        if len(ctx.violations) > 8:
            return
    # (e) legacy (alpha, beta) tuple: the chains are paired BY POSITION, whatever holds them
    alphas, betas = ['CAV', 'CAL', 'CAVS', 'CA'], ['CASS', 'CAST', 'SCASS', 'VCASS', 'CASR']    # CAV+SCASS = CAVS+CASS: no separator trap
    members = CONTAINERS + ('tuple',)
    tup = []
    for t in range(80 if ctx.quick else 2000):
        pool = [(rng.choice(alphas), rng.choice(betas)) for _ in range(rng.randint(1, 4))]
        r1 = [rng.choice(pool) for _ in range(rng.randint(2, 9))]
        r2 = [rng.choice(pool + [(rng.choice(alphas), rng.choice(betas))]) for _ in range(rng.randint(1, 7))]
        if t % 2:
            hs = [rng.choice(CONTAINERS[2:]) for _ in range(4)]       # all four chains Series with independent indexes
        else:
            hs = [rng.choice(members) for _ in range(4)]
        tup.append((r1, r2, hs))
    outs = ctx.oracle.run_parallel([('api_pc1', [tokens(r1)]) for r1, _, _ in tup] + [('api_pc2', tok2(r1, r2)) for r1, r2, _ in tup])
    for n, (r1, r2, hs) in enumerate(tup):
        one, cross = outs[n], outs[len(tup) + n]
        a1, b1 = [r[0] for r in r1], [r[1] for r in r1]
        a2, b2 = [r[0] for r in r2], [r[1] for r in r2]
        nt = 0 < one[0] < one[1] or 0 < cross[0] < cross[1]
        for h in hs:
            ctx.count('tuple_member_' + h)
        ctx.case(sample=dict(func='pc((alpha, beta))', alpha=a1, beta=b1, containers=hs[:2], expected='%d/%d' % one) if nt and n % 25 == 0 else None,
                 nontrivial_key=('tuple', tuple(r1), tuple(r2)) if nt else None)
        t1 = (wrap(rng, a1, hs[0]), wrap(rng, b1, hs[1]))
        t2 = (wrap(rng, a2, hs[2]), wrap(rng, b2, hs[3]))
        d2 = pd.DataFrame(dict(CDR3A=a2, CDR3B=b2))
        for name, impl, (n_, d_) in (('pc((alpha, beta))', call_impl(st.pc, t1), one),
                                     ('pc((alpha, beta), (alpha2, beta2))', call_impl(st.pc, t1, t2), cross),
                                     ('pc((alpha2, beta2), (alpha, beta))', call_impl(st.pc, t2, t1), cross),
                                     ('pc((alpha, beta), table2)', call_impl(st.pc, t1, d2), cross)):
            if not frac_ok(impl, n_, d_):
                ctx.violation('property', '%s with (alpha, beta) rows %s held in (%s, %s), second sample rows %s held in (%s, %s) = %s, but %d of the %d '
                              'pairs of positions hold equal (alpha, beta) rows' % (name, r1, hs[0], hs[1], r2, hs[2], hs[3], impl, n_, d_),
                              dict(func=name, alpha=a1, beta=b1, alpha2=a2, beta2=b2, containers=hs,
                                   index=[list(map(str, x.index)) if isinstance(x, pd.Series) else None for x in t1 + t2],
                                   expected='%d/%d' % (n_, d_)), site='stats.pc[tuple]')
        if len(ctx.violations) > 8:
            return
    # (f) numbers: any injective relabelling, any exact dtype (C02_relabel_invariant)
    base = []
    for N in range(2, 7):
        for pat in partitions(N):
            vals = [i for i, c in enumerate(pat) for _ in range(c)]
            rng.shuffle(vals)
            other = [rng.randint(0, len(pat)) for _ in range(rng.randint(1, 6))]
            base.append((vals, other, len(pat)))
    for _ in range(40 if ctx.quick else 1500):
        K = rng.randint(1, 12)
        base.append(([rng.randint(0, K) for _ in range(rng.randint(2, 60))], [rng.randint(0, K) for _ in range(rng.randint(1, 40))], K))
    outs = ctx.oracle.run_parallel([('api_pc1', [tokens(a)]) for a, _, _ in base] + [('api_pc2', tok2(a, b)) for a, b, _ in base])
    for n, (a, b, K) in enumerate(base):
        one, cross = outs[n], outs[len(base) + n]
        for rep in range(3 if ctx.quick else 5):
            desc, f = relabelling(rng, K)
            fa, fb = [f(v) for v in a], [f(v) for v in b]
            assert len(set(fa + fb)) == len(set(a + b)), desc        # injective on the sample
            holders = numeric_holders(rng, fa + fb)
            chosen = rng.sample(holders, min(3, len(holders)))
            if rep == 0:
                chosen = holders[:2] + chosen[:1]
            nt = 0 < one[0] < one[1] and 0 < cross[0] < cross[1]
            ctx.case(sample=dict(func='pc', relabelling=desc, sample=[repr(x) for x in fa[:10]], held_in=chosen[0][0], expected='%d/%d' % one)
                     if nt and n % 30 == 0 and rep == 0 else None,
                     nontrivial_key=('num', desc, tuple(a), tuple(b)) if nt else None)
            # the two samples are independent collections: besides one common container, each in a container chosen for ITS numbers alone
            hsa, hsb = numeric_holders(rng, fa), numeric_holders(rng, fb)
            trials = [(h, h) for h in chosen] + [(rng.choice(hsa), rng.choice(hsb)) for _ in range(2)]
            for (hname, mk), (hname2, mk2) in trials:
                A, B = mk(fa), mk2(fb)
                if np.asarray(A).tolist() != fa or np.asarray(B).tolist() != fb:
                    # the container does not hold the numbers: numpy turns a list of Python ints on both sides of 2**63 into float64
                    ctx.count('numeric_skipped_container_not_exact')
                    continue
                ctx.count('numeric_' + hname)
                sA, sB = snap(A), snap(B)
                checks = [('pc(sample)', call_impl(st.pc, A), one)] if hname == hname2 else []
                da, db = np.asarray(A).dtype, np.asarray(B).dtype
                exact = da == db
                if not exact:
                    # numpy compares the two samples in their common dtype; the pair is checked when that dtype holds all the numbers
                    # (uint64 next to int64 -> float64 merges neighbours above 2**53: the recorded finding of section (g))
                    rt = np.result_type(da, db)
                    exact = rt == object or (np.asarray(A).astype(rt).tolist() == fa and np.asarray(B).astype(rt).tolist() == fb)
                    ctx.count('numeric_pair_mixed_dtype_' + ('checked' if exact else 'skipped_common_dtype_not_exact'))
                if exact:
                    checks += [('pc(sample, sample2)', call_impl(st.pc, A, B), cross), ('pc(sample2, sample)', call_impl(st.pc, B, A), cross)]
                held = hname if hname == hname2 else '%s / %s' % (hname, hname2)
                if not (unchanged(A, sA) and unchanged(B, sB)):
                    ctx.violation('property', 'pc modified the caller\'s sample: %s, %s before, %s, %s afterwards' % (show_arg(sA), show_arg(sB), show_arg(A), show_arg(B)),
                                  dict(func='pc', sample=[repr(x) for x in fa], sample2=[repr(x) for x in fb], held_in=held), site='stats.pc[mutation]')
                for name, impl, (n_, d_) in checks:
                    if not frac_ok(impl, n_, d_):
                        ctx.violation('property', '%s = %s for sample %s%s held in %s, but %d of the %d pairs hold equal numbers (the sample is the '
                                      'injective relabelling %s of %s%s, on which the value is %d/%d: C02_relabel_invariant)' %
                                      (name, impl, fa[:30], '' if name == 'pc(sample)' else ', sample2 %s' % fb[:30], held, n_, d_, desc, a[:30],
                                       '' if name == 'pc(sample)' else ' / %s' % b[:30], n_, d_),
                                      dict(func=name, sample=[repr(x) for x in fa], sample2=[repr(x) for x in fb], held_in=held, relabelling=desc,
                                           base=a, base2=b, expected='%d/%d' % (n_, d_)), site='stats.pc[numeric]')
            if len(ctx.violations) > 8:
                return
    # (h) coverage audit: further holders, alphabets, sizes, count vectors, in-place refills, table kinds, pc_joint options
    audit(ctx, st)
    if len(ctx.violations) > 8:
        return
    # (g) numbers that NumPy's default coercion cannot hold exactly (Python ints on both sides of 2**63, ints above 2**53 mixed with
    #     floats, a uint64 sample against an int64 sample): np.asarray / np.intersect1d fall back to float64 and merge DISTINCT numbers.
    #     These are samples of numbers, i.e. inside the statement; the deviation is a recorded finding (known_findings.json, DESIGN 5
    #     D18), reported under its own site so that any other violation of C02 is still reported.
    big = [([2 ** 63 - 1, 2 ** 63], None), ([0, 5, 2 ** 63, 2 ** 63 + 1], None), ([0.5, 2 ** 53, 2 ** 53 + 1], None),
           (np.array([2 ** 62, 2 ** 62 + 1], dtype=np.uint64), np.array([2 ** 62 + 1, 5], dtype=np.int64))]
    for a, b in big:
        la, lb = [x for x in (a.tolist() if hasattr(a, 'tolist') else a)], (None if b is None else b.tolist())
        if lb is None:
            num = sum(1 for i in range(len(la)) for j in range(len(la)) if i != j and la[i] == la[j])
            den = len(la) * (len(la) - 1)
            g = call_impl(st.pc, a)
        else:
            num = sum(1 for x in la for y in lb if x == y)
            den = len(la) * len(lb)
            g = call_impl(st.pc, a, b)
        ctx.case(nontrivial_key=('beyond-float64', str(la), str(lb)))
        ctx.count('numbers_beyond_float64_exactness')
        if not frac_ok(g, num, den):
            ctx.violation('property', 'pc(%s%s) = %s, but %d of the %d pairs hold equal numbers (distinct integers merged by the float64 fallback of '
                          'np.asarray / np.intersect1d)' % (la, '' if lb is None else ', %s' % lb, g, num, den),
                          dict(func='pc', a=[str(x) for x in la], b=None if lb is None else [str(x) for x in lb], expected='%d/%d' % (num, den)),
                          site='stats.pc[numbers beyond float64 exactness]')
    ctx.assumptions += ['str() of a STRING cell is the cell (numeric cells are compared by value); string cells contain neither "." nor "_" (stated domain)',
                        'numpy.unique / intersect1d group equal values (exercised, incl. object arrays of mixed type, every integer / float dtype '
                        'that holds the sample exactly; two samples of different dtypes whenever numpy\'s common dtype holds every number of both)']


def replay(ctx, obj):
    run(ctx)
