"""Oracle entry points of property C19 (coq/extract/Api_c19.v)."""
from proto import L, O, T, STRS

SIGS = {
    'api_c19_regex': ([STRS], 'str'),
    'api_c19_regex_matches': ([STRS, STRS], L('bool')),
    'api_c19_consensus': ([STRS], 'str'),
    'api_c19_consensus_ok': ([STRS, 'str'], 'bool'),
    'api_c19_counts': ([STRS], T('str', L(L('nat')))),
    'api_c19_rank': (['bool', 'bool', 'Q', 'Q', L(O('Q'))], O(T(L('Q'), L('Q')))),
    'api_c19_frequent': ([O('nat'), L('N')], L('N')),
    'api_c19_colour_slots': ([O('nat'), 'nat', L('N'), L('N')], O(L(O('nat')))),
    'api_c19_discrete': ([L('Z'), L('Z')], L(T('Z', 'Z', 'nat'))),
    'api_c19_discrete_sorted': ([L('Z'), L('Z')], L(T('Z', 'Z', 'nat'))),
    'api_c19_clustermap': ([STRS, STRS, L('nat')], T(L('nat'), L(L('nat')))),
    'api_c19_single': ([STRS, L('nat')], T(L('nat'), L(L('nat')))),
}
