"""Oracle entry points of C05 (coq/extract/Api_c05.v)."""
from proto import L, O, T, STRS
ROWS = L(T('str', 'str'))
SIGS = {
    'api_c05_pcdelta': (['nat', 'nat', 'nat', 'nat', ROWS, O(ROWS), O(L('Q')), 'bool', 'Q'], L(O('Q'))),
    'api_c05_pcdelta_draw': (['nat', 'nat', 'nat', 'nat', ROWS, O(ROWS), O(L('Q')), 'bool', 'Q', O('nat'), L('nat'), L('nat')], L(O('Q'))),
    'api_c05_bins0': ([ROWS, O(ROWS)], T('nat', 'nat')),
    'api_c05_counts': (['nat', 'nat', 'nat', 'nat', ROWS, O(ROWS), L('Q')], L('nat')),
    'api_c05_sub_counts': (['nat', 'nat', 'nat', 'nat', ROWS, O(ROWS), L('Q'), 'nat'], L(L('nat'))),
    'api_c05_tail': (['bool', 'Q', L('nat')], L(O('Q'))),
    'api_c05_spec_norm': (['Q', L('nat')], L('Q')),
    'api_c05_zero_pairs': ([STRS], 'nat'),
    'api_c05_default_metric': (['bool', 'bool', 'bool'], 'nat'),
    'api_c05_background': (['nat'], T(L('Z'), 'nat')),
    'api_c05_defaults': (['nat'], T('bool', 'Q', L('Q'))),
    'api_c05_in_bin': ([L('Q'), 'nat', 'Q'], 'bool'),
}
