"""C19 - summaries and plots encode the data faithfully.

Every case runs the public pyrepseq function (headless matplotlib), reads the returned strings / artists back and
compares them with the extracted Coq model (coq/model/Summaries.v); where the property is an executable predicate
(consensus, regex language) the predicate proved equal to the Prop-level specification is evaluated on the
implementation's own output, so a 'property' violation is a concrete input on which the statement fails."""
import itertools, math, os, re, time
from fractions import Fraction
import numpy as np
import pandas as pd
from core import call_impl, close
from gens import shrink_list

GAPS = '.-'
FOREIGN = 'Z'
LETTERS = 'ACDEFGHKWY'


def _plt():
    import matplotlib.pyplot as plt
    return plt


class _Live:
    """One long-lived build/oracle process (the driver answers and flushes line by line); same wire protocol and
    decoding as core.Oracle.run, which remains the fallback."""

    def __init__(self, ctx):
        import subprocess, core
        self.ctx = ctx
        self.p = subprocess.Popen([ctx.oracle.path], stdin=subprocess.PIPE, stdout=subprocess.PIPE, text=True, bufsize=1,
                                  preexec_fn=core._limits)

    def run(self, requests):
        import proto
        from sigs import SIGS
        res = []
        for f, a in requests:          # one request in flight at a time: no pipe can fill up
            self.p.stdin.write(proto.encode_request(f, a, SIGS[f][0]) + '\n')
            self.p.stdin.flush()
            line = self.p.stdout.readline()
            if not line:
                raise RuntimeError('oracle closed its output')
            try:
                res.append(proto.decode_result(line.rstrip('\n'), SIGS[f][1]))
            except RuntimeError as e:
                res.append(e)
        self.ctx.oracle.calls += len(requests)
        return res

    def close(self):
        try:
            self.p.stdin.close()
            self.p.wait(timeout=10)
        except Exception:
            self.p.kill()


def orun(ctx, requests):
    live = getattr(ctx, '_c19_live', None)
    if live is None:
        try:
            live = ctx._c19_live = _Live(ctx)
        except Exception:
            ctx._c19_live = live = False
    if live:
        try:
            return live.run(requests)
        except Exception:
            live.close()
            ctx._c19_live = False
    return ctx.oracle.run(requests)


def V(kind, what, replay, site):
    return dict(kind=kind, what=what, replay=replay, site=site)


def strip(s):
    return ''.join(c for c in s if c not in GAPS)


NP_INT_KINDS = ('int8', 'uint8', 'int16', 'uint16', 'int32', 'uint32', 'int64', 'uint64')
STR_KINDS = ['list', 'tuple', 'array', 'series', 'array_obj', 'series_str', 'series_perm', 'series_dup', 'series_string', 'dfcol']


def container(kind, values, index=None):
    """The same values in one of the container kinds a caller may hand in.  The `series_*` / `dfcol` kinds carry an index that
    is not 0..n-1 (string labels, reversed labels, one repeated label): the functions of this property take their input by
    position, never by label."""
    values = list(values)
    n = len(values)
    if kind == 'list':
        return values
    if kind == 'tuple':
        return tuple(values)
    if kind == 'array':
        return np.array(values)
    if kind == 'array_obj':
        return np.array(values, dtype=object)
    if kind in NP_INT_KINDS:
        return np.array(values, dtype=kind)
    empty = dict(dtype=float) if n == 0 else {}
    if kind == 'series_str':
        return pd.Series(values, index=['k%d' % (n - i) for i in range(n)], **empty)
    if kind == 'series_perm':
        return pd.Series(values, index=list(range(n - 1, -1, -1)), **empty)
    if kind == 'series_dup':
        return pd.Series(values, index=[0] * n, **empty)
    if kind == 'series_string':
        return pd.Series(values, dtype='string')
    if kind == 'series_cat':
        return pd.Series(values, dtype='category')
    if kind == 'dfcol':
        return pd.DataFrame({'other': list(range(n)), 'v': pd.Series(values, **empty)}).set_axis(['r%d' % (i * 7 % 10) for i in range(n)])['v']
    if kind in ('Int64', 'Float64'):      # pandas nullable dtypes: a missing value is pd.NA
        return pd.Series([pd.NA if (isinstance(v, float) and math.isnan(v)) else v for v in values], dtype=kind)
    return pd.Series(values, index=index, **empty)


# ------------------------------------------------------------------ seqs_to_regex / seqs_to_consensus / seqlogos
def regex_tests(rng, seqs, cap):
    """Strings over the observed residues plus one foreign letter: all of them for every admissible length when that
    is at most `cap`, else the inputs, random column-wise recombinations and their one-letter corruptions."""
    L = len(seqs[0])
    letters = sorted({c for s in seqs for c in s if c not in GAPS}) + [FOREIGN]
    nopt = sum(1 for p in range(L) if any(s[p] in GAPS for s in seqs))
    lens = list(range(max(0, L - nopt - 1), L + 2))
    total = sum(len(letters) ** n for n in lens)
    if total <= cap:
        return [''.join(t) for n in lens for t in itertools.product(letters, repeat=n)], True
    tests = {strip(s) for s in seqs}
    cols = [[c for c in {s[p] for s in seqs}] for p in range(L)]
    for _ in range(cap // 4):
        t = [rng.choice(col) for col in cols]
        tests.add(strip(''.join(t)))
        u = [c for c in t if c not in GAPS]
        if u:
            k = rng.randrange(len(u))
            w = list(u)
            w[k] = rng.choice(letters)
            tests.add(''.join(w))
            tests.add(''.join(u[:k] + u[k + 1:]))
            tests.add(''.join(u[:k] + [rng.choice(letters)] + u[k:]))
    return sorted(tests), False


def _how(kind, opts):
    """How the call was made, put in front of every message of the alignment checks (the texts name the plain call)."""
    parts = [] if kind == 'list' else ['sequences handed in as %s' % kind]
    o = opts or {}
    if o.get('positional'):
        parts.append('align by position')
    if o.get('np_bool'):
        parts.append('align=numpy.False_')
    if o.get('twice'):
        parts.append('second call on the same object' + (' refilled in place after a first call with other sequences' if o['twice'] == 'refill' else ''))
    if o.get('ax'):
        parts.append('ax given (%s)' % o['ax'])
    if o.get('logo_kws'):
        parts.append('logomaker keyword arguments %s' % o['logo_kws'])
    return '[%s] ' % '; '.join(parts) if parts else ''


def refill(obj, values):
    """Overwrite the content of a mutable container in place (the caller reuses one preallocated object); False when the kind is immutable."""
    values = list(values)
    if isinstance(obj, list):
        obj[:] = values
    elif isinstance(obj, np.ndarray):
        obj[...] = np.array(values, dtype=obj.dtype)
    elif isinstance(obj, pd.Series):
        obj.iloc[:] = values
    else:
        return False
    return True


def _call_noalign(f, kind, seqs, opts):
    """f(container, align=False), with `align` handed over positionally when opts['positional'] and as numpy.False_ when
    opts['np_bool'] (the documented type is `boolean`).  opts['twice'] = 'same': the call is
    made twice on the same object; 'refill': the object first holds another alignment of the same shape (every sequence reversed, list
    reversed), is passed once, is then refilled in place with `seqs` and passed again.  The last answer is the one examined."""
    opts = opts or {}
    no = np.False_ if opts.get('np_bool') else False
    call = (lambda o: call_impl(f, o, no)) if opts.get('positional') else (lambda o: call_impl(f, o, align=no))
    if opts.get('twice') == 'refill':
        obj = container(kind, [s[::-1] for s in seqs][::-1])
        call(obj)
        if not refill(obj, seqs):
            obj = container(kind, seqs)
        return call(obj)
    obj = container(kind, seqs)
    if opts.get('twice'):
        call(obj)
    return call(obj)


def chk_regex(ctx, seqs, tests, kind='list', opts=None):
    out = _chk_regex(ctx, seqs, tests, kind, opts)
    for v in out:
        v['what'] = _how(kind, opts) + v['what']
    return out


def _chk_regex(ctx, seqs, tests, kind='list', opts=None):
    import pyrepseq.util as ut
    out = []
    gapless = not any(c in GAPS for s in seqs for c in s)
    rep = dict(func='seqs_to_regex', seqs=list(seqs), container=kind, opts=opts)
    impl = _call_noalign(ut.seqs_to_regex, kind, seqs, opts)
    m_str, m_acc = orun(ctx, [('api_c19_regex', [list(seqs)]), ('api_c19_regex_matches', [list(seqs), list(tests)])])
    if impl[0] != 'ok' or not isinstance(impl[1], str):
        return [V('property', 'seqs_to_regex(%s, align=False) -> %s; expected the expression %r' % (list(seqs), impl, m_str), rep, 'util.seqs_to_regex')]
    r = impl[1]
    try:
        pat = re.compile(r)
    except re.error as e:
        return [V('property', 'seqs_to_regex(%s, align=False) = %r is not a valid expression (%s); model %r' % (list(seqs), r, e, m_str), rep, 'util.seqs_to_regex')]
    for s in seqs:
        if pat.fullmatch(strip(s)) is None:
            out.append(V('property', 'seqs_to_regex(%s, align=False) = %r does not fully match the input %r%s; model expression %r' %
                         (list(seqs), r, s, '' if gapless else ' (gaps removed: %r)' % strip(s), m_str), rep, 'util.seqs_to_regex'))
            return out
    acc = [pat.fullmatch(t) is not None for t in tests]
    diff = [(t, a, b) for t, a, b in zip(tests, acc, m_acc) if a != b]
    if diff:
        t, a, b = min(diff, key=lambda d: (len(d[0]), d[0]))
        what = ('seqs_to_regex(%s, align=False) = %r %s %r, but that string is %s from residues observed at each position (model expression %r)' %
                (list(seqs), r, 'accepts' if a else 'rejects', t, 'built' if b else 'not built', m_str))
        out.append(V('property' if gapless else 'correspondence', what, dict(rep, witness=t), 'util.seqs_to_regex'))
    elif r != m_str:
        out.append(V('correspondence', 'seqs_to_regex(%s, align=False) = %r, model %r (same language on %d strings)' % (list(seqs), r, m_str, len(tests)),
                     rep, 'util.seqs_to_regex'))
    return out


def chk_consensus(ctx, seqs, kind='list', opts=None):
    out = _chk_consensus(ctx, seqs, kind, opts)
    for v in out:
        v['what'] = _how(kind, opts) + v['what']
    return out


def _chk_consensus(ctx, seqs, kind='list', opts=None):
    import pyrepseq.util as ut
    gapless = not any(c in GAPS for s in seqs for c in s)
    rep = dict(func='seqs_to_consensus', seqs=list(seqs), container=kind, opts=opts)
    impl = _call_noalign(ut.seqs_to_consensus, kind, seqs, opts)
    model = orun(ctx, [('api_c19_consensus', [list(seqs)])])[0]
    if impl[0] != 'ok' or not isinstance(impl[1], str):
        return [V('property', 'seqs_to_consensus(%s, align=False) -> %s; a consensus is %r' % (list(seqs), impl, model), rep, 'util.seqs_to_consensus')]
    ok = orun(ctx, [('api_c19_consensus_ok', [list(seqs), impl[1]])])[0]
    if not ok:
        return [V('property' if gapless else 'correspondence',
                  'seqs_to_consensus(%s, align=False) = %r: some letter is not a most frequent residue of its column (a consensus is %r)' %
                  (list(seqs), impl[1], model), rep, 'util.seqs_to_consensus')]
    if impl[1] != model:
        return [V('correspondence', 'seqs_to_consensus(%s, align=False) = %r, model (first maximum) %r' % (list(seqs), impl[1], model), rep,
                  'util.seqs_to_consensus')]
    return []


def chk_counts(ctx, seqs, kind='list', index=None, opts=None):
    out = _chk_counts(ctx, seqs, kind, index, opts)
    for v in out:
        v['what'] = _how(kind, opts) + v['what']
    return out


def _chk_counts(ctx, seqs, kind='list', index=None, opts=None):
    """opts: ax = None (seqlogos makes its own figure) | 'kw' | 'pos' (an existing Axes handed in); logo_kws = keyword
    arguments passed through to logomaker.Logo (they change the drawing, never the counts)."""
    import pyrepseq.plotting as pl
    plt = _plt()
    opts = opts or {}
    rep = dict(func='seqlogos', seqs=list(seqs), container=kind, index=index, opts=opts)
    try:
        a, kw = [container(kind, seqs, index)], dict(opts.get('logo_kws') or {})
        if opts.get('ax'):
            fig, ax = plt.subplots(figsize=(max(1.0, 0.3 * len(seqs[0])), 0.6))
            if opts['ax'] == 'pos':
                a.append(ax)
            else:
                kw['ax'] = ax
        impl = call_impl(pl.seqlogos, *a, **kw)
        alpha, mat = orun(ctx, [('api_c19_counts', [list(seqs)])])[0]
        if impl[0] != 'ok':
            return [V('property', 'seqlogos(%s) -> %s; expected the count matrix %s over residues %r' % (list(seqs), impl, mat, alpha), rep, 'plotting.seqlogos')]
        cm = impl[1][1]
        cols = ''.join(map(str, cm.columns))
        vals = np.asarray(cm.values, dtype=float)
        good = (cols == alpha and vals.shape == (len(mat), len(alpha)) and bool(np.all(vals == np.array(mat, dtype=float).reshape(len(mat), len(alpha))))
                and list(cm.index) == list(range(len(mat))))
        if not good:
            return [V('property', 'seqlogos(%s): returned count matrix has residues %r, rows %s; the numbers of sequences showing each residue at each '
                      'position are residues %r, rows %s' % (list(seqs), cols, vals.tolist(), alpha, mat), rep, 'plotting.seqlogos')]
        return []
    finally:
        plt.close('all')


def gen_alignment(rng, quick, small=False):
    n = rng.randint(1, 4 if small else 7)
    L = rng.randint(1, 3 if small else 7)
    alpha = rng.sample(LETTERS, rng.randint(1, 3 if small else 6))
    if rng.random() < 0.15:
        alpha = rng.sample('acdxy0159', 3)
    base = [rng.choice(alpha) for _ in range(L)]
    seqs = []
    for _ in range(n):
        s = [c if rng.random() < 0.6 else rng.choice(alpha) for c in base]
        seqs.append(s)
    gapped = rng.random() < 0.45
    if gapped:
        for p in range(L):
            if rng.random() < 0.5:
                rows = [i for i in range(n) if rng.random() < 0.5]
                if len(rows) >= n:
                    rows = rows[1:]
                for i in rows:
                    seqs[i][p] = rng.choice(GAPS)
    return [''.join(s) for s in seqs]


AA20 = 'ACDEFGHIKLMNPQRSTVWY'
POOLS = [AA20, 'ABCDEFGHIJKLMNOPQRSTUVWXY', AA20 + 'acdefg' + '0123456789']       # never the foreign letter Z


def gen_alignment_wide(rng, n=None, L=None):
    """Many sequences / many columns / the full residue alphabet: counts of two and three digits (10, 100, 127/128, 255/256, 1000),
    more than nine positions, columns that are conserved, dominated by one residue, uniform over many residues, or nearly tied
    between two residues (counts differing by at most one at a high count), 40% pre-aligned with gap fractions around one half."""
    n = n or rng.choice([9, 10, 11, 12, 16, 33, 100, 127, 128, 129, 255, 256, 257, 300])
    L = L or rng.choice([8, 9, 10, 11, 12, 14, 20, 33])
    pool = rng.choice(POOLS)
    cols = []
    for p in range(L):
        style = rng.random()
        if style < 0.2:
            col = [rng.choice(pool)] * n
        elif style < 0.45:
            a = rng.choice(pool)
            col = [a if rng.random() < 0.9 else rng.choice(pool) for _ in range(n)]
        elif style < 0.7:
            a, b = rng.sample(pool, 2)
            h = n // 2 + rng.choice([0, 0, 1]) if n > 1 else 1
            col = [a] * h + [b] * (n - h)
            for _ in range(rng.choice([0, 0, 1, 2])):
                col[rng.randrange(n)] = rng.choice(pool)
            rng.shuffle(col)
        else:
            sub = rng.sample(pool, rng.randint(2, len(pool)))
            col = [rng.choice(sub) for _ in range(n)]
        cols.append(col)
    if rng.random() < 0.4 and n > 1:
        for col in cols:
            if rng.random() < 0.4:
                g = min(n - 1, max(0, rng.choice([1, 2, n // 2 - 1, n // 2, n // 2 + 1, n - 1, rng.randint(0, n - 1)])))
                for i in rng.sample(range(n), g):
                    col[i] = rng.choice(GAPS)
    return [''.join(col[i] for col in cols) for i in range(n)]


def valid_alignment(seqs):
    return (len(seqs) >= 1 and len(seqs[0]) >= 1 and all(len(s) == len(seqs[0]) for s in seqs)
            and all(any(s[p] not in GAPS for s in seqs) for p in range(len(seqs[0]))))


def shrink_alignment(seqs, fails):
    seqs = shrink_list(seqs, lambda ss: valid_alignment(ss) and fails(ss), 60)
    L = len(seqs[0])
    p = 0
    while p < len(seqs[0]) and len(seqs[0]) > 1:
        cand = [s[:p] + s[p + 1:] for s in seqs]
        if valid_alignment(cand) and fails(cand):
            seqs = cand
        else:
            p += 1
    return seqs


# ------------------------------------------------------------------ rankfrequency
RANK_DEFAULTS = dict(normalize_x=True, normalize_y=False, log_x=True, log_y=True, scalex=1.0, scaley=1.0)      # as documented
ORACLE_RANK_MAX = 1200        # the extracted insertion sort is quadratic: longer inputs use spec_rank alone


def spec_rank(normx, normy, sx, sy, data):
    """The statement itself in exact rationals, computed without the model: non-missing values (divided by their sum when
    normalised) in descending order, times scalex, against scaley * rank (/ m when normalize_y).  It is compared with the
    extracted model on every input short enough for the model (a self-check of the harness) and stands alone only beyond."""
    nm = [v for v in data if v is not None]
    if normx and nm:
        tot = sum(nm)
        if tot == 0:
            return None
        nm = [v / tot for v in nm]
    m = len(nm)
    return [v * sx for v in sorted(nm, reverse=True)], [sy * r / (m if normy else 1) for r in range(m)]


def rank_kinds(data):
    """Container kinds admissible for this data vector."""
    kinds = ['list', 'tuple', 'array', 'series', 'series_str', 'series_perm', 'series_dup', 'dfcol', 'Float64']
    ints = all(v is None or v.denominator == 1 for v in data)
    if ints and data:
        kinds.append('Int64')
        if not any(v is None for v in data):
            top = max(data)
            kinds += [k for k in NP_INT_KINDS if top <= np.iinfo(k).max]
    return kinds


def chk_rank(ctx, data, normx, normy, logx, logy, sx, sy, kind='list', use_gca=False, shift=0, opts=None):
    """data: list of Fractions / None (= NaN).  opts: omit_defaults (only options that differ from the documented defaults are
    passed), ax_positional, int_scales (integral scale factors as int), tx = [a, b] (transform_x = a * x + b), step_kws (passed
    through to Axes.step), pre = 'curve' | 'scatter' (the axes already hold another rankfrequency curve / a density_scatter)."""
    import pyrepseq.plotting as pl
    plt = _plt()
    opts = opts or {}
    rep = dict(func='rankfrequency', data=[None if v is None else str(v) for v in data], normalize_x=normx, normalize_y=normy,
               log_x=logx, log_y=logy, scalex=str(sx), scaley=str(sy), container=kind, use_gca=use_gca, shift=shift, opts=opts)
    as_int = all(v is not None and v.denominator == 1 for v in data) or kind == 'Int64'
    vals = [float('nan') if v is None else (int(v) if as_int else float(v)) for v in data]
    try:
        fig, ax = plt.subplots()
        if opts.get('pre') == 'curve':
            pl.rankfrequency([5, 3, 3, 1], ax=ax)
        elif opts.get('pre') == 'scatter':
            pl.density_scatter([1, 1, 2], [2, 2, 5], ax=ax, discrete=True)
        n_before = len(ax.lines)
        scale = lambda v: int(v) if (opts.get('int_scales') and v.denominator == 1) else float(v)
        kw = dict(normalize_x=normx, normalize_y=normy, log_x=logx, log_y=logy, scalex=scale(sx), scaley=scale(sy))
        if opts.get('omit_defaults'):
            kw = {k: v for k, v in kw.items() if v != RANK_DEFAULTS[k]}
        if shift:
            kw['transform_y'] = lambda y: y + shift
        ta, tb = [Fraction(v) for v in opts['tx']] if opts.get('tx') else (Fraction(1), Fraction(0))
        if opts.get('tx'):
            kw['transform_x'] = lambda x: float(ta) * x + float(tb)
        kw.update(opts.get('step_kws') or {})
        a = []
        if not use_gca:
            if opts.get('ax_positional'):
                a.append(ax)
            else:
                kw['ax'] = ax
        arg = container(kind, vals, index=list(range(7, 7 + len(vals)))) if vals or kind != 'series' else pd.Series([], dtype=float)
        impl = call_impl(pl.rankfrequency, arg, *a, **kw)
        spec = spec_rank(normx, normy, sx, sy, list(data))
        if len(data) <= ORACLE_RANK_MAX:
            model = orun(ctx, [('api_c19_rank', [normx, normy, sx, sy, list(data)])])[0]
            if (model is None) != (spec is None) or (model is not None and (list(model[0]), list(model[1])) != (spec[0], spec[1])):
                return [V('correspondence', 'harness self-check: the rational rank curve of the harness and the extracted model differ on %s' % rep, rep,
                          'plotting.rankfrequency')]
        else:
            model = spec
        if model is None:
            return []       # values summing to zero under normalisation: outside the stated domain
        xs, ys = model
        xs = [ta * x + tb for x in xs]
        ys = [y + shift for y in ys]
        shown = vals if len(vals) <= 40 else '%s ... (%d values)' % (vals[:12], len(vals))
        desc = 'rankfrequency(%s [%s], %s%s)' % (shown, kind, ', '.join('%s=%r' % kv for kv in sorted(kw.items()) if not callable(kv[1]) and kv[0] != 'ax'),
                                                 (', transform_x=%s*x+%s' % (ta, tb) if opts.get('tx') else '') + (', transform_y=y+%s' % shift if shift else ''))
        cut = lambda seq: list(map(str, seq[:12])) + (['...'] if len(seq) > 12 else []) if len(seq) > 40 else list(map(str, seq))
        if impl[0] != 'ok':
            return [V('property', '%s -> %s; expected the curve x=%s y=%s' % (desc, impl, cut(xs), cut(ys)), rep, 'plotting.rankfrequency')]
        lines = impl[1]
        if len(lines) != 1 or lines[0] not in ax.lines or len(ax.lines) != n_before + 1:
            return [V('property', '%s returned %d artists, not the one curve drawn on the axes' % (desc, len(lines)), rep, 'plotting.rankfrequency')]
        gx, gy = np.asarray(lines[0].get_xdata(), dtype=float), np.asarray(lines[0].get_ydata(), dtype=float)
        if len(gx) != len(xs) or len(gy) != len(ys) or not all(close(float(a), b) for a, b in zip(gx, xs)) or \
                not all(close(float(a), b) for a, b in zip(gy, ys)):
            bad = [i for i in range(min(len(gx), len(xs))) if not (close(float(gx[i]), xs[i]) and close(float(gy[i]), ys[i]))]
            where = '' if not bad or len(xs) <= 40 else ' (lengths %d / %d; first difference at position %d: drawn (%r, %r), expected (%s, %s))' % (
                len(gx), len(xs), bad[0], float(gx[bad[0]]), float(gy[bad[0]]), xs[bad[0]], ys[bad[0]])
            return [V('property', '%s%s draws x=%s y=%s; the non-missing values in descending order against their 0-based ranks are x=%s y=%s' %
                      (desc, where, cut(gx.tolist()), cut(gy.tolist()), cut(xs), cut(ys)), rep, 'plotting.rankfrequency')]
        return []
    finally:
        plt.close('all')


# ------------------------------------------------------------------ labels_to_colors_*
def tokens_sorted(labels):
    uniq = sorted(set(labels))
    rank = {v: i + 1 for i, v in enumerate(uniq)}
    return [rank[v] for v in labels], uniq


HLS_DEFAULT = dict(l=0.5, s=0.8)        # the documented default of palette_kws


def chk_colours(ctx, which, labels, min_count, kind='list', npseed=0, opts=None):
    """opts: palette_kws (hls only: handed to seaborn.hls_palette), positional (palette_kws / min_count passed by position),
    mc_np (min_count as numpy integer).  npseed None: NumPy's global generator is left in whatever state earlier calls put it."""
    import pyrepseq.plotting as pl
    import seaborn as sns
    plt = _plt()
    opts = opts or {}
    rep = dict(func='labels_to_colors_' + which, labels=list(labels), min_count=min_count, container=kind, npseed=npseed, opts=opts)
    site = 'plotting.labels_to_colors_' + which
    f = pl.labels_to_colors_hls if which == 'hls' else pl.labels_to_colors_tableau
    toks, uniq = tokens_sorted(labels)
    if npseed is not None:
        np.random.seed(npseed)
    pk = opts.get('palette_kws') if which == 'hls' else None
    mc = np.int64(min_count) if (opts.get('mc_np') and min_count is not None) else min_count
    a, kw = [], {}
    if opts.get('positional'):
        if which == 'hls':
            a.append(dict(pk) if pk is not None else dict(HLS_DEFAULT))
        if min_count is not None:
            a.append(mc)
    else:
        if pk is not None:
            kw['palette_kws'] = dict(pk)
        if min_count is not None:
            kw['min_count'] = mc
    impl = call_impl(f, container(kind, labels, index=list(range(3, 3 + len(labels)))), *a, **kw)
    freq = orun(ctx, [('api_c19_frequent', [min_count, toks])])[0]
    shown = list(labels) if len(labels) <= 60 else '%s ... (%d labels)' % (list(labels)[:20], len(labels))
    desc = 'labels_to_colors_%s(%s [%s], min_count=%s%s%s)' % (which, shown, kind, min_count, '' if pk is None else ', palette_kws=%s' % pk,
                                                              ', by position' if opts.get('positional') else '')
    if impl[0] != 'ok' or len(impl[1]) != len(labels):
        return [V('property', '%s -> %s; expected one colour per label' % (desc, impl if impl[0] != 'ok' else '%d colours' % len(impl[1])), rep, site)]
    cols = [tuple(float(x) for x in c) for c in impl[1]]
    black = (0.0, 0.0, 0.0)
    bylab = {}
    for t, lab, c in zip(toks, labels, cols):
        if t in bylab and bylab[t][1] != c:
            return [V('property', '%s: label %r is given two colours %s and %s' % (desc, lab, bylab[t][1], c), rep, site)]
        bylab[t] = (lab, c)
    for t, (lab, c) in bylab.items():
        if t not in freq and c != black:
            return [V('property', '%s: label %r occurs %d times (< min_count) but is coloured %s, not black' % (desc, lab, toks.count(t), c), rep, site)]
    if which == 'hls':
        seen = {}
        for t in freq:
            lab, c = bylab[t]
            if c in seen:
                return [V('property', '%s: distinct labels %r and %r share the colour %s' % (desc, seen[c], lab, c), rep, site)]
            seen[c] = lab
    # correspondence with the model: colours are palette slots assigned through some shuffle of the frequent labels
    k = len(freq)
    if which == 'hls':
        palette = [tuple(float(x) for x in c) for c in sns.hls_palette(k, **(pk if pk is not None else HLS_DEFAULT))] if k else []
        period = 0
    else:
        tab = list(plt.cm.tab20.colors[::2]) + list(plt.cm.tab20.colors[1::2])
        palette = [tuple(float(x) for x in c) for c in tab]
        period = len(palette)
    slot_of = {}
    for t in freq:
        lab, c = bylab[t]
        if c not in palette:
            return [V('correspondence', '%s: label %r has colour %s, which is not a colour of the palette' % (desc, lab, c), rep, site)]
        slot_of[t] = palette.index(c)
    order, pool = [], dict(slot_of)
    for i in range(k):
        want = i if period == 0 else i % period
        cand = [t for t, s in pool.items() if s == want]
        if not cand:
            return [V('correspondence', '%s: the colours used are not the first %d palette entries (slot %d unused): %s' %
                      (desc, k, want, sorted(slot_of.values())), rep, site)]
        order.append(cand[0])
        del pool[cand[0]]
    slots = orun(ctx, [('api_c19_colour_slots', [min_count, period, order, toks])])[0]
    got = [None if t not in freq else slot_of[t] for t in toks]
    if slots is None or slots != got:
        return [V('correspondence', '%s: palette slots %s, model %s for the shuffle %s' % (desc, got, slots, order), rep, site)]
    return []


# ------------------------------------------------------------------ density_scatter(discrete=True)
def chk_discrete(ctx, xs2, ys2, halves, sort, kind='list', opts=None):
    """xs2, ys2: integers; the data are x = (xs2 + offx) / divx, y = (ys2 + offy) / divy - order-preserving injective rescalings,
    so that the model runs on the integers (divx = divy = 2 when `halves`, else 1, unless opts says otherwise).
    sort: True / False / None (= not passed: the default, sorted).  opts: divx, divy, offx, offy; ykind (container kind of y when it
    differs from that of x); ax = 'kw' | 'pos' | 'gca'; positional (discrete / sort by position); cbar; sc_kws (passed through to
    Axes.scatter); pre = 'cloud' | 'curve' (the axes already hold a density_scatter / a rankfrequency curve)."""
    import pyrepseq.plotting as pl
    plt = _plt()
    opts = opts or {}
    rep = dict(func='density_scatter', x2=list(xs2), y2=list(ys2), halves=halves, sort=sort, container=kind, opts=opts)
    site = 'plotting.density_scatter'
    divx, divy = opts.get('divx', 2 if halves else 1), opts.get('divy', 2 if halves else 1)
    offx, offy = opts.get('offx', 0), opts.get('offy', 0)
    x = [(v + offx) / float(divx) if divx != 1 else v + offx for v in xs2]
    y = [(v + offy) / float(divy) if divy != 1 else v + offy for v in ys2]
    if opts.get('negzero'):
        # every second zero coordinate is written -0.0 (what np.round(-0.2) gives): the same number, hence the same point
        x = [(-0.0 if (float(v) == 0.0 and i % 2) else float(v)) for i, v in enumerate(x)]
        y = [(-0.0 if (float(v) == 0.0 and i % 3 == 1) else float(v)) for i, v in enumerate(y)]
    try:
        fig, ax = plt.subplots()
        if opts.get('pre') == 'cloud':
            pl.density_scatter([0, 0, 1], [1, 1, 1], ax=ax, discrete=True)
        elif opts.get('pre') == 'curve':
            pl.rankfrequency([4, 2, 1], ax=ax)
        n_before = len(ax.collections)
        a = [container(kind, x), container(opts.get('ykind', kind), y)]
        kw = dict(opts.get('sc_kws') or {})
        how = opts.get('ax', 'kw')
        if opts.get('positional'):
            a += [ax, True] + ([] if sort is None else [sort])
        else:
            if how == 'pos':
                a.append(ax)
            elif how == 'kw':
                kw['ax'] = ax
            kw['discrete'] = True
            if sort is not None:
                kw['sort'] = sort
        if opts.get('cbar'):
            kw['cbar'] = True
        impl = call_impl(pl.density_scatter, *a, **kw)
        sorted_ = sort is None or bool(sort)
        model = orun(ctx, [('api_c19_discrete_sorted' if sorted_ else 'api_c19_discrete', [list(xs2), list(ys2)])])[0]
        want = [(Fraction(p + offx, divx), Fraction(q + offy, divy), c) for p, q, c in model]
        big = len(x) > 60
        desc = 'density_scatter(%s, %s [%s], %s)' % (x if not big else '%s ... (%d values)' % (x[:12], len(x)), y if not big else '%s ...' % y[:12],
                                                    kind + ('/' + opts['ykind'] if opts.get('ykind') else ''),
                                                    ', '.join(['discrete=True', 'sort=%s' % ('default' if sort is None else sort)] +
                                                              ['%s=%r' % kv for kv in sorted(opts.items()) if kv[0] in ('ax', 'cbar', 'sc_kws', 'pre', 'positional')]))
        if impl[0] != 'ok' or len(ax.collections) != n_before + 1:
            return [V('property', '%s -> %s, %d new collections; expected one scatter of %s' % (desc, impl[0], len(ax.collections) - n_before,
                                                                                            [tuple(map(str, w)) for w in want]), rep, site)]
        pc = ax.collections[-1]
        off = np.asarray(np.ma.getdata(pc.get_offsets()), dtype=float)
        arr = np.asarray(np.ma.getdata(pc.get_array()), dtype=float).ravel()
        got = [(float(p), float(q), float(c)) for (p, q), c in zip(off.tolist(), arr.tolist())]
        same_len = len(off) == len(arr) == len(want)
        key = lambda t: (float(t[2]), float(t[0]), float(t[1]))
        if not same_len or sorted(got, key=key) != [tuple(map(float, w)) for w in sorted(want, key=key)]:
            return [V('property', '%s draws (x, y, colour value) %s; the distinct points with their multiplicities are %s' %
                      (desc, got, [tuple(map(str, w)) for w in want]), rep, site)]
        if sorted_ and any(p[2] > q[2] for p, q in zip(got, got[1:])):
            return [V('correspondence', '%s: points are not drawn in order of ascending multiplicity: %s' % (desc, got), rep, site)]
        if not sorted_ and got != [tuple(map(float, w)) for w in want]:
            return [V('correspondence', '%s: drawing order %s differs from the model (lexicographic) %s' % (desc, got, want), rep, site)]
        return []
    finally:
        plt.close('all')


# ------------------------------------------------------------------ similarity_clustermap
def same_partition(a, b):
    a, b = list(a), list(b)
    if len(a) != len(b):
        return False
    f, g = {}, {}
    for x, y in zip(a, b):
        if f.setdefault(x, y) != y or g.setdefault(y, x) != x:
            return False
    return True


def _grey(labels, min_count=None):
    """A caller's own label -> colour function (meta_to_colors): every label the same grey."""
    return [(0.5, 0.5, 0.5)] * len(labels)


def chk_clustermap(ctx, alpha, beta, mode, index, meta, cols=('cdr3a', 'cdr3b'), link=None, clus=None, meta_dict=False, opts=None):
    """mode: 'paired' | 'alpha' | 'beta' (single chain). meta: dict column -> values.
    opts (all JSON values, carried by the replay): omit_cols (the chain columns have the default names and are not named in the call),
    positional_cols; col_order = 'ba' | 'meta_first' (order of the columns inside the table); drop_other (single chain: the table
    lacks the other chain); str_dtype (chain columns of pandas `string` dtype); norm = [vmin, vmax] (a matplotlib Normalize handed in);
    bounds = list; cbar_kws = dict; meta_kind = 'tuple'; meta_to_colors = list of 'hls' | 'tableau' | 'grey'; kws = dict passed
    through to the cluster map ('figsize' as list, 'xticklabels' / 'yticklabels' = 'labels' for one label per row)."""
    import pyrepseq.plotting as pl
    import scipy.cluster.hierarchy as hc
    import matplotlib as mpl
    plt = _plt()
    opts = opts or {}
    rep = dict(func='similarity_clustermap', alpha=list(alpha), beta=list(beta), mode=mode, index=list(index), meta=meta, cols=list(cols),
               linkage_kws=link, cluster_kws=clus, meta_dict=meta_dict, opts=opts)
    site = 'plotting.similarity_clustermap'
    data = {cols[0]: list(alpha), cols[1]: list(beta)}
    if opts.get('drop_other') and mode != 'paired':
        del data[cols[1] if mode == 'alpha' else cols[0]]
    data.update(meta)
    df = pd.DataFrame(data, index=list(index))
    if opts.get('col_order') == 'ba':
        df = df[list(df.columns)[::-1]]
    elif opts.get('col_order') == 'meta_first':
        df = df[list(meta) + [c for c in df.columns if c not in meta]]
    if opts.get('str_dtype'):
        df = df.astype({c: 'string' for c in cols if c in df.columns})
    before = df.copy()
    a = []
    kw = dict(alpha_column=cols[0] if mode != 'beta' else None, beta_column=cols[1] if mode != 'alpha' else None)
    if opts.get('omit_cols') and mode == 'paired' and tuple(cols) == ('cdr3a', 'cdr3b'):
        kw = {}
    elif opts.get('positional_cols'):
        a, kw = [kw['alpha_column'], kw['beta_column']], {}
    lk = dict(method='average', optimal_ordering=True) if link is None else dict(link)
    ck = dict(t=6, criterion='distance') if clus is None else dict(clus)
    if link is not None:
        kw['linkage_kws'] = dict(link)
    if clus is not None:
        kw['cluster_kws'] = dict(clus)
    fs = dict(hls=pl.labels_to_colors_hls, tableau=pl.labels_to_colors_tableau, grey=_grey)
    if meta:
        kw['meta_columns'] = {c: c.upper() for c in meta} if meta_dict else (tuple(meta) if opts.get('meta_kind') == 'tuple' else list(meta))
    if opts.get('meta_to_colors'):
        names = opts['meta_to_colors']
        kw['meta_to_colors'] = [fs[names[i % len(names)]] for i in range(len(meta) + 1)]
    if opts.get('norm'):
        kw['norm'] = mpl.colors.Normalize(*opts['norm'])
    if opts.get('bounds'):
        kw['bounds'] = np.array(opts['bounds'])
    if opts.get('cbar_kws'):
        kw['cbar_kws'] = dict(opts['cbar_kws'])
    for k_, v_ in (opts.get('kws') or {}).items():
        kw[k_] = tuple(v_) if k_ == 'figsize' else (['s%d' % i for i in range(len(alpha))] if v_ == 'labels' else v_)
    cbar_given = dict(kw['cbar_kws']) if 'cbar_kws' in kw else None
    desc = 'similarity_clustermap(table %s=%s %s=%s index=%s meta=%s columns=%s%s, %s)' % (
        cols[0], list(alpha), cols[1], list(beta), list(index), meta, list(df.columns), ' (string dtype)' if opts.get('str_dtype') else '',
        ', '.join([repr(v) for v in a] + ['%s=%r' % kv for kv in kw.items()]))
    try:
        np.random.seed(0)
        impl = call_impl(pl.similarity_clustermap, df, *a, **kw)
        if impl[0] != 'ok':
            return [V('property', '%s -> %s' % (desc, impl), rep, site)]
        cg, linkage, cluster = impl[1]
        order = [int(i) for i in cg.dendrogram_row.reordered_ind]
        n = len(alpha)
        if sorted(order) != list(range(n)):
            return [V('property', '%s: row order %s is not a permutation of the rows' % (desc, order), rep, site)]
        if mode == 'paired':
            summed, mat = orun(ctx, [('api_c19_clustermap', [list(alpha), list(beta), order])])[0]
        else:
            chain = list(alpha) if mode == 'alpha' else list(beta)
            summed, mat = orun(ctx, [('api_c19_single', [chain, order])])[0]
        ref_link = hc.linkage(np.array(summed, dtype=float), **lk)
        ref_clus = hc.fcluster(ref_link, **ck)
        linkage = np.asarray(linkage, dtype=float)
        if linkage.shape != ref_link.shape or not np.allclose(linkage, ref_link, rtol=1e-12, atol=1e-12):
            return [V('property', '%s: returned linkage %s is not the hierarchical clustering %s of the summed chain distances %s' %
                      (desc, linkage.tolist(), ref_link.tolist(), summed), rep, site)]
        if not same_partition(cluster, ref_clus):
            return [V('property', '%s: returned clusters %s, clustering of the summed distances gives %s' % (desc, list(cluster), list(ref_clus)), rep, site)]
        leaves = [int(i) for i in hc.leaves_list(linkage)]
        col_order = [int(i) for i in cg.dendrogram_col.reordered_ind]
        if order != leaves or col_order != leaves:
            return [V('property', '%s: heat map rows %s / columns %s are not in dendrogram order %s' % (desc, order, col_order, leaves), rep, site)]
        d2 = np.asarray(cg.data2d, dtype=float)
        want = np.array(mat, dtype=float).reshape(n, n)
        if d2.shape != want.shape or not np.array_equal(d2, want):
            return [V('property', '%s: heat map data %s; alpha distances below / beta distances above the diagonal in dendrogram order %s are %s' %
                      (desc, d2.tolist(), order, mat), rep, site)]
        mesh = [c for c in cg.ax_heatmap.collections if hasattr(c, 'get_array') and c.get_array() is not None]
        shown = np.ma.filled(np.ma.asarray(mesh[0].get_array(), dtype=float), np.nan).reshape(n, n) if mesh else None
        if shown is None or not np.array_equal(shown, want):
            return [V('property', '%s: the drawn mesh holds %s, expected %s' % (desc, None if shown is None else shown.tolist(), mat), rep, site)]
        if not df.equals(before):
            return [V('correspondence', '%s modified the caller\'s table' % desc, rep, site)]
        if cbar_given is not None and kw['cbar_kws'] != cbar_given:
            return [V('correspondence', '%s modified the caller\'s cbar_kws: %s' % (desc, kw['cbar_kws']), rep, site)]
        return []
    finally:
        plt.close('all')


def gen_chain(rng, n):
    roots = ['CASSLGQ', 'CAVRDSN', 'CSARDRT', 'CAWSVGE']
    out = []
    for _ in range(n):
        s = list(rng.choice(roots[:rng.randint(1, 4)]))
        for _ in range(rng.choice([0, 0, 1, 1, 2, 3])):
            op = rng.random()
            p = rng.randrange(1, len(s))
            if op < 0.5:
                s[p] = rng.choice(LETTERS)
            elif op < 0.75 and len(s) > 3:
                del s[p]
            else:
                s.insert(p, rng.choice(LETTERS))
        out.append(''.join(s))
    return out


def gen_chain_long(rng, n):
    """CDR3-like chains of 10-20 residues over the twenty amino acids, 0-8 edits away from one to three random roots: distances
    far beyond the colour bounds 0..6 and beyond the default cluster threshold."""
    roots = ['C' + ''.join(rng.choice(AA20) for _ in range(rng.randint(8, 18))) + 'F' for _ in range(rng.randint(1, 3))]
    out = []
    for _ in range(n):
        s = list(rng.choice(roots))
        for _ in range(rng.choice([0, 1, 2, 4, 8])):
            op = rng.random()
            p = rng.randrange(1, len(s))
            if op < 0.5:
                s[p] = rng.choice(AA20)
            elif op < 0.75 and len(s) > 3:
                del s[p]
            else:
                s.insert(p, rng.choice(AA20))
        out.append(''.join(s))
    return out


def gen_shifted_pairs(rng, n):
    """Paired rows that are NOT independent per chain: a few joined words alpha+beta, each row cutting its word at its own
    position (a suffix of one row's alpha chain is a prefix of another row's beta chain), some rows mutated inside a chain,
    some rows being an earlier row with the two chains exchanged. On such tables the summed per-chain distance differs from
    any distance of a row-wise combination (concatenation with or without a separator, multiset of chains, ...)."""
    if rng.random() < 0.5:
        words = [a + b for a, b in zip(gen_chain(rng, 2), gen_chain(rng, 2))]
    else:
        words = [''.join(rng.choice(LETTERS[:rng.randint(3, 10)]) for _ in range(rng.randint(4, 12))) for _ in range(2)]
    words = words[:rng.choice([1, 1, 2])]
    rows = []
    for _ in range(n):
        if rows and rng.random() < 0.15:
            a, b = rng.choice(rows)
            rows.append((b, a))
            continue
        w = rng.choice(words)
        p = rng.randint(1, len(w) - 1)
        a, b = list(w[:p]), list(w[p:])
        for ch in (a, b):
            if rng.random() < 0.25:
                q = rng.randrange(len(ch))
                op = rng.random()
                if op < 0.5:
                    ch[q] = rng.choice(LETTERS)
                elif op < 0.75 and len(ch) > 1:
                    del ch[q]
                else:
                    ch.insert(q, rng.choice(LETTERS))
        rows.append((''.join(a), ''.join(b)))
    return [r[0] for r in rows], [r[1] for r in rows]


def between_thresholds(summed):
    """Cluster thresholds that separate the distinct summed distances: below the smallest, between consecutive ones, the values
    themselves (fcluster's `distance` criterion is inclusive)."""
    vals = sorted({float(v) for v in summed})
    out = set(vals)
    for lo, hi in zip([0.0] + vals, vals):
        if hi > lo:
            out.add((lo + hi) / 2)
    return sorted(t for t in out if t > 0) or [1.0]


def gen_index(rng, n):
    c = rng.random()
    if c < 0.25:
        return list(range(n))
    if c < 0.5:
        idx = list(range(10, 10 + n))
        rng.shuffle(idx)
        return idx
    if c < 0.75:
        return ['r%d' % rng.randrange(100 + i * 100, 200 + i * 100) for i in range(n)]
    return [rng.randrange(3) for _ in range(n)]          # duplicated index labels


# ------------------------------------------------------------------ driver
def _report(ctx, vs):
    for v in vs:
        ctx.violation(v['kind'], v['what'], v['replay'], site=v['site'])


def run(ctx):
    try:
        _run(ctx)
    finally:
        live = getattr(ctx, '_c19_live', None)
        if live:
            live.close()
        ctx._c19_live = None


def fits(kind, values):
    return not values or (np.iinfo(kind).min <= min(values) and max(values) <= np.iinfo(kind).max)


LOGO_KWS = [dict(color_scheme='hydrophobicity'), dict(show_spines=True, baseline_width=0.5), dict(stack_order='small_on_top'), dict(vpad=0.1, width=0.8), {}]
STEP_KWS = [dict(where='post'), dict(where='mid', color='k'), dict(label='clones', lw=2), dict(linestyle='--', alpha=0.5)]
SCATTER_KWS = [dict(s=3, cmap='magma'), dict(marker='s', alpha=0.5, edgecolors='none'), dict(vmin=0, rasterized=True), dict(label='pts', linewidths=0)]
CMAP_BUNDLES = [
    dict(omit_cols=True),
    dict(positional_cols=True, col_order='ba'),
    dict(norm=[0, 12]),
    dict(bounds=[0, 2, 4, 6, 8, 12]),
    dict(cbar_kws=dict(label='d', orientation='vertical')),
    dict(meta_to_colors=['tableau', 'grey'], meta_kind='tuple'),
    dict(kws=dict(figsize=[3, 3], dendrogram_ratio=0.2, colors_ratio=0.05)),
    dict(kws=dict(annot=True, linewidths=0.5)),
    dict(kws=dict(xticklabels='labels', yticklabels='labels')),
    dict(str_dtype=True, col_order='meta_first'),
    dict(drop_other=True),
    dict(norm=[0, 20], cbar_kws=dict(label='x'), kws=dict(figsize=[3.5, 3.5])),
    dict(omit_cols=True, bounds=[0, 1, 2, 3], meta_to_colors=['grey']),
    dict(positional_cols=True, str_dtype=True, kws=dict(annot=True)),
]


def _run_wide(ctx):
    """Widening of every family of _run: sizes beyond one digit / one byte / the model's comfortable range, the remaining container
    kinds, every parameter of the public signatures (defaults left out, positional passing, pass-through keyword arguments),
    repeated calls on one object (also refilled in place in between) and artists sharing one Axes."""
    rng = ctx.rng
    q = ctx.quick
    wall = ctx.extra.setdefault('section_wall_s', {})
    t0 = time.time()
    # ---- (a2) alignments
    wide = [gen_alignment_wide(rng) for _ in range(6 if q else 80)]
    wide += [gen_alignment_wide(rng, n=1000, L=8)] if q else [gen_alignment_wide(rng, n=rng.choice([1000, 2000]), L=rng.choice([8, 20, 64])) for _ in range(6)]
    wide += [gen_alignment_wide(rng, n=rng.choice([2, 3, 5]), L=rng.choice([64, 130, 260]))]         # sequences longer than 127 / 255
    extra = [gen_alignment(rng, q) for _ in range(40 if q else 500)]
    for k, seqs in enumerate(wide + extra):
        is_wide = k < len(wide)
        kind = STR_KINDS[k % len(STR_KINDS)]
        opts = dict(positional=(k % 3 == 0), twice=(None, 'refill', 'same', None, 'refill')[k % 5], np_bool=(k % 4 == 1))
        gapless = not any(c in GAPS for s in seqs for c in s)
        nt = any(len({s[p] for s in seqs if s[p] not in GAPS}) > 1 for p in range(len(seqs[0])))
        ctx.count('wide_alignment_%s' % ('n>=100' if len(seqs) >= 100 else 'n>=9' if len(seqs) >= 9 else 'long' if is_wide else 'small'))
        ctx.count('alignment_container_' + kind)
        if opts['twice']:
            ctx.count('alignment_called_twice_' + opts['twice'])
        tests, full = regex_tests(rng, seqs, 1500 if q else 6000)
        vs = chk_regex(ctx, seqs, tests, kind, opts)
        if vs and vs[0]['kind'] == 'property':
            sh = shrink_alignment(seqs, lambda ss: any(v['kind'] == 'property' for v in chk_regex(ctx, ss, regex_tests(rng, ss, 1500)[0], kind, opts)))
            vs = [v for v in chk_regex(ctx, sh, regex_tests(rng, sh, 1500)[0], kind, opts) if v['kind'] == 'property'][:1] or vs
        _report(ctx, vs)
        vc = chk_consensus(ctx, seqs, kind, opts)
        if vc and vc[0]['kind'] == 'property':
            sh = shrink_alignment(seqs, lambda ss: any(v['kind'] == 'property' for v in chk_consensus(ctx, ss, kind, opts)))
            vc = chk_consensus(ctx, sh, kind, opts) or vc
        _report(ctx, vc)
        ctx.case(sample=dict(func='seqs_to_regex/consensus', n=len(seqs), L=len(seqs[0]), first=seqs[0], container=kind, opts=opts) if is_wide and k % 4 == 0 else None,
                 nontrivial_key=('align-wide', tuple(seqs), kind) if nt else None)
        if (is_wide and len(seqs[0]) <= (14 if q else 33) and k % 2 == 0) or (not is_wide and k % (5 if q else 3) == 0):
            lk = ['list', 'array', 'series_str', 'series_perm', 'tuple', 'dfcol', 'series_string'][k % 7]
            lo = dict(ax=(None, 'kw', 'pos')[k % 3], logo_kws=LOGO_KWS[k % len(LOGO_KWS)])
            ctx.count('seqlogos_ax_%s' % lo['ax'])
            if lo['logo_kws']:
                ctx.count('seqlogos_logo_kwargs')
            vl = chk_counts(ctx, seqs, lk, None, lo)
            if vl and vl[0]['kind'] == 'property':
                sh = shrink_alignment(seqs, lambda ss: bool(chk_counts(ctx, ss, lk, None, lo)))
                vl = chk_counts(ctx, sh, lk, None, lo) or vl
            _report(ctx, vl)
            ctx.case(nontrivial_key=('logo-wide', tuple(seqs), lk) if nt else None)
        if len(ctx.violations) > 6:
            return
    wall['a2_alignments'] = round(time.time() - t0, 1)
    t0 = time.time()
    # ---- (b2) rankfrequency
    flags = list(itertools.product([False, True], repeat=4))
    scales = [Fraction(1), Fraction(2), Fraction(1, 2), Fraction(3), Fraction(1, 4)]
    sizes_big = [127, 128, 255, 256, 257, 300] + ([1000, 2 ** 15 + 3] if q else [1000, 1000, 2 ** 15 + 3, 2 ** 16 + 1])
    nb = 64 if q else 960
    for k in range(nb + len(sizes_big)):
        normx, normy, logx, logy = flags[(k * 5 + k // 16) % 16]
        big = k >= nb
        m = sizes_big[k - nb] if big else rng.choice([0, 1, 2, 3, 5, 13, 30, 64])
        integral = k % 2 == 0 or big
        top = rng.choice([3, 10, 200, 1000, 70000, 2 ** 33])
        nmiss = 0
        data = []
        while len(data) - nmiss < m:          # m counts the non-missing values: that many ranks are drawn
            r = rng.random()
            if r < (0.0 if k % 4 == 0 else 0.01 if big else 0.15):
                data.append(None)
                nmiss += 1
            elif r < 0.22:
                data.append(Fraction(0))
            elif integral:
                data.append(Fraction(rng.randint(1, top)))
            else:
                data.append(Fraction(rng.randint(1, 64), rng.choice([1, 2, 4, 8])))
        ks = rank_kinds(data)
        narrow = [x for x in ks if x in NP_INT_KINDS or x in ('Int64', 'Float64')]
        general = [x for x in ks if x not in narrow]
        use_narrow = (k % 3 != 2) if len(narrow) > 2 else (k % 3 == 0)
        kind = (narrow if use_narrow else general)[(k // 3) % len(narrow if use_narrow else general)]
        use_gca = k % 7 == 3
        # integral scale factors handed over as int: not with a NumPy integer array (see NOTES.md, POSSIBLE DEFECT: the product wraps)
        opts = dict(omit_defaults=(k % 2 == 0), ax_positional=(k % 3 == 1),
                    int_scales=(k % 4 < 2 and (kind not in NP_INT_KINDS or bool(os.environ.get('PV_PENDING_C19')))))
        if k % 4 == 2:
            opts['tx'] = [str(v) for v in rng.choice([(Fraction(2), Fraction(1)), (Fraction(1, 2), Fraction(0)), (Fraction(3), Fraction(-1)), (Fraction(1), Fraction(5, 2))])]
        if k % 5 == 0:
            opts['step_kws'] = rng.choice(STEP_KWS)
        if k % 6 >= 4:
            opts['pre'] = 'curve' if k % 6 == 4 else 'scatter'
        sx, sy = (rng.choice(scales), rng.choice(scales)) if k % 3 == 0 else (Fraction(1), Fraction(1))
        nm = [v for v in data if v is not None]
        nt = len(set(nm)) >= 2
        ctx.count('rank_container_' + kind)
        ctx.count('rank_size_%s' % ('>=2^15' if m >= 2 ** 15 else '>=1000' if m >= 1000 else '>=127' if m >= 127 else '<=64'))
        for name in ('omit_defaults', 'ax_positional', 'tx', 'step_kws', 'pre'):
            if opts.get(name):
                ctx.count('rank_opt_' + name)
        if opts['omit_defaults'] and (normx, normy, logx, logy) == (True, False, True, True) and sx == sy == 1:
            ctx.count('rank_all_defaults')
        shift = 1 if k % 5 == 1 else 0
        vs = chk_rank(ctx, data, normx, normy, logx, logy, sx, sy, kind, use_gca=use_gca, shift=shift, opts=opts)
        if vs and data:
            sh = shrink_list(data, lambda dd: kind in rank_kinds(dd) and bool(chk_rank(ctx, dd, normx, normy, logx, logy, sx, sy, kind, use_gca, shift, opts)), 60)
            vs = chk_rank(ctx, sh, normx, normy, logx, logy, sx, sy, kind, use_gca, shift, opts) or vs
        _report(ctx, vs)
        ctx.case(sample=dict(func='rankfrequency', m=m, container=kind, opts=opts, normalize_x=normx, normalize_y=normy) if nt and k % 23 == 0 else None,
                 nontrivial_key=('rank-wide', tuple(map(str, data)) if m < 100 else (m, str(sum(nm))), kind, normx, normy, str(sx), str(sy), repr(sorted(opts.items()))) if nt else None)
        if len(ctx.violations) > 6:
            return
    if os.environ.get('PV_PENDING_C19'):
        # NOTES.md, POSSIBLE DEFECT: an integer scale factor times a NumPy integer array of a narrow dtype wraps around
        ctx.count('rank_pending_int_scale_narrow_dtype')
        _report(ctx, chk_rank(ctx, [Fraction(200), Fraction(100)], False, False, True, True, Fraction(2), Fraction(1), 'uint8', opts=dict(int_scales=True)))
        ctx.case()
    wall['b2_rankfrequency'] = round(time.time() - t0, 1)
    t0 = time.time()
    # ---- (c2) colours
    for k in range(90 if q else 1500):
        which = 'hls' if k % 2 == 0 else 'tableau'
        nlab = rng.choice([1, 2, 5, 9, 12, 20, 33, 60] + ([150] if k % 9 == 0 else []))
        n = rng.choice([0, 1, 5, 12, 40, 300] + ([1000] if k % 10 == 0 else []))
        if k % 9 == 4:                    # few labels, each seen several hundred times (min_count is then put next to such a count)
            nlab, n = rng.choice([1, 2, 3]), rng.choice([300, 600, 1000])
        style = k % 6
        if style == 0:
            pool = ['c%d' % i for i in range(nlab)]
        elif style == 1:
            pool = rng.sample(range(-200, 200), nlab)
        elif style == 2:
            pool = [v / 2.0 for v in rng.sample(range(-300, 300), nlab)]
        elif style == 3:
            pool = [rng.choice([1, -1]) * (2 ** 40 + i) for i in range(nlab)]
        elif style == 4:
            pool = ['CASSLGQETQYF' * 3 + ('%d' % i) * rng.randint(1, 3) + 'x' * (i % 3) for i in range(nlab)]
            pool = sorted(set(pool))
        else:
            pool = [True, False][:max(1, min(2, nlab))]
        labels = [rng.choice(pool[:rng.randint(1, len(pool))]) for _ in range(n)]
        if n >= 40 and len(pool) <= n:
            labels = (list(pool) + labels)[:n]
            rng.shuffle(labels)
        str_labels = style in (0, 4)
        kinds_c = ['list', 'tuple', 'array', 'series', 'series_str', 'series_perm', 'series_cat', 'dfcol'] + (['series_string', 'array_obj'] if str_labels else []) + \
                  (['int32', 'int64'] if style == 1 else [])
        kind = kinds_c[(k // 6) % len(kinds_c)]
        mc = rng.choice([None, 0, 1, 2, 3, 5, 10, 1000])
        if labels and k % 3 == 1:         # min_count at / next to the count of one of the labels (also counts of three digits)
            mc = max(0, labels.count(rng.choice(labels)) + rng.choice([-1, 0, 0, 1]))
        opts = dict(positional=(k % 3 == 0), mc_np=(k % 4 == 1))
        if which == 'hls' and k % 4 in (0, 2):
            opts['palette_kws'] = rng.choice([dict(l=0.3, s=0.4), dict(h=0.3), dict(l=0.7, s=1.0, h=0.5)])
        npseed = None if k % 2 == 0 else rng.randrange(2 ** 31)
        nt = len(set(labels)) >= 2
        ctx.count('colours_wide_%s_%s' % (which, 'labels>8' if len(set(labels)) > 8 else 'labels<=8'))
        ctx.count('colours_container_' + kind)
        ctx.count('colours_label_style_%d' % style)
        if labels and max(labels.count(v) for v in set(labels)) > 255:
            ctx.count('colours_count>255')
        if not labels:
            ctx.count('colours_empty')
        if mc is not None and any(labels.count(v) > 255 and abs(labels.count(v) - mc) <= 1 for v in set(labels)):
            ctx.count('colours_min_count_next_to_count>255')
        for name in ('positional', 'palette_kws', 'mc_np'):
            if opts.get(name):
                ctx.count('colours_opt_' + name)
        vs = chk_colours(ctx, which, labels, mc, kind, npseed, opts)
        if vs and vs[0]['kind'] == 'property' and labels:
            sh = shrink_list(labels, lambda ll: any(v['kind'] == 'property' for v in chk_colours(ctx, which, ll, mc, kind, npseed, opts)), 80)
            vs = chk_colours(ctx, which, sh, mc, kind, npseed, opts) or vs
        _report(ctx, vs)
        ctx.case(sample=dict(func='labels_to_colors_' + which, n=n, distinct=len(set(labels)), min_count=mc, container=kind, opts=opts) if nt and k % 31 == 0 else None,
                 nontrivial_key=('col-wide', which, tuple(map(str, labels)), mc, kind, repr(sorted(opts.items()))) if nt else None)
        if len(ctx.violations) > 6:
            return
    wall['c2_colours'] = round(time.time() - t0, 1)
    t0 = time.time()
    # ---- (d2) density_scatter discrete
    for k in range(70 if q else 1000):
        n = rng.choice([1, 2, 6, 40, 300] + ([1000, 5000] if k % 8 == 0 else []))
        rx, ry = (rng.choice([0, 1, 2]), rng.choice([0, 1, 3])) if n >= 300 else (rng.choice([1, 2, 6, 100]), rng.choice([1, 2, 6, 100]))
        xs = [rng.randint(-rx, rx) for _ in range(n)]
        ys = [rng.randint(0, ry) for _ in range(n)]
        opts = dict(divx=rng.choice([1, 1, 2, 3, 10]), divy=rng.choice([1, 1, 2, 3, 10]), ax=('kw', 'pos', 'gca')[k % 3])
        if k % 5 == 0:
            opts['offx'], opts['offy'] = rng.choice([10 ** 6, -50, 2 ** 31]), rng.choice([0, 10 ** 6])
        if k % 4 == 0:
            opts['positional'] = True
        if k % 5 == 1:
            opts['cbar'] = True
        if k % 3 == 1:
            opts['sc_kws'] = rng.choice(SCATTER_KWS)
        if k % 7 >= 5:
            opts['pre'] = 'cloud' if k % 7 == 5 else 'curve'
        vx = [v + opts.get('offx', 0) for v in xs]
        vy = [v + opts.get('offy', 0) for v in ys]
        kinds_x = ['list', 'tuple', 'array', 'series', 'series_str', 'series_perm', 'series_dup', 'dfcol'] + \
                  ([kd for kd in NP_INT_KINDS if fits(kd, vx)] if opts['divx'] == 1 else [])
        kind = kinds_x[(k // 3) % len(kinds_x)]
        if k % 2 == 0:
            kinds_y = ['list', 'array', 'series_str'] + ([kd for kd in NP_INT_KINDS if fits(kd, vy)] if opts['divy'] == 1 else [])
            yk = kinds_y[(k // 2) % len(kinds_y)]
            if kind.startswith('series') or kind == 'dfcol':
                yk = kind          # two Series are paired by position only when they share their index
            if yk != kind:
                opts['ykind'] = yk
        if kind in NP_INT_KINDS and 'ykind' not in opts and (opts['divy'] != 1 or not fits(kind, vy)):
            opts['ykind'] = 'array'
        sort = (None, True, False)[k % 3]
        nt = len(set(zip(xs, ys))) < n
        ctx.count('discrete_wide_n_%s' % ('>=300' if n >= 300 else '<=40'))
        if n and max(list(zip(xs, ys)).count(pt) for pt in set(zip(xs, ys))) > 255:
            ctx.count('discrete_multiplicity>255')
        ctx.count('discrete_container_%s' % kind + ('/' + opts['ykind'] if opts.get('ykind') else ''))
        ctx.count('discrete_sort_%s' % ('default' if sort is None else sort))
        ctx.count('discrete_ax_' + ('positional' if opts.get('positional') else opts['ax']))
        for name in ('cbar', 'sc_kws', 'pre', 'offx'):
            if opts.get(name):
                ctx.count('discrete_opt_' + name)
        vs = chk_discrete(ctx, xs, ys, False, sort, kind, opts)
        if vs and vs[0]['kind'] == 'property':
            pts = shrink_list(list(zip(xs, ys)), lambda pp: any(v['kind'] == 'property' for v in chk_discrete(ctx, [p[0] for p in pp], [p[1] for p in pp], False, sort, kind, opts)), 80)
            vs = chk_discrete(ctx, [p[0] for p in pts], [p[1] for p in pts], False, sort, kind, opts) or vs
        _report(ctx, vs)
        ctx.case(sample=dict(func='density_scatter', n=n, distinct=len(set(zip(xs, ys))), sort=sort, container=kind, opts=opts) if nt and k % 19 == 0 else None,
                 nontrivial_key=('disc-wide', tuple(xs), tuple(ys), sort, kind, repr(sorted(opts.items()))) if nt else None)
        if len(ctx.violations) > 6:
            return
    wall['d2_density_scatter'] = round(time.time() - t0, 1)
    t0 = time.time()
    # ---- (e2) similarity_clustermap: the remaining parameters, larger tables, longer chains
    for k in range(len(CMAP_BUNDLES) if q else 8 * len(CMAP_BUNDLES)):
        opts = dict(CMAP_BUNDLES[k % len(CMAP_BUNDLES)])
        shape = (k + k // len(CMAP_BUNDLES)) % 5
        if shape == 0:
            n = rng.randint(24, 40) if q else (130 if k == 5 * len(CMAP_BUNDLES) else rng.choice([24, 32, 40, 48, 60]))
            alpha, beta = gen_chain(rng, n), gen_chain(rng, n)
        elif shape in (1, 3):
            n = rng.randint(2, 8)
            alpha, beta = gen_chain_long(rng, n), gen_chain_long(rng, n)
        elif shape == 2:
            n = rng.randint(2, 7)
            alpha, beta = gen_shifted_pairs(rng, n)
        else:
            n = rng.randint(2, 9)
            alpha, beta = gen_chain(rng, n), gen_chain(rng, n)
        mode = rng.choice(['alpha', 'beta']) if opts.get('drop_other') else ('paired' if (opts.get('omit_cols') or k % 4) else rng.choice(['alpha', 'beta']))
        index = gen_index(rng, n)
        meta = {}
        nmeta = 2 if opts.get('meta_kind') else rng.choice([0, 1, 2]) if (opts.get('col_order') == 'meta_first' or k % 3 == 0) else 0
        if opts.get('col_order') == 'meta_first':
            nmeta = max(1, nmeta)
        for c in ['epitope', 'subject'][:nmeta]:
            meta[c] = [rng.choice(['x', 'y', 'z']) if c == 'epitope' else rng.randint(1, 3) for _ in range(n)]
        cols = ('cdr3a', 'cdr3b') if (opts.get('omit_cols') or k % 2) else ('CDR3A', 'CDR3B')
        link = None if k % 3 == 0 else rng.choice([dict(method='weighted'), dict(method='single'), dict(method='complete', optimal_ordering=True),
                                                  dict(method='weighted', optimal_ordering=True)])
        if mode == 'paired':
            summed = orun(ctx, [('api_c19_clustermap', [alpha, beta, list(range(n))])])[0][0]
        else:
            summed = orun(ctx, [('api_c19_single', [alpha if mode == 'alpha' else beta, list(range(n))])])[0][0]
        clus = None if k % 3 == 1 else (dict(t=rng.randint(1, max(1, min(5, n))), criterion='maxclust') if k % 3 == 2 else
                                        dict(t=rng.choice(between_thresholds(summed)), criterion='distance'))
        if opts.get('bounds') and (k // len(CMAP_BUNDLES)) % 2 == 0:
            clus = None         # custom colour bounds with the DEFAULT flat-cluster options: the documented cut (distance 6) does not follow the bounds
        ctx.count('clustermap_wide_%s' % ('n>=24' if n >= 24 else 'long_chains' if shape in (1, 3) else 'small'))
        for name in sorted(opts):
            ctx.count('clustermap_opt_' + name + ('_' + '+'.join(sorted(opts['kws'])) if name == 'kws' else ''))
        if clus and clus.get('criterion') == 'maxclust':
            ctx.count('clustermap_opt_maxclust')
        if link and link.get('method') == 'weighted':
            ctx.count('clustermap_opt_weighted_linkage')
        vs = chk_clustermap(ctx, alpha, beta, mode, index, meta, cols, link, clus, meta_dict=(k % 5 == 4 and not opts.get('meta_kind')), opts=opts)
        if vs and vs[0]['kind'] == 'property' and n > 2:
            small = {kk: vv for kk, vv in opts.items() if kk not in ('kws',) or 'labels' not in (vv or {}).values()}
            rows = shrink_list(list(zip(alpha, beta)), lambda rr: len(rr) >= 2 and any(
                v['kind'] == 'property' for v in chk_clustermap(ctx, [r[0] for r in rr], [r[1] for r in rr], mode, list(range(len(rr))), {}, cols, link, clus,
                                                                opts={kk: vv for kk, vv in small.items() if kk not in ('meta_kind', 'col_order')})), 40)
            vs = chk_clustermap(ctx, [r[0] for r in rows], [r[1] for r in rows], mode, list(range(len(rows))), {}, cols, link, clus,
                                opts={kk: vv for kk, vv in small.items() if kk not in ('meta_kind', 'col_order')}) or vs
        _report(ctx, vs)
        nt = len(set(summed)) >= 2
        ctx.case(sample=dict(func='similarity_clustermap', n=n, mode=mode, opts=opts, linkage_kws=link, cluster_kws=clus) if nt and k % 5 == 0 else None,
                 nontrivial_key=('cmap-wide', tuple(alpha), tuple(beta), mode, repr(sorted(opts.items()))) if nt else None)
        if len(ctx.violations) > 6:
            return
    wall['e2_clustermap'] = round(time.time() - t0, 1)


def _run(ctx):
    rng = ctx.rng
    q = ctx.quick
    t_run0 = time.time()
    ctx.rule = ('(a) equal-length sequence lists (1-7 sequences, 1-7 columns, 1-6 residues, 45% pre-aligned with "." / "-" gaps, every column '
                'keeping a residue; all lists of 1-3 sequences of length 1-2 over {A, C, -} exhaustively) through seqs_to_regex (string, and '
                're.fullmatch on every string of every admissible length over the observed residues plus a foreign letter), seqs_to_consensus, '
                'seqlogos; (b) count vectors with NaN x all 16 flag combinations x scale factors through rankfrequency (Line2D read back); '
                '(c) label vectors x min_count None/1..4 x hls / tableau; (d) integer / half-integer point clouds through density_scatter(discrete) '
                '(PathCollection read back); (e) paired / single-chain tables with arbitrary index and metadata through similarity_clustermap '
                '(data2d, mesh, dendrogram order, linkage, clusters), plus paired tables whose rows cut shared joined words at different '
                'alpha / beta boundaries or exchange the chains, clustered at thresholds between the distinct summed distances; (a2-e2, widening) the same five '
                'comparisons on: alignments of 9-1000 sequences / 8-260 columns over the whole residue alphabet with nearly tied and half-gapped columns, '
                'sequences as object array / string dtype / Series with string, reversed or repeated index / DataFrame column, align by position or as '
                'numpy.False_, second calls on one object (also refilled in place), seqlogos with a given Axes and logomaker keyword arguments; rank curves '
                'with only the non-default options passed, transform_x, Axes.step keyword arguments, integer and nullable dtypes, 64 to 2**15+3 values, axes '
                'already in use; label vectors of up to 150 distinct / 1000 labels (floats, booleans, large integers, long strings, categorical), min_count 0, '
                'large, next to an actual count and by position, palette_kws; point clouds of up to 5000 points (multiplicity above 255), int x with '
                'fractional y, integer dtypes, ax omitted / positional, sort omitted, cbar, Axes.scatter keyword arguments; cluster maps with omitted / '
                'positional column names, norm, bounds, cbar_kws, meta_to_colors, clustermap keyword arguments, weighted linkage, maxclust, 24-40 rows, chains '
                'of 10-20 residues. non-trivial := (a) a column with two or more residues, (b) at least two '
                'distinct values, (c) at least two distinct labels, (d) a repeated point, (e) at least two distinct distances')
    kinds = ['list', 'list', 'tuple', 'array', 'series']
    # ---- (a) exhaustive small domain
    small = []
    for n in (1, 2, 3):
        for L in (1, 2):
            for combo in itertools.product([''.join(t) for t in itertools.product('AC-', repeat=L)], repeat=n):
                if valid_alignment(list(combo)):
                    small.append(list(combo))
    if q:
        small = [s for s in small if len(s) < 3] + rng.sample([s for s in small if len(s) == 3], 60)
    ctx.exhaustive = True
    aligns = small + [gen_alignment(rng, q, small=(i % 3 == 0)) for i in range(150 if q else 2500)]
    for k, seqs in enumerate(aligns):
        tests, full = regex_tests(rng, seqs, 1500 if q else 6000)
        kind = kinds[k % len(kinds)]
        gapless = not any(c in GAPS for s in seqs for c in s)
        nt = any(len({s[p] for s in seqs if s[p] not in GAPS}) > 1 for p in range(len(seqs[0])))
        ctx.count('alignment_gapless' if gapless else 'alignment_gapped')
        ctx.count('regex_language_exhaustive' if full else 'regex_language_sampled')
        vs = chk_regex(ctx, seqs, tests, kind)
        if vs and vs[0]['kind'] == 'property':
            sh = shrink_alignment(seqs, lambda ss: any(v['kind'] == 'property' for v in chk_regex(ctx, ss, regex_tests(rng, ss, 1500)[0], 'list')))
            vs = [v for v in chk_regex(ctx, sh, regex_tests(rng, sh, 1500)[0], 'list') if v['kind'] == 'property'][:1] or vs
        _report(ctx, vs)
        vc = chk_consensus(ctx, seqs, kind)
        if vc and vc[0]['kind'] == 'property':
            sh = shrink_alignment(seqs, lambda ss: any(v['kind'] == 'property' for v in chk_consensus(ctx, ss)))
            vc = chk_consensus(ctx, sh) or vc
        _report(ctx, vc)
        ctx.case(sample=dict(func='seqs_to_regex/consensus', seqs=seqs, tests=len(tests)) if nt and k % 97 == 0 else None,
                 nontrivial_key=('align', tuple(seqs)) if nt else None)
        if k % (4 if q else 3) == 0:
            ck = 'series' if k % 8 == 0 else ('list' if k % 8 == 4 else 'array')
            vl = chk_counts(ctx, seqs, ck, index=list(range(5, 5 + len(seqs))) if ck == 'series' else None)
            if vl and vl[0]['kind'] == 'property':
                sh = shrink_alignment(seqs, lambda ss: bool(chk_counts(ctx, ss)))
                vl = chk_counts(ctx, sh) or vl
            _report(ctx, vl)
            ctx.case(nontrivial_key=('logo', tuple(seqs)) if nt else None)
        if k < 12:
            ctx.add_vm('api_c19_regex', [seqs], orun(ctx, [('api_c19_regex', [seqs])])[0])
            ctx.add_vm('api_c19_consensus', [seqs], orun(ctx, [('api_c19_consensus', [seqs])])[0])
            ctx.add_vm('api_c19_counts', [seqs], orun(ctx, [('api_c19_counts', [seqs])])[0])
        if len(ctx.violations) > 6:
            return
    # ---- (b) rankfrequency
    flags = list(itertools.product([False, True], repeat=4))
    scales = [Fraction(1), Fraction(2), Fraction(1, 2), Fraction(3), Fraction(1, 4)]
    for k in range(len(flags) * (6 if q else 60)):
        normx, normy, logx, logy = flags[k % 16]
        m = rng.choice([0, 1, 2, 3, 5, 8, 13, 30])
        style = rng.random()
        data = []
        for _ in range(m):
            if rng.random() < 0.2:
                data.append(None)
            elif rng.random() < 0.12:
                data.append(Fraction(0))              # empty clones: zero is a value, not a missing value
            elif style < 0.6:
                data.append(Fraction(rng.randint(1, rng.choice([3, 10, 1000]))))
            else:
                data.append(Fraction(rng.randint(1, 64), rng.choice([1, 2, 4, 8])))
        sx, sy = (rng.choice(scales), rng.choice(scales)) if rng.random() < 0.5 else (Fraction(1), Fraction(1))
        nm = [v for v in data if v is not None]
        nt = len(set(nm)) >= 2
        ctx.count('rank_with_missing' if len(nm) < len(data) else 'rank_complete')
        vs = chk_rank(ctx, data, normx, normy, logx, logy, sx, sy, kinds[k % len(kinds)], use_gca=(k % 7 == 0), shift=(1 if k % 5 == 0 else 0))
        if vs:
            sh = shrink_list(data, lambda dd: bool(chk_rank(ctx, dd, normx, normy, logx, logy, sx, sy)), 60) if data else data
            vs = chk_rank(ctx, sh, normx, normy, logx, logy, sx, sy) or vs
        _report(ctx, vs)
        ctx.case(sample=dict(func='rankfrequency', data=[None if v is None else str(v) for v in data], normalize_x=normx, normalize_y=normy)
                 if nt and k % 41 == 0 else None, nontrivial_key=('rank', tuple(map(str, data)), normx, normy, str(sx), str(sy)) if nt else None)
        if k < 10:
            args = [normx, normy, sx, sy, data]
            ctx.add_vm('api_c19_rank', args, orun(ctx, [('api_c19_rank', args)])[0])
        if len(ctx.violations) > 6:
            return
    # ---- (c) colours
    for k in range(120 if q else 1500):
        which = 'hls' if k % 2 == 0 else 'tableau'
        nlab = rng.choice([1, 2, 3, 5, 8]) if which == 'hls' or rng.random() < 0.7 else rng.randint(11, 26)
        n = rng.randint(1, 12) if nlab <= 8 else rng.randint(nlab, 2 * nlab)
        if rng.random() < 0.5:
            pool = ['c%d' % i for i in range(nlab)]
        else:
            pool = rng.sample(range(1, 60), nlab)
        labels = [rng.choice(pool[:rng.randint(1, nlab)]) for _ in range(n)]
        if nlab > 8:
            labels = list(pool) + labels
        mc = rng.choice([None, 1, 2, 2, 3, 4])
        nt = len(set(labels)) >= 2
        ctx.count('colours_%s_min_count_%s' % (which, mc))
        vs = chk_colours(ctx, which, labels, mc, kinds[k % len(kinds)] if kinds[k % len(kinds)] != 'tuple' else 'list', npseed=rng.randrange(2 ** 31))
        if vs and vs[0]['kind'] == 'property':
            sd = vs[0]['replay']['npseed']
            sh = shrink_list(labels, lambda ll: any(v['kind'] == 'property' for v in chk_colours(ctx, which, ll, mc, 'list', sd)), 80)
            vs = chk_colours(ctx, which, sh, mc, 'list', sd) or vs
        _report(ctx, vs)
        ctx.case(sample=dict(func='labels_to_colors_' + which, labels=labels, min_count=mc) if nt and k % 37 == 0 else None,
                 nontrivial_key=('col', which, tuple(map(str, labels)), mc) if nt else None)
        if k < 8:
            toks, _ = tokens_sorted(labels)
            ctx.add_vm('api_c19_frequent', [mc, toks], orun(ctx, [('api_c19_frequent', [mc, toks])])[0])
        if len(ctx.violations) > 6:
            return
    # ---- (d) density_scatter discrete
    for k in range(80 if q else 1000):
        n = rng.choice([1, 2, 3, 6, 12, 40])
        r = rng.choice([1, 2, 3, 6])
        # independent ranges: more distinct x than y values, the reverse, and equal (a key built from value codes must not collide)
        rx, ry = (r, r) if k % 4 == 0 else (rng.choice([0, 1, 2]), rng.choice([3, 6, 9])) if k % 4 == 1 else (rng.choice([3, 6, 9]), rng.choice([0, 1, 2])) if k % 4 == 2 else (rng.choice([1, 2, 6]), rng.choice([1, 2, 6]))
        xs = [rng.randint(-rx, rx) for _ in range(n)]
        ys = [rng.randint(0, ry) for _ in range(n)]
        ctx.count('discrete_more_y_than_x' if len(set(ys)) > len(set(xs)) else 'discrete_other_shape')
        halves = k % 3 == 0
        sort = k % 2 == 0
        nt = len(set(zip(xs, ys))) < n
        ctx.count('discrete_sort' if sort else 'discrete_nosort')
        vs = chk_discrete(ctx, xs, ys, halves, sort, kinds[k % len(kinds)])
        if vs and vs[0]['kind'] == 'property':
            pts = shrink_list(list(zip(xs, ys)), lambda pp: any(v['kind'] == 'property' for v in chk_discrete(ctx, [p[0] for p in pp], [p[1] for p in pp], halves, sort)), 80)
            vs = chk_discrete(ctx, [p[0] for p in pts], [p[1] for p in pts], halves, sort) or vs
        _report(ctx, vs)
        ctx.case(sample=dict(func='density_scatter', x=xs, y=ys, halves=halves, sort=sort) if nt and k % 29 == 0 else None,
                 nontrivial_key=('disc', tuple(xs), tuple(ys), halves, sort) if nt else None)
        if k < 8:
            ctx.add_vm('api_c19_discrete_sorted', [xs, ys], orun(ctx, [('api_c19_discrete_sorted', [xs, ys])])[0])
        if len(ctx.violations) > 6:
            return
    # ---- (e9) chains long enough for summed distances beyond 255: the clustering is still that of the summed distances (seeded change
    # C19-r9m1: per-chain distances held in one byte)
    for rep_ in range(1 if q else 4):
        L = 150 + 10 * rep_
        al_ = [''.join(rng.choice(AA20) for _ in range(L)) for _ in range(3)]
        be_ = [''.join(rng.choice(AA20) for _ in range(L)) for _ in range(3)]
        al_.append(al_[0][:-1] + 'W')
        be_.append(be_[0])
        ctx.count('clustermap_chains_longer_than_140')
        _report(ctx, chk_clustermap(ctx, al_, be_, 'paired', list(range(4)), {}, ('cdr3a', 'cdr3b'), dict(method='average'), dict(t=300, criterion='distance')))
    # ---- (d0) zeros of both signs are one location (seeded change C19-r8m2: rows compared bit by bit)
    for sort_ in (True, False, None):
        for kind_ in ('list', 'ndarray'):
            ctx.count('discrete_negative_zero')
            _report(ctx, chk_discrete(ctx, [0, 0, 2, 0, -2, 0, 0], [0, 0, 2, 0, 4, 0, 2], True, sort_, kind_, dict(negzero=True)))
    # ---- (e0) custom colour-scale bounds and nothing else: the flat clusters are still the documented default cut at distance 6 of the
    # summed-distance tree (seeded change C19-r7m3: a default cut tied to the last bound).  Pairs at summed distance 4 and 5 decide.
    for bounds in ([0, 1, 2, 3], [0, 2, 4], [0, 5, 10, 40]):
        alpha = ['CASSLGF', 'CASSLGFAA', 'CATTLGF', 'CWWWWWWWWWWF', 'CASSLGF']
        beta = ['CASSF', 'CASGGF', 'CASSF', 'CAYYYYYYYF', 'CASSF']
        ctx.count('clustermap_custom_bounds_default_cut')
        vs = chk_clustermap(ctx, alpha, beta, 'paired', list(range(5)), {}, ('cdr3a', 'cdr3b'), None, None, opts=dict(bounds=bounds))
        _report(ctx, vs)
    # ---- (e) similarity_clustermap
    for k in range(36 if q else 400):
        n = rng.randint(2, 9)
        alpha, beta = gen_chain(rng, n), gen_chain(rng, n)
        mode = ['paired', 'paired', 'paired', 'alpha', 'beta'][k % 5]
        index = gen_index(rng, n)
        meta = {}
        for c in ['epitope', 'subject'][:rng.choice([0, 0, 1, 2])]:
            meta[c] = [rng.choice(['x', 'y', 'z']) if c == 'epitope' else rng.randint(1, 3) for _ in range(n)]
        cols = ('cdr3a', 'cdr3b') if k % 4 else ('CDR3A', 'CDR3B')
        if mode == 'paired' and k % 6 == 5:
            cols = (0, 1)                     # pd.DataFrame(list_of_pairs): integer column labels, one of them falsy (seeded change C19-r6m1)
            ctx.count('clustermap_integer_column_labels')
        link = None if k % 3 else rng.choice([dict(method='single'), dict(method='complete', optimal_ordering=True), dict(method='average')])
        clus = None if k % 4 != 1 else dict(t=rng.choice([1, 2, 3]), criterion='distance')
        ctx.count('clustermap_' + mode)
        vs = chk_clustermap(ctx, alpha, beta, mode, index, meta, cols, link, clus, meta_dict=(k % 6 == 0))
        if vs and vs[0]['kind'] == 'property' and n > 2:
            rows = shrink_list(list(zip(alpha, beta)), lambda rr: len(rr) >= 2 and any(
                v['kind'] == 'property' for v in chk_clustermap(ctx, [r[0] for r in rr], [r[1] for r in rr], mode, list(range(len(rr))), {}, cols, link, clus)), 40)
            vs = chk_clustermap(ctx, [r[0] for r in rows], [r[1] for r in rows], mode, list(range(len(rows))), {}, cols, link, clus) or vs
        _report(ctx, vs)
        nt = len(set(alpha)) >= 2 and len(set(beta)) >= 2 and n >= 3
        ctx.case(sample=dict(func='similarity_clustermap', alpha=alpha, beta=beta, mode=mode, index=index) if nt and k % 11 == 0 else None,
                 nontrivial_key=('cmap', tuple(alpha), tuple(beta), mode) if nt else None)
        if k < 6 and n <= 6:
            order = list(range(n))
            ctx.add_vm('api_c19_clustermap', [alpha, beta, order], orun(ctx, [('api_c19_clustermap', [alpha, beta, order])])[0])
        if len(ctx.violations) > 6:
            return
    # ---- (e') paired tables whose chains are not independent (residues move across the alpha / beta boundary between rows, chains
    # exchanged between rows), clustered at thresholds lying between the distinct summed distances
    for k in range(16 if q else 240):
        n = rng.randint(2, 7)
        alpha, beta = gen_shifted_pairs(rng, n)
        index = gen_index(rng, n)
        meta = {'epitope': [rng.choice(['x', 'y', 'z']) for _ in range(n)]} if k % 4 == 3 else {}
        cols = ('cdr3a', 'cdr3b') if k % 3 else ('CDR3A', 'CDR3B')
        link = None if k % 2 else rng.choice([dict(method='single'), dict(method='complete', optimal_ordering=True), dict(method='average')])
        summed = orun(ctx, [('api_c19_clustermap', [alpha, beta, list(range(n))])])[0][0]
        clus = dict(t=rng.choice(between_thresholds(summed)), criterion='distance')
        ctx.count('clustermap_paired_shifted')
        vs = chk_clustermap(ctx, alpha, beta, 'paired', index, meta, cols, link, clus)
        if vs and vs[0]['kind'] == 'property' and n > 2:
            rows = shrink_list(list(zip(alpha, beta)), lambda rr: len(rr) >= 2 and any(
                v['kind'] == 'property' for v in chk_clustermap(ctx, [r[0] for r in rr], [r[1] for r in rr], 'paired', list(range(len(rr))), {}, cols, link, clus)), 40)
            vs = chk_clustermap(ctx, [r[0] for r in rows], [r[1] for r in rows], 'paired', list(range(len(rows))), {}, cols, link, clus) or vs
        _report(ctx, vs)
        nt = len(set(summed)) >= 2
        ctx.case(sample=dict(func='similarity_clustermap', alpha=alpha, beta=beta, mode='paired', index=index, cluster_kws=clus) if nt and k % 7 == 0 else None,
                 nontrivial_key=('cmap-shift', tuple(alpha), tuple(beta), clus['t']) if nt else None)
        if len(ctx.violations) > 6:
            return
    ctx.extra.setdefault('section_wall_s', {})['a_to_e_original'] = round(time.time() - t_run0, 1)
    _run_wide(ctx)
    ctx.assumptions += [
        'Python `re` implements full-match semantics for the emitted subset (literal, bracketed class, `?`); residues are letters / digits '
        '(no regex metacharacters), the stated domain',
        'logomaker.alignment_to_matrix counts characters per position over the sorted distinct characters and ignores ".-" (exercised)',
        'matplotlib Axes.step / Axes.scatter keep the data they are given in Line2D / PathCollection; seaborn heatmap keeps data2d in its QuadMesh; '
        'what is rasterised is outside the model',
        'scipy.cluster.hierarchy.linkage / fcluster / leaves_list and seaborn\'s dendrogram are contracts: the returned linkage and clusters are '
        'compared with SciPy run on the model\'s summed distances',
        'numpy.random.shuffle yields a permutation (the colour theorem holds for every permutation); seaborn.hls_palette(k) has k distinct non-black colours',
        'seqs_to_regex / seqs_to_consensus with align=True and seqlogos on unequal lengths need the external mafft-linsi (absent): outside the model',
        'rank curves of more than %d values are compared with the statement computed in exact rationals by the harness (spec_rank), which is '
        'itself compared with the extracted model on every shorter rank case of the run' % ORACLE_RANK_MAX,
    ]


def replay(ctx, obj):
    try:
        _replay(ctx, obj)
    finally:
        live = getattr(ctx, '_c19_live', None)
        if live:
            live.close()
        ctx._c19_live = None


def _replay(ctx, obj):
    r = obj.get('replay') or {}
    f = r.get('func')
    rng = ctx.rng
    o = r.get('opts')
    if f == 'seqs_to_regex':
        seqs = r['seqs']
        tests = regex_tests(rng, seqs, 6000)[0]
        if r.get('witness') is not None and r['witness'] not in tests:
            tests.append(r['witness'])
        vs = chk_regex(ctx, seqs, tests, r.get('container', 'list'), o)
    elif f == 'seqs_to_consensus':
        vs = chk_consensus(ctx, r['seqs'], r.get('container', 'list'), o)
    elif f == 'seqlogos':
        vs = chk_counts(ctx, r['seqs'], r.get('container', 'list'), r.get('index'), o)
    elif f == 'rankfrequency':
        data = [None if v is None else Fraction(v) for v in r['data']]
        vs = chk_rank(ctx, data, r['normalize_x'], r['normalize_y'], r['log_x'], r['log_y'], Fraction(r['scalex']), Fraction(r['scaley']),
                      r.get('container', 'list'), r.get('use_gca', False), r.get('shift', 0), o)
    elif f in ('labels_to_colors_hls', 'labels_to_colors_tableau'):
        vs = chk_colours(ctx, f.rsplit('_', 1)[1], r['labels'], r['min_count'], r.get('container', 'list'), r.get('npseed', 0), o)
    elif f == 'density_scatter':
        vs = chk_discrete(ctx, r['x2'], r['y2'], r['halves'], r['sort'], r.get('container', 'list'), o)
    elif f == 'similarity_clustermap':
        vs = chk_clustermap(ctx, r['alpha'], r['beta'], r['mode'], r['index'], r['meta'], tuple(r['cols']), r.get('linkage_kws'), r.get('cluster_kws'),
                            r.get('meta_dict', False), o)
    else:
        return _run(ctx)
    ctx.case(sample=r)
    _report(ctx, vs)
