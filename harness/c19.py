"""C19 - summaries and plots encode the data faithfully.

Every case runs the public pyrepseq function (headless matplotlib), reads the returned strings / artists back and
compares them with the extracted Coq model (coq/model/Summaries.v); where the property is an executable predicate
(consensus, regex language) the predicate proved equal to the Prop-level specification is evaluated on the
implementation's own output, so a 'property' violation is a concrete input on which the statement fails."""
import itertools, math, re
from fractions import Fraction
import numpy as np
import pandas as pd
from core import call_impl, close
from gens import shrink_list

GAPS = '.-'
FOREIGN = 'Z'
LETTERS = 'ACDEFGHKWY'


def _plt():
    import matplotlib.pyplot as plt
    return plt


class _Live:
    """One long-lived build/oracle process (the driver answers and flushes line by line); same wire protocol and
    decoding as core.Oracle.run, which remains the fallback."""

    def __init__(self, ctx):
        import subprocess, core
        self.ctx = ctx
        self.p = subprocess.Popen([ctx.oracle.path], stdin=subprocess.PIPE, stdout=subprocess.PIPE, text=True, bufsize=1,
                                  preexec_fn=core._limits)

    def run(self, requests):
        import proto
        from sigs import SIGS
        res = []
        for f, a in requests:          # one request in flight at a time: no pipe can fill up
            self.p.stdin.write(proto.encode_request(f, a, SIGS[f][0]) + '\n')
            self.p.stdin.flush()
            line = self.p.stdout.readline()
            if not line:
                raise RuntimeError('oracle closed its output')
            try:
                res.append(proto.decode_result(line.rstrip('\n'), SIGS[f][1]))
            except RuntimeError as e:
                res.append(e)
        self.ctx.oracle.calls += len(requests)
        return res

    def close(self):
        try:
            self.p.stdin.close()
            self.p.wait(timeout=10)
        except Exception:
            self.p.kill()


def orun(ctx, requests):
    live = getattr(ctx, '_c19_live', None)
    if live is None:
        try:
            live = ctx._c19_live = _Live(ctx)
        except Exception:
            ctx._c19_live = live = False
    if live:
        try:
            return live.run(requests)
        except Exception:
            live.close()
            ctx._c19_live = False
    return ctx.oracle.run(requests)


def V(kind, what, replay, site):
    return dict(kind=kind, what=what, replay=replay, site=site)


def strip(s):
    return ''.join(c for c in s if c not in GAPS)


def container(kind, values, index=None):
    if kind == 'list':
        return list(values)
    if kind == 'tuple':
        return tuple(values)
    if kind == 'array':
        return np.array(values)
    return pd.Series(list(values), index=index)


# ------------------------------------------------------------------ seqs_to_regex / seqs_to_consensus / seqlogos
def regex_tests(rng, seqs, cap):
    """Strings over the observed residues plus one foreign letter: all of them for every admissible length when that
    is at most `cap`, else the inputs, random column-wise recombinations and their one-letter corruptions."""
    L = len(seqs[0])
    letters = sorted({c for s in seqs for c in s if c not in GAPS}) + [FOREIGN]
    nopt = sum(1 for p in range(L) if any(s[p] in GAPS for s in seqs))
    lens = list(range(max(0, L - nopt - 1), L + 2))
    total = sum(len(letters) ** n for n in lens)
    if total <= cap:
        return [''.join(t) for n in lens for t in itertools.product(letters, repeat=n)], True
    tests = {strip(s) for s in seqs}
    cols = [[c for c in {s[p] for s in seqs}] for p in range(L)]
    for _ in range(cap // 4):
        t = [rng.choice(col) for col in cols]
        tests.add(strip(''.join(t)))
        u = [c for c in t if c not in GAPS]
        if u:
            k = rng.randrange(len(u))
            w = list(u)
            w[k] = rng.choice(letters)
            tests.add(''.join(w))
            tests.add(''.join(u[:k] + u[k + 1:]))
            tests.add(''.join(u[:k] + [rng.choice(letters)] + u[k:]))
    return sorted(tests), False


def chk_regex(ctx, seqs, tests, kind='list'):
    import pyrepseq.util as ut
    out = []
    gapless = not any(c in GAPS for s in seqs for c in s)
    rep = dict(func='seqs_to_regex', seqs=list(seqs), container=kind)
    impl = call_impl(ut.seqs_to_regex, container(kind, seqs), align=False)
    m_str, m_acc = orun(ctx, [('api_c19_regex', [list(seqs)]), ('api_c19_regex_matches', [list(seqs), list(tests)])])
    if impl[0] != 'ok' or not isinstance(impl[1], str):
        return [V('property', 'seqs_to_regex(%s, align=False) -> %s; expected the expression %r' % (list(seqs), impl, m_str), rep, 'util.seqs_to_regex')]
    r = impl[1]
    try:
        pat = re.compile(r)
    except re.error as e:
        return [V('property', 'seqs_to_regex(%s, align=False) = %r is not a valid expression (%s); model %r' % (list(seqs), r, e, m_str), rep, 'util.seqs_to_regex')]
    for s in seqs:
        if pat.fullmatch(strip(s)) is None:
            out.append(V('property', 'seqs_to_regex(%s, align=False) = %r does not fully match the input %r%s; model expression %r' %
                         (list(seqs), r, s, '' if gapless else ' (gaps removed: %r)' % strip(s), m_str), rep, 'util.seqs_to_regex'))
            return out
    acc = [pat.fullmatch(t) is not None for t in tests]
    diff = [(t, a, b) for t, a, b in zip(tests, acc, m_acc) if a != b]
    if diff:
        t, a, b = min(diff, key=lambda d: (len(d[0]), d[0]))
        what = ('seqs_to_regex(%s, align=False) = %r %s %r, but that string is %s from residues observed at each position (model expression %r)' %
                (list(seqs), r, 'accepts' if a else 'rejects', t, 'built' if b else 'not built', m_str))
        out.append(V('property' if gapless else 'correspondence', what, dict(rep, witness=t), 'util.seqs_to_regex'))
    elif r != m_str:
        out.append(V('correspondence', 'seqs_to_regex(%s, align=False) = %r, model %r (same language on %d strings)' % (list(seqs), r, m_str, len(tests)),
                     rep, 'util.seqs_to_regex'))
    return out


def chk_consensus(ctx, seqs, kind='list'):
    import pyrepseq.util as ut
    gapless = not any(c in GAPS for s in seqs for c in s)
    rep = dict(func='seqs_to_consensus', seqs=list(seqs), container=kind)
    impl = call_impl(ut.seqs_to_consensus, container(kind, seqs), align=False)
    model = orun(ctx, [('api_c19_consensus', [list(seqs)])])[0]
    if impl[0] != 'ok' or not isinstance(impl[1], str):
        return [V('property', 'seqs_to_consensus(%s, align=False) -> %s; a consensus is %r' % (list(seqs), impl, model), rep, 'util.seqs_to_consensus')]
    ok = orun(ctx, [('api_c19_consensus_ok', [list(seqs), impl[1]])])[0]
    if not ok:
        return [V('property' if gapless else 'correspondence',
                  'seqs_to_consensus(%s, align=False) = %r: some letter is not a most frequent residue of its column (a consensus is %r)' %
                  (list(seqs), impl[1], model), rep, 'util.seqs_to_consensus')]
    if impl[1] != model:
        return [V('correspondence', 'seqs_to_consensus(%s, align=False) = %r, model (first maximum) %r' % (list(seqs), impl[1], model), rep,
                  'util.seqs_to_consensus')]
    return []


def chk_counts(ctx, seqs, kind='list', index=None):
    import pyrepseq.plotting as pl
    plt = _plt()
    rep = dict(func='seqlogos', seqs=list(seqs), container=kind, index=index)
    try:
        impl = call_impl(pl.seqlogos, container(kind, seqs, index))
        alpha, mat = orun(ctx, [('api_c19_counts', [list(seqs)])])[0]
        if impl[0] != 'ok':
            return [V('property', 'seqlogos(%s) -> %s; expected the count matrix %s over residues %r' % (list(seqs), impl, mat, alpha), rep, 'plotting.seqlogos')]
        cm = impl[1][1]
        cols = ''.join(map(str, cm.columns))
        vals = np.asarray(cm.values, dtype=float)
        good = (cols == alpha and vals.shape == (len(mat), len(alpha)) and bool(np.all(vals == np.array(mat, dtype=float).reshape(len(mat), len(alpha))))
                and list(cm.index) == list(range(len(mat))))
        if not good:
            return [V('property', 'seqlogos(%s): returned count matrix has residues %r, rows %s; the numbers of sequences showing each residue at each '
                      'position are residues %r, rows %s' % (list(seqs), cols, vals.tolist(), alpha, mat), rep, 'plotting.seqlogos')]
        return []
    finally:
        plt.close('all')


def gen_alignment(rng, quick, small=False):
    n = rng.randint(1, 4 if small else 7)
    L = rng.randint(1, 3 if small else 7)
    alpha = rng.sample(LETTERS, rng.randint(1, 3 if small else 6))
    if rng.random() < 0.15:
        alpha = rng.sample('acdxy0159', 3)
    base = [rng.choice(alpha) for _ in range(L)]
    seqs = []
    for _ in range(n):
        s = [c if rng.random() < 0.6 else rng.choice(alpha) for c in base]
        seqs.append(s)
    gapped = rng.random() < 0.45
    if gapped:
        for p in range(L):
            if rng.random() < 0.5:
                rows = [i for i in range(n) if rng.random() < 0.5]
                if len(rows) >= n:
                    rows = rows[1:]
                for i in rows:
                    seqs[i][p] = rng.choice(GAPS)
    return [''.join(s) for s in seqs]


def valid_alignment(seqs):
    return (len(seqs) >= 1 and len(seqs[0]) >= 1 and all(len(s) == len(seqs[0]) for s in seqs)
            and all(any(s[p] not in GAPS for s in seqs) for p in range(len(seqs[0]))))


def shrink_alignment(seqs, fails):
    seqs = shrink_list(seqs, lambda ss: valid_alignment(ss) and fails(ss), 60)
    L = len(seqs[0])
    p = 0
    while p < len(seqs[0]) and len(seqs[0]) > 1:
        cand = [s[:p] + s[p + 1:] for s in seqs]
        if valid_alignment(cand) and fails(cand):
            seqs = cand
        else:
            p += 1
    return seqs


# ------------------------------------------------------------------ rankfrequency
def chk_rank(ctx, data, normx, normy, logx, logy, sx, sy, kind='list', use_gca=False, shift=0):
    """data: list of Fractions / None (= NaN)."""
    import pyrepseq.plotting as pl
    plt = _plt()
    rep = dict(func='rankfrequency', data=[None if v is None else str(v) for v in data], normalize_x=normx, normalize_y=normy,
               log_x=logx, log_y=logy, scalex=str(sx), scaley=str(sy), container=kind, use_gca=use_gca, shift=shift)
    vals = [float('nan') if v is None else (int(v) if (v.denominator == 1 and not any(x is None for x in data)) else float(v)) for v in data]
    try:
        fig, ax = plt.subplots()
        kw = dict(normalize_x=normx, normalize_y=normy, log_x=logx, log_y=logy, scalex=float(sx), scaley=float(sy))
        if shift:
            kw['transform_y'] = lambda y: y + shift
        if not use_gca:
            kw['ax'] = ax
        arg = container(kind, vals, index=list(range(7, 7 + len(vals)))) if vals or kind != 'series' else pd.Series([], dtype=float)
        impl = call_impl(pl.rankfrequency, arg, **kw)
        model = orun(ctx, [('api_c19_rank', [normx, normy, sx, sy, list(data)])])[0]
        if model is None:
            return []       # values summing to zero under normalisation: outside the stated domain
        xs, ys = model
        ys = [y + shift for y in ys]
        desc = 'rankfrequency(%s, normalize_x=%s, normalize_y=%s, log_x=%s, log_y=%s, scalex=%s, scaley=%s)' % (vals, normx, normy, logx, logy, sx, sy)
        if impl[0] != 'ok':
            return [V('property', '%s -> %s; expected the curve x=%s y=%s' % (desc, impl, list(map(str, xs)), list(map(str, ys))), rep, 'plotting.rankfrequency')]
        lines = impl[1]
        if len(lines) != 1 or lines[0] not in ax.lines:
            return [V('property', '%s returned %d artists, not the one curve drawn on the axes' % (desc, len(lines)), rep, 'plotting.rankfrequency')]
        gx, gy = np.asarray(lines[0].get_xdata(), dtype=float), np.asarray(lines[0].get_ydata(), dtype=float)
        if len(gx) != len(xs) or len(gy) != len(ys) or not all(close(float(a), b) for a, b in zip(gx, xs)) or \
                not all(close(float(a), b) for a, b in zip(gy, ys)):
            return [V('property', '%s draws x=%s y=%s; the non-missing values in descending order against their 0-based ranks are x=%s y=%s' %
                      (desc, gx.tolist(), gy.tolist(), list(map(str, xs)), list(map(str, ys))), rep, 'plotting.rankfrequency')]
        return []
    finally:
        plt.close('all')


# ------------------------------------------------------------------ labels_to_colors_*
def tokens_sorted(labels):
    uniq = sorted(set(labels))
    rank = {v: i + 1 for i, v in enumerate(uniq)}
    return [rank[v] for v in labels], uniq


def chk_colours(ctx, which, labels, min_count, kind='list', npseed=0):
    import pyrepseq.plotting as pl
    import seaborn as sns
    plt = _plt()
    rep = dict(func='labels_to_colors_' + which, labels=list(labels), min_count=min_count, container=kind, npseed=npseed)
    site = 'plotting.labels_to_colors_' + which
    f = pl.labels_to_colors_hls if which == 'hls' else pl.labels_to_colors_tableau
    toks, uniq = tokens_sorted(labels)
    np.random.seed(npseed)
    kw = {} if min_count is None else dict(min_count=min_count)
    impl = call_impl(f, container(kind, labels, index=list(range(3, 3 + len(labels)))), **kw)
    freq = orun(ctx, [('api_c19_frequent', [min_count, toks])])[0]
    desc = 'labels_to_colors_%s(%s, min_count=%s)' % (which, list(labels), min_count)
    if impl[0] != 'ok' or len(impl[1]) != len(labels):
        return [V('property', '%s -> %s; expected one colour per label' % (desc, impl if impl[0] != 'ok' else '%d colours' % len(impl[1])), rep, site)]
    cols = [tuple(float(x) for x in c) for c in impl[1]]
    black = (0.0, 0.0, 0.0)
    bylab = {}
    for t, lab, c in zip(toks, labels, cols):
        if t in bylab and bylab[t][1] != c:
            return [V('property', '%s: label %r is given two colours %s and %s' % (desc, lab, bylab[t][1], c), rep, site)]
        bylab[t] = (lab, c)
    for t, (lab, c) in bylab.items():
        if t not in freq and c != black:
            return [V('property', '%s: label %r occurs %d times (< min_count) but is coloured %s, not black' % (desc, lab, toks.count(t), c), rep, site)]
    if which == 'hls':
        seen = {}
        for t in freq:
            lab, c = bylab[t]
            if c in seen:
                return [V('property', '%s: distinct labels %r and %r share the colour %s' % (desc, seen[c], lab, c), rep, site)]
            seen[c] = lab
    # correspondence with the model: colours are palette slots assigned through some shuffle of the frequent labels
    k = len(freq)
    if which == 'hls':
        palette = [tuple(float(x) for x in c) for c in sns.hls_palette(k, l=0.5, s=0.8)] if k else []
        period = 0
    else:
        tab = list(plt.cm.tab20.colors[::2]) + list(plt.cm.tab20.colors[1::2])
        palette = [tuple(float(x) for x in c) for c in tab]
        period = len(palette)
    slot_of = {}
    for t in freq:
        lab, c = bylab[t]
        if c not in palette:
            return [V('correspondence', '%s: label %r has colour %s, which is not a colour of the palette' % (desc, lab, c), rep, site)]
        slot_of[t] = palette.index(c)
    order, pool = [], dict(slot_of)
    for i in range(k):
        want = i if period == 0 else i % period
        cand = [t for t, s in pool.items() if s == want]
        if not cand:
            return [V('correspondence', '%s: the colours used are not the first %d palette entries (slot %d unused): %s' %
                      (desc, k, want, sorted(slot_of.values())), rep, site)]
        order.append(cand[0])
        del pool[cand[0]]
    slots = orun(ctx, [('api_c19_colour_slots', [min_count, period, order, toks])])[0]
    got = [None if t not in freq else slot_of[t] for t in toks]
    if slots is None or slots != got:
        return [V('correspondence', '%s: palette slots %s, model %s for the shuffle %s' % (desc, got, slots, order), rep, site)]
    return []


# ------------------------------------------------------------------ density_scatter(discrete=True)
def chk_discrete(ctx, xs2, ys2, halves, sort, kind='list'):
    """xs2, ys2: integers; the data are xs2/2, ys2/2 when `halves` (an order-preserving injective rescaling), else xs2, ys2."""
    import pyrepseq.plotting as pl
    plt = _plt()
    rep = dict(func='density_scatter', x2=list(xs2), y2=list(ys2), halves=halves, sort=sort, container=kind)
    site = 'plotting.density_scatter'
    d = 2.0 if halves else 1
    x = [v / d for v in xs2]
    y = [v / d for v in ys2]
    try:
        fig, ax = plt.subplots()
        impl = call_impl(pl.density_scatter, container(kind, x), container(kind, y), ax=ax, discrete=True, sort=sort)
        model = orun(ctx, [('api_c19_discrete_sorted' if sort else 'api_c19_discrete', [list(xs2), list(ys2)])])[0]
        want = [(Fraction(a, 2 if halves else 1), Fraction(b, 2 if halves else 1), c) for a, b, c in model]
        desc = 'density_scatter(%s, %s, discrete=True, sort=%s)' % (x, y, sort)
        if impl[0] != 'ok' or len(ax.collections) != 1:
            return [V('property', '%s -> %s, %d collections; expected one scatter of %s' % (desc, impl[0], len(ax.collections), [tuple(map(str, w)) for w in want]), rep, site)]
        pc = ax.collections[0]
        off = np.asarray(np.ma.getdata(pc.get_offsets()), dtype=float)
        arr = np.asarray(np.ma.getdata(pc.get_array()), dtype=float).ravel()
        got = [(float(a), float(b), float(c)) for (a, b), c in zip(off.tolist(), arr.tolist())]
        same_len = len(off) == len(arr) == len(want)
        key = lambda t: (float(t[2]), float(t[0]), float(t[1]))
        if not same_len or sorted(got, key=key) != [tuple(map(float, w)) for w in sorted(want, key=key)]:
            return [V('property', '%s draws (x, y, colour value) %s; the distinct points with their multiplicities are %s' %
                      (desc, got, [tuple(map(str, w)) for w in want]), rep, site)]
        if sort and any(a[2] > b[2] for a, b in zip(got, got[1:])):
            return [V('correspondence', '%s: points are not drawn in order of ascending multiplicity: %s' % (desc, got), rep, site)]
        if not sort and got != [tuple(map(float, w)) for w in want]:
            return [V('correspondence', '%s: drawing order %s differs from the model (lexicographic) %s' % (desc, got, want), rep, site)]
        return []
    finally:
        plt.close('all')


# ------------------------------------------------------------------ similarity_clustermap
def same_partition(a, b):
    a, b = list(a), list(b)
    if len(a) != len(b):
        return False
    f, g = {}, {}
    for x, y in zip(a, b):
        if f.setdefault(x, y) != y or g.setdefault(y, x) != x:
            return False
    return True


def chk_clustermap(ctx, alpha, beta, mode, index, meta, cols=('cdr3a', 'cdr3b'), link=None, clus=None, meta_dict=False):
    """mode: 'paired' | 'alpha' | 'beta' (single chain). meta: dict column -> values."""
    import pyrepseq.plotting as pl
    import scipy.cluster.hierarchy as hc
    plt = _plt()
    rep = dict(func='similarity_clustermap', alpha=list(alpha), beta=list(beta), mode=mode, index=list(index), meta=meta, cols=list(cols),
               linkage_kws=link, cluster_kws=clus, meta_dict=meta_dict)
    site = 'plotting.similarity_clustermap'
    data = {cols[0]: list(alpha), cols[1]: list(beta)}
    data.update(meta)
    df = pd.DataFrame(data, index=list(index))
    before = df.copy()
    kw = dict(alpha_column=cols[0] if mode != 'beta' else None, beta_column=cols[1] if mode != 'alpha' else None)
    lk = dict(method='average', optimal_ordering=True) if link is None else dict(link)
    ck = dict(t=6, criterion='distance') if clus is None else dict(clus)
    if link is not None:
        kw['linkage_kws'] = dict(link)
    if clus is not None:
        kw['cluster_kws'] = dict(clus)
    if meta:
        kw['meta_columns'] = {c: c.upper() for c in meta} if meta_dict else list(meta)
    desc = 'similarity_clustermap(table %s=%s %s=%s index=%s meta=%s, %s)' % (cols[0], list(alpha), cols[1], list(beta), list(index), meta,
                                                                          ', '.join('%s=%r' % kv for kv in kw.items()))
    try:
        np.random.seed(0)
        impl = call_impl(pl.similarity_clustermap, df, **kw)
        if impl[0] != 'ok':
            return [V('property', '%s -> %s' % (desc, impl), rep, site)]
        cg, linkage, cluster = impl[1]
        order = [int(i) for i in cg.dendrogram_row.reordered_ind]
        n = len(alpha)
        if sorted(order) != list(range(n)):
            return [V('property', '%s: row order %s is not a permutation of the rows' % (desc, order), rep, site)]
        if mode == 'paired':
            summed, mat = orun(ctx, [('api_c19_clustermap', [list(alpha), list(beta), order])])[0]
        else:
            chain = list(alpha) if mode == 'alpha' else list(beta)
            summed, mat = orun(ctx, [('api_c19_single', [chain, order])])[0]
        ref_link = hc.linkage(np.array(summed, dtype=float), **lk)
        ref_clus = hc.fcluster(ref_link, **ck)
        linkage = np.asarray(linkage, dtype=float)
        if linkage.shape != ref_link.shape or not np.allclose(linkage, ref_link, rtol=1e-12, atol=1e-12):
            return [V('property', '%s: returned linkage %s is not the hierarchical clustering %s of the summed chain distances %s' %
                      (desc, linkage.tolist(), ref_link.tolist(), summed), rep, site)]
        if not same_partition(cluster, ref_clus):
            return [V('property', '%s: returned clusters %s, clustering of the summed distances gives %s' % (desc, list(cluster), list(ref_clus)), rep, site)]
        leaves = [int(i) for i in hc.leaves_list(linkage)]
        col_order = [int(i) for i in cg.dendrogram_col.reordered_ind]
        if order != leaves or col_order != leaves:
            return [V('property', '%s: heat map rows %s / columns %s are not in dendrogram order %s' % (desc, order, col_order, leaves), rep, site)]
        d2 = np.asarray(cg.data2d, dtype=float)
        want = np.array(mat, dtype=float).reshape(n, n)
        if d2.shape != want.shape or not np.array_equal(d2, want):
            return [V('property', '%s: heat map data %s; alpha distances below / beta distances above the diagonal in dendrogram order %s are %s' %
                      (desc, d2.tolist(), order, mat), rep, site)]
        mesh = [c for c in cg.ax_heatmap.collections if hasattr(c, 'get_array') and c.get_array() is not None]
        shown = np.ma.filled(np.ma.asarray(mesh[0].get_array(), dtype=float), np.nan).reshape(n, n) if mesh else None
        if shown is None or not np.array_equal(shown, want):
            return [V('property', '%s: the drawn mesh holds %s, expected %s' % (desc, None if shown is None else shown.tolist(), mat), rep, site)]
        if not df.equals(before):
            return [V('correspondence', '%s modified the caller\'s table' % desc, rep, site)]
        return []
    finally:
        plt.close('all')


def gen_chain(rng, n):
    roots = ['CASSLGQ', 'CAVRDSN', 'CSARDRT', 'CAWSVGE']
    out = []
    for _ in range(n):
        s = list(rng.choice(roots[:rng.randint(1, 4)]))
        for _ in range(rng.choice([0, 0, 1, 1, 2, 3])):
            op = rng.random()
            p = rng.randrange(1, len(s))
            if op < 0.5:
                s[p] = rng.choice(LETTERS)
            elif op < 0.75 and len(s) > 3:
                del s[p]
            else:
                s.insert(p, rng.choice(LETTERS))
        out.append(''.join(s))
    return out


def gen_shifted_pairs(rng, n):
    """Paired rows that are NOT independent per chain: a few joined words alpha+beta, each row cutting its word at its own
    position (a suffix of one row's alpha chain is a prefix of another row's beta chain), some rows mutated inside a chain,
    some rows being an earlier row with the two chains exchanged. On such tables the summed per-chain distance differs from
    any distance of a row-wise combination (concatenation with or without a separator, multiset of chains, ...)."""
    if rng.random() < 0.5:
        words = [a + b for a, b in zip(gen_chain(rng, 2), gen_chain(rng, 2))]
    else:
        words = [''.join(rng.choice(LETTERS[:rng.randint(3, 10)]) for _ in range(rng.randint(4, 12))) for _ in range(2)]
    words = words[:rng.choice([1, 1, 2])]
    rows = []
    for _ in range(n):
        if rows and rng.random() < 0.15:
            a, b = rng.choice(rows)
            rows.append((b, a))
            continue
        w = rng.choice(words)
        p = rng.randint(1, len(w) - 1)
        a, b = list(w[:p]), list(w[p:])
        for ch in (a, b):
            if rng.random() < 0.25:
                q = rng.randrange(len(ch))
                op = rng.random()
                if op < 0.5:
                    ch[q] = rng.choice(LETTERS)
                elif op < 0.75 and len(ch) > 1:
                    del ch[q]
                else:
                    ch.insert(q, rng.choice(LETTERS))
        rows.append((''.join(a), ''.join(b)))
    return [r[0] for r in rows], [r[1] for r in rows]


def between_thresholds(summed):
    """Cluster thresholds that separate the distinct summed distances: below the smallest, between consecutive ones, the values
    themselves (fcluster's `distance` criterion is inclusive)."""
    vals = sorted({float(v) for v in summed})
    out = set(vals)
    for lo, hi in zip([0.0] + vals, vals):
        if hi > lo:
            out.add((lo + hi) / 2)
    return sorted(t for t in out if t > 0) or [1.0]


def gen_index(rng, n):
    c = rng.random()
    if c < 0.25:
        return list(range(n))
    if c < 0.5:
        idx = list(range(10, 10 + n))
        rng.shuffle(idx)
        return idx
    if c < 0.75:
        return ['r%d' % rng.randrange(100 + i * 100, 200 + i * 100) for i in range(n)]
    return [rng.randrange(3) for _ in range(n)]          # duplicated index labels


# ------------------------------------------------------------------ driver
def _report(ctx, vs):
    for v in vs:
        ctx.violation(v['kind'], v['what'], v['replay'], site=v['site'])


def run(ctx):
    try:
        _run(ctx)
    finally:
        live = getattr(ctx, '_c19_live', None)
        if live:
            live.close()
        ctx._c19_live = None


def _run(ctx):
    rng = ctx.rng
    q = ctx.quick
    ctx.rule = ('(a) equal-length sequence lists (1-7 sequences, 1-7 columns, 1-6 residues, 45% pre-aligned with "." / "-" gaps, every column '
                'keeping a residue; all lists of 1-3 sequences of length 1-2 over {A, C, -} exhaustively) through seqs_to_regex (string, and '
                're.fullmatch on every string of every admissible length over the observed residues plus a foreign letter), seqs_to_consensus, '
                'seqlogos; (b) count vectors with NaN x all 16 flag combinations x scale factors through rankfrequency (Line2D read back); '
                '(c) label vectors x min_count None/1..4 x hls / tableau; (d) integer / half-integer point clouds through density_scatter(discrete) '
                '(PathCollection read back); (e) paired / single-chain tables with arbitrary index and metadata through similarity_clustermap '
                '(data2d, mesh, dendrogram order, linkage, clusters), plus paired tables whose rows cut shared joined words at different '
                'alpha / beta boundaries or exchange the chains, clustered at thresholds between the distinct summed distances. non-trivial := (a) a column with two or more residues, (b) at least two '
                'distinct values, (c) at least two distinct labels, (d) a repeated point, (e) at least two distinct distances')
    kinds = ['list', 'list', 'tuple', 'array', 'series']
    # ---- (a) exhaustive small domain
    small = []
    for n in (1, 2, 3):
        for L in (1, 2):
            for combo in itertools.product([''.join(t) for t in itertools.product('AC-', repeat=L)], repeat=n):
                if valid_alignment(list(combo)):
                    small.append(list(combo))
    if q:
        small = [s for s in small if len(s) < 3] + rng.sample([s for s in small if len(s) == 3], 60)
    ctx.exhaustive = True
    aligns = small + [gen_alignment(rng, q, small=(i % 3 == 0)) for i in range(150 if q else 2500)]
    for k, seqs in enumerate(aligns):
        tests, full = regex_tests(rng, seqs, 1500 if q else 6000)
        kind = kinds[k % len(kinds)]
        gapless = not any(c in GAPS for s in seqs for c in s)
        nt = any(len({s[p] for s in seqs if s[p] not in GAPS}) > 1 for p in range(len(seqs[0])))
        ctx.count('alignment_gapless' if gapless else 'alignment_gapped')
        ctx.count('regex_language_exhaustive' if full else 'regex_language_sampled')
        vs = chk_regex(ctx, seqs, tests, kind)
        if vs and vs[0]['kind'] == 'property':
            sh = shrink_alignment(seqs, lambda ss: any(v['kind'] == 'property' for v in chk_regex(ctx, ss, regex_tests(rng, ss, 1500)[0], 'list')))
            vs = [v for v in chk_regex(ctx, sh, regex_tests(rng, sh, 1500)[0], 'list') if v['kind'] == 'property'][:1] or vs
        _report(ctx, vs)
        vc = chk_consensus(ctx, seqs, kind)
        if vc and vc[0]['kind'] == 'property':
            sh = shrink_alignment(seqs, lambda ss: any(v['kind'] == 'property' for v in chk_consensus(ctx, ss)))
            vc = chk_consensus(ctx, sh) or vc
        _report(ctx, vc)
        ctx.case(sample=dict(func='seqs_to_regex/consensus', seqs=seqs, tests=len(tests)) if nt and k % 97 == 0 else None,
                 nontrivial_key=('align', tuple(seqs)) if nt else None)
        if k % (4 if q else 3) == 0:
            ck = 'series' if k % 8 == 0 else ('list' if k % 8 == 4 else 'array')
            vl = chk_counts(ctx, seqs, ck, index=list(range(5, 5 + len(seqs))) if ck == 'series' else None)
            if vl and vl[0]['kind'] == 'property':
                sh = shrink_alignment(seqs, lambda ss: bool(chk_counts(ctx, ss)))
                vl = chk_counts(ctx, sh) or vl
            _report(ctx, vl)
            ctx.case(nontrivial_key=('logo', tuple(seqs)) if nt else None)
        if k < 12:
            ctx.add_vm('api_c19_regex', [seqs], orun(ctx, [('api_c19_regex', [seqs])])[0])
            ctx.add_vm('api_c19_consensus', [seqs], orun(ctx, [('api_c19_consensus', [seqs])])[0])
            ctx.add_vm('api_c19_counts', [seqs], orun(ctx, [('api_c19_counts', [seqs])])[0])
        if len(ctx.violations) > 6:
            return
    # ---- (b) rankfrequency
    flags = list(itertools.product([False, True], repeat=4))
    scales = [Fraction(1), Fraction(2), Fraction(1, 2), Fraction(3), Fraction(1, 4)]
    for k in range(len(flags) * (6 if q else 60)):
        normx, normy, logx, logy = flags[k % 16]
        m = rng.choice([0, 1, 2, 3, 5, 8, 13, 30])
        style = rng.random()
        data = []
        for _ in range(m):
            if rng.random() < 0.2:
                data.append(None)
            elif rng.random() < 0.12:
                data.append(Fraction(0))              # empty clones: zero is a value, not a missing value
            elif style < 0.6:
                data.append(Fraction(rng.randint(1, rng.choice([3, 10, 1000]))))
            else:
                data.append(Fraction(rng.randint(1, 64), rng.choice([1, 2, 4, 8])))
        sx, sy = (rng.choice(scales), rng.choice(scales)) if rng.random() < 0.5 else (Fraction(1), Fraction(1))
        nm = [v for v in data if v is not None]
        nt = len(set(nm)) >= 2
        ctx.count('rank_with_missing' if len(nm) < len(data) else 'rank_complete')
        vs = chk_rank(ctx, data, normx, normy, logx, logy, sx, sy, kinds[k % len(kinds)], use_gca=(k % 7 == 0), shift=(1 if k % 5 == 0 else 0))
        if vs:
            sh = shrink_list(data, lambda dd: bool(chk_rank(ctx, dd, normx, normy, logx, logy, sx, sy)), 60) if data else data
            vs = chk_rank(ctx, sh, normx, normy, logx, logy, sx, sy) or vs
        _report(ctx, vs)
        ctx.case(sample=dict(func='rankfrequency', data=[None if v is None else str(v) for v in data], normalize_x=normx, normalize_y=normy)
                 if nt and k % 41 == 0 else None, nontrivial_key=('rank', tuple(map(str, data)), normx, normy, str(sx), str(sy)) if nt else None)
        if k < 10:
            args = [normx, normy, sx, sy, data]
            ctx.add_vm('api_c19_rank', args, orun(ctx, [('api_c19_rank', args)])[0])
        if len(ctx.violations) > 6:
            return
    # ---- (c) colours
    for k in range(120 if q else 1500):
        which = 'hls' if k % 2 == 0 else 'tableau'
        nlab = rng.choice([1, 2, 3, 5, 8]) if which == 'hls' or rng.random() < 0.7 else rng.randint(11, 26)
        n = rng.randint(1, 12) if nlab <= 8 else rng.randint(nlab, 2 * nlab)
        if rng.random() < 0.5:
            pool = ['c%d' % i for i in range(nlab)]
        else:
            pool = rng.sample(range(1, 60), nlab)
        labels = [rng.choice(pool[:rng.randint(1, nlab)]) for _ in range(n)]
        if nlab > 8:
            labels = list(pool) + labels
        mc = rng.choice([None, 1, 2, 2, 3, 4])
        nt = len(set(labels)) >= 2
        ctx.count('colours_%s_min_count_%s' % (which, mc))
        vs = chk_colours(ctx, which, labels, mc, kinds[k % len(kinds)] if kinds[k % len(kinds)] != 'tuple' else 'list', npseed=rng.randrange(2 ** 31))
        if vs and vs[0]['kind'] == 'property':
            sd = vs[0]['replay']['npseed']
            sh = shrink_list(labels, lambda ll: any(v['kind'] == 'property' for v in chk_colours(ctx, which, ll, mc, 'list', sd)), 80)
            vs = chk_colours(ctx, which, sh, mc, 'list', sd) or vs
        _report(ctx, vs)
        ctx.case(sample=dict(func='labels_to_colors_' + which, labels=labels, min_count=mc) if nt and k % 37 == 0 else None,
                 nontrivial_key=('col', which, tuple(map(str, labels)), mc) if nt else None)
        if k < 8:
            toks, _ = tokens_sorted(labels)
            ctx.add_vm('api_c19_frequent', [mc, toks], orun(ctx, [('api_c19_frequent', [mc, toks])])[0])
        if len(ctx.violations) > 6:
            return
    # ---- (d) density_scatter discrete
    for k in range(80 if q else 1000):
        n = rng.choice([1, 2, 3, 6, 12, 40])
        r = rng.choice([1, 2, 3, 6])
        # independent ranges: more distinct x than y values, the reverse, and equal (a key built from value codes must not collide)
        rx, ry = (r, r) if k % 4 == 0 else (rng.choice([0, 1, 2]), rng.choice([3, 6, 9])) if k % 4 == 1 else (rng.choice([3, 6, 9]), rng.choice([0, 1, 2])) if k % 4 == 2 else (rng.choice([1, 2, 6]), rng.choice([1, 2, 6]))
        xs = [rng.randint(-rx, rx) for _ in range(n)]
        ys = [rng.randint(0, ry) for _ in range(n)]
        ctx.count('discrete_more_y_than_x' if len(set(ys)) > len(set(xs)) else 'discrete_other_shape')
        halves = k % 3 == 0
        sort = k % 2 == 0
        nt = len(set(zip(xs, ys))) < n
        ctx.count('discrete_sort' if sort else 'discrete_nosort')
        vs = chk_discrete(ctx, xs, ys, halves, sort, kinds[k % len(kinds)])
        if vs and vs[0]['kind'] == 'property':
            pts = shrink_list(list(zip(xs, ys)), lambda pp: any(v['kind'] == 'property' for v in chk_discrete(ctx, [p[0] for p in pp], [p[1] for p in pp], halves, sort)), 80)
            vs = chk_discrete(ctx, [p[0] for p in pts], [p[1] for p in pts], halves, sort) or vs
        _report(ctx, vs)
        ctx.case(sample=dict(func='density_scatter', x=xs, y=ys, halves=halves, sort=sort) if nt and k % 29 == 0 else None,
                 nontrivial_key=('disc', tuple(xs), tuple(ys), halves, sort) if nt else None)
        if k < 8:
            ctx.add_vm('api_c19_discrete_sorted', [xs, ys], orun(ctx, [('api_c19_discrete_sorted', [xs, ys])])[0])
        if len(ctx.violations) > 6:
            return
    # ---- (e) similarity_clustermap
    for k in range(36 if q else 400):
        n = rng.randint(2, 9)
        alpha, beta = gen_chain(rng, n), gen_chain(rng, n)
        mode = ['paired', 'paired', 'paired', 'alpha', 'beta'][k % 5]
        index = gen_index(rng, n)
        meta = {}
        for c in ['epitope', 'subject'][:rng.choice([0, 0, 1, 2])]:
            meta[c] = [rng.choice(['x', 'y', 'z']) if c == 'epitope' else rng.randint(1, 3) for _ in range(n)]
        cols = ('cdr3a', 'cdr3b') if k % 4 else ('CDR3A', 'CDR3B')
        link = None if k % 3 else rng.choice([dict(method='single'), dict(method='complete', optimal_ordering=True), dict(method='average')])
        clus = None if k % 4 != 1 else dict(t=rng.choice([1, 2, 3]), criterion='distance')
        ctx.count('clustermap_' + mode)
        vs = chk_clustermap(ctx, alpha, beta, mode, index, meta, cols, link, clus, meta_dict=(k % 6 == 0))
        if vs and vs[0]['kind'] == 'property' and n > 2:
            rows = shrink_list(list(zip(alpha, beta)), lambda rr: len(rr) >= 2 and any(
                v['kind'] == 'property' for v in chk_clustermap(ctx, [r[0] for r in rr], [r[1] for r in rr], mode, list(range(len(rr))), {}, cols, link, clus)), 40)
            vs = chk_clustermap(ctx, [r[0] for r in rows], [r[1] for r in rows], mode, list(range(len(rows))), {}, cols, link, clus) or vs
        _report(ctx, vs)
        nt = len(set(alpha)) >= 2 and len(set(beta)) >= 2 and n >= 3
        ctx.case(sample=dict(func='similarity_clustermap', alpha=alpha, beta=beta, mode=mode, index=index) if nt and k % 11 == 0 else None,
                 nontrivial_key=('cmap', tuple(alpha), tuple(beta), mode) if nt else None)
        if k < 6 and n <= 6:
            order = list(range(n))
            ctx.add_vm('api_c19_clustermap', [alpha, beta, order], orun(ctx, [('api_c19_clustermap', [alpha, beta, order])])[0])
        if len(ctx.violations) > 6:
            return
    # ---- (e') paired tables whose chains are not independent (residues move across the alpha / beta boundary between rows, chains
    # exchanged between rows), clustered at thresholds lying between the distinct summed distances
    for k in range(16 if q else 240):
        n = rng.randint(2, 7)
        alpha, beta = gen_shifted_pairs(rng, n)
        index = gen_index(rng, n)
        meta = {'epitope': [rng.choice(['x', 'y', 'z']) for _ in range(n)]} if k % 4 == 3 else {}
        cols = ('cdr3a', 'cdr3b') if k % 3 else ('CDR3A', 'CDR3B')
        link = None if k % 2 else rng.choice([dict(method='single'), dict(method='complete', optimal_ordering=True), dict(method='average')])
        summed = orun(ctx, [('api_c19_clustermap', [alpha, beta, list(range(n))])])[0][0]
        clus = dict(t=rng.choice(between_thresholds(summed)), criterion='distance')
        ctx.count('clustermap_paired_shifted')
        vs = chk_clustermap(ctx, alpha, beta, 'paired', index, meta, cols, link, clus)
        if vs and vs[0]['kind'] == 'property' and n > 2:
            rows = shrink_list(list(zip(alpha, beta)), lambda rr: len(rr) >= 2 and any(
                v['kind'] == 'property' for v in chk_clustermap(ctx, [r[0] for r in rr], [r[1] for r in rr], 'paired', list(range(len(rr))), {}, cols, link, clus)), 40)
            vs = chk_clustermap(ctx, [r[0] for r in rows], [r[1] for r in rows], 'paired', list(range(len(rows))), {}, cols, link, clus) or vs
        _report(ctx, vs)
        nt = len(set(summed)) >= 2
        ctx.case(sample=dict(func='similarity_clustermap', alpha=alpha, beta=beta, mode='paired', index=index, cluster_kws=clus) if nt and k % 7 == 0 else None,
                 nontrivial_key=('cmap-shift', tuple(alpha), tuple(beta), clus['t']) if nt else None)
        if len(ctx.violations) > 6:
            return
    ctx.assumptions += [
        'Python `re` implements full-match semantics for the emitted subset (literal, bracketed class, `?`); residues are letters / digits '
        '(no regex metacharacters), the stated domain',
        'logomaker.alignment_to_matrix counts characters per position over the sorted distinct characters and ignores ".-" (exercised)',
        'matplotlib Axes.step / Axes.scatter keep the data they are given in Line2D / PathCollection; seaborn heatmap keeps data2d in its QuadMesh; '
        'what is rasterised is outside the model',
        'scipy.cluster.hierarchy.linkage / fcluster / leaves_list and seaborn\'s dendrogram are contracts: the returned linkage and clusters are '
        'compared with SciPy run on the model\'s summed distances',
        'numpy.random.shuffle yields a permutation (the colour theorem holds for every permutation); seaborn.hls_palette(k) has k distinct non-black colours',
        'seqs_to_regex / seqs_to_consensus with align=True and seqlogos on unequal lengths need the external mafft-linsi (absent): outside the model',
    ]


def replay(ctx, obj):
    try:
        _replay(ctx, obj)
    finally:
        live = getattr(ctx, '_c19_live', None)
        if live:
            live.close()
        ctx._c19_live = None


def _replay(ctx, obj):
    r = obj.get('replay') or {}
    f = r.get('func')
    rng = ctx.rng
    if f == 'seqs_to_regex':
        seqs = r['seqs']
        tests = regex_tests(rng, seqs, 6000)[0]
        if r.get('witness') is not None and r['witness'] not in tests:
            tests.append(r['witness'])
        vs = chk_regex(ctx, seqs, tests, r.get('container', 'list'))
    elif f == 'seqs_to_consensus':
        vs = chk_consensus(ctx, r['seqs'], r.get('container', 'list'))
    elif f == 'seqlogos':
        vs = chk_counts(ctx, r['seqs'], r.get('container', 'list'), r.get('index'))
    elif f == 'rankfrequency':
        data = [None if v is None else Fraction(v) for v in r['data']]
        vs = chk_rank(ctx, data, r['normalize_x'], r['normalize_y'], r['log_x'], r['log_y'], Fraction(r['scalex']), Fraction(r['scaley']),
                      r.get('container', 'list'), r.get('use_gca', False), r.get('shift', 0))
    elif f in ('labels_to_colors_hls', 'labels_to_colors_tableau'):
        vs = chk_colours(ctx, f.rsplit('_', 1)[1], r['labels'], r['min_count'], r.get('container', 'list'), r.get('npseed', 0))
    elif f == 'density_scatter':
        vs = chk_discrete(ctx, r['x2'], r['y2'], r['halves'], r['sort'], r.get('container', 'list'))
    elif f == 'similarity_clustermap':
        vs = chk_clustermap(ctx, r['alpha'], r['beta'], r['mode'], r['index'], r['meta'], tuple(r['cols']), r.get('linkage_kws'), r.get('cluster_kws'),
                            r.get('meta_dict', False))
    else:
        return _run(ctx)
    ctx.case(sample=r)
    _report(ctx, vs)
