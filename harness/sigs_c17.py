"""Oracle entry points of C17 (coq/extract/Api_c17.v)."""
from proto import L, O, T, STRS

PAIRS = L(T('nat', 'nat'))
SIGS = {
    'api_c17_subsample': ([L('nat'), L('nat')], PAIRS),
    'api_c17_subsample_ok': ([L('nat'), 'nat', PAIRS], 'bool'),
    'api_c17_canon_draw': ([L('nat'), PAIRS], L('nat')),
    'api_c17_valid_draw': (['nat', 'nat', L('nat')], 'bool'),
    'api_c17_total': ([L('nat')], 'nat'),
    'api_c17_downsample': ([L('N'), O('nat'), L('nat')], L('N')),
    'api_c17_downsample_ok': ([L('N'), O('nat'), L('N')], 'bool'),
    'api_c17_recover_draw': ([L('N'), L('N')], O(L('nat'))),
    'api_c17_inclusion': (['nat', 'nat'], T('nat', 'nat')),
    'api_c17_mle': (['nat', L(T('Q', 'Q')), L('Q'), 'Q'], T('bool', 'bool', 'Q', 'Q')),
    'api_c17_mle_lnargs': (['nat', L('Q'), 'Q'], L('Q')),
    'api_c17_powerlaw_ok': (['N', 'Q', L('Q')], 'bool'),
    'api_c17_exact_ok': (['Q', 'Q', 'Q', 'Q', 'Q', L('Q')], 'bool'),
}
