"""Oracle entry points of C18 (coq/extract/Api_c18.v)."""
from proto import L, O, T, STRS

TOKS = L(T('nat', 'Q', 'str'))                       # pre-order token list of a Python object
COLS = L(T('str', L(O('str'))))                      # (name / key, cells) pairs
SIGS = {
    'api_c18_isvalidaa': ([TOKS], 'nat'),
    'api_c18_isvalidcdr3': ([TOKS], 'nat'),
    'api_c18_isvalidcdr3_original': ([TOKS], 'nat'),
    'api_c18_aa_spec': (['str'], 'bool'),
    'api_c18_cdr3_spec': (['str'], 'bool'),
    'api_c18_standardize': ([L(T('str', 'str')), 'bool', L(T('nat', 'str', O('str'))), STRS, COLS], T(STRS, COLS)),
    'api_c18_std_columns': (['bool'], L(T('str', 'nat'))),
    'api_c18_multimerge': (['bool', STRS, 'bool', L(T(STRS, COLS))], T('nat', STRS, COLS)),
    'api_c18_multimerge_m': (['bool', STRS, 'bool', L(T(STRS, COLS))], T('nat', STRS, COLS)),
}
