"""Custom distances implemented identically to coq/model/Symdel.v custom_dist (symmetric, d(x,x) = 0)."""
from rapidfuzz.distance import Levenshtein as RL


def make(which):
    if which == 0:
        return lambda a, b: RL.distance(a, b)
    if which == 1:
        return lambda a, b: 3 * RL.distance(a, b)
    if which == 2:
        return lambda a, b: RL.distance(a, b) / 2
    if which == 3:
        return lambda a, b: abs(len(a) - len(b))
    if which == 4:
        return lambda a, b: RL.distance(a, b, weights=(2, 2, 3))
    if which == 6:
        return lambda a, b: 100001 * RL.distance(a, b)
    return lambda a, b: 0 if a == b else (sum(map(ord, a)) + sum(map(ord, b))) % 7


NAMES = ['lev', '3*lev', 'lev/2', '|len a - len b|', 'weighted lev (2,2,3)', 'code-sum mod 7 (unrelated to edit distance)', '100001*lev']
