"""C04 - hash_based and kdtree return the same exact neighbour set as the default search."""
import gens
from gens import all_strings, repertoire, has_indel_pair, has_dup_pair, canon_triplets
from searchlib import Case, run_cases
from core import call_impl


def run(ctx):
    import pyrepseq.nn as nn
    rng = ctx.rng
    ctx.rule = ('(a) every string of length <= L over the 3-letter sub-alphabets {A,C,D}, {A,L,Y}, {C,D,E} (straddling '
                'composition bins), duplicated, one call, k = 1..3 (hash_based k <= 2); (b) boundary families X^m vs Y^m '
                '(m substitutions of one letter: exactly on the kdtree radius) for m up to 64; (c) random CDR3-like repertoires; '
                'kdtree, hash_based and nearest_neighbor compared with the models and with each other. '
                'non-trivial := expected result holds an indel pair and a distance-0 pair')
    cases = []

    def nontriv_for(seqs):
        return lambda exp: has_indel_pair(seqs, exp) and has_dup_pair(exp)

    def mk(engine, seqs, k, model=None, **kw):
        fn = getattr(nn, engine)

        def remake(ss):
            return (lambda: fn(list(ss), max_edits=k, **kw)), (model or 'api_brute_self_lev', [k, list(ss)])
        th, rq = remake(seqs)
        tag = '{%s}' % ','.join('%s=%s' % kv for kv in sorted(kw.items())) if kw else ''
        return Case('%s k=%d n=%d %s' % (engine, k, len(seqs), kw or ''), th, rq, seqs=list(seqs), site='nn.' + engine + tag,
                    remake=remake, nontrivial=nontriv_for(list(seqs)))

    L = 3 if ctx.quick else 4
    for alpha in ('ACD', 'ALY', 'CDE'):
        base = all_strings(alpha, L)
        seqs = base + rng.sample(base, len(base) // 2)
        rng.shuffle(seqs)
        for k in (1, 2, 3):
            cases.append(mk('kdtree', seqs, k))
            if k <= 2:
                cases.append(mk('hash_based', seqs if k == 1 else seqs[:40], k))
    # repertoires whose sequences all have ONE length (aligned CDR3 sets): neighbours by one deletion + one insertion have
    # intermediates of other lengths - an engine that prunes by the stored lengths loses them
    for alpha in ('ACD', 'ALY'):
        same = [s for s in all_strings(alpha, 3 if ctx.quick else 4) if len(s) == (3 if ctx.quick else 4)]
        for k in (2, 3):
            cases.append(mk('kdtree', same, k))
            if k == 2:
                cases.append(mk('hash_based', same[:40] if not ctx.quick else same, 2))
    # small cases through the algorithm-mirroring models themselves
    for t in range(10 if ctx.quick else 60):
        seqs = rng.sample(all_strings('ACD', 3), 8) + ['AC', 'AC']
        k = 1 + t % 2
        c = mk('kdtree', seqs, k)
        c.req = ('api_kdtree_lev', [k, 1, None, seqs])
        c.remake = None
        cases.append(c)
        if k == 1:
            c = mk('hash_based', seqs, 1)
            c.req = ('api_hash_lev', [1, seqs])
            c.remake = None
            cases.append(c)
    ctx.exhaustive = True
    # (b) boundary families
    for m in ([1, 2, 3, 8, 33] if ctx.quick else [1, 2, 3, 4, 5, 8, 13, 21, 33, 50, 64]):
        a, b = 'A' * m, 'C' * m
        seqs = [a, b, 'A' * (m - 1) + 'C', a + 'C']
        cases.append(mk('kdtree', seqs, m))
        cases.append(mk('kdtree', seqs, max(1, m - 1)))
    # (c) random repertoires
    for t in range(80 if ctx.quick else 2000):
        n = rng.randint(1, 60 if ctx.quick else 200)
        seqs = repertoire(rng, n)
        k = rng.choice([1, 1, 2, 3])
        eng = ['kdtree', 'hash_based', 'kdtree'][t % 3]
        if eng == 'hash_based':
            k = min(k, 2)
            seqs = [s for s in seqs if len(s) <= (14 if k == 1 else 9)] or ['CAF']
            if k == 2:
                seqs = seqs[:25]
        ctx.count(eng)
        ctx.count('k=%d' % k)
        if eng == 'kdtree' and t % 4 == 0:
            # the speed options of kdtree (coarser histogram, two workers) never change the answer
            kw = dict(compression=rng.choice([2, 5, 20]), n_cpu=rng.choice([1, 2]))
            ctx.count('kdtree_speed_options')
            cases.append(mk(eng, seqs, k, **kw))
            continue
        cases.append(mk(eng, seqs, k))
    # (d) long sequences (full-length chains, 100-260 residues): a few neighbours by substitution / insertion, lengths on both sides of
    # 127/128 and 255/256; kdtree and the default search
    for t in range(3 if ctx.quick else 30):
        Ln = rng.choice([127, 255, rng.randint(100, 140)])
        s1 = ''.join(rng.choice(gens.AA) for _ in range(Ln))
        j = rng.randrange(Ln)
        seqs = [s1, s1[:j] + rng.choice(gens.AA) + s1[j:], s1[:j] + rng.choice(gens.AA) + s1[j + 1:], s1[1:], s1,
                ''.join(rng.choice(gens.AA) for _ in range(Ln))]
        rng.shuffle(seqs)
        ctx.count('long_sequences')
        for eng, kw in (('kdtree', {}), ('kdtree', dict(compression=20)), ('nearest_neighbor', {})):
            cases.append(mk(eng, seqs, rng.choice([1, 2]), **kw))
    run_cases(ctx, cases, vm_every=13)

    # three-way agreement on the implementation side
    for t in range(15 if ctx.quick else 300):
        seqs = [s for s in repertoire(rng, rng.randint(2, 40)) if len(s) <= 13] or ['CAF']
        k = 1
        rs = [call_impl(lambda f=f: f(list(seqs), max_edits=k)) for f in (nn.nearest_neighbor, nn.hash_based, nn.kdtree)]
        ctx.case(nontrivial_key=('3way', tuple(seqs)))
        if any(r[0] != 'ok' for r in rs) or len({tuple(canon_triplets(r[1])) for r in rs}) != 1:
            ctx.violation('property', 'the three engines disagree on %s' % seqs, dict(seqs=seqs, k=k), site='nn.engines')
    # auxiliary: histogram encoder
    he = getattr(nn, '_histogram_encode', None)
    if he is not None:
        strs = [''.join(rng.choice(gens.AA) for _ in range(rng.randint(0, 12))) for _ in range(60)]
        reqs = [('api_encode', [c, s]) for s in strs for c in (1, 2, 3, 7, 20, 25)]
        outs = ctx.oracle.run(reqs)
        bad = sum(1 for (f, (c, s)), o in zip(reqs, outs)
                  if (lambda r: r[0] != 'ok' or [int(x) for x in r[1]] != o)(call_impl(he, s, c)))
        ctx.extra['aux_histogram_encode'] = dict(compared=len(reqs), differing=bad, note='auxiliary; never decides the verdict')
    ctx.assumptions += ['scipy KDTree.query_ball_point returns every point within the radius r = sqrt(2)*k it is given (float64)',
                        'rapidfuzz process.extract: all choices with score <= cutoff',
                        'inputs over the 20 amino-acid letters (documented domain of hash_based / kdtree)']


def replay(ctx, obj):
    import pyrepseq.nn as nn
    r = obj['replay']
    seqs, k = r['seqs'], r['request'][1][0]
    site = obj.get('site') or 'nn.kdtree'
    eng = site.split('.')[1].split('{')[0]
    kw = {a: int(b) for a, b in (x.split('=') for x in site.split('{')[1].rstrip('}').split(','))} if '{' in site else {}
    fn = getattr(nn, eng, nn.kdtree)
    run_cases(ctx, [Case('replay', lambda: fn(list(seqs), max_edits=k, **kw), ('api_brute_self_lev', [k, seqs]), seqs=seqs, site=obj.get('site'))])
