"""C04 - hash_based and kdtree return the same exact neighbour set as the default search."""
import contextlib
import io
import json
import itertools
import gens
from gens import all_strings, repertoire, has_indel_pair, has_dup_pair, canon_triplets, canon_model, diff_triplets
from searchlib import Case, run_cases
from core import call_impl, jsonable

ENGINES = ('kdtree', 'hash_based', 'nearest_neighbor')


# ---------------------------------------------------------------------------------------------------------------------------
# containers a collection of sequences can arrive in (positions are the iteration order)
# ---------------------------------------------------------------------------------------------------------------------------
def build(container, seqs):
    import numpy as np
    import pandas as pd
    n = len(seqs)
    if container == 'list':
        return list(seqs)
    if container == 'tuple':
        return tuple(seqs)
    if container == 'list_npstr':
        return [np.str_(s) for s in seqs]
    if container == 'ndarray_U':
        return np.array(list(seqs), dtype=str)
    if container == 'ndarray_obj':
        a = np.empty(n, dtype=object)
        a[:] = list(seqs)
        return a
    if container == 'series_default':
        return pd.Series(list(seqs), dtype=object)
    if container == 'series_shifted':
        return pd.Series(list(seqs), index=range(5, 5 + n), dtype=object)
    if container == 'series_permuted':
        # labels are a fixed non-identity permutation of the positions (reversal, rotated by one when n is odd)
        perm = list(range(n))[::-1]
        if n > 2:
            perm = perm[1:] + perm[:1]
        return pd.Series(list(seqs), index=perm, dtype=object)
    if container == 'series_string':
        return pd.Series(list(seqs), index=['r%d' % (n - i) for i in range(n)], dtype=object)
    if container == 'series_strdtype':
        return pd.Series(list(seqs), dtype='string')
    raise ValueError(container)


CONTAINERS = ('tuple', 'list_npstr', 'ndarray_U', 'ndarray_obj', 'series_default', 'series_shifted', 'series_permuted',
              'series_string', 'series_strdtype')


def snapshot(obj):
    return [str(x) for x in obj]


def invoke(nn, engine, obj, k, kw, call='kw'):
    """One public call.  call: 'kw' max_edits by keyword, 'pos' max_edits as second positional argument, 'default' max_edits omitted."""
    fn = getattr(nn, engine)
    with contextlib.redirect_stderr(io.StringIO()) if kw.get('progress') else contextlib.nullcontext():
        if call == 'pos':
            return fn(obj, k, **kw)
        if call == 'default':
            return fn(obj, **kw)
        return fn(obj, max_edits=k, **kw)


def site_of(engine, opts):
    return 'nn.' + engine + ('{%s}' % ','.join('%s=%s' % kv for kv in sorted(opts.items())) if opts else '')


def parse_site(site):
    """'nn.kdtree{compression=3,container=tuple}' -> ('kdtree', container, call, kw)"""
    eng = site.split('.')[1].split('{')[0]
    opts = {}
    if '{' in site:
        for x in site.split('{')[1].rstrip('}').split(','):
            a, b = x.split('=')
            opts[a] = b
    container, call = opts.pop('container', 'list'), opts.pop('call', 'kw')
    kw = {}
    for a, b in opts.items():
        if b in ('True', 'False'):
            kw[a] = b == 'True'
        elif b.lstrip('-').isdigit():
            kw[a] = int(b)
        elif b == 'None':
            kw[a] = None
        elif b == 'inf':
            kw[a] = float('inf')
        else:
            kw[a] = float(b)
    return eng, container, call, kw


# ---------------------------------------------------------------------------------------------------------------------------
# the specification computed directly (for inputs the extracted model is too slow on: sequences of hundreds of residues)
# ---------------------------------------------------------------------------------------------------------------------------
def lev_dp(a, b):
    """Levenshtein distance by the textbook recurrence (two rows)."""
    prev = list(range(len(b) + 1))
    for i, ca in enumerate(a, 1):
        cur = [i]
        for j, cb in enumerate(b, 1):
            cur.append(min(prev[j] + 1, cur[j - 1] + 1, prev[j - 1] + (ca != cb)))
        prev = cur
    return prev[-1]


def spec_triplets(seqs, k):
    """All ordered pairs of distinct positions within Levenshtein distance k (a length difference > k already exceeds k)."""
    out, memo = [], {}
    for i in range(len(seqs)):
        for j in range(i + 1, len(seqs)):
            a, b = seqs[i], seqs[j]
            if abs(len(a) - len(b)) > k:
                continue
            key = (a, b) if a <= b else (b, a)
            if key not in memo:
                memo[key] = 0 if a == b else lev_dp(a, b)
            d = memo[key]
            if d <= k:
                out += [(i, j, d), (j, i, d)]
    return canon_model(out)


class _Dedup:
    """The oracle seen through run_cases, with identical requests of one batch asked once (many implementation calls - containers,
    options, engines - share one model answer)."""

    def __init__(self, real):
        self.real = real

    def __getattr__(self, name):
        return getattr(self.real, name)

    def run_parallel(self, reqs, *a, **kw):
        keys = [json.dumps(jsonable(r), sort_keys=True) for r in reqs]
        first = {}
        for n, key in enumerate(keys):
            first.setdefault(key, n)
        uniq = sorted(first.values())
        outs = self.real.run_parallel([reqs[n] for n in uniq], *a, **kw)
        by = {keys[n]: o for n, o in zip(uniq, outs)}
        return [by[key] for key in keys]


def run_cases_dedup(ctx, cases, **kw):
    real = ctx.oracle
    ctx.oracle = _Dedup(real)
    try:
        return run_cases(ctx, cases, **kw)
    finally:
        ctx.oracle = real


# ---------------------------------------------------------------------------------------------------------------------------
# call histories on ONE object (same object to several engines, edits in place between calls, calls in other modes in between)
# ---------------------------------------------------------------------------------------------------------------------------
def apply_edit(obj, edit):
    """edit: ['set', position, string] | ['append', string] (lists only) | ['swap', p, q]; positional, in place."""
    import pandas as pd
    if edit[0] == 'set':
        if isinstance(obj, pd.Series):
            obj.iloc[edit[1]] = edit[2]
        else:
            obj[edit[1]] = edit[2]
    elif edit[0] == 'append':
        obj.append(edit[1])
    elif edit[0] == 'swap':
        p, q = edit[1], edit[2]
        if isinstance(obj, pd.Series):
            a, b = obj.iloc[p], obj.iloc[q]
            obj.iloc[p], obj.iloc[q] = b, a
        else:
            obj[p], obj[q] = obj[q], obj[p]


def run_history(ctx, nn, spec):
    """spec: dict(container, seqs, steps=[dict(engine, k, kw, call, edit=None, other=None, check=True)]).
    A step with `other` runs on a fresh list of those sequences (a call in between, e.g. in Hamming mode; its result is not judged
    here when check is False); every other step runs on THE object, after its in-place edit, and is compared with the model of the
    object's content at the time of the call.  Returns the number of violations reported."""
    # pass 1: contents at each call (edits replayed on a twin object), model answers in one batch
    twin = build(spec['container'], spec['seqs'])
    snaps = []
    for st in spec['steps']:
        if st.get('other') is not None:
            snaps.append(list(st['other']))
            continue
        if st.get('edit'):
            apply_edit(twin, st['edit'])
        snaps.append(snapshot(twin))
    judged = [n for n, st in enumerate(spec['steps']) if st.get('check', True)]
    outs = ctx.oracle.run([('api_brute_self_lev', [spec['steps'][n]['k'], snaps[n]]) for n in judged])
    exps = {n: canon_model(o) for n, o in zip(judged, outs)}
    # pass 2: the implementation on one object
    obj = build(spec['container'], spec['seqs'])
    bad = 0
    for n, st in enumerate(spec['steps']):
        if st.get('other') is not None:
            target = list(st['other'])
        else:
            if st.get('edit'):
                apply_edit(obj, st['edit'])
            target = obj
        got = call_impl(lambda: invoke(nn, st['engine'], target, st['k'], st.get('kw') or {}, st.get('call', 'kw')))
        if n not in exps:
            continue
        exp = exps[n]
        ok = got[0] == 'ok'
        if ok:
            try:
                impl = canon_triplets(got[1])
            except Exception as e:
                ok, impl = False, repr(e)
        nt = len(exp) > 0
        ctx.case(nontrivial_key=('history', spec['container'], n, tuple(snaps[n]), st['engine'], st['k']) if nt else None)
        if ok and impl == exp:
            continue
        bad += 1
        detail = got if not ok else diff_triplets(impl, exp)
        ctx.violation('property', 'call %d of a history on one %s (%s, max_edits=%d, %s) differs from the exact neighbour set of the '
                      'content %s at that call: %s; history %s' %
                      (n, spec['container'], st['engine'], st['k'], st.get('kw') or {}, snaps[n][:12], jsonable(detail),
                       [(s['engine'], s['k'], s.get('kw') or {}, s.get('edit'), 'other' if s.get('other') is not None else 'same')
                        for s in spec['steps'][:n + 1]]),
                      dict(history=spec, failing_step=n, seqs=snaps[n], detail=jsonable(detail),
                           request=['api_brute_self_lev', [st['k'], snaps[n]]]),
                      site='nn.history.' + st['engine'])
        break
    return bad


def run(ctx):
    import pyrepseq.nn as nn
    rng = ctx.rng
    ctx.rule = ('(a) every string of length <= L over the 3-letter sub-alphabets {A,C,D}, {A,L,Y}, {C,D,E} (straddling '
                'composition bins), duplicated, one call, k = 1..3 (hash_based k <= 2); (b) boundary families X^m vs Y^m '
                '(m substitutions of one letter: exactly on the kdtree radius) for m up to 64; (c) random CDR3-like repertoires; '
                'kdtree, hash_based and nearest_neighbor compared with the models and with each other; (e) the same collections '
                'as tuple / ndarray (str, object) / list of np.str_ / pandas Series with default, shifted, permuted, string index '
                'and string dtype; (f) options that never change the answer (kdtree compression 1..100 x n_cpu 1..4 on the '
                'exhaustive sets and the on-radius families, n_cpu / progress on hash_based, n_cpu on nearest_neighbor, '
                'max_custom_distance without a custom distance), max_edits positional / omitted; (g) corner sizes (one sequence, '
                'only empty strings, > 10 identical sequences, anagram classes, max_edits up to 16, hash_based k = 3, '
                'collections of > 1000 sequences: engines against each other); (h) sequences of 63..300 residues and '
                'homopolymers across 127/128 and 255/256 against the textbook recurrence; (i) call histories on one object '
                '(all engines in turn, descending radii, edits in place between calls, Hamming / max_returns / two-worker calls '
                'in between). non-trivial := expected result holds an indel pair and a distance-0 pair (families (a)-(c)), '
                'a non-empty expected result (the others)')
    cases = []

    def nontriv_for(seqs):
        return lambda exp: has_indel_pair(seqs, exp) and has_dup_pair(exp)

    def mk(engine, seqs, k, model=None, container='list', call='kw', nontrivial='strict', **kw):
        opts = dict(kw)
        if container != 'list':
            opts['container'] = container
        if call != 'kw':
            opts['call'] = call

        def remake(ss):
            return ((lambda: invoke(nn, engine, build(container, ss), k, kw, call)),
                    (model or 'api_brute_self_lev', [k, list(ss)]))
        th, rq = remake(seqs)
        return Case('%s k=%d n=%d %s' % (engine, k, len(seqs), opts or ''), th, rq, seqs=list(seqs), site=site_of(engine, opts),
                    remake=remake, nontrivial=nontriv_for(list(seqs)) if nontrivial == 'strict' else None)

    L = 3 if ctx.quick else 4
    exhaustive_sets = {}
    for alpha in ('ACD', 'ALY', 'CDE'):
        base = all_strings(alpha, L)
        seqs = base + rng.sample(base, len(base) // 2)
        rng.shuffle(seqs)
        exhaustive_sets[alpha] = seqs
        for k in (1, 2, 3):
            cases.append(mk('kdtree', seqs, k))
            if k <= 2:
                cases.append(mk('hash_based', seqs if k == 1 else seqs[:40], k))
    # repertoires whose sequences all have ONE length (aligned CDR3 sets): neighbours by one deletion + one insertion have
    # intermediates of other lengths - an engine that prunes by the stored lengths loses them
    for alpha in ('ACD', 'ALY'):
        same = [s for s in all_strings(alpha, 3 if ctx.quick else 4) if len(s) == (3 if ctx.quick else 4)]
        for k in (2, 3):
            cases.append(mk('kdtree', same, k))
            if k == 2:
                cases.append(mk('hash_based', same[:40] if not ctx.quick else same, 2))
    # small cases through the algorithm-mirroring models themselves
    for t in range(10 if ctx.quick else 60):
        seqs = rng.sample(all_strings('ACD', 3), 8) + ['AC', 'AC']
        k = 1 + t % 2
        c = mk('kdtree', seqs, k)
        c.req = ('api_kdtree_lev', [k, 1, None, seqs])
        c.remake = None
        cases.append(c)
        if k == 1:
            c = mk('hash_based', seqs, 1)
            c.req = ('api_hash_lev', [1, seqs])
            c.remake = None
            cases.append(c)
    ctx.exhaustive = True
    # (b) boundary families
    for m in ([1, 2, 3, 8, 33] if ctx.quick else [1, 2, 3, 4, 5, 8, 13, 21, 33, 50, 64]):
        a, b = 'A' * m, 'C' * m
        seqs = [a, b, 'A' * (m - 1) + 'C', a + 'C']
        cases.append(mk('kdtree', seqs, m))
        cases.append(mk('kdtree', seqs, max(1, m - 1)))
    # (c) random repertoires
    for t in range(80 if ctx.quick else 2000):
        n = rng.randint(1, 60 if ctx.quick else 200)
        seqs = repertoire(rng, n)
        k = rng.choice([1, 1, 2, 3])
        eng = ['kdtree', 'hash_based', 'kdtree'][t % 3]
        if eng == 'hash_based':
            k = min(k, 2)
            seqs = [s for s in seqs if len(s) <= (14 if k == 1 else 9)] or ['CAF']
            if k == 2:
                seqs = seqs[:25]
        ctx.count(eng)
        ctx.count('k=%d' % k)
        if eng == 'kdtree' and t % 4 == 0:
            # the speed options of kdtree (coarser histogram, two workers) never change the answer
            kw = dict(compression=rng.choice([2, 5, 20]), n_cpu=rng.choice([1, 2]))
            ctx.count('kdtree_speed_options')
            cases.append(mk(eng, seqs, k, **kw))
            continue
        cases.append(mk(eng, seqs, k))
    # (d) long sequences (full-length chains, 100-260 residues): a few neighbours by substitution / insertion, lengths on both sides of
    # 127/128 and 255/256; kdtree and the default search (one model answer per collection: the three calls share max_edits)
    for t in range(3 if ctx.quick else 30):
        Ln = rng.choice([127, 255, rng.randint(100, 140)])
        s1 = ''.join(rng.choice(gens.AA) for _ in range(Ln))
        j = rng.randrange(Ln)
        seqs = [s1, s1[:j] + rng.choice(gens.AA) + s1[j:], s1[:j] + rng.choice(gens.AA) + s1[j + 1:], s1[1:], s1,
                ''.join(rng.choice(gens.AA) for _ in range(Ln))]
        rng.shuffle(seqs)
        ctx.count('long_sequences')
        k = rng.choice([1, 2])
        for eng, kw in (('kdtree', {}), ('kdtree', dict(compression=20)), ('nearest_neighbor', {})):
            cases.append(mk(eng, seqs, k, **kw))
    run_cases_dedup(ctx, cases, vm_every=13)

    # ------------------------------------------------------------------------------------------------------------------
    # widened families (e)-(g): one model answer per (collection, max_edits), many implementation calls
    # ------------------------------------------------------------------------------------------------------------------
    wide = []

    def short_rep(n, maxlen):
        return ([s for s in repertoire(rng, 3 * n) if len(s) <= maxlen] or ['CAF'])[:n]

    # (e) containers x engines
    conts = list(CONTAINERS)
    for rnd in range(1 if ctx.quick else 12):
        seqs1 = repertoire(rng, rng.randint(12, 30))
        seqs2 = short_rep(8, 6) + ['CAF', 'CAF', 'CF']
        rng.shuffle(conts)
        for ci, cont in enumerate(conts):
            for eng in ENGINES:
                ctx.count('container:' + cont)
                if eng == 'hash_based':
                    # radius 2 on the short collection, radius 1 on the CDR3-like one (the ball enumeration is the cost)
                    wide.append(mk(eng, seqs2, 2, container=cont, nontrivial='any') if ci % 2 else
                                mk(eng, [s for s in seqs1 if len(s) <= 14] or ['CAF'], 1, container=cont, nontrivial='any'))
                else:
                    wide.append(mk(eng, seqs1, 1 + (ci + rnd) % 3, container=cont, nontrivial='any'))
    # (f1) kdtree: compression x workers on the exhaustive sets (letters straddling the bins) and on-radius families
    comps = [1, 2, 3, 4, 5, 6, 7, 9, 10, 11, 19, 20, 21, 25, 100]
    combos = [(c, w) for c in comps for w in (1, 2, 3, 4)]
    rng.shuffle(combos)
    for n, (c, w) in enumerate(combos[:8] if ctx.quick else combos):
        alpha = ('ACD', 'ALY', 'CDE')[n % 3]
        seqs = exhaustive_sets[alpha] if ctx.quick else rng.sample(exhaustive_sets[alpha], 90)
        ctx.count('kdtree_compression_x_workers')
        wide.append(mk('kdtree', seqs, 1 + n % 3, compression=c, n_cpu=w))
    for n, m in enumerate([2, 3, 5, 12] if ctx.quick else [1, 2, 3, 4, 5, 6, 8, 11, 12, 13, 21, 33]):
        # X^m vs Y^m: squared histogram distance 2 m^2 when X and Y fall into different bins, 0 when compression merges them
        for x, y in (('A', 'C'), ('W', 'Y'), ('A', 'Y')):
            seqs = [x * m, y * m, x * (m - 1) + y, x * m + y, 'C' + x * m + 'F', 'C' + y * m + 'F'] + [x * m] * (6 if m % 2 else 0)
            for c in ((2, 3) if ctx.quick else (2, 3, 7, 20)):
                ctx.count('on_radius_under_compression')
                wide.append(mk('kdtree', seqs, m, compression=c, n_cpu=1 + (n + c) % 2, nontrivial='any'))
    # (f2) options documented as ignored / not implemented, and the ways of passing max_edits
    for rnd in range(1 if ctx.quick else 10):
        seqs = [s for s in repertoire(rng, rng.randint(8, 30)) if len(s) <= 14] or ['CAF']
        k = rng.choice([1, 2])
        sh = short_rep(10, 7) + ['CAF', 'CAF', 'CAYF', 'CWWF']
        for eng, ss, kk, kw in (('hash_based', seqs, 1, dict(n_cpu=2)), ('hash_based', sh, 2, dict(n_cpu=3)),
                                ('hash_based', seqs, 1, dict(progress=True)), ('hash_based', seqs, 1, dict(progress=False)),
                                ('nearest_neighbor', seqs, k, dict(n_cpu=2)),
                                ('kdtree', seqs, 2, dict(max_custom_distance=1)), ('kdtree', seqs, k, dict(max_custom_distance=0)),
                                ('nearest_neighbor', seqs, 2, dict(max_custom_distance=1)),
                                ('nearest_neighbor', seqs, k, dict(max_custom_distance=0)),
                                ('hash_based', seqs, 1, dict(max_custom_distance=1)),
                                ('hash_based', sh, 2, dict(max_custom_distance=2.5)),
                                ('kdtree', seqs, k, dict(max_returns=None, n_cpu=1, custom_distance=None, compression=1))):
            ctx.count('ignored_option:%s:%s' % (eng, '+'.join(sorted(kw))))
            wide.append(mk(eng, ss, kk, nontrivial='any', **kw))
        # max_custom_distance below max_edits without a custom distance: "ignored" by all three engines (hash_based applied it to the
        # edit distance up to /repo ac40883, D21)
        ctx.count('ignored_option:hash_based:max_custom_distance_below_max_edits')
        wide.append(mk('hash_based', sh + ['CAAF', 'CDDF', 'CF'], 2, nontrivial='any', max_custom_distance=1))
        for eng in ENGINES:
            ctx.count('max_edits_positional')
            wide.append(mk(eng, sh if eng == 'hash_based' else seqs, 2, call='pos', nontrivial='any',
                           **(dict(compression=3) if eng == 'kdtree' else {})))
    # (g) corner sizes and radii
    corner = [(['CASSF'], 1), ([''], 1), (['', ''], 1), (['', '', 'A', 'AC'], 2), (['CASSF', 'CASSF'], 1), (['CASSF'] * 12, 1),
              (['CASSLGF'] * 25 + ['CASSLGY'], 2), (['AC', 'CA', '', 'A', 'CC', 'AC'], 3),
              ([''.join(p) for p in itertools.permutations('ACDE')], 2),
              ([''.join(p) for p in itertools.permutations('ACDE')] + ['ACD', 'ACDEE', 'WCDE'], 3)]
    if not ctx.quick:
        corner += [(rng.sample(all_strings('AC', 3), 9), 3), (['CASSF'] * 11 + ['CASF'] * 11 + ['CAF'] * 11, 2),
                   ([''.join(p) for p in itertools.permutations('ACDEF')], 4)]
    for seqs, k in corner:
        for eng in ENGINES:
            if eng == 'hash_based' and (k > 3 or (k == 3 and max(map(len, seqs)) > (2 if ctx.quick else 3))
                                        or (k == 2 and sum((len(s) + 1) ** 2 for s in seqs) > (700 if ctx.quick else 3000))):
                continue
            ctx.count('corner_sizes')
            wide.append(mk(eng, seqs, k, nontrivial='any', **(dict(n_cpu=2) if eng == 'kdtree' and len(seqs) % 2 else {})))
    for t in range(4 if ctx.quick else 60):
        seqs = repertoire(rng, rng.randint(5, 40))
        k = rng.choice([4, 5, 6, 8, 10, 16])
        ctx.count('large_max_edits')
        wide.append(mk('kdtree', seqs, k, nontrivial='any', **(dict(compression=rng.choice([1, 3, 20])) if t % 2 else {})))
        if not ctx.quick and k <= 5:
            wide.append(mk('nearest_neighbor', seqs[:15], k, nontrivial='any'))
    # more than a thousand sequences against the model (kdtree serial / two workers, hash_based) - thorough tier
    if not ctx.quick:
        big = repertoire(rng, 1100)
        for eng, kw in (('kdtree', {}), ('kdtree', dict(n_cpu=2)), ('kdtree', dict(n_cpu=3, compression=4)), ('hash_based', {})):
            ctx.count('n>1000_vs_model')
            wide.append(mk(eng, big, 1, nontrivial='any', **kw))
    run_cases_dedup(ctx, wide)

    # (g') several hundred / thousand sequences: the engines against each other (the property states they agree)
    for n, k in ([(400, 2), (1100, 1)] if ctx.quick else [(400, 2), (1100, 1), (1100, 2), (4200, 1)]):
        seqs = repertoire(rng, n)
        ctx.count('large_collection_engines_agree')
        calls = [('nearest_neighbor', 'list', {}), ('kdtree', 'ndarray_U', {}), ('kdtree', 'list', dict(n_cpu=2, compression=2)),
                 ('kdtree', 'series_permuted', dict(n_cpu=3))]
        if k == 1:
            calls.append(('hash_based', 'list', {}))
        differential(ctx, nn, seqs, k, calls)
    # max_edits omitted: whatever the default radius is, it is the same for the three engines
    for t in range(3 if ctx.quick else 40):
        seqs = [s for s in repertoire(rng, rng.randint(2, 40)) if len(s) <= 13] or ['CAF']
        ctx.count('max_edits_omitted_engines_agree')
        differential(ctx, nn, seqs, None, [(e, 'list', {}) for e in ENGINES])

    # (h) long sequences and homopolymers against the textbook recurrence
    long_cases = []
    for m in ([128, 256] if ctx.quick else [64, 127, 128, 129, 255, 256, 257, 300]):
        for x in ('A', 'Y') if not ctx.quick else (rng.choice('AY'),):
            y = 'C' if x == 'A' else 'W'
            long_cases.append(([x * m, x * (m - 1), x * (m + 1), x * (m - 1) + y, x * m, y + x * (m - 1), x * (m - 2) + y + y], 2))
    for t in range(2 if ctx.quick else 24):
        Ln = rng.choice([63, 64, 65, 128, 129, 256, 257, 300] if not ctx.quick else [64, 65, 129, 257])
        s1 = ''.join(rng.choice(gens.AA) for _ in range(Ln))
        j, j2 = rng.randrange(Ln), rng.randrange(Ln)
        seqs = [s1, s1[:j] + s1[j + 1:], s1[:j] + rng.choice(gens.AA) + s1[j:], s1[:j2] + rng.choice(gens.AA) + s1[j2 + 1:], s1,
                s1[:j] + s1[j + 1:j2] + rng.choice(gens.AA) + s1[j2:] if j < j2 else s1[::-1]]
        rng.shuffle(seqs)
        long_cases.append((seqs, rng.choice([1, 2])))
    for seqs, k in long_cases:
        exp = spec_triplets(seqs, k)
        calls = [('kdtree', 'list', {}), ('kdtree', 'ndarray_U', dict(compression=20)), ('kdtree', 'list', dict(compression=3, n_cpu=2)),
                 ('nearest_neighbor', 'list', {}), ('hash_based', 'list', {})]
        for eng, cont, kw in calls:
            kk = 1 if eng == 'hash_based' else k
            e = exp if kk == k else [t for t in exp if t[2] <= kk]
            ctx.count('long_vs_recurrence:' + eng)
            judge(ctx, nn, eng, seqs, kk, cont, kw, e)

    # (i) call histories on one object
    for t in range(9 if ctx.quick else 90):
        # the first three on one str ndarray (the object kdtree / hash_based use as it is), then every container kind
        cont = 'ndarray_U' if t < 3 else rng.choice(('list', 'ndarray_obj', 'series_default', 'series_permuted') + CONTAINERS)
        seqs = short_rep(rng.randint(5, 10), 6) + ['CAF', 'CAF', 'CAAF']
        rng.shuffle(seqs)
        steps = []
        kind = t % 3
        label = 'engines_in_turn'
        if kind == 0:
            # every engine in turn on the same object, radii descending then ascending
            for eng, k in (('hash_based', 2), ('hash_based', 1), ('kdtree', 3), ('kdtree', 1), ('nearest_neighbor', 2),
                           ('kdtree', 2), ('hash_based', 2), ('nearest_neighbor', 1)):
                steps.append(dict(engine=eng, k=k, kw=dict(n_cpu=2) if eng == 'kdtree' and k == 1 else {}))
        elif kind == 1 and cont != 'tuple':
            label = 'edited_in_place'
            # the object is edited in place between the calls (same length / same identity, other content)
            maxlen = max(map(len, seqs))
            for r in range(4):
                eng = ENGINES[(t + r) % 3]
                p = rng.randrange(len(seqs))
                new = gens.mutate(rng, rng.choice(seqs), gens.AA, 1)[:maxlen]
                edit = ['swap', p, rng.randrange(len(seqs))] if r == 2 else ['set', p, new]
                if cont in ('list', 'list_npstr') and r == 3:
                    edit = ['append', new]
                steps.append(dict(engine=eng, k=1 + r % 2, kw={}, edit=edit if r else None))
                steps.append(dict(engine=ENGINES[(t + r + 1) % 3], k=1 + r % 2, kw={}))
        else:
            # calls in other modes / with other options in between (module-level state of the kdtree workers)
            label = 'other_modes_in_between'
            other = short_rep(8, 8) + ['CAAF', 'CAFA', 'ACAF']
            for eng, kw in (('kdtree', dict(custom_distance='hamming', max_returns=1)), ('kdtree', dict(max_returns=1, n_cpu=2)),
                            ('hash_based', dict(custom_distance='hamming')), ('nearest_neighbor', dict(custom_distance='hamming')),
                            ('kdtree', dict(custom_distance='hamming', n_cpu=2, compression=4))):
                steps.append(dict(engine=eng, k=rng.choice([1, 2] if eng == 'hash_based' else [1, 2, 3]), kw=kw, other=other, check=False))
                e2 = rng.choice(ENGINES)
                steps.append(dict(engine=e2, k=rng.choice([1, 2]), kw=dict(n_cpu=rng.choice([1, 2])) if e2 == 'kdtree' else {}))
        ctx.count('history:' + label)
        run_history(ctx, nn, dict(container=cont, seqs=seqs, steps=steps))

    # three-way agreement on the implementation side
    for t in range(15 if ctx.quick else 300):
        seqs = [s for s in repertoire(rng, rng.randint(2, 40)) if len(s) <= 13] or ['CAF']
        k = 1
        rs = [call_impl(lambda f=f: f(list(seqs), max_edits=k)) for f in (nn.nearest_neighbor, nn.hash_based, nn.kdtree)]
        ctx.case(nontrivial_key=('3way', tuple(seqs)))
        if any(r[0] != 'ok' for r in rs) or len({tuple(canon_triplets(r[1])) for r in rs}) != 1:
            ctx.violation('property', 'the three engines disagree on %s' % seqs, dict(seqs=seqs, k=k), site='nn.engines')
    # auxiliary: histogram encoder
    he = getattr(nn, '_histogram_encode', None)
    if he is not None:
        strs = [''.join(rng.choice(gens.AA) for _ in range(rng.randint(0, 12))) for _ in range(60)]
        reqs = [('api_encode', [c, s]) for s in strs for c in (1, 2, 3, 7, 20, 25)]
        outs = ctx.oracle.run(reqs)
        bad = sum(1 for (f, (c, s)), o in zip(reqs, outs)
                  if (lambda r: r[0] != 'ok' or [int(x) for x in r[1]] != o)(call_impl(he, s, c)))
        ctx.extra['aux_histogram_encode'] = dict(compared=len(reqs), differing=bad, note='auxiliary; never decides the verdict')
    ctx.assumptions += ['scipy KDTree.query_ball_point returns every point within the radius r = sqrt(2)*k it is given (float64)',
                        'rapidfuzz process.extract: all choices with score <= cutoff',
                        'inputs over the 20 amino-acid letters (documented domain of hash_based / kdtree)']


def judge(ctx, nn, eng, seqs, k, container, kw, expected):
    """One implementation call against an expected triplet list computed from the specification."""
    opts = dict(kw)
    if container != 'list':
        opts['container'] = container
    got = call_impl(lambda: invoke(nn, eng, build(container, seqs), k, kw))
    ok = got[0] == 'ok'
    if ok:
        try:
            impl = canon_triplets(got[1])
        except Exception as e:
            ok, impl = False, repr(e)
    ctx.case(nontrivial_key=('spec', eng, k, tuple(seqs), str(sorted(opts.items()))) if expected else None)
    if ok and impl == expected:
        return True
    detail = got if not ok else diff_triplets(impl, expected)
    short = [s if len(s) <= 40 else '%s..(%d residues)' % (s[:12], len(s)) for s in seqs]
    ctx.violation('property', '%s k=%d %s: implementation differs from the exact neighbour set (textbook Levenshtein recurrence) on %s: %s' %
                  (eng, k, opts or '', short, jsonable(detail)),
                  dict(case='%s k=%d spec' % (eng, k), seqs=list(seqs), detail=jsonable(detail), request=['api_brute_self_lev', [k, list(seqs)]],
                       expected_by='recurrence'),
                  site=site_of(eng, opts))
    return False


def differential(ctx, nn, seqs, k, calls):
    """The same collection through several engines / containers / speed options: all answers equal (k None: max_edits omitted)."""
    style = 'default' if k is None else 'kw'

    def answer(call, ss):
        eng, cont, kw = call
        got = call_impl(lambda: invoke(nn, eng, build(cont, ss), k, kw, style))
        return ('ok', tuple(canon_triplets(got[1]))) if got[0] == 'ok' else ('exc', got[1])
    res = [answer(c, seqs) for c in calls]
    ctx.case(nontrivial_key=('engines', k, len(seqs), tuple(seqs[:50])) if res[0][0] == 'ok' and res[0][1] else None)
    if len(set(res)) == 1 and res[0][0] == 'ok':
        return True
    bad = next((n for n, r in enumerate(res) if r[0] != 'ok'), None)
    small = seqs
    if bad is not None:
        what, ref = res[bad], bad
    else:
        bad, ref = next(n for n, r in enumerate(res) if r != res[0]), 0
        try:
            # shrink the collection while the two calls still disagree
            small = gens.shrink_list(seqs, lambda ss: answer(calls[ref], ss) != answer(calls[bad], ss), max_steps=150)
        except Exception:
            small = seqs
        x, y = answer(calls[bad], small), answer(calls[ref], small)
        what = diff_triplets(list(x[1]), list(y[1])) if x[0] == y[0] == 'ok' else (x, y)
    ctx.violation('property', 'the engines disagree: %s %s against %s %s, max_edits=%s, on %s%s: %s' %
                  (calls[bad][0], calls[bad][1:], calls[ref][0], calls[ref][1:], 'omitted' if k is None else k,
                   small[:40], '' if len(small) <= 40 else ' ... (%d sequences)' % len(small), jsonable(what)),
                  dict(differential=[list(c) for c in ((calls[ref], calls[bad]) if ref != bad else (calls[bad],))], seqs=small, k=k),
                  site='nn.engines')
    return False


def replay(ctx, obj):
    import pyrepseq.nn as nn
    r = obj['replay']
    if r.get('history'):
        run_history(ctx, nn, r['history'])
        return
    if r.get('differential'):
        differential(ctx, nn, r['seqs'], r['k'], [tuple(c) for c in r['differential']])
        return
    if 'request' not in r:
        seqs, k = r['seqs'], r.get('k', 1)
        differential(ctx, nn, seqs, k, [(e, 'list', {}) for e in ENGINES])
        return
    seqs, k = r['seqs'], r['request'][1][0]
    site = obj.get('site') or 'nn.kdtree'
    eng, container, call, kw = parse_site(site)
    if not hasattr(nn, eng):
        eng = 'kdtree'
    if r.get('expected_by') == 'recurrence':
        judge(ctx, nn, eng, seqs, k, container, kw, spec_triplets(seqs, k))
        return
    run_cases(ctx, [Case('replay', lambda: invoke(nn, eng, build(container, seqs), k, kw, call), ('api_brute_self_lev', [k, seqs]),
                         seqs=seqs, site=obj.get('site'))])
