#!/bin/bash
# Build everything the checks need from files on disk: generated Coq sources,
# the full .vo build (all proofs re-checked), the extracted OCaml oracle.
# Safe to call concurrently (flock) and incrementally.
set -u
cd "$(dirname "$0")"
ROOT=$(pwd)
mkdir -p build evidence replays
exec 9>"$ROOT/build/.lock"
flock 9
LOG="$ROOT/build/build.log"
: > "$LOG"
fail() { echo "BUILD-FAILED: $1" | tee -a "$LOG"; exit 2; }

python3 harness/gen_driver.py >>"$LOG" 2>&1 || fail "gen_driver"
PYTHONPATH=${PV_REPO:-/repo} /venv/bin/python translate/regen.py >>"$LOG" 2>&1 || fail "regen"

# the extracted model is a side effect of compiling Extract.v: force it when the output is missing or older than an Api module
if [ ! -f build/model.ml ] || [ -n "$(find coq/extract -name 'Api*.v' -newer build/model.ml 2>/dev/null)" ]; then
  rm -f coq/extract/Extract.vo
fi
cd coq
{
  echo "-R . PV"
  echo "-arg -w -arg -notation-overridden,-deprecated-hint-without-locality,-deprecated-syntactic-definition,-deprecated-instance-without-locality"
  find lib gen model proofs props extract -name '*.v' | sort
} > _CoqProject.new
if ! cmp -s _CoqProject.new _CoqProject || [ ! -f Makefile ]; then
  mv _CoqProject.new _CoqProject
  coq_makefile -f _CoqProject -o Makefile >>"$LOG" 2>&1 || fail "coq_makefile"
else
  rm -f _CoqProject.new
fi
timeout 3000 make -k -j16 >>"$LOG" 2>&1
rc=$?
cd "$ROOT"
PARTIAL=0
if [ $rc -ne 0 ]; then
  PARTIAL=1
  python3 harness/prune_stale.py coq >>"$LOG" 2>&1
  echo "COQ-BUILD-PARTIAL (see build/build.log)"; grep -B2 -A12 -m3 "Error" "$LOG" | head -60
  if [ ! -f coq/extract/Extract.vo ]; then echo "model does not build"; rm -f build/oracle; exit 3; fi
fi

cp ocaml/prelude.ml build/prelude.ml
cd build
if [ ! -x oracle ] || [ model.ml -nt oracle ] || [ driver.ml -nt oracle ] || [ prelude.ml -nt oracle ]; then
  # built beside the old binary and moved into place: a check that is still talking to the old oracle keeps its open file
  timeout 600 ocamlfind ocamlopt -O3 -w -a model.mli model.ml prelude.ml driver.ml -o oracle.new >>"$LOG" 2>&1 \
   || timeout 600 ocamlfind ocamlopt -w -a model.mli model.ml prelude.ml driver.ml -o oracle.new >>"$LOG" 2>&1 \
   || { echo "OCAML-BUILD-FAILED"; tail -30 "$LOG"; exit 4; }
  mv -f oracle.new oracle
fi
if [ $PARTIAL -eq 1 ]; then exit 5; fi
echo "BUILD-OK"
