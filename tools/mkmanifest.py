#!/usr/bin/env python3
"""Writes MANIFEST.json from the table below (kept in one place so the manifest stays valid)."""
import json, os
ROOT = os.path.dirname(os.path.dirname(os.path.abspath(__file__)))
IDS = ['C%02d' % i for i in range(1, 21)]

# id -> (technique, level text, level note, design ref)
COMMON_NOTE = ('Trusted: Coq 8.16.1 kernel (vm_compute, no native_compute); OCaml extraction (ExtrOcamlBasic only) cross-checked by '
               'vm_compute; translators in /verif/translate; the Python harness. Modelled, not verified: ')
CLAIMED = {
 'C01': ('Coq proof of the symmetric-delete search (candidate completeness via common deletion variant, exact filter); nn._comb_gen, SymdelDB.__init__ and the self-mode branch of symdel() regenerated from the source and proved to return exactly the ordered pairs of distinct positions within max_edits, each once, for any set iteration order; differential run of the extracted model vs symdel/nearest_neighbor',
         'Theorems C01_* (coq/props/C01.v): for every list of strings over any alphabet and every k the modelled bucket-pairing algorithm returns exactly {(i,j,lev): i<>j, lev<=k}, no pair repeated, duplicates at distance 0, never (i,i); slev is proved to be the optimal edit cost. Unbounded in sizes and k. Tie to nn.py: nn._comb_gen is regenerated from the source on every run and proved to yield exactly the deletion variants of the model (C01_source_comb_gen, coq/props/C01g.v); the rest by the correspondence run (exhaustive small alphabets in one call + random clonal repertoires).',
         COMMON_NOTE + 'rapidfuzz Levenshtein.distance, Python set/dict/itertools semantics.', 'DESIGN.md section 4 C01'),
 'C02': ('Coq proof: sum c(c-1) over multiplicities = number of ordered coinciding position pairs (cross form: sum of count products), permutation / injective-relabel invariance, row-key join injective under the no-separator guard; pc_n and both counting tails of pc regenerated from stats.py proved equal to the counting definition (any listing order of np.unique); exact-fraction differential runs',
         'Theorems C02_* (coq/props/C02.v): for every list over any type with decidable equality the numerator computed the way pc computes it (unique counts) is the number of ordered pairs of distinct positions holding equal elements, the denominator N(N-1); the two-sample form counts cross pairs; invariance under permutation and injective relabelling; 0 <= num <= den; joined row keys coincide iff rows agree in every column when no cell contains the separator (counter-example without the guard kept visible); the regenerated pc_n equals the counting form on multiplicity vectors.',
         COMMON_NOTE + 'numpy.unique / intersect1d grouping, str() of cells injective on the stated cell domain, pandas fillna/astype.', 'DESIGN.md section 4 C02'),
 'C08': ('Coq proof: row-DP weighted Levenshtein = minimum alignment cost for all weights (attained and minimal against the inductive alignment relation), upper bound wd*|a|+wi*|b| (exact storage guard), condensed-index bijection and loop layout for any metric; differential runs vs rapidfuzz / python-Levenshtein / metric classes / pdist / cdist',
         'Theorems C08_* (coq/props/C08.v): the executable DP is the optimal edit cost with insertion/deletion roles fixed by the alignment relation (a swap is visible), unit weights give Levenshtein, the value is bounded so no wrap occurs below the stated dtype limits, pdist_loop puts f(x_i,x_j) at m*i+j-(i+2)(i+1)/2 for any f and any collection, cdist_loop at [i][j], calc_pdist_vector is squareform of the self cdist, the index map is a bijection onto 0..m(m-1)/2-1; the loop nests of distance.pdist / cdist are regenerated from the source on every run (store-passing encoding) and proved equal to pdist_loop / cdist_loop for all inputs (C08_source_pdist/_cdist, coq/props/C08g.v).',
         COMMON_NOTE + 'rapidfuzz process.cdist result dtype and values (tied by exhaustive small-domain correspondence), scipy squareform(checks=False).', 'DESIGN.md section 4 C08'),
 'C03': ('Coq proof of SymdelDB.lookup and LookupDB.lookup models (edit ball = breadth-first closure, proved exact), class SymdelDB regenerated from nn.py and proved exact in its three distance modes for any set iteration order, history invariance by induction; differential runs incl. database histories',
         'Theorems C03_* (coq/props/C03.v): two-collection symdel and the hash lookup return exactly {(q,r,d): d = lev(query q, ref r) <= k} once each, including q = r and d = 0; the BFS ball holds exactly the strings within k edits; any lookup history leaves later answers equal to a one-shot search.',
         COMMON_NOTE + 'rapidfuzz distances; LookupDB references over the amino-acid alphabet (its documented domain).', 'DESIGN.md section 4 C03'),
 'C04': ('Coq proof: histogram pre-filter bound (sqdist <= 2k^2 for any bin map), binary64 radius sweep on the regenerated radius expression, kdtree and hash models exact, _generate_neighbors and class LookupDB regenerated from nn.py and proved equal to the model ball / lookup, hence the three engines agree; differential runs of kdtree/hash_based',
         'Theorems C04_* (coq/props/C04.v): lev <= k implies squared histogram distance <= 2k^2 for every letter->bin map; the kdtree model (ball query + exact filter) and the hash model return exactly the C01 set; engines are set-equal; the float64 radius expression regenerated from nn.py admits 2k^2 for every k in 1..4096 in both comparison forms (C04_radius, coq/props/C04r.v, PrimFloat sweep by vm_compute); the one-edit generator used by the hash ball is regenerated from distance.py and proved equal to the model (coq/props/C12g.v).',
         COMMON_NOTE + 'scipy KDTree.query_ball_point returns all points within the radius it is given (float64 radius sqrt(2)*k); rapidfuzz extract.', 'DESIGN.md section 4 C04'),
 'C06': ('Coq proof over the reals: multinomial factorial moments by induction on N, then field on the formulas regenerated from stats.py; exact-rational correspondence and exact enumeration of the expectation on the implementation',
         'Theorems C06_* (coq/props/C06.v): for all N, K and every probability vector, E[pc_n] = sum p^2, E[pc(a,b)] = sum p q, E[varpc_n] = Var(pc) (N >= 4), where pc_n / varpc_n are the functions generated from the source on this run; C06_std: stdpc_n / stdpc (shape regenerated) is the unique non-negative root of varpc_n of the same counts. A changed coefficient breaks the proof.',
         COMMON_NOTE + 'float64 evaluation of the formulas (1e-9); Coq.Reals axioms sig_forall_dec, functional_extensionality_dep; the two-sample estimator formula is hand-written and tied by correspondence.', 'DESIGN.md section 4 C06'),
 'C07': ('Coq proof of Hamming-mode exactness for symdel (self and two-collection), the hash ball and the kdtree bucket search; differential runs over interleaved length classes',
         'Theorems C07_* (coq/props/C07.v): each engine model returns exactly the ordered pairs of distinct input positions with equal length and <= k mismatches, d = number of mismatches; unequal lengths never. Positions are positions of the input list (kdtree buckets are mapped back).',
         COMMON_NOTE + 'rapidfuzz Hamming.distance; scipy KDTree contract; the bucket-to-input position mapping of kdtree is in the executable model and tied by correspondence.', 'DESIGN.md section 4 C07'),
 'C10': ('Coq proof that the COO/dense form of a pair-unique triplet list holds d at [r][q] and 0 elsewhere (combined with the uniqueness theorems), argument-check decision table proved equal to the validator regenerated from nn._check_common_input; differential runs over engines x containers x formats and the invalid-argument product',
         'Theorems C10_* (coq/props/C10.v): dense form exact when no pair repeats (duplicates would be summed - shown), shape, the default engine\'s matrix entry formula, every invalid class rejected by the check model; source ties coq/props/C10g.v (validator as written = decision table) and coq/props/C10h.v (the matrix construction of _make_output as written, made dense, = the model matrix: C10_source_matrix).',
         COMMON_NOTE + 'scipy coo_matrix.toarray sums duplicates; container independence is definitional in the model and carried by correspondence (lists, tuples, arrays, Series with 4 index kinds).', 'DESIGN.md section 4 C10'),
 'C11': ('Coq proof: any chunk size >= 1 and any completion order of a modelled Pool.map give the serial result; chunk-size expression regenerated from nn.py proved >= 1; compression independence from the pre-filter theorem; top-m contract of stable sort + firstn; differential runs with real Pool workers',
         'Theorems C11_* (coq/props/C11.v). any chunk size >= 1 and any completion order give the serial result, the regenerated chunk-size expression is >= 1, compression independence from the pre-filter theorem, top-m contract, and the regenerated float64 radius admits every on-radius pair (C04_radius re-checked here); the custom-distance worker _cal_custom_dist regenerated from nn.py returns exactly the candidates inside both radii, ascending, and with max_returns the first m of them (coq/props/C11h.v, for any total preorder on distances). The scheduler part is partial: the theorem covers every schedule of the modelled pool; that CPython Pool.map meets the contract and fork inheritance are runtime behaviour exercised (not proved) with real processes.',
         COMMON_NOTE + 'multiprocessing.Pool.map ordered-result contract, fork start method, rapidfuzz extract ordering.', 'DESIGN.md section 4 C11'),
 'C12': ('Coq proof that the one-edit generators (with their duplicate-suppression rules) yield exactly the distance-1 strings, each once; BFS closure / next-nearest / set utilities characterised; list-level differential runs (order and duplicates visible)',
         'Theorems C12_* (coq/props/C12.v): levenshtein_neighbors model exact and NoDup for any duplicate-free alphabet, hamming_neighbors for any position list, next_nearest = strings within 1..m steps, find_pairs lists each unordered pair once, neighbor numbers, isdist1; the enumeration loops of _isdist2_hamming / _isdist3_hamming and the cascade of nndist_hamming are modelled and proved equal to the capped minimum (C12_nndist); the source text of levenshtein_neighbors, hamming_neighbors, _isdist2_hamming, _isdist3_hamming is regenerated into Gallina on every run and proved equal, as lists, to the models (C12_source_*, coq/props/C12g.v); isdist1, calculate_neighbor_numbers and the nndist_hamming cascade as written (coq/props/C12h.v); next_nearest_neighbors, find_neighbor_pairs and find_neighbor_pairs_index as written, for every set iteration order (coq/props/C12i.v).',
         COMMON_NOTE + 'Python generator/set semantics; nndist_hamming for references over the amino-acid letters (its documented alphabet).', 'DESIGN.md section 4 C12'),
 'C14': ('Coq proof: every engine model with a custom distance keeps a pair iff lev <= k and custom <= max (generic in the distance), TCRdist glue exact for any tables / CDR3 distance, bundled V tables symmetric with zero diagonal by vm_compute on literals regenerated from the CSVs; differential runs with six custom distances and a vendored pwseqdist stand-in',
         'Theorems C14_* (coq/props/C14.v). Partial for TCRdist: real pwseqdist is absent; what is decided is the glue around it (candidate search, table lookup by row allele, chain sums, threshold, empty result); that glue is also regenerated from nn.py on every run and proved against the model (coq/props/C14h.v: the trimming slice for every ntrim / ctrim, the flat table index, the sum and threshold, the default parameters); the kdtree worker for custom distances as written keeps exactly the candidates inside both radii (coq/props/C11h.v).',
         COMMON_NOTE + 'custom distances symmetric with d(x,x)=0 (stated domain); pandas read_csv/get_indexer; the stand-in CDR3 distance.', 'DESIGN.md section 4 C14'),
 'C16': ('Coq proof: regenerated Chao kernels = closed forms (field/lra over Q), set algebra by NoDup counting, the three overlap measures regenerated from stats.py proved equal to the set measures; differential run of extracted model vs implementation',
         'Theorems C16_* in coq/props/C16.v: the functions generated from stats.py on this run equal the closed forms for every count vector of length >= 1 (no exception path), a defined estimate is >= S_obs for integer counts, and the overlap measures are the stated set cardinalities, symmetric and invariant under order/duplicates.',
         COMMON_NOTE + 'float64 within 1e-9 of the rational; pandas dropna / Python set semantics.', 'DESIGN.md section 4 C16'),
}

def main():
    cdir = os.path.join(ROOT, 'tools', 'claims')
    if os.path.isdir(cdir):
        for f in sorted(os.listdir(cdir)):
            if f.endswith('.json'):
                c = json.load(open(os.path.join(cdir, f)))
                CLAIMED[f[:-5]] = (c['technique'], c['text'], COMMON_NOTE + c['modelled_not_verified'], c.get('design_ref', 'DESIGN.md section 4 ' + f[:-5]))
    checks = []
    for pid in IDS:
        if pid not in CLAIMED:
            continue
        tech, text, note, ref = CLAIMED[pid]
        checks.append(dict(
            property_id=pid,
            quick_cmd='./check %s --tier quick' % pid,
            thorough_cmd='./check %s --tier thorough' % pid,
            evidence_file='/verif/evidence/%s.json' % pid,
            replay_cmd_template='./check %s --replay {path}' % pid,
            engine='coq-proof+correspondence',
            level_claimed=dict(category='proof', text=text, design_ref=ref),
            level_note=note, technique=tech))
    na = [dict(property_id=p, reason='check not built yet in this revision of /verif (planned, see DESIGN.md section 4); nothing is claimed for it')
          for p in IDS if p not in CLAIMED]
    m = dict(
        version=1,
        setup_cmd='./setup.sh',
        hooks=dict(guard='PYREPSEQ_VERIF', enable='no source hooks are needed: every observation is made from outside (return values, exceptions, argument snapshots); the variable is reserved and set by ./check',
                   baseline_off_cmd='cd /repo && /venv/bin/python -m pytest -ra -q -p no:cacheprovider --timeout=900 --continue-on-collection-errors',
                   source_commits=[], add_only=True),
        engines=[dict(name='coq-proof+correspondence', path='/verif/check',
                      serves_properties=[c['property_id'] for c in checks],
                      kind_free_text='Coq 8.16.1 theorems about executable Gallina models (coq/), models of arithmetic kernels regenerated from /repo by translate/, extracted OCaml oracle (build/oracle) run side by side with the implementation by harness/')],
        checks=checks,
        notes='See DESIGN.md. fix: commits in /repo are recorded in known_findings.json.',
        not_applicable=na)
    with open(os.path.join(ROOT, 'MANIFEST.json'), 'w') as f:
        json.dump(m, f, indent=1)

if __name__ == '__main__':
    main()
