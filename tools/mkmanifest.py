#!/usr/bin/env python3
"""Writes MANIFEST.json from the table below (kept in one place so the manifest stays valid)."""
import json, os
ROOT = os.path.dirname(os.path.dirname(os.path.abspath(__file__)))
IDS = ['C%02d' % i for i in range(1, 21)]

# id -> (technique, level text, level note, design ref)
CLAIMED = {
 'C16': ('Coq proof: regenerated Chao kernels = closed forms (field/lra over Q), set algebra by NoDup counting; differential run of extracted model vs implementation',
         'Theorems C16_* in coq/props/C16.v: the functions generated from stats.py on this run equal the closed forms for every count vector of length >= 1 (no exception path), a defined estimate is >= S_obs for integer counts, and the overlap measures are the stated set cardinalities, symmetric and invariant under order/duplicates. Proof is the right level because the claim quantifies over all vectors.',
         'Trusted: Coq kernel; translate/py2coq_arith.py (fail-closed ast translator, output also run against the implementation); extraction; float64 within 1e-9 of the rational; pandas dropna / Python set semantics modelled, exercised by correspondence.',
         'DESIGN.md section 4 C16'),
}

def main():
    checks = []
    for pid in IDS:
        if pid not in CLAIMED:
            continue
        tech, text, note, ref = CLAIMED[pid]
        checks.append(dict(
            property_id=pid,
            quick_cmd='./check %s --tier quick' % pid,
            thorough_cmd='./check %s --tier thorough' % pid,
            evidence_file='/verif/evidence/%s.json' % pid,
            replay_cmd_template='./check %s --replay {path}' % pid,
            engine='coq-proof+correspondence',
            level_claimed=dict(category='proof', text=text, design_ref=ref),
            level_note=note, technique=tech))
    na = [dict(property_id=p, reason='check not built yet in this revision of /verif (planned, see DESIGN.md section 4); nothing is claimed for it')
          for p in IDS if p not in CLAIMED]
    m = dict(
        version=1,
        setup_cmd='./setup.sh',
        hooks=dict(guard='PYREPSEQ_VERIF', enable='no source hooks are needed: every observation is made from outside (return values, exceptions, argument snapshots); the variable is reserved and set by ./check',
                   baseline_off_cmd='cd /repo && /venv/bin/python -m pytest -ra -q -p no:cacheprovider --timeout=900 --continue-on-collection-errors',
                   source_commits=[], add_only=True),
        engines=[dict(name='coq-proof+correspondence', path='/verif/check',
                      serves_properties=[c['property_id'] for c in checks],
                      kind_free_text='Coq 8.16.1 theorems about executable Gallina models (coq/), models of arithmetic kernels regenerated from /repo by translate/, extracted OCaml oracle (build/oracle) run side by side with the implementation by harness/')],
        checks=checks,
        notes='See DESIGN.md. fix: commits in /repo are recorded in known_findings.json.',
        not_applicable=na)
    with open(os.path.join(ROOT, 'MANIFEST.json'), 'w') as f:
        json.dump(m, f, indent=1)

if __name__ == '__main__':
    main()
