#!/usr/bin/env python3
"""tools/reseed.py <Cxx> [<Cxx> ...] --wt <scratch worktree of /repo at HEAD> --verif <copy of /verif> [--only-breaking | --only-harmless]

Replays the stored seeded changes of the named properties (seeded/<id>/patch.diff) against the CURRENT checks: every breaking change must be
reported, every harmless rewrite must stay silent.  Used after a translator / harness was corrected, to see that nothing reported before slipped
through.  A patch that no longer applies to the current tree (it was written against an earlier /repo commit: see its base_note) is listed and
skipped.  Results are appended to the `reruns` of each meta.json; a summary is printed (exit 1 if something regressed)."""
import argparse, glob, json, os, subprocess, sys, time
ROOT = os.path.dirname(os.path.dirname(os.path.abspath(__file__)))


def sh(cmd, cwd=None, env=None, timeout=3000):
    e = dict(os.environ)
    e.update(env or {})
    p = subprocess.run(cmd, cwd=cwd, env=e, capture_output=True, text=True, timeout=timeout)
    return p.returncode, p.stdout + p.stderr


def main():
    ap = argparse.ArgumentParser()
    ap.add_argument('pids', nargs='+')
    ap.add_argument('--wt', required=True)
    ap.add_argument('--verif', required=True)
    ap.add_argument('--only-breaking', action='store_true')
    ap.add_argument('--only-harmless', action='store_true')
    ap.add_argument('--ids', default=None, help='comma-separated seeded ids: only these')
    ap.add_argument('--note', default='replayed after the machinery was corrected')
    a = ap.parse_args()
    bad, skipped, ok = [], [], 0
    for pid in a.pids:
        for d in sorted(glob.glob(os.path.join(ROOT, 'seeded', pid + '-*'))):
            mp, patch = os.path.join(d, 'meta.json'), os.path.join(d, 'patch.diff')
            if not (os.path.exists(mp) and os.path.exists(patch)):
                continue
            meta = json.load(open(mp))
            harmless = bool(meta.get('harmless'))
            if (a.only_breaking and harmless) or (a.only_harmless and not harmless):
                continue
            sid = os.path.basename(d)
            if a.ids and sid not in a.ids.split(','):
                continue
            sh(['git', 'checkout', '--', '.'], cwd=a.wt)
            sh(['git', 'clean', '-fdq'], cwd=a.wt)
            rc, out = sh(['git', 'apply', patch], cwd=a.wt)
            if rc != 0:
                rc, out = sh(['git', 'apply', '-C1', patch], cwd=a.wt)
            if rc != 0:
                skipped.append(sid)
                print('%s: patch does not apply to the current tree (skipped)' % sid, flush=True)
                continue
            # every check that was ever run against this change (the property's own, and the check that owns the clause when another one does)
            checks = list((meta.get('checks_run') or {}).keys())
            for rr in meta.get('reruns') or []:
                checks += [c for c in (rr.get('checks') or {}) if c not in checks]
            checks = checks or [pid]
            res = {}
            try:
                for c in checks:
                    t0 = time.time()
                    rc, out = sh(['./check', c, '--tier', 'quick'], cwd=a.verif, env=dict(PV_REPO=a.wt, VERIF_SEED=os.environ.get('VERIF_SEED', '0')))
                    v = [l for l in out.split('\n') if l.startswith('VIOLATION')]
                    res[c] = dict(exit=rc, violation_line=v[0] if v else None, wall=round(time.time() - t0, 1))
            finally:
                sh(['git', 'checkout', '--', '.'], cwd=a.wt)
                sh(['git', 'clean', '-fdq'], cwd=a.wt)
            reported = any(r['violation_line'] for r in res.values())
            good = (not reported) if harmless else reported
            meta.setdefault('reruns', []).append(dict(note=a.note, checks=res))
            if harmless:
                meta['silent'] = not reported
            else:
                meta['caught'] = bool(reported)
            json.dump(meta, open(mp, 'w'), indent=1)
            print('%s: %s %s' % (sid, 'harmless' if harmless else 'breaking', 'ok' if good else ('FALSE ALARM' if harmless else 'NOT REPORTED')),
                  {c: r['violation_line'] and r['violation_line'][:90] for c, r in res.items()}, flush=True)
            if good:
                ok += 1
            else:
                bad.append(sid)
    print('replayed ok: %d; regressed: %s; skipped (do not apply): %s' % (ok, bad, skipped))
    sys.exit(1 if bad else 0)


if __name__ == '__main__':
    main()
