#!/usr/bin/env python3
"""Renders seeded/*/meta.json as the markdown table of DESIGN.md section 9."""
import glob, json, os
ROOT = os.path.dirname(os.path.dirname(os.path.abspath(__file__)))
rows = []
for f in sorted(glob.glob(os.path.join(ROOT, 'seeded', '*', 'meta.json'))):
    m = json.load(open(f))
    sid = os.path.basename(os.path.dirname(f))
    first = all(v.get('violation_line') for v in m['checks_run'].values())
    line = next((v['violation_line'] for v in m['checks_run'].values() if v.get('violation_line')), None)
    how = 'caught as built' if first else ('caught after strengthening: ' + m['reruns'][-1]['note'] if m.get('caught') and m.get('reruns') else 'MISSED')
    if m.get('reruns'):
        line = next((v['violation_line'] for r in m['reruns'] for v in r['checks'].values() if v.get('violation_line')), line)
    concrete = 'concrete input' if line and 'no-failing-input-found' not in line else ('proof/correspondence break only' if line else '-')
    summ = (m.get('summary') or '').replace('\n', ' ').replace('|', '/')
    need = (m.get('needs_to_manifest') or '').replace('\n', ' ').replace('|', '/')
    rows.append('| %s | %s | %s | %s (%s) |' % (sid, summ[:260], need[:200], how, concrete))
table = '| id | change | needs, to manifest | outcome |\n|---|---|---|---|\n' + '\n'.join(rows)
import sys
if '--update-design' in sys.argv:
    dp = os.path.join(ROOT, 'DESIGN.md')
    s = open(dp).read()
    a, b = s.index('<!-- seeded-table:begin -->') + len('<!-- seeded-table:begin -->'), s.index('<!-- seeded-table:end -->')
    open(dp, 'w').write(s[:a] + '\n' + table + '\n' + s[b:])
else:
    print(table)
