#!/usr/bin/env python3
"""Renders seeded/*/meta.json as the markdown table of DESIGN.md section 9."""
import glob, json, os
ROOT = os.path.dirname(os.path.dirname(os.path.abspath(__file__)))
rows = []
harmless_rows = []
for f in sorted(glob.glob(os.path.join(ROOT, 'seeded', '*', 'meta.json'))):
    m = json.load(open(f))
    sid = os.path.basename(os.path.dirname(f))
    if m.get('harmless'):
        silent0 = all(v.get('exit') == 0 and not v.get('violation_line') for v in m['checks_run'].values())
        notes = '; '.join('%s: %s' % (k, v) for c in m['checks_run'].values() for k, v in (c.get('regen_notes') or {}).items())
        if silent0:
            how = 'silent as built'
        elif m.get('silent') and m.get('reruns'):
            how = 'FALSE ALARM at first (%s); silent after the machinery was corrected: %s' % (
                next((v.get('violation_line') or 'exit %s' % v.get('exit') for v in m['checks_run'].values() if v.get('violation_line') or v.get('exit')), ''), m['reruns'][-1]['note'])
        else:
            how = 'ALARM (false alarm, open)'
        harmless_rows.append('| %s | %s (%s) | %s%s |' % (sid, (m.get('summary') or '').replace('\n', ' ').replace('|', '/')[:300], m.get('kind'), how,
                                                       (' - ' + notes[:200]) if notes else ''))
        continue
    first = all(v.get('violation_line') for v in m['checks_run'].values())
    line = next((v['violation_line'] for v in m['checks_run'].values() if v.get('violation_line')), None)
    how = 'caught as built' if first else ('caught after strengthening: ' + m['reruns'][-1]['note'] if m.get('caught') and m.get('reruns') else 'MISSED')
    if m.get('reruns'):
        line = next((v['violation_line'] for r in m['reruns'] for v in r['checks'].values() if v.get('violation_line')), line)
    concrete = 'concrete input' if line and 'no-failing-input-found' not in line else ('proof/correspondence break only' if line else '-')
    summ = (m.get('summary') or '').replace('\n', ' ').replace('|', '/')
    need = (m.get('needs_to_manifest') or '').replace('\n', ' ').replace('|', '/')
    rows.append('| %s | %s | %s | %s (%s) |' % (sid, summ[:260], need[:200], how, concrete))
table = '| id | change | needs, to manifest | outcome |\n|---|---|---|---|\n' + '\n'.join(rows)
if harmless_rows:
    table += ('\n\nProperty-preserving rewrites (written by sub-agents that saw only the property text; each confirmed by its own equivalence '
              'script and the 71 baseline tests): the check must stay silent.\n\n| id | rewrite | outcome |\n|---|---|---|\n' + '\n'.join(harmless_rows))
import sys
if '--update-design' in sys.argv:
    dp = os.path.join(ROOT, 'DESIGN.md')
    s = open(dp).read()
    a, b = s.index('<!-- seeded-table:begin -->') + len('<!-- seeded-table:begin -->'), s.index('<!-- seeded-table:end -->')
    open(dp, 'w').write(s[:a] + '\n' + table + '\n' + s[b:])
else:
    print(table)
