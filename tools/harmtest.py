#!/usr/bin/env python3
"""tools/harmtest.py <Cxx> <N> [--verif DIR] [--checks C01,C03]

Runs a property-PRESERVING rewrite (/tmp/mut/<Cxx>/outh/h<N>.diff + h<N>_equiv.py) against this framework's check(s): the check
must stay silent.  Confirms first that the rewrite keeps the 71 baseline tests passing and that its own equivalence script
exits 0.  Results are stored as seeded/<Cxx>-h<N>/{patch.diff, equiv.py, meta.json}."""
import argparse, json, os, re, shutil, subprocess, sys, time
ROOT = os.path.dirname(os.path.dirname(os.path.abspath(__file__)))
PY = '/venv/bin/python'


def sh(cmd, cwd=None, env=None, timeout=3000):
    e = dict(os.environ)
    e.update(env or {})
    p = subprocess.run(cmd, cwd=cwd, env=e, capture_output=True, text=True, timeout=timeout)
    return p.returncode, p.stdout + p.stderr


def main():
    ap = argparse.ArgumentParser()
    ap.add_argument('pid')
    ap.add_argument('n')
    ap.add_argument('--verif', default=ROOT)
    ap.add_argument('--checks', default=None)
    ap.add_argument('--skip-confirm', action='store_true')
    ap.add_argument('--round', default='1', help="'2': the second set of harmless rewrites (wth2 / outh2, stored as <Cxx>-g<N>)")
    a = ap.parse_args()
    base = '/tmp/mut/%s' % a.pid
    wt, outd, tag = {'2': (base + '/wth2', base + '/outh2', 'g'), '3': (base + '/wth3', base + '/outh3', 'k')}.get(a.round, (base + '/wt', base + '/outh', 'h'))
    diff = '%s/h%s.diff' % (outd, a.n)
    equiv, meta_in = '%s/h%s_equiv.py' % (outd, a.n), '%s/h%s.json' % (outd, a.n)
    env = dict(PYTHONPATH=wt, PYTHONHASHSEED='0', MPLBACKEND='Agg')
    res = dict(property=a.pid, rewrite='%s%s' % (tag, a.n))
    sh(['git', 'checkout', '--', '.'], cwd=wt)
    rc, out = sh(['git', 'apply', diff], cwd=wt)
    if rc != 0:
        print('patch does not apply:', out)
        sys.exit(2)
    try:
        if not a.skip_confirm:
            rc, out = sh([PY, equiv], cwd=wt, env=env, timeout=900)
            res['equiv_exit'] = rc
            rc, out = sh([PY, '-m', 'pytest', '-q', '-p', 'no:cacheprovider', '--timeout=900', '--continue-on-collection-errors'], cwd=wt, env=env, timeout=1800)
            m = re.search(r'(\d+) passed', out)
            res['tests_passed'] = int(m.group(1)) if m else 0
        res['checks'] = {}
        for pid in (a.checks.split(',') if a.checks else [a.pid]):
            t0 = time.time()
            rc, out = sh(['./check', pid, '--tier', 'quick'], cwd=a.verif, env=dict(PV_REPO=wt, VERIF_SEED=os.environ.get('VERIF_SEED', '0')))
            v = [l for l in out.split('\n') if l.startswith('VIOLATION')]
            res['checks'][pid] = dict(exit=rc, violation=v[0] if v else None, wall=round(time.time() - t0, 1),
                                      detail=out[out.index('VIOLATION'):][:900] if v else out.strip().split('\n')[-1])
            if not v and rc == 0:
                try:
                    ev = json.load(open(os.path.join(a.verif, 'evidence', pid + '.json')))
                    res['checks'][pid]['regen'] = {k: s for k, s in ev['coverage'].get('regen_status', {}).items() if s != 'ok'}
                except Exception:
                    pass
    finally:
        sh(['git', 'checkout', '--', '.'], cwd=wt)
    res['confirmed_harmless'] = a.skip_confirm or (res.get('equiv_exit') == 0 and res.get('tests_passed', 0) >= 71)
    res['silent'] = all(c['exit'] == 0 and not c['violation'] for c in res['checks'].values())
    print(json.dumps(res, indent=1))
    d = os.path.join(ROOT, 'seeded', '%s-%s%s' % (a.pid, tag, a.n))
    mp = os.path.join(d, 'meta.json')
    if a.skip_confirm and os.path.exists(mp):
        meta = json.load(open(mp))
        meta.setdefault('reruns', []).append(dict(note=os.environ.get('MUT_NOTE', 're-run'), checks={k: dict(exit=v['exit'], violation_line=v['violation']) for k, v in res['checks'].items()}))
        meta['silent'] = res['silent']
        json.dump(meta, open(mp, 'w'), indent=1)
    elif res['confirmed_harmless'] and not a.skip_confirm:
        os.makedirs(d, exist_ok=True)
        shutil.copy(diff, os.path.join(d, 'patch.diff'))
        shutil.copy(equiv, os.path.join(d, 'equiv.py'))
        mi = json.load(open(meta_in)) if os.path.exists(meta_in) else {}
        json.dump(dict(property=a.pid, harmless=True, summary=mi.get('summary'), kind=mi.get('kind'), why_equivalent=mi.get('why_equivalent'),
                       confirmed=dict(equivalence_script_exit=res['equiv_exit'], baseline_tests_passed_with_change=res['tests_passed'],
                                      how='applied in a scratch worktree of /repo, ran the equivalence script and the pinned pytest command there, reverted'),
                       checks_run={k: dict(cmd='PV_REPO=<scratch worktree with the rewrite> ./check %s --tier quick' % k, exit=v['exit'], violation_line=v['violation'],
                                           regen_notes=v.get('regen')) for k, v in res['checks'].items()},
                       silent=res['silent']), open(mp, 'w'), indent=1)


if __name__ == '__main__':
    main()
