#!/usr/bin/env python3
"""tools/muttest.py <Cxx> <N> [--verif DIR] [--keep] [--tier quick]

Confirms a seeded mutation (/tmp/mut/<Cxx>/out/m<N>.diff + m<N>_demo.py) in the scratch worktree /tmp/mut/<Cxx>/wt
(demo passes on the clean tree, fails with the change, the 71 baseline tests still pass), then runs this framework's
check for the property against the mutated worktree (PV_REPO) and records whether it raised the alarm.
Confirmed mutations are stored as seeded/<Cxx>-m<N>/{patch.diff, demo.py, meta.json}."""
import argparse, json, os, re, shutil, subprocess, sys, time

ROOT = os.path.dirname(os.path.dirname(os.path.abspath(__file__)))
PY = '/venv/bin/python'


def sh(cmd, cwd=None, env=None, timeout=3000):
    e = dict(os.environ)
    e.update(env or {})
    p = subprocess.run(cmd, cwd=cwd, env=e, capture_output=True, text=True, timeout=timeout, shell=isinstance(cmd, str))
    return p.returncode, p.stdout + p.stderr


def main():
    ap = argparse.ArgumentParser()
    ap.add_argument('pid')
    ap.add_argument('n')
    ap.add_argument('--verif', default=ROOT)
    ap.add_argument('--tier', default='quick')
    ap.add_argument('--checks', default=None, help='comma separated property ids to run (default: the mutation\'s own)')
    ap.add_argument('--skip-confirm', action='store_true')
    ap.add_argument('--round', default='1')
    a = ap.parse_args()
    base = '/tmp/mut/%s' % a.pid
    wt = base + ('/wt' + a.round if a.round in ('4', '5', '6', '7', '8', '9') else '/wt')
    od = 'out' if a.round == '1' else 'out' + a.round
    tag = 'm' if a.round == '1' else 'r%sm' % a.round
    diff = '%s/%s/m%s.diff' % (base, od, a.n)
    demo = '%s/%s/m%s_demo.py' % (base, od, a.n)
    meta_in = '%s/%s/m%s.json' % (base, od, a.n)
    env = dict(PYTHONPATH=wt, PYTHONHASHSEED='0', MPLBACKEND='Agg')
    res = dict(property=a.pid, mutation='%s%s' % (tag, a.n))
    sh(['git', 'checkout', '--', '.'], cwd=wt)
    rc, out = sh(['git', 'status', '--short'], cwd=wt)
    assert out.strip() == '', 'worktree not clean: ' + out
    if not a.skip_confirm:
        rc, out = sh([PY, demo], cwd=wt, env=env, timeout=600)
        res['demo_clean_exit'] = rc
    rc, out = sh(['git', 'apply', diff], cwd=wt)
    if rc != 0:
        print('patch does not apply:', out)
        sys.exit(2)
    try:
        if not a.skip_confirm:
            rc, out = sh([PY, demo], cwd=wt, env=env, timeout=600)
            res['demo_mutated_exit'] = rc
            res['demo_mutated_tail'] = out[-400:]
            rc, out = sh([PY, '-m', 'pytest', '-q', '-p', 'no:cacheprovider', '--timeout=900', '--continue-on-collection-errors'],
                         cwd=wt, env=env, timeout=1800)
            m = re.search(r'(\d+) passed', out)
            res['tests_passed'] = int(m.group(1)) if m else 0
            res['tests_tail'] = out.strip().split('\n')[-1]
        res['checks'] = {}
        for pid in (a.checks.split(',') if a.checks else [a.pid]):
            t0 = time.time()
            rc, out = sh(['./check', pid, '--tier', a.tier], cwd=a.verif, env=dict(PV_REPO=wt, VERIF_SEED=os.environ.get('VERIF_SEED', '0')))
            v = [l for l in out.split('\n') if l.startswith('VIOLATION')]
            res['checks'][pid] = dict(exit=rc, violation=v[0] if v else None, wall=round(time.time() - t0, 1),
                                      detail=out.strip().split('\n')[-3:] if not v else out[out.index('VIOLATION'):][:700])
    finally:
        sh(['git', 'checkout', '--', '.'], cwd=wt)
        # restore generated files / proofs for the clean tree
    confirmed = a.skip_confirm or (res.get('demo_clean_exit') == 0 and res.get('demo_mutated_exit', 0) != 0 and res.get('tests_passed', 0) >= 71)   # an environment-failing test may start to pass (72)
    res['confirmed'] = confirmed
    caught = any(c['violation'] for c in res['checks'].values())
    res['caught'] = caught
    print(json.dumps(res, indent=1))
    d0 = os.path.join(ROOT, 'seeded', '%s-%s%s' % (a.pid, tag, a.n), 'meta.json')
    if a.skip_confirm and os.path.exists(d0):
        meta = json.load(open(d0))
        meta.setdefault('reruns', []).append(dict(note=os.environ.get('MUT_NOTE', 're-run after the check was strengthened'),
                                                  checks={k: dict(exit=v['exit'], violation_line=v['violation']) for k, v in res['checks'].items()}))
        meta['caught'] = meta.get('caught') or caught
        json.dump(meta, open(d0, 'w'), indent=1)
    if confirmed and not a.skip_confirm:
        d = os.path.join(ROOT, 'seeded', '%s-%s%s' % (a.pid, tag, a.n))
        os.makedirs(d, exist_ok=True)
        shutil.copy(diff, os.path.join(d, 'patch.diff'))
        shutil.copy(demo, os.path.join(d, 'demo.py'))
        mi = json.load(open(meta_in)) if os.path.exists(meta_in) else {}
        meta = dict(property=a.pid, summary=mi.get('summary'), needs_to_manifest=mi.get('needs_to_manifest'), files=mi.get('files'),
                    confirmed=dict(demo_unchanged_exit=res['demo_clean_exit'], demo_mutated_exit=res['demo_mutated_exit'],
                                   baseline_tests_passed_with_change=res['tests_passed'],
                                   how='applied in a scratch worktree of /repo (git apply), ran the demo and the pinned pytest command there, reverted'),
                    checks_run={k: dict(cmd='PV_REPO=<scratch worktree with the change> ./check %s --tier %s' % (k, a.tier), exit=v['exit'],
                                        violation_line=v['violation']) for k, v in res['checks'].items()},
                    caught=caught)
        json.dump(meta, open(os.path.join(d, 'meta.json'), 'w'), indent=1)


if __name__ == '__main__':
    main()
