"""C10: regenerate coq/gen/Gen_c10b.v from the SOURCE TEXT of the matrix construction in pyrepseq/nn.py `_make_output` (fail-closed):

      if output_type == "triplets": ...                                (the dispatch itself is read by regen_c10.py)
      ROW, COL, DATA = [], [], []
      for T in triplets:
          ROW += [T[a]]; COL += [T[b]]; DATA += [T[c]]                  (three statements in any order; `X.append(T[i])` accepted too)
      shape = (len(seqs), len(seqs)) if seqs2 is None else (len(seqs), len(seqs2))
      R = coo_matrix((DATA', (ROW', COL')), shape=shape)                (whichever accumulators are handed over in the three places)
      return R if output_type == "coo_matrix" else R.toarray()

  -> gen_make_output_coo triplets len_seqs len_seqs2 = (shape, (data, (row, col))) exactly as handed to coo_matrix.
Vocabulary (trusted, DESIGN section 3): `coo_matrix((data, (row, col)), shape)` stores data[k] at [row[k], col[k]] and `.toarray()` adds
entries with equal coordinates (`coo_toarray` in model/CooMatrix.v).  coq/proofs/GenOutputP.v proves the dense form of the generated
construction equal to the model's `coo_dense` for every triplet list, so C10_dense_exact speaks about the construction as written.
Anything else is refused; on refusal the committed snapshot is written and the refusal recorded (DESIGN.md 1.5)."""
import ast, os, traceback

NAME = 'nn._make_output[matrix]'
PROPS = ['C10']
U = ast.unparse


class Refuse(Exception):
    pass


COMP = {0: 'fst (fst t_)', 1: 'snd (fst t_)', 2: 'snd t_'}


def translate(fn):
    names = [a.arg for a in fn.args.args]
    if names != ['triplets', 'output_type', 'seqs', 'seqs2'] or [U(d) for d in fn.args.defaults] != ['None']:
        raise Refuse('_make_output: unexpected signature %s' % names)
    b = [s for s in fn.body if not (isinstance(s, ast.Expr) and isinstance(s.value, ast.Constant))]
    if len(b) != 6:
        raise Refuse('_make_output: expected 6 statements, got %d' % len(b))
    first, init, loop, shp, build, ret = b
    if not (isinstance(first, ast.If) and U(first.test) in ("output_type == 'triplets'", '"triplets" == output_type')):
        raise Refuse('_make_output: does not start with the triplets branch')
    # accumulators
    if not (isinstance(init, ast.Assign) and len(init.targets) == 1 and isinstance(init.targets[0], ast.Tuple) and len(init.targets[0].elts) == 3
            and all(isinstance(e, ast.Name) for e in init.targets[0].elts) and U(init.value) == '([], [], [])'):
        raise Refuse('_make_output: accumulators are not initialised as three empty lists: %s' % U(init)[:80])
    accs = [e.id for e in init.targets[0].elts]
    if len(set(accs)) != 3:
        raise Refuse('_make_output: accumulator names coincide')
    if not (isinstance(loop, ast.For) and not loop.orelse and isinstance(loop.target, ast.Name) and U(loop.iter) == 'triplets' and len(loop.body) == 3):
        raise Refuse('_make_output: loop is not `for t in triplets` with three statements')
    T = loop.target.id
    comp = {}
    for s in loop.body:
        if isinstance(s, ast.AugAssign) and isinstance(s.op, ast.Add) and isinstance(s.target, ast.Name) and isinstance(s.value, ast.List) \
                and len(s.value.elts) == 1:
            acc, e = s.target.id, s.value.elts[0]
        elif isinstance(s, ast.Expr) and isinstance(s.value, ast.Call) and isinstance(s.value.func, ast.Attribute) and s.value.func.attr == 'append' \
                and isinstance(s.value.func.value, ast.Name) and len(s.value.args) == 1 and not s.value.keywords:
            acc, e = s.value.func.value.id, s.value.args[0]
        else:
            raise Refuse('_make_output: loop statement not understood: %s' % U(s)[:60])
        if not (isinstance(e, ast.Subscript) and U(e.value) == T and isinstance(e.slice, ast.Constant) and e.slice.value in (0, 1, 2)
                and type(e.slice.value) is int):
            raise Refuse('_make_output: element is not a component of the triplet: %s' % U(e)[:60])
        if acc not in accs or acc in comp:
            raise Refuse('_make_output: accumulator %s extended twice / unknown' % acc)
        comp[acc] = e.slice.value
    # shape
    if not (isinstance(shp, ast.Assign) and U(shp.targets[0]) == 'shape' and isinstance(shp.value, ast.IfExp)):
        raise Refuse('_make_output: shape is not a conditional expression')
    test, a_, b_ = U(shp.value.test), shp.value.body, shp.value.orelse
    if test == 'seqs2 is None':
        none_e, some_e = a_, b_
    elif test == 'seqs2 is not None':
        none_e, some_e = b_, a_
    else:
        raise Refuse('_make_output: shape does not test seqs2 against None: %s' % test)

    def dims(e, allow2):
        if not (isinstance(e, ast.Tuple) and len(e.elts) == 2):
            raise Refuse('_make_output: shape is not a pair: %s' % U(e)[:60])
        out = []
        for d in e.elts:
            if U(d) == 'len(seqs)':
                out.append('len_seqs')
            elif U(d) == 'len(seqs2)' and allow2:
                out.append('m_')
            else:
                raise Refuse('_make_output: shape dimension not understood: %s' % U(d)[:60])
        return out
    sn, ss = dims(none_e, False), dims(some_e, True)
    # coo_matrix((data, (row, col)), shape=shape)
    if not (isinstance(build, ast.Assign) and len(build.targets) == 1 and isinstance(build.targets[0], ast.Name) and isinstance(build.value, ast.Call)
            and U(build.value.func) in ('coo_matrix', 'scipy.sparse.coo_matrix') and len(build.value.args) == 1):
        raise Refuse('_make_output: matrix is not built by coo_matrix(..): %s' % U(build)[:80])
    kws = {k.arg: U(k.value) for k in build.value.keywords}
    if kws != {'shape': 'shape'}:
        raise Refuse('_make_output: coo_matrix keywords are not shape=shape: %s' % kws)
    arg = build.value.args[0]
    if not (isinstance(arg, ast.Tuple) and len(arg.elts) == 2 and isinstance(arg.elts[0], ast.Name) and isinstance(arg.elts[1], ast.Tuple)
            and len(arg.elts[1].elts) == 2 and all(isinstance(e, ast.Name) for e in arg.elts[1].elts)):
        raise Refuse('_make_output: coo_matrix argument is not (data, (row, col))')
    given = [arg.elts[0].id, arg.elts[1].elts[0].id, arg.elts[1].elts[1].id]
    if any(g not in comp for g in given):
        raise Refuse('_make_output: coo_matrix is handed something else than the accumulators')
    R = build.targets[0].id
    if U(ret) not in ("return %s if output_type == 'coo_matrix' else %s.toarray()" % (R, R),
                      "return %s.toarray() if output_type != 'coo_matrix' else %s" % (R, R),
                      "return %s.toarray() if output_type == 'ndarray' else %s" % (R, R)):
        raise Refuse('_make_output: return is not the sparse matrix / its dense form: %s' % U(ret)[:100])
    return dict(d=COMP[comp[given[0]]], r=COMP[comp[given[1]]], c=COMP[comp[given[2]]], sn0=sn[0], sn1=sn[1], ss0=ss[0], ss1=ss[1])


TEMPLATE = '''Definition gen_make_output_coo (triplets : list (nat * nat * Z)) (len_seqs : nat) (len_seqs2 : option nat)
  : (nat * nat) * (list Z * (list nat * list nat)) :=
  let acc := fold_left (fun (st : list Z * (list nat * list nat)) (t_ : nat * nat * Z) =>
                          (fst st ++ [%(d)s], (fst (snd st) ++ [%(r)s], snd (snd st) ++ [%(c)s])))
                       triplets ([], ([], [])) in
  let shape := match len_seqs2 with None => (%(sn0)s, %(sn1)s) | Some m_ => (%(ss0)s, %(ss1)s) end in
  (shape, acc).
'''
SNAP = dict(d='snd t_', r='snd (fst t_)', c='fst (fst t_)', sn0='len_seqs', sn1='len_seqs', ss0='len_seqs', ss1='m_')


def run(STATUS, write_if_changed, ROOT, REPO):
    head = ['(* GENERATED from pyrepseq/nn.py (_make_output: the matrix construction) by translate/regen_c10b.py on every check; do not edit. *)',
            'From Coq Require Import List ZArith Arith.', 'Import ListNotations.', '']
    try:
        tree = ast.parse(open(os.path.join(REPO, 'pyrepseq', 'nn.py')).read())
        fn = next((n for n in tree.body if isinstance(n, ast.FunctionDef) and n.name == '_make_output'), None)
        if fn is None:
            raise Refuse('function _make_output not found')
        txt = TEMPLATE % translate(fn)
        STATUS[NAME] = dict(ok=True, properties=PROPS, error=None)
    except Refuse as e:
        txt = '(* translator refused: %s -- committed snapshot of the last good text *)\n' % str(e).replace('*)', '* )') + TEMPLATE % SNAP
        STATUS[NAME] = dict(ok=True, snapshot=True, properties=PROPS,
                            error='regen unavailable (%s): committed snapshot used, tie by correspondence' % str(e)[:200])
    except Exception:
        txt = '(* translator crashed -- committed snapshot *)\n' + TEMPLATE % SNAP
        STATUS[NAME] = dict(ok=True, snapshot=True, properties=PROPS,
                            error='regen unavailable (translator error on text outside its subset: %s): committed snapshot used, tie by correspondence' % traceback.format_exc()[-200:].replace('\n', ' '))
    write_if_changed(os.path.join(ROOT, 'coq/gen/Gen_c10b.v'), '\n'.join(head) + txt)
