"""C13: regenerate coq/gen/Gen_c13b.v from the SOURCE TEXT of the weighting tail of pyrepseq/stats.py `pc_conditional` (fail-closed):
      if group_weights is None: group_weights = np.ones(len(df[by].value_counts()))      -> gen_cond_default_weights n = repeat 1 n
      else: group_weights = np.asarray(group_weights)                                    (the same numbers)
      adjusted_group_weights = <elementwise E1 over group_weights> / np.sum(<elementwise E2 over group_weights>)
      return np.sum(adjusted_group_weights * conditional_pcs)          (factors in either order)
  with E1, E2 arithmetic over one weight (py2coq_arith: + - * /, ** n, literals).  coq/proofs/GenCondP.v proves the generated mean equal
  to the model's w^2-weighted mean (model/Grouped.v) for all weight / value vectors of equal length.
Anything else is refused; on refusal the committed snapshot is written and the refusal recorded (DESIGN.md 1.5)."""
import ast, os, sys, traceback
HERE = os.path.dirname(os.path.abspath(__file__))
sys.path.insert(0, HERE)
import py2coq_arith as A

NAME = 'stats.pc_conditional[weights]'
PROPS = ['C13']
U = ast.unparse


class Refuse(Exception):
    pass


def translate(fn):
    if [a.arg for a in fn.args.args][:4] != ['df', 'by', 'on', 'group_weights']:
        raise Refuse('pc_conditional: unexpected signature')
    b = [s for s in fn.body if not (isinstance(s, ast.Expr) and isinstance(s.value, ast.Constant))]
    if len(b) < 3:
        raise Refuse('pc_conditional: too short')
    sel, adj, ret = b[-3], b[-2], b[-1]
    W = 'group_weights'
    if not (isinstance(sel, ast.If) and U(sel.test) == '%s is None' % W and len(sel.body) == 1 and len(sel.orelse) == 1):
        raise Refuse('pc_conditional: default-weight selection is not `if group_weights is None: .. else: ..`')
    if U(sel.body[0]) not in ('%s = np.ones(len(df[by].value_counts()))' % W, '%s = np.ones(len(conditional_pcs))' % W):
        raise Refuse('pc_conditional: default weights are not one per group: %s' % U(sel.body[0])[:100])
    if U(sel.orelse[0]) not in ('%s = np.asarray(%s)' % (W, W), '%s = np.array(%s)' % (W, W), '%s = np.asarray(%s, dtype=float)' % (W, W)):
        raise Refuse('pc_conditional: given weights are not taken as they are: %s' % U(sel.orelse[0])[:100])
    if not (isinstance(adj, ast.Assign) and len(adj.targets) == 1 and isinstance(adj.targets[0], ast.Name) and isinstance(adj.value, ast.BinOp)
            and isinstance(adj.value.op, ast.Div)):
        raise Refuse('pc_conditional: adjusted weights are not a quotient')
    Aname = adj.targets[0].id
    num, den = adj.value.left, adj.value.right
    if not (isinstance(den, ast.Call) and A._is_np(den.func, 'sum') and len(den.args) == 1 and not den.keywords):
        raise Refuse('pc_conditional: normaliser is not np.sum(..)')
    f = ast.parse('def f(%s):\n    pass' % W).body[0]
    ex = A.ExprFn(f)
    ex.dens = []
    try:
        e1 = ex.scalar(num, {}, 'Q', elem='w_')
        e2 = ex.scalar(den.args[0], {}, 'Q', elem='w_')
    except A.TranslateError as e:
        raise Refuse('pc_conditional: weight expression: %s' % e)
    for node in (num, den.args[0]):
        if any(isinstance(n, ast.Name) and n.id not in (W, 'np') for n in ast.walk(node)):
            raise Refuse('pc_conditional: weight expression reads something else than the weights')
    if not (isinstance(ret, ast.Return) and isinstance(ret.value, ast.Call) and A._is_np(ret.value.func, 'sum') and len(ret.value.args) == 1
            and isinstance(ret.value.args[0], ast.BinOp) and isinstance(ret.value.args[0].op, ast.Mult)
            and sorted([U(ret.value.args[0].left), U(ret.value.args[0].right)]) == sorted([Aname, 'conditional_pcs'])):
        raise Refuse('pc_conditional: result is not np.sum(adjusted * conditional_pcs): %s' % U(ret)[:100])
    return e1, e2


TEMPLATE = '''Definition gen_cond_default_weights (ngroups : nat) : list Q := repeat 1 ngroups.
Definition gen_cond_mean (group_weights conditional_pcs : list Q) : Q :=
  let norm := sumQ (map (fun w_ => %s) group_weights) in
  let adjusted_group_weights := map (fun w_ => %s / norm) group_weights in
  sumQ (map (fun wp => fst wp * snd wp) (combine adjusted_group_weights conditional_pcs)).
'''
SNAP = ('(w_ ^ 2)', '(w_ ^ 2)')


def run(STATUS, write_if_changed, ROOT, REPO):
    head = ['(* GENERATED from pyrepseq/stats.py (pc_conditional: weighting tail) by translate/regen_c13b.py on every check; do not edit. *)',
            'From Coq Require Import List QArith.', 'From PV Require Import lib.Val.', 'Import ListNotations.', 'Open Scope Q_scope.', '']
    try:
        tree = ast.parse(open(os.path.join(REPO, 'pyrepseq', 'stats.py')).read())
        fn = next((n for n in tree.body if isinstance(n, ast.FunctionDef) and n.name == 'pc_conditional'), None)
        if fn is None:
            raise Refuse('function pc_conditional not found')
        e1, e2 = translate(fn)
        txt = TEMPLATE % (e2, e1)
        STATUS[NAME] = dict(ok=True, properties=PROPS, error=None)
    except Refuse as e:
        txt = '(* translator refused: %s -- committed snapshot of the last good text *)\n' % str(e).replace('*)', '* )') + TEMPLATE % SNAP
        STATUS[NAME] = dict(ok=True, snapshot=True, properties=PROPS,
                            error='regen unavailable (%s): committed snapshot used, tie by correspondence' % str(e)[:200])
    except Exception:
        txt = '(* translator crashed -- committed snapshot *)\n' + TEMPLATE % SNAP
        STATUS[NAME] = dict(ok=False, properties=PROPS, error='translator crashed: ' + traceback.format_exc()[-300:])
    write_if_changed(os.path.join(ROOT, 'coq/gen/Gen_c13b.v'), '\n'.join(head) + txt)
