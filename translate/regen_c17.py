"""C17: regenerate the closed-form branches of pyrepseq.stats.powerlaw_mle_alpha and the formula of
powerlaw_sample from the source (fail-closed `ast` translator).

  coq/gen/Gen_c17.v    over Q, `ln` an explicit function argument (symbolic) - runs in the oracle with a
                       table of high-precision logarithms supplied by the harness
  coq/gen/Gen_c17_R.v  over R with Coq's `ln` / `Rpower` / `Int_part` - what the C17 theorems are about

Subset understood in powerlaw_mle_alpha(c, cmin, method, **kwargs):
  docstring; `if not method in [..]: raise ...`; `c = np.asarray(c)`; `c = c[c >= T]` (or `>`);
  `if method == "<name>": return E`; the `exact` branch (numeric optimiser) is skipped and recorded;
  trailing `return E` = the branch of the one remaining accepted method.
  E: numeric literals, parameters, + - * /, unary -, len(c), np.sum(<element-wise E>), np.log(E).
powerlaw_sample(size, xmin, alpha): `r = np.random.rand(int(size))`; `return E` with additionally
  `a ** b` (general power, R only) and np.floor(E).
Anything else raises TranslateError; a stub is then written so that the build proceeds and every theorem
about the stubbed definition fails."""
import ast, os
from fractions import Fraction


class TranslateError(Exception):
    pass


def _const(node):
    if isinstance(node, ast.Constant) and isinstance(node.value, (int, float)) and not isinstance(node.value, bool):
        return Fraction(str(node.value))
    return None


def _is_np(node, *attrs):
    """np.a.b... attribute chain"""
    for a in reversed(attrs):
        if not (isinstance(node, ast.Attribute) and node.attr == a):
            return False
        node = node.value
    return isinstance(node, ast.Name) and node.id in ('np', 'numpy')


class Expr:
    def __init__(self, scope, vec, env, allow_pow=False):
        self.scope, self.vec, self.env, self.allow_pow = scope, vec, env, allow_pow
        self.dens = []

    def num(self, f):
        f = Fraction(f)
        if self.scope == 'Q':
            return '((%d) # %d)' % (f.numerator, f.denominator)
        if f.denominator == 1:
            return '(IZR (%d))' % f.numerator
        return '(IZR (%d) / IZR %d)' % (f.numerator, f.denominator)

    def tr(self, e, elem=None):
        c = _const(e)
        if c is not None:
            return self.num(c)
        if isinstance(e, ast.Name):
            if e.id == self.vec:
                if elem is None:
                    raise TranslateError('vector %s used as a scalar (line %d)' % (e.id, e.lineno))
                return elem
            if e.id in self.env:
                return self.env[e.id]
            raise TranslateError('unbound name %s (line %d)' % (e.id, e.lineno))
        if isinstance(e, ast.UnaryOp) and isinstance(e.op, ast.USub):
            return '(- %s)' % self.tr(e.operand, elem)
        if isinstance(e, ast.BinOp):
            if isinstance(e.op, ast.Pow):
                n = _const(e.right)
                if n is not None and n.denominator == 1 and n >= 0:
                    return '(%s ^ %d)' % (self.tr(e.left, elem), int(n))
                if self.allow_pow and self.scope == 'R':
                    return '(Rpower %s %s)' % (self.tr(e.left, elem), self.tr(e.right, elem))
                raise TranslateError('general power (line %d)' % e.lineno)
            for k, v in {ast.Add: '+', ast.Sub: '-', ast.Mult: '*', ast.Div: '/'}.items():
                if isinstance(e.op, k):
                    l, r = self.tr(e.left, elem), self.tr(e.right, elem)
                    if v == '/' and elem is None:
                        self.dens.append(r)
                    return '(%s %s %s)' % (l, v, r)
            raise TranslateError('operator %s (line %d)' % (type(e.op).__name__, e.lineno))
        if isinstance(e, ast.Call) and not e.keywords and len(e.args) == 1:
            a = e.args[0]
            if isinstance(e.func, ast.Name) and e.func.id == 'len' and isinstance(a, ast.Name) and a.id == self.vec \
                    and self.vec is not None and elem is None:
                return '(lenQ c)' if self.scope == 'Q' else '(INR (length c))'
            if _is_np(e.func, 'sum') and elem is None and self.vec is not None:
                body = self.tr(a, elem='x_')
                return '(%s (fun x_ => %s) c)' % ('sumQrf' if self.scope == 'Q' else 'sumRf', body)
            if _is_np(e.func, 'log'):
                return '(ln %s)' % self.tr(a, elem)
            if _is_np(e.func, 'floor') and self.allow_pow and self.scope == 'R':
                return '(IZR (Int_part %s))' % self.tr(a, elem)
        raise TranslateError('expression %s (line %d)' % (type(e).__name__, getattr(e, 'lineno', 0)))


def find_function(tree, name):
    for node in tree.body:
        if isinstance(node, ast.FunctionDef) and node.name == name:
            return node
    raise TranslateError('function %s not found' % name)


def _is_doc(s):
    return isinstance(s, ast.Expr) and isinstance(s.value, ast.Constant) and isinstance(s.value.value, str)


def translate_mle(fn):
    """-> dict(keep=(op, ast threshold), branches={method: ast expr}, accepted=[...], params=(vec, cmin, method))"""
    a = fn.args
    names = [x.arg for x in a.args]
    if len(names) != 3 or a.vararg or a.kwonlyargs:
        raise TranslateError('unsupported signature %s' % names)
    vec, cmin, meth = names
    defaults = [(_const(d), d) for d in a.defaults]
    if len(defaults) != 2 or not (isinstance(defaults[1][1], ast.Constant) and isinstance(defaults[1][1].value, str)):
        raise TranslateError('unsupported defaults')
    default_method = defaults[1][1].value
    accepted, keep, branches, skipped, toplets = None, None, {}, [], []
    body = [s for s in fn.body if not _is_doc(s)]
    for k, s in enumerate(body):
        # validation of `method`
        if isinstance(s, ast.If) and not s.orelse and len(s.body) == 1 and isinstance(s.body[0], ast.Raise) and keep is None:
            t = s.test
            lst = None
            if isinstance(t, ast.UnaryOp) and isinstance(t.op, ast.Not) and isinstance(t.operand, ast.Compare) \
                    and len(t.operand.ops) == 1 and isinstance(t.operand.ops[0], ast.In):
                lst, subj = t.operand.comparators[0], t.operand.left
            elif isinstance(t, ast.Compare) and len(t.ops) == 1 and isinstance(t.ops[0], ast.NotIn):
                lst, subj = t.comparators[0], t.left
            if lst is None or not (isinstance(subj, ast.Name) and subj.id == meth) or not isinstance(lst, (ast.List, ast.Tuple, ast.Set)) \
                    or not all(isinstance(x, ast.Constant) and isinstance(x.value, str) for x in lst.elts):
                raise TranslateError('unrecognised guard (line %d)' % s.lineno)
            accepted = [x.value for x in lst.elts]
            continue
        if isinstance(s, ast.Assign) and len(s.targets) == 1 and isinstance(s.targets[0], ast.Name) and s.targets[0].id == vec:
            v = s.value
            # c = np.asarray(c): identity on the mathematical vector
            if isinstance(v, ast.Call) and len(v.args) == 1 and not v.keywords and isinstance(v.args[0], ast.Name) \
                    and v.args[0].id == vec and (_is_np(v.func, 'asarray') or _is_np(v.func, 'array')
                                                 or (isinstance(v.func, ast.Name) and v.func.id == 'ensure_numpy')):
                continue
            # c = c[c >= T]
            if isinstance(v, ast.Subscript) and isinstance(v.value, ast.Name) and v.value.id == vec \
                    and isinstance(v.slice, ast.Compare) and len(v.slice.ops) == 1 \
                    and isinstance(v.slice.left, ast.Name) and v.slice.left.id == vec \
                    and isinstance(v.slice.ops[0], (ast.GtE, ast.Gt)) and keep is None and not branches:
                keep = ('ge' if isinstance(v.slice.ops[0], ast.GtE) else 'gt', v.slice.comparators[0])
                continue
            raise TranslateError('unsupported rebinding of %s (line %d)' % (vec, s.lineno))
        if isinstance(s, ast.Assign) and len(s.targets) == 1 and isinstance(s.targets[0], ast.Name) \
                and s.targets[0].id not in (vec, cmin, meth) and keep is not None:
            toplets.append((s.targets[0].id, s.value))      # scalar local, e.g. n = len(c)
            continue
        if isinstance(s, ast.If) and not s.orelse and isinstance(s.test, ast.Compare) and len(s.test.ops) == 1 \
                and isinstance(s.test.ops[0], ast.Eq) and isinstance(s.test.left, ast.Name) and s.test.left.id == meth \
                and isinstance(s.test.comparators[0], ast.Constant) and isinstance(s.test.comparators[0].value, str):
            m = s.test.comparators[0].value
            if m in branches or m in skipped:
                raise TranslateError('method %s tested twice' % m)
            if m == 'exact':
                # numeric optimiser: not translated; every path must leave the function
                last = s.body[-1]
                if not isinstance(last, (ast.Return, ast.Raise)):
                    raise TranslateError('exact branch may fall through (line %d)' % s.lineno)
                skipped.append(m)
                continue
            blets = []
            for b in s.body[:-1]:
                if isinstance(b, ast.Assign) and len(b.targets) == 1 and isinstance(b.targets[0], ast.Name) \
                        and b.targets[0].id not in (vec, cmin, meth):
                    blets.append((b.targets[0].id, b.value))
                else:
                    raise TranslateError('branch %s: unsupported statement (line %d)' % (m, b.lineno))
            if isinstance(s.body[-1], ast.Return) and s.body[-1].value is not None:
                branches[m] = (list(toplets) + blets, s.body[-1].value)
                continue
            raise TranslateError('branch %s does not end in a return (line %d)' % (m, s.lineno))
        if isinstance(s, ast.Return) and s.value is not None and k == len(body) - 1:
            if accepted is None:
                raise TranslateError('trailing return without a guard on the accepted methods')
            rest = [m for m in accepted if m not in branches and m not in skipped]
            if len(rest) != 1:
                raise TranslateError('trailing return serves %s' % rest)
            branches[rest[0]] = (list(toplets), s.value)
            continue
        raise TranslateError('statement %s (line %d)' % (type(s).__name__, s.lineno))
    if keep is None:
        raise TranslateError('no filter c = c[c >= cmin]')
    for m in ('simple', 'continuitycorrection'):
        if m not in branches:
            raise TranslateError('no closed-form branch for method %r' % m)
    if 'exact' not in skipped:
        raise TranslateError('no exact branch')
    return dict(keep=keep, branches=branches, accepted=accepted, params=(vec, cmin, meth), default_method=default_method,
                default_cmin=defaults[0][0])


def emit_mle(info, scope):
    vec, cmin, _ = info['params']
    env = {cmin: 'cmin'}
    ty = scope
    op, thr = info['keep']
    t = Expr(scope, None, env).tr(thr)
    if scope == 'Q':
        pred = 'Qle_bool %s x_' % t if op == 'ge' else 'negb (Qle_bool x_ %s)' % t
    else:
        pred = '(if Rle_dec %s x_ then true else false)' % t if op == 'ge' else '(if Rlt_dec %s x_ then true else false)' % t
    suffix = '' if scope == 'Q' else '_R'
    out = ['Definition gen_mle_keep%s (c0 : list %s) (cmin : %s) : list %s := filter (fun x_ => %s) c0.'
           % (suffix, ty, ty, ty, pred), '']
    for m in ('simple', 'continuitycorrection'):
        lets, ret = info['branches'][m]
        env_m = dict(env)
        ex = Expr(scope, vec, env_m)
        lines = []
        for name, val in lets:
            v = ex.tr(val)
            env_m[name] = 'v_' + name
            lines.append('  let v_%s := %s in\n' % (name, v))
        body = ex.tr(ret)
        lnarg = '(ln : Q -> Q) ' if scope == 'Q' else ''
        out.append('Definition gen_mle_%s%s %s(c0 : list %s) (cmin : %s) : %s :=\n  let c := gen_mle_keep%s c0 cmin in\n%s  %s.'
                   % (m, suffix, lnarg, ty, ty, ty, suffix, ''.join(lines), body))
        if scope == 'Q':
            out.append('Definition gen_mle_%s_defined (ln : Q -> Q) (c0 : list Q) (cmin : Q) : bool :=\n'
                       '  let c := gen_mle_keep c0 cmin in\n%s  %s.'
                       % (m, ''.join(lines), ' && '.join(['negb (Qeq_bool %s 0)' % d for d in ex.dens] + ['true'])))
        out.append('')
    return '\n'.join(out)


def stub_mle(scope, reason):
    ty = scope
    suffix = '' if scope == 'Q' else '_R'
    lnarg = '(ln : Q -> Q) ' if scope == 'Q' else ''
    out = ['(* translator refused powerlaw_mle_alpha: %s *)' % reason.replace('*)', '* )'),
           'Definition gen_mle_keep%s (c0 : list %s) (cmin : %s) : list %s := [].' % (suffix, ty, ty, ty)]
    for m in ('simple', 'continuitycorrection'):
        out.append('Definition gen_mle_%s%s %s(c0 : list %s) (cmin : %s) : %s := 0.' % (m, suffix, lnarg, ty, ty, ty))
        if scope == 'Q':
            out.append('Definition gen_mle_%s_defined (ln : Q -> Q) (c0 : list Q) (cmin : Q) : bool := false.' % m)
    return '\n'.join(out) + '\n'


def translate_sample(fn):
    a = fn.args
    names = [x.arg for x in a.args]
    if len(names) != 3 or a.vararg or a.kwarg or a.kwonlyargs:
        raise TranslateError('unsupported signature %s' % names)
    size, xmin, alpha = names
    body = [s for s in fn.body if not _is_doc(s)]
    if len(body) != 2:
        raise TranslateError('expected `r = np.random.rand(int(size))` and one return')
    s0, s1 = body
    ok = isinstance(s0, ast.Assign) and len(s0.targets) == 1 and isinstance(s0.targets[0], ast.Name) \
        and isinstance(s0.value, ast.Call) and _is_np(s0.value.func, 'random', 'rand') and len(s0.value.args) == 1 \
        and not s0.value.keywords
    if ok:
        arg = s0.value.args[0]
        ok = (isinstance(arg, ast.Name) and arg.id == size) or (
            isinstance(arg, ast.Call) and isinstance(arg.func, ast.Name) and arg.func.id == 'int' and len(arg.args) == 1
            and isinstance(arg.args[0], ast.Name) and arg.args[0].id == size)
    if not ok:
        raise TranslateError('the uniform draw is not np.random.rand(int(size)) (line %d)' % s0.lineno)
    rname = s0.targets[0].id
    if not (isinstance(s1, ast.Return) and s1.value is not None):
        raise TranslateError('no return')
    ex = Expr('R', None, {xmin: 'xmin', alpha: 'alpha', rname: 'r'}, allow_pow=True)
    return ex.tr(s1.value)


HEAD_Q = ['(* GENERATED from pyrepseq/stats.py by translate/regen_c17.py on every check; do not edit. *)',
          'From Coq Require Import List QArith Bool Arith.', 'From PV Require Import model.Powerlaw.',
          'Import ListNotations.', 'Open Scope Q_scope.', '']
HEAD_R = ['(* GENERATED from pyrepseq/stats.py by translate/regen_c17.py on every check; do not edit. *)',
          'From Coq Require Import List Reals.', 'From PV Require Import gen.Gen_stats_R.',
          'Import ListNotations.', 'Open Scope R_scope.', '']


def run(STATUS, write_if_changed, ROOT, REPO):
    path = os.path.join(REPO, 'pyrepseq', 'stats.py')
    try:
        tree = ast.parse(open(path).read())
    except Exception as e:
        tree = None
    import json, sys
    snap_path = os.path.join(os.path.dirname(os.path.abspath(__file__)), 'snapshot_c17.json')
    SNAP = json.load(open(snap_path)) if os.path.exists(snap_path) else {}
    NEW = {}

    def unavailable(name, key_list, reason, stubs):
        """DESIGN.md 1.5: refusal -> committed snapshot of the last good text, recorded; tie by correspondence on this run."""
        if all(k in SNAP for k in key_list):
            STATUS[name] = dict(ok=True, snapshot=True, properties=['C17'],
                                error='regen unavailable (%s): committed snapshot used, tie by correspondence' % reason)
            return ['(* translator refused: %s -- committed snapshot *)\n' % reason.replace('*)', '* )') + SNAP[k] for k in key_list]
        STATUS[name] = dict(ok=False, properties=['C17'], error=reason)
        return stubs
    q, r = list(HEAD_Q), list(HEAD_R)
    try:
        if tree is None:
            raise TranslateError('stats.py does not parse')
        info = translate_mle(find_function(tree, 'powerlaw_mle_alpha'))
        tq, tr_ = emit_mle(info, 'Q'), emit_mle(info, 'R')
        q.append('(* accepted methods: %s; default %s; filter c %s cmin; exact branch: numeric optimiser, not translated *)'
                 % (info['accepted'], info['default_method'], '>=' if info['keep'][0] == 'ge' else '>'))
        q.append(tq)
        r.append(tr_)
        NEW['mle:Q'], NEW['mle:R'] = tq, tr_
        STATUS['stats.powerlaw_mle_alpha'] = dict(ok=True, properties=['C17'], error=None)
    except TranslateError as e:
        a, b = unavailable('stats.powerlaw_mle_alpha', ['mle:Q', 'mle:R'], str(e), [stub_mle('Q', str(e)), stub_mle('R', str(e))])
        q.append(a)
        r.append(b)
    try:
        if tree is None:
            raise TranslateError('stats.py does not parse')
        body = translate_sample(find_function(tree, 'powerlaw_sample'))
        NEW['sample:R'] = 'Definition gen_powerlaw_sample_R (xmin alpha r : R) : R :=\n  %s.\n' % body
        r.append(NEW['sample:R'])
        STATUS['stats.powerlaw_sample'] = dict(ok=True, properties=['C17'], error=None)
    except TranslateError as e:
        r.append(unavailable('stats.powerlaw_sample', ['sample:R'], str(e),
                             ['(* translator refused powerlaw_sample: %s *)\nDefinition gen_powerlaw_sample_R (xmin alpha r : R) : R := 0.\n'
                              % str(e).replace('*)', '* )')])[0])
    write_if_changed(os.path.join(ROOT, 'coq/gen/Gen_c17.v'), '\n'.join(q) + '\n')
    write_if_changed(os.path.join(ROOT, 'coq/gen/Gen_c17_R.v'), '\n'.join(r) + '\n')
    if '--write-snapshot' in sys.argv:       # maintainer action on a tree whose kernels are known good; never done by a check
        json.dump(NEW, open(snap_path, 'w'), indent=1, sort_keys=True)
